(* Proofs/PySecsIHdrProofs.v - SecsIHeader.encode / decode as translated from the source (Gen/PySecsIHdr.v) are the functions of Model/Frames.v *)
From Coq Require Import Lia ZifyBool ZifyN ZifyNat.
From SG Require Import Base.Prelude Base.Kinds Base.PyRt Gen.ProtoConsts Gen.PySecsIHdr Model.Secs2 Model.Frames.
Open Scope Z_scope.

Definition sh_of (h : shdr) : sh_args :=
  sh_mk (s_system h) (s_device h) (s_stream h) (s_function h) (s_block h) (s_r h) (s_w h) (s_e h).
Definition shdr_of (a : sh_args) : shdr :=
  {| s_system := sh_system a; s_device := sh_device_id a; s_stream := sh_stream a; s_function := sh_function a;
     s_block := sh_block a; s_r := sh_from_equipment a; s_w := sh_require_response a; s_e := sh_last_block a |}.

Lemma sh_encode_is_model h :
  (do fs <- sh_encode (sh_of h); pack_fields secsi_header_format_enc fs) = shdr_encode h.
Proof. destruct h as [sy de st fu bl r w e]; destruct r, w, e; reflexivity. Qed.

Lemma sh_decode_is_model bs :
  shdr_decode bs =
  do r <- unpack_fields secsi_header_format_dec bs;
  match r with
  | [r0; r1; r2; r3; r4] => do a <- sh_decode r0 r1 r2 r3 r4; Ok (shdr_of a)
  | _ => Err EValue
  end.
Proof.
  unfold shdr_decode. destruct (unpack_fields secsi_header_format_dec bs) as [r|e]; [|reflexivity].
  cbn [bind]. do 6 (destruct r as [|? r]; try reflexivity).
Qed.
