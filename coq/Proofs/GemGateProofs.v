(* Proofs/GemGateProofs.v — the gate in front of every received message, GemHandler._on_message_received as translated statement by statement
   from the source (Gen/GemGate.v), is what Model/GemComm.v does with the three kinds of inbound messages, in every communication state. *)
From Coq Require Import Lia.
From SG Require Import Base.Prelude Spec.E30Comm Model.StateMachine Gen.Machines Gen.GemGate Model.GemComm.
Local Open Scope Z_scope.
Local Open Scope string_scope.

(* what the listed actions do: a send goes out unless the connection refuses the write; a transition is a request to the communication
   state machine (with the timers and the S1F13 its handlers cause); GHandle is SecsHandler's dispatch, whose visible effect `handle` depends on
   the message *)
Fixpoint run_acts (sent_ok : bool) (handle : list yout) (s : gc) (acts : list gem_act) : gc * list yout :=
  match acts with
  | [] => (s, [])
  | GSendS1F14 c :: r => let '(s1, o) := run_acts sent_ok handle s r in (s1, if sent_ok then YSendS1F14 c :: o else o)
  | GTransition n :: r => let '(s0, o0, _) := comm_request s n in let '(s1, o) := run_acts sent_ok handle s0 r in (s1, o0 ++ o)%list
  | GHandle :: r => let '(s1, o) := run_acts sent_ok handle s r in (s1, handle ++ o)%list
  end.

Ltac states :=
  unfold is;
  match goal with |- context [(?c =? communication_WAIT_CRA)%nat] =>
    destruct (c =? communication_WAIT_CRA)%nat eqn:EC; destruct (c =? communication_WAIT_DELAY)%nat eqn:ED;
    destruct (c =? communication_COMMUNICATING)%nat eqn:EM; cbn [orb andb negb];
    try (exfalso; repeat match goal with H : (_ =? _)%nat = true |- _ => apply Nat.eqb_eq in H end;
         unfold communication_WAIT_CRA, communication_WAIT_DELAY, communication_COMMUNICATING in *; congruence)
  end.

Lemma gate_s1f13 (s : gc) (accept acc : bool) :
  let a := if accept then 0 else 1 in
  gcomm_step s (YInS1F13 accept) = run_acts true [YSendS1F14 a] s (gem_on_message (g_cur s) 1 13 a true acc).
Proof.
  cbv zeta. unfold gcomm_step, gem_on_message. states; destruct accept; cbn [Z.eqb Pos.eqb andb orb app run_acts];
    try reflexivity; destruct (comm_request s "s1f13received") as [[s1 o] r]; cbn [run_acts]; rewrite ?app_nil_r; reflexivity.
Qed.

Lemma gate_s1f13_unanswerable s acc :
  gcomm_step s YInS1F13Unanswerable = run_acts false [] s (gem_on_message (g_cur s) 1 13 0 false acc).
Proof. unfold gcomm_step, gem_on_message. states; cbn [Z.eqb Pos.eqb andb orb app run_acts]; reflexivity. Qed.

Lemma gate_s1f14 s c readable cm sent :
  gcomm_step s (YInS1F14 c readable) = run_acts sent [] s (gem_on_message (g_cur s) 1 14 cm sent (readable && (c =? 0)%Z)).
Proof.
  unfold gcomm_step, gem_on_message. states; cbn [Z.eqb Pos.eqb andb orb app run_acts]; try reflexivity;
    destruct (readable && (c =? 0)%Z); cbn [run_acts];
    match goal with |- context [comm_request s ?n] => destruct (comm_request s n) as [[s1 o] r] end; cbn [run_acts]; rewrite ?app_nil_r; reflexivity.
Qed.

Lemma gate_other s registered w st fn cm sent acc :
  (st, fn) <> (1, 13) -> (st, fn) <> (1, 14) ->
  gcomm_step s (YInOther registered w) = run_acts sent (if registered || w then [YHandled] else []) s (gem_on_message (g_cur s) st fn cm sent acc).
Proof.
  intros N13 N14. unfold gcomm_step, gem_on_message.
  assert (E13 : (st =? 1)%Z && (fn =? 13)%Z = false).
  { destruct (Z.eqb_spec st 1) as [->|]; [|reflexivity]. destruct (Z.eqb_spec fn 13) as [->|]; [|reflexivity]. exfalso. apply N13. reflexivity. }
  assert (E14 : (st =? 1)%Z && (fn =? 14)%Z = false).
  { destruct (Z.eqb_spec st 1) as [->|]; [|reflexivity]. destruct (Z.eqb_spec fn 14) as [->|]; [|reflexivity]. exfalso. apply N14. reflexivity. }
  rewrite E13, E14. states; cbn [run_acts app]; rewrite ?app_nil_r; reflexivity.
Qed.
