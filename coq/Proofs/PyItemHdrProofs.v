(* Proofs/PyItemHdrProofs.v - Item.encode_item_header / _decode_item_header as translated from the source (Gen/PyItemHdr.v) are the
   functions of Model/Item.v *)
From Coq Require Import Lia ZifyBool ZifyN ZifyNat.
From SG Require Import Base.Prelude Base.Kinds Base.PyRt Gen.ProtoConsts Gen.PyItemHdr Model.Secs2 Model.Item Proofs.BytesProofs Proofs.PyVarHdrProofs.
Open Scope Z_scope.

Lemma item_encode_item_header_is_model fc len :
  (fc < 64)%N -> item_encode_item_header (Z.of_N fc) (Z.of_N len) = item_header fc len.
Proof. intro Hfc. unfold item_encode_item_header, item_header. enc_header fc len Hfc. Qed.

Lemma item_loop n : forall r acc,
  iterM n (fun st : Z * list N => let '(v_length, v_data) := st in
             let v_length := Z.shiftl v_length 8 in
             do (t2, v_data) <- get_one v_data; let v_length := Z.add v_length t2 in Ok (v_length, v_data))
        (Z.of_N acc, r)
  = if shorter r n then Err EIndex else Ok (Z.of_N (be_val (firstn n r) acc), skipn n r).
Proof.
  induction n as [|n IH]; intros r acc.
  - reflexivity.
  - destruct r as [|a r'].
    + reflexivity.
    + cbn [iterM get_one bind]. cbv zeta. rewrite shl8. rewrite IH.
      rewrite !shorter_spec. cbn [length firstn skipn be_val]. 
      destruct (Nat.ltb_spec (length r') n); destruct (Nat.ltb_spec (S (length r')) (S n)); try lia; reflexivity.
Qed.

Lemma item_decode_item_header_is_model data :
  item_decode_item_header data =
  do (rest, code, len) <- item_decode_header data; Ok (Z.of_N code, Z.of_N len, rest).
Proof.
  unfold item_decode_item_header, item_decode_header. destruct data as [|fb r]; [reflexivity|].
  cbn [get_one bind]. cbv zeta. unfold for_range.
  change 3 with (Z.of_N 3). rewrite <- ofN_land.
  replace (Z.to_nat (Z.of_N (N.land fb 3))) with (N.to_nat (N.land fb 3)) by lia.
  change 0 with (Z.of_N 0). rewrite item_loop.
  destruct (shorter r (N.to_nat (N.land fb 3))); [reflexivity|].
  cbn [bind]. change 252 with (Z.of_N 252). change 2 with (Z.of_N 2). rewrite <- ofN_land, <- ofN_shiftr. reflexivity.
Qed.

