(* Proofs/SendProofs.v — C10: a send reported as successful has handed all its bytes to the socket, once, in order;
   otherwise failure is reported and what was taken is a prefix. *)
From SG Require Import Base.Prelude Model.TcpSend.
From Coq Require Import Lia.
Open Scope nat_scope.

Lemma send_loop_spec oracle : forall data taken t res rest,
  send_loop true oracle data taken = (t, res, rest) ->
  (res = Some true -> t = taken ++ data) /\ (exists k, t = taken ++ firstn k data).
Proof.
  induction oracle as [|r o IH]; intros data taken t res rest H; cbn [send_loop] in H.
  - destruct data; injection H as <- <- <-; (split; [intro X; try discriminate X; rewrite ?app_nil_r; reflexivity|exists 0; rewrite firstn_O, app_nil_r; reflexivity]).
  - destruct data as [|b d].
    + injection H as <- <- <-. split; [intros _; rewrite app_nil_r; reflexivity|exists 0; rewrite app_nil_r; reflexivity].
    + destruct r as [n| |].
      * set (k := Nat.min (Nat.max n 1) (length (b :: d))) in *.
        destruct (IH _ _ _ _ _ H) as [A [j B]]. split.
        -- intro X. rewrite (A X), <- app_assoc, firstn_skipn. reflexivity.
        -- exists (k + j). rewrite B, <- app_assoc. f_equal.
           rewrite <- (firstn_skipn k (b :: d)) at 3. rewrite firstn_app, firstn_firstn.
           assert (Lk : length (firstn k (b :: d)) = k) by (apply firstn_length_le; unfold k; lia).
           rewrite Lk. replace (Nat.min (k + j) k) with k by lia. replace (k + j - k) with j by lia. reflexivity.
      * apply (IH _ _ _ _ _ H).
      * injection H as <- <- <-. split; [discriminate|exists 0; rewrite app_nil_r; reflexivity].
Qed.

(* success means everything, exactly once, in order *)
Theorem send_success_complete oracle data t rest : send_data true oracle data = (t, Some true, rest) -> t = data.
Proof. unfold send_data. intro H. destruct (send_loop_spec oracle data [] t _ rest H) as [A _]. exact (A eq_refl). Qed.

(* anything else: what the socket took is a prefix, and success is not reported *)
Theorem send_otherwise_prefix oracle data t res rest : send_data true oracle data = (t, res, rest) -> exists k, t = firstn k data.
Proof. unfold send_data. intro H. destruct (send_loop_spec oracle data [] t res rest H) as [_ B]. exact B. Qed.

(* the packets of a block, put together again, are the block *)
Lemma chunks_concat fuel psize data : 0 < psize -> length data < fuel -> List.concat (chunks fuel psize data) = data.
Proof.
  intro Hp. revert data. induction fuel as [|f IH]; intros data Hl; [lia|]. cbn [chunks]. destruct data as [|b d]; [reflexivity|].
  cbn [List.concat]. rewrite IH; [apply firstn_skipn|]. rewrite skipn_length. cbn [length] in *. lia.
Qed.

Lemma send_packets_spec packets : forall oracle taken t,
  send_packets true oracle packets taken = (t, Some true) -> t = taken ++ List.concat packets.
Proof.
  induction packets as [|p r IH]; intros oracle taken t H; cbn [send_packets] in H.
  - injection H as <-. cbn. rewrite app_nil_r. reflexivity.
  - destruct (send_data true oracle p) as [[tp res] rest] eqn:E. destruct res as [[|]|].
    + apply send_success_complete in E. subst tp. rewrite (IH _ _ _ H), <- app_assoc. reflexivity.
    + discriminate H.
    + discriminate H.
Qed.

Theorem block_success_complete psize oracle data t : send_block true psize oracle data = (t, Some true) -> t = data.
Proof.
  unfold send_block. intro H. rewrite (send_packets_spec _ _ _ _ H). cbn [app]. apply chunks_concat; lia.
Qed.

(* the one-shot loop reports success although the socket took only part of the data *)
Theorem oneshot_refuted : exists oracle data t rest, send_data false oracle data = (t, Some true, rest) /\ t <> data.
Proof. exists [RTake 2], [1%N; 2%N; 3%N], [1%N; 2%N], []. split; [reflexivity|discriminate]. Qed.

(* ---- one message, one connection (D79) ---- *)
Lemma send_loop2_spec oracle : forall data replaced a b a' b' res,
  send_loop2 true oracle data replaced a b = (a', b', res) ->
  b' = b /\ (exists k, a' = a ++ firstn k data) /\ (res = Some true -> a' = a ++ data \/ (replaced = true /\ data = [])).
Proof.
  induction oracle as [|r rest IH]; intros data replaced a b a' b' res H; cbn [send_loop2] in H.
  - destruct data; injection H as <- <- <-; (split; [reflexivity|]; split; [exists 0; cbn; rewrite app_nil_r; reflexivity|]).
    + intros _. left. rewrite app_nil_r. reflexivity.
    + discriminate.
  - destruct data as [|x data'] eqn:D.
    { injection H as <- <- <-. split; [reflexivity|]. split; [exists 0; cbn; rewrite app_nil_r; reflexivity|]. intros _. left. rewrite app_nil_r. reflexivity. }
    rewrite <- D in *. destruct r as [r|].
    + destruct (replaced && true) eqn:RP.
      * injection H as <- <- <-. split; [reflexivity|]. split; [exists 0; cbn; rewrite app_nil_r; reflexivity|]. discriminate.
      * assert (replaced = false) by (destruct replaced; [discriminate RP|reflexivity]). subst replaced.
        destruct r as [n| |].
        -- cbn [andb] in H. apply IH in H. destruct H as (Hb & [k Hk] & Hs). split; [exact Hb|]. set (j := Nat.min (Nat.max n 1) (length data)) in *. split.
           ++ exists (j + k). rewrite Hk, <- app_assoc. f_equal. rewrite <- (firstn_skipn j data) at 3. rewrite firstn_app, firstn_firstn.
              assert (length (firstn j data) = j) by (rewrite firstn_length; unfold j; lia).
              replace (Nat.min (j + k) j) with j by lia. replace (j + k - length (firstn j data)) with k by lia. reflexivity.
           ++ intro R. destruct (Hs R) as [E|[E _]]; [|discriminate E]. left. rewrite E, <- app_assoc, firstn_skipn. reflexivity.
        -- apply IH in H. exact H.
        -- injection H as <- <- <-. split; [reflexivity|]. split; [exists 0; cbn; rewrite app_nil_r; reflexivity|]. discriminate.
    + apply IH in H. destruct H as (Hb & Hk & Hs). split; [exact Hb|]. split; [exact Hk|].
      intro R. destruct (Hs R) as [E|[_ E]]; [left; exact E|]. rewrite D in E. discriminate E.
Qed.

(* whatever the socket does and whenever the connection is replaced: the connection that follows gets nothing of the message, the one it was
   started on has taken a prefix, and a reported success means it has taken all of it *)
Theorem send_stays_on_its_connection oracle data a b res :
  send_data2 true oracle data = (a, b, res) -> b = [] /\ (exists k, a = firstn k data) /\ (res = Some true -> a = data).
Proof.
  unfold send_data2. intro H. apply send_loop2_spec in H. destruct H as (Hb & Hk & Hs). split; [exact Hb|]. split; [exact Hk|].
  intro R. destruct (Hs R) as [E|[E _]]; [exact E|discriminate E].
Qed.

(* looking the socket up again for every part (the code before D79): a success with the message spread over two connections *)
Theorem send_across_connections_refuted :
  send_data2 false [R2 (RTake 2); RReplaced; R2 (RTake 5)] [1; 2; 3; 4]%N = ([1; 2]%N, [3; 4]%N, Some true).
Proof. vm_compute. reflexivity. Qed.
