(* Proofs/SendProofs.v — C10: a send reported as successful has handed all its bytes to the socket, once, in order;
   otherwise failure is reported and what was taken is a prefix. *)
From SG Require Import Base.Prelude Model.TcpSend.
From Coq Require Import Lia.
Open Scope nat_scope.

Lemma send_loop_spec oracle : forall data taken t res rest,
  send_loop true oracle data taken = (t, res, rest) ->
  (res = Some true -> t = taken ++ data) /\ (exists k, t = taken ++ firstn k data).
Proof.
  induction oracle as [|r o IH]; intros data taken t res rest H; cbn [send_loop] in H.
  - destruct data; injection H as <- <- <-; (split; [intro X; try discriminate X; rewrite ?app_nil_r; reflexivity|exists 0; rewrite firstn_O, app_nil_r; reflexivity]).
  - destruct data as [|b d].
    + injection H as <- <- <-. split; [intros _; rewrite app_nil_r; reflexivity|exists 0; rewrite app_nil_r; reflexivity].
    + destruct r as [n| |].
      * set (k := Nat.min (Nat.max n 1) (length (b :: d))) in *.
        destruct (IH _ _ _ _ _ H) as [A [j B]]. split.
        -- intro X. rewrite (A X), <- app_assoc, firstn_skipn. reflexivity.
        -- exists (k + j). rewrite B, <- app_assoc. f_equal.
           rewrite <- (firstn_skipn k (b :: d)) at 3. rewrite firstn_app, firstn_firstn.
           assert (Lk : length (firstn k (b :: d)) = k) by (apply firstn_length_le; unfold k; lia).
           rewrite Lk. replace (Nat.min (k + j) k) with k by lia. replace (k + j - k) with j by lia. reflexivity.
      * apply (IH _ _ _ _ _ H).
      * injection H as <- <- <-. split; [discriminate|exists 0; rewrite app_nil_r; reflexivity].
Qed.

(* success means everything, exactly once, in order *)
Theorem send_success_complete oracle data t rest : send_data true oracle data = (t, Some true, rest) -> t = data.
Proof. unfold send_data. intro H. destruct (send_loop_spec oracle data [] t _ rest H) as [A _]. exact (A eq_refl). Qed.

(* anything else: what the socket took is a prefix, and success is not reported *)
Theorem send_otherwise_prefix oracle data t res rest : send_data true oracle data = (t, res, rest) -> exists k, t = firstn k data.
Proof. unfold send_data. intro H. destruct (send_loop_spec oracle data [] t res rest H) as [_ B]. exact B. Qed.

(* the packets of a block, put together again, are the block *)
Lemma chunks_concat fuel psize data : 0 < psize -> length data < fuel -> List.concat (chunks fuel psize data) = data.
Proof.
  intro Hp. revert data. induction fuel as [|f IH]; intros data Hl; [lia|]. cbn [chunks]. destruct data as [|b d]; [reflexivity|].
  cbn [List.concat]. rewrite IH; [apply firstn_skipn|]. rewrite skipn_length. cbn [length] in *. lia.
Qed.

Lemma send_packets_spec packets : forall oracle taken t,
  send_packets true oracle packets taken = (t, Some true) -> t = taken ++ List.concat packets.
Proof.
  induction packets as [|p r IH]; intros oracle taken t H; cbn [send_packets] in H.
  - injection H as <-. cbn. rewrite app_nil_r. reflexivity.
  - destruct (send_data true oracle p) as [[tp res] rest] eqn:E. destruct res as [[|]|].
    + apply send_success_complete in E. subst tp. rewrite (IH _ _ _ H), <- app_assoc. reflexivity.
    + discriminate H.
    + discriminate H.
Qed.

Theorem block_success_complete psize oracle data t : send_block true psize oracle data = (t, Some true) -> t = data.
Proof.
  unfold send_block. intro H. rewrite (send_packets_spec _ _ _ _ H). cbn [app]. apply chunks_concat; lia.
Qed.

(* the one-shot loop reports success although the socket took only part of the data *)
Theorem oneshot_refuted : exists oracle data t rest, send_data false oracle data = (t, Some true, rest) /\ t <> data.
Proof. exists [RTake 2], [1%N; 2%N; 3%N], [1%N; 2%N], []. split; [reflexivity|discriminate]. Qed.
