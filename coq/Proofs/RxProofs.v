(* Proofs/RxProofs.v — C04: the HSMS receive path delivers exactly the frames of the byte stream,
   however the stream is cut into TCP segments. *)
From SG Require Import Base.Prelude Base.Kinds Gen.ProtoConsts Spec.E4E37Frames Model.Secs2 Model.Frames Model.HsmsRx.
From SG Require Import Proofs.BytesProofs Proofs.Secs2Dec Proofs.FramesProofs.
From Coq Require Import Lia ZifyBool ZifyN ZifyNat.
Ltac Zify.zify_post_hook ::= Z.div_mod_to_equations.
Open Scope N_scope.

Definition drainF (buf : list N) := drain (S (length buf)) buf.

(* more fuel than bytes changes nothing *)
Lemma drain_fuel : forall f1 f2 buf, (length buf < f1)%nat -> (length buf < f2)%nat -> drain f1 buf = drain f2 buf.
Proof.
  induction f1 as [|f1 IH]; intros f2 buf H1 H2; [lia|]. destruct f2 as [|f2]; [lia|].
  cbn [drain]. destruct (length buf <? 4)%nat eqn:E4; [reflexivity|]. apply Nat.ltb_ge in E4.
  destruct (N.of_nat (length buf) <? be_val (firstn 4 buf) 0 + 4) eqn:El; [reflexivity|]. apply N.ltb_ge in El.
  rewrite (IH f2); [reflexivity| |]; rewrite skipn_length; lia.
Qed.

(* extraction from a buffer commutes with data arriving behind it *)
Lemma drain_app : forall f a s, (length a < f)%nat ->
  let '(a', blk, out, ab) := drain f a in
  if ab then drainF (a ++ s) = (a' ++ s, false, out, true)
  else let '(b, blk2, out2, ab2) := drainF (a' ++ s) in drainF (a ++ s) = (b, blk2, out ++ out2, ab2).
Proof.
  induction f as [|f IH]; intros a s Hf; [lia|].
  cbn [drain]. destruct (length a <? 4)%nat eqn:E4.
  { destruct (drainF (a ++ s)) as [[[b blk2] out2] ab2]. reflexivity. }
  apply Nat.ltb_ge in E4.
  destruct (N.of_nat (length a) <? be_val (firstn 4 a) 0 + 4) eqn:El.
  { destruct (drainF (a ++ s)) as [[[b blk2] out2] ab2]. reflexivity. }
  apply N.ltb_ge in El.
  set (n := N.to_nat (be_val (firstn 4 a) 0 + 4)) in *.
  assert (Hn : (n <= length a)%nat) by (unfold n; lia).
  (* the first step on a ++ s is the same step *)
  set (o := match hframe_decode (firstn n a) with Ok (h, d) => Delivered h d | Err _ => Dropped end).
  assert (Hstep : drainF (a ++ s) = let '(b, blk, out, ab) := drain (length (a ++ s)) (skipn n a ++ s) in (b, blk, o :: out, ab)).
  { unfold drainF. cbn [drain].
    assert ((length (a ++ s) <? 4)%nat = false) as -> by (apply Nat.ltb_ge; rewrite app_length; lia).
    assert (F4 : firstn 4 (a ++ s) = firstn 4 a) by (rewrite firstn_app; replace (4 - length a)%nat with O by lia; rewrite firstn_O, app_nil_r; reflexivity).
    rewrite F4. assert (N.of_nat (length (a ++ s)) <? be_val (firstn 4 a) 0 + 4 = false) as -> by (apply N.ltb_ge; rewrite app_length; lia).
    fold n. assert (Fn : firstn n (a ++ s) = firstn n a) by (rewrite firstn_app; replace (n - length a)%nat with O by lia; rewrite firstn_O, app_nil_r; reflexivity).
    assert (Sn : skipn n (a ++ s) = skipn n a ++ s) by (rewrite skipn_app; replace (n - length a)%nat with O by lia; reflexivity).
    rewrite Fn, Sn. reflexivity. }
  assert (Hsk : (length (skipn n a) < f)%nat) by (rewrite skipn_length; unfold n; lia).
  specialize (IH (skipn n a) s Hsk).
  destruct (drain f (skipn n a)) as [[[a' blk] out] ab].
  assert (Hfu : drain (length (a ++ s)) (skipn n a ++ s) = drainF (skipn n a ++ s)).
  { unfold drainF. apply drain_fuel; [|lia]. rewrite !app_length, skipn_length. unfold n. lia. }
  rewrite Hfu in Hstep. destruct ab.
  + rewrite IH in Hstep. exact Hstep.
  + destruct (drainF (a' ++ s)) as [[[b blk2] out2] ab2]. rewrite IH in Hstep. exact Hstep.
Qed.

(* once drained, draining again finds nothing *)
Lemma drain_stable : forall f a, (length a < f)%nat ->
  let '(a', blk, out, ab) := drain f a in ab = false -> drainF a' = (a', blk, [], false).
Proof.
  induction f as [|f IH]; intros a Hf; [lia|].
  cbn [drain]. destruct (length a <? 4)%nat eqn:E4.
  { intros _. unfold drainF. cbn [drain]. rewrite E4. reflexivity. }
  destruct (N.of_nat (length a) <? be_val (firstn 4 a) 0 + 4) eqn:El.
  { intros _. unfold drainF. cbn [drain]. rewrite E4, El. reflexivity. }
  apply N.ltb_ge in El.
  assert (Hsk : (length (skipn (N.to_nat (be_val (firstn 4 a) 0 + 4)) a) < f)%nat) by (rewrite skipn_length; lia).
  specialize (IH _ Hsk). destruct (drain f _) as [[[a' blk] out] ab]. exact IH.
Qed.

Definition stable (s : rx) : Prop := drainF (rx_buf s) = (rx_buf s, rx_blocked s, [], false).

(* segmentation independence: feeding segment by segment equals draining the whole stream at once *)
Theorem rx_run_stream : forall segs s b blk out,
  stable s -> drainF (rx_buf s ++ List.concat segs) = (b, blk, out, false) ->
  rx_run s segs = ({| rx_buf := b; rx_blocked := blk |}, out).
Proof.
  induction segs as [|seg r IH]; intros s b blk out Hst Hall.
  - cbn [List.concat] in Hall. rewrite app_nil_r in Hall. unfold stable in Hst. rewrite Hst in Hall.
    injection Hall as <- <- <-. destruct s; reflexivity.
  - cbn [List.concat] in Hall. rewrite app_assoc in Hall.
    cbn [rx_run]. unfold rx_feed. fold (drainF (rx_buf s ++ seg)).
    pose proof (drain_app (S (length (rx_buf s ++ seg))) (rx_buf s ++ seg) (List.concat r) ltac:(lia)) as A.
    pose proof (drain_stable (S (length (rx_buf s ++ seg))) (rx_buf s ++ seg) ltac:(lia)) as St.
    fold (drainF (rx_buf s ++ seg)) in A, St.
    destruct (drainF (rx_buf s ++ seg)) as [[[b1 blk1] out1] ab1].
    destruct ab1.
    + rewrite A in Hall. discriminate Hall.
    + specialize (St eq_refl).
      destruct (drainF (b1 ++ List.concat r)) as [[[b2 blk2] out2] ab2] eqn:E2. rewrite A in Hall.
      injection Hall as <- <- <- ->.
      rewrite (IH {| rx_buf := b1; rx_blocked := blk1 |} b2 blk2 out2); [reflexivity|exact St|exact E2].
Qed.

(* a stream made of whole valid frames drains to exactly those frames *)
Definition frame_ok (m : hhdr * list N) : Prop :=
  hhdr_fields_ok (fst m) /\ (Z.of_nat (length (snd m)) + 10 < 4294967296)%Z.
Definition enc_frame (m : hhdr * list N) : list N := e37_frame (to_e37 (fst m)) (snd m).

Lemma enc_frame_shape m : frame_ok m ->
  let fr := enc_frame m in
  (14 <= length fr)%nat /\ be_val (firstn 4 fr) 0 + 4 = N.of_nat (length fr) /\ hframe_decode fr = Ok m.
Proof.
  intros [Hok Hlen]. cbv zeta. unfold enc_frame, e37_frame.
  rewrite !app_length, be_length, e37_header_bytes_props.
  split; [lia|]. split.
  - rewrite firstn_app, be_length, Nat.sub_diag, firstn_O, app_nil_r, firstn_all2 by (rewrite be_length; lia).
    rewrite be_val_be0 by (change (256 ^ N.of_nat 4) with 4294967296; lia). lia.
  - destruct m as [h d]. apply hframe_roundtrip; assumption.
Qed.

Lemma drain_frames : forall ms, Forall frame_ok ms ->
  drainF (List.concat (map enc_frame ms)) = ([], false, map (fun m => Delivered (fst m) (snd m)) ms, false).
Proof.
  induction ms as [|m ms IH]; intro H; [reflexivity|].
  inversion H as [|? ? Hm Hms]; subst. specialize (IH Hms).
  destruct (enc_frame_shape m Hm) as (L14 & Llen & Ldec).
  cbn [map List.concat]. set (fr := enc_frame m) in *. set (rest := List.concat (map enc_frame ms)) in *.
  unfold drainF. cbn [drain].
  assert ((length (fr ++ rest) <? 4)%nat = false) as -> by (apply Nat.ltb_ge; rewrite app_length; lia).
  assert (F4 : firstn 4 (fr ++ rest) = firstn 4 fr) by (rewrite firstn_app; replace (4 - length fr)%nat with O by lia; rewrite firstn_O, app_nil_r; reflexivity).
  rewrite F4, Llen.
  assert (N.of_nat (length (fr ++ rest)) <? N.of_nat (length fr) = false) as -> by (apply N.ltb_ge; rewrite app_length; lia).
  rewrite Nat2N.id, firstn_len_app, skipn_len_app, Ldec.
  assert (Hfu : drain (length (fr ++ rest)) rest = drainF rest).
  { unfold drainF. apply drain_fuel; [rewrite app_length|]; lia. }
  rewrite Hfu, IH. destruct m; reflexivity.
Qed.

Theorem reassembly_segmentation_independent : forall ms segs,
  Forall frame_ok ms -> List.concat segs = List.concat (map enc_frame ms) ->
  rx_run rx_init segs = (rx_init, map (fun m => Delivered (fst m) (snd m)) ms).
Proof.
  intros ms segs Hms Hcat. apply (rx_run_stream segs rx_init [] false).
  - reflexivity.
  - cbn [rx_init rx_buf app]. rewrite Hcat. apply drain_frames. exact Hms.
Qed.

(* a frame that is not an HSMS message (its length field is fine, its content cannot be decoded) is dropped - and the frames that follow
   it in the stream are delivered all the same, at once (D68) *)
Theorem bad_frame_does_not_stall : forall bad ms e,
  (4 <= length bad)%nat -> be_val (firstn 4 bad) 0 + 4 = N.of_nat (length bad) -> hframe_decode bad = Err e -> Forall frame_ok ms ->
  drainF (bad ++ List.concat (map enc_frame ms)) = ([], false, Dropped :: map (fun m => Delivered (fst m) (snd m)) ms, false).
Proof.
  intros bad ms e L4 Llen Ldec Hms. set (rest := List.concat (map enc_frame ms)).
  unfold drainF. cbn [drain].
  assert ((length (bad ++ rest) <? 4)%nat = false) as -> by (apply Nat.ltb_ge; rewrite app_length; lia).
  assert (F4 : firstn 4 (bad ++ rest) = firstn 4 bad) by (rewrite firstn_app; replace (4 - length bad)%nat with O by lia; rewrite firstn_O, app_nil_r; reflexivity).
  rewrite F4, Llen.
  assert (N.of_nat (length (bad ++ rest)) <? N.of_nat (length bad) = false) as -> by (apply N.ltb_ge; rewrite app_length; lia).
  rewrite Nat2N.id, firstn_len_app, skipn_len_app, Ldec.
  assert (Hfu : drain (length (bad ++ rest)) rest = drainF rest).
  { unfold drainF. apply drain_fuel; [rewrite app_length|]; lia. }
  rewrite Hfu. unfold rest. rewrite (drain_frames ms Hms). reflexivity.
Qed.
