(* Proofs/CatalogueFacts.v — the consistency of the regenerated catalogue, decided by evaluation (kept apart so
   that the definitions in CatalogueProofs stay available to the search when this theorem no longer checks). *)
From SG Require Import Base.Prelude Model.Functions Gen.Catalogue Proofs.CatalogueProofs.
Open Scope N_scope.

Theorem catalogue_facts :
  unique_sf catalogue = true /\ all_parse catalogue = true /\ classes_eq_yaml = true /\ pairing_ok catalogue = true /\
  length catalogue = 134%nat.
Proof. repeat split; vm_compute; reflexivity. Qed.
