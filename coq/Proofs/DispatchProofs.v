(* Proofs/DispatchProofs.v — C08 over the regenerated callback tables. *)
From SG Require Import Base.Prelude Gen.Callbacks Model.Dispatch.
Open Scope Z_scope.

(* table facts, decided by evaluation: every way a shipped callback returns is a response with the primary's stream and
   function + 1 (or that response sent by the callback itself); none can return None without having answered *)
Definition kind_ok (s f : Z) (k : cbkind) : bool :=
  match k with KReply s' f' | KSentNone s' f' => (s' =? s) && (f' =? f + 1) | KNone | KSentMayRaise _ _ => false end.
Definition table_ok (tab : list ((Z * Z) * list cbkind)) : bool :=
  forallb (fun e => forallb (kind_ok (fst (fst e)) (snd (fst e))) (snd e) && negb (match snd e with [] => true | _ => false end)) tab.

Lemma tables_ok : table_ok equipment_callbacks = true /\ table_ok host_callbacks = true.
Proof. split; vm_compute; reflexivity. Qed.

Lemma lookup_in tab s f ks : lookup_cb tab s f = Some ks -> In ((s, f), ks) tab.
Proof.
  unfold lookup_cb. destruct (find _ tab) as [e|] eqn:F; [|discriminate]. intro H. injection H as <-.
  apply find_some in F as [Hin E]. apply andb_true_iff in E as [E1 E2]. apply Z.eqb_eq in E1, E2. destruct e as [[a b] ks]. cbn in *. subst. exact Hin.
Qed.

Lemma kind_eq_ok s f ks k :
  forallb (kind_ok s f) ks = true ->
  existsb (fun k' => match k, k' with KReply a b, KReply a' b' | KSentNone a b, KSentNone a' b' | KSentMayRaise a b, KSentMayRaise a' b' => (a =? a') && (b =? b') | KNone, KNone => true | _, _ => false end) ks = true ->
  kind_ok s f k = true.
Proof.
  intros Hall Hex. apply existsb_exists in Hex as [k' [Hin E]]. rewrite forallb_forall in Hall. specialize (Hall k' Hin).
  destruct k, k'; try discriminate E; try exact Hall; apply andb_true_iff in E as [E1 E2]; apply Z.eqb_eq in E1, E2; subst; exact Hall.
Qed.

(* W-bit set: exactly one reply of the right kind, for every stream/function (registered or not) and every outcome the
   callback's source admits *)
Theorem w_answered_once tab s f o : table_ok tab = true -> possible tab s f o = true ->
  answered_once s f (dispatch tab s f true o) = true.
Proof.
  intros Ht Hp. unfold dispatch, possible in *. destruct (lookup_cb tab s f) as [ks|] eqn:L; [|reflexivity].
  apply lookup_in in L. unfold table_ok in Ht. rewrite forallb_forall in Ht. specialize (Ht _ L). cbn [fst snd] in Ht. apply andb_true_iff in Ht as [Hk _].
  destruct o as [k| |a b].
  - pose proof (kind_eq_ok s f ks k Hk Hp) as K. destruct k as [a b| |a b|a b]; cbn in *; try exact K; discriminate K.
  - unfold on_raise. destruct (has_abort s); cbn; [apply Z.eqb_refl|reflexivity].
  - exfalso. apply existsb_exists in Hp as [k' [Hin E]]. rewrite forallb_forall in Hk. specialize (Hk k' Hin). destruct k'; try discriminate E. discriminate Hk.
Qed.

(* no W-bit: nothing is sent exactly when no callback is registered (or the callback returns None) *)
Theorem now_silent_iff tab s f k : dispatch tab s f false (OReturn k) = [] <-> (lookup_cb tab s f = None \/ k = KNone).
Proof.
  unfold dispatch. destruct (lookup_cb tab s f) as [ks|]; [|split; auto]. destruct k; split; intro H; try discriminate H; auto; destruct H as [H|H]; discriminate H.
Qed.

(* the full statement is false of the faithful model: a registered callback answers a primary that has no W-bit *)
Theorem reply_without_wbit_refuted :
  exists s f k, possible equipment_callbacks s f (OReturn k) = true /\ c08_ok s f false (OReturn k) (dispatch equipment_callbacks s f false (OReturn k)) = false.
Proof. exists 1, 1, (KReply 1 2). split; vm_compute; reflexivity. Qed.
