(* Proofs/SfdlProofs.v — C19: the SFDL tokenizer does not depend on layout (whitespace and comments). *)
From SG Require Import Base.Prelude Base.Kinds Model.Secs2 Model.Sfdl.
From Coq Require Import Lia.
Open Scope N_scope.

(* ---------- the documented lexical structure ---------- *)
Definition word_char (c : N) : bool := negb (is_ws c) && negb (is_op c) && negb (c =? cp_hash).
Inductive tok := TOp (c : N) | TWord (w : text).
Definition tok_ok (t : tok) : bool :=
  match t with TOp c => is_op c | TWord w => match w with [] => false | _ => forallb word_char w end end.
Definition tok_text (t : tok) : text := match t with TOp c => [c] | TWord w => w end.

(* layout between tokens: whitespace characters and comments ("#" anything-but-line-break, line break) *)
Inductive gapel := GWs (c : N) | GComment (body : text) (eol : N).
Definition gapel_ok (g : gapel) : bool :=
  match g with
  | GWs c => is_ws c
  | GComment body eol => forallb (fun c => negb (is_comment_end c)) body && is_comment_end eol
  end.
Definition gapel_text (g : gapel) : text := match g with GWs c => [c] | GComment body eol => cp_hash :: body ++ [eol] end.
Definition gap_text (g : list gapel) : text := List.concat (map gapel_text g).

(* a definition text: leading layout, then tokens each followed by layout; two words need layout between them *)
Fixpoint render (items : list (tok * list gapel)) : text :=
  match items with [] => [] | (t, g) :: r => tok_text t ++ gap_text g ++ render r end.
Fixpoint separated (items : list (tok * list gapel)) : bool :=
  match items with
  | (TWord _, []) :: ((TWord _, _) :: _) => false
  | _ :: r => separated r
  | [] => true
  end.
Definition layout_ok (items : list (tok * list gapel)) : bool :=
  forallb (fun p => tok_ok (fst p) && forallb gapel_ok (snd p)) items && separated items.

(* ---------- the lexer on each piece ---------- *)
Definition flushed (cur : text) (acc : list text) : list text := match cur with [] => acc | _ => rev cur :: acc end.

Lemma lex_comment_body body : forallb (fun c => negb (is_comment_end c)) body = true ->
  forall rest cur acc, lex (body ++ rest) cur true acc = lex rest cur true acc.
Proof.
  induction body as [|c body IH]; intros Hb rest cur acc; [reflexivity|].
  cbn [forallb] in Hb. apply andb_prop in Hb as [Hc Hr]. cbn [app lex orb].
  destruct (is_comment_end c); [discriminate Hc|]. apply IH. exact Hr.
Qed.

Lemma ws_not_hash c : is_ws c = true -> (c =? cp_hash) = false.
Proof. unfold is_ws, cp_hash. intro H. destruct (N.eqb_spec c 35) as [->|]; [discriminate H|reflexivity]. Qed.
Lemma ws_not_op c : is_ws c = true -> is_op c = false.
Proof.
  unfold is_ws, is_op, cp_lt, cp_gt. intro H.
  destruct (N.eqb_spec c 60) as [->|]; [discriminate H|]. destruct (N.eqb_spec c 62) as [->|]; [discriminate H|]. reflexivity.
Qed.
Lemma op_not_hash c : is_op c = true -> (c =? cp_hash) = false.
Proof. unfold is_op, cp_lt, cp_gt, cp_hash. intro H. destruct (N.eqb_spec c 35) as [->|]; [discriminate H|reflexivity]. Qed.
Lemma op_not_ws c : is_op c = true -> is_ws c = false.
Proof. intro H. destruct (is_ws c) eqn:E; [|reflexivity]. rewrite (ws_not_op _ E) in H. discriminate H. Qed.
Lemma eol_is_ws c : is_comment_end c = true -> is_ws c = true.
Proof. unfold is_comment_end, is_ws. intro H. destruct (c =? 10), (c =? 13); try discriminate H; rewrite ?orb_true_r; reflexivity. Qed.

(* one layout element: a pending word is flushed, nothing else happens *)
Lemma lex_gapel g : gapel_ok g = true -> forall rest cur acc,
  lex (gapel_text g ++ rest) cur false acc = lex rest [] false (flushed cur acc).
Proof.
  destruct g as [c|body eol]; cbn [gapel_ok gapel_text]; intros Hok rest cur acc.
  - cbn [app lex orb]. rewrite (ws_not_hash _ Hok), Hok. reflexivity.
  - apply andb_prop in Hok as [Hb He]. cbn [app lex orb]. rewrite N.eqb_refl.
    assert (is_comment_end cp_hash = false) as -> by reflexivity.
    rewrite <- app_assoc, (lex_comment_body body Hb). cbn [app lex orb]. rewrite He. reflexivity.
Qed.

Lemma lex_gap g : forallb gapel_ok g = true -> g <> [] -> forall rest cur acc,
  lex (gap_text g ++ rest) cur false acc = lex rest [] false (flushed cur acc).
Proof.
  induction g as [|x g IH]; intros Hok Hne rest cur acc; [congruence|].
  cbn [forallb] in Hok. apply andb_prop in Hok as [Hx Hg]. unfold gap_text. cbn [map List.concat]. rewrite <- app_assoc.
  rewrite (lex_gapel x Hx). destruct g as [|y g']; [reflexivity|].
  fold (gap_text (y :: g')). rewrite (IH Hg ltac:(discriminate)). reflexivity.
Qed.

Lemma lex_word w : forallb word_char w = true -> forall rest cur acc,
  lex (w ++ rest) cur false acc = lex rest (rev w ++ cur) false acc.
Proof.
  induction w as [|c w IH]; intros Hw rest cur acc; [reflexivity|].
  cbn [forallb] in Hw. apply andb_prop in Hw as [Hc Hr]. unfold word_char in Hc.
  apply andb_prop in Hc as [Hc Hh]. apply andb_prop in Hc as [Hws Hop].
  cbn [app lex orb]. destruct (c =? cp_hash); [discriminate Hh|]. destruct (is_ws c); [discriminate Hws|]. destruct (is_op c); [discriminate Hop|].
  rewrite IH by exact Hr. cbn [rev]. rewrite <- app_assoc. reflexivity.
Qed.

Lemma lex_op c : is_op c = true -> forall rest cur acc,
  lex (c :: rest) cur false acc = lex rest [] false ([c] :: flushed cur acc).
Proof. intros H rest cur acc. cbn [lex orb]. rewrite (op_not_hash _ H), (op_not_ws _ H), H. reflexivity. Qed.

(* ---------- layout irrelevance ---------- *)
Theorem lex_layout_irrelevant : forall items acc,
  layout_ok items = true ->
  forall lead, forallb gapel_ok lead = true ->
  lex (gap_text lead ++ render items) [] false acc = rev acc ++ map (fun p => tok_text (fst p)) items.
Proof.
  (* general form: the pending word `cur` is the word whose text was just read, waiting for its separator *)
  assert (G : forall items cur acc, layout_ok items = true ->
            (cur <> [] -> match items with (TWord _, _) :: _ => False | _ => True end) ->
            lex (render items) cur false acc = rev (flushed cur acc) ++ map (fun p => tok_text (fst p)) items).
  { induction items as [|[t g] r IH]; intros cur acc Hok Hsep.
    - cbn [render lex map]. rewrite app_nil_r. destruct cur; reflexivity.
    - unfold layout_ok in Hok. apply andb_prop in Hok as [Hall Hs]. cbn [forallb fst snd] in Hall.
      apply andb_prop in Hall as [Ht Hr]. apply andb_prop in Ht as [Htok Hgap].
      assert (Hokr : layout_ok r = true).
      { unfold layout_ok. rewrite Hr. cbn [andb]. destruct t, g, r as [|[[|] ?] ?]; cbn [separated] in Hs |- *; try exact Hs; discriminate Hs. }
      cbn [render map fst]. destruct t as [c|w]; cbn [tok_text tok_ok] in *.
      + (* operator *)
        cbn [app]. rewrite (lex_op c Htok).
        destruct g as [|x g'].
        * cbn [gap_text map List.concat app]. rewrite (IH [] ([c] :: flushed cur acc) Hokr ltac:(congruence)).
          cbn [flushed rev]. rewrite <- app_assoc. reflexivity.
        * rewrite (lex_gap (x :: g') Hgap ltac:(discriminate)). cbn [flushed].
          rewrite (IH [] ([c] :: flushed cur acc) Hokr ltac:(congruence)). cbn [flushed rev]. rewrite <- app_assoc. reflexivity.
      + (* word: nothing may be pending *)
        assert (cur = []) as -> by (destruct cur; [reflexivity|exfalso; apply Hsep; discriminate]).
        destruct w as [|c0 w0]; [discriminate Htok|].
        rewrite (lex_word (c0 :: w0) Htok). rewrite app_nil_r.
        destruct g as [|x g'].
        * cbn [gap_text map List.concat app].
          rewrite (IH (rev (c0 :: w0)) acc Hokr).
          -- unfold flushed. destruct (rev (c0 :: w0)) eqn:E; [apply (f_equal (@length _)) in E; rewrite rev_length in E; discriminate E|].
             rewrite <- E, rev_involutive. cbn [rev]. rewrite <- app_assoc. reflexivity.
          -- intros _. destruct r as [|[[|] ?] ?]; try exact I. cbn [separated] in Hs. discriminate Hs.
        * rewrite (lex_gap (x :: g') Hgap ltac:(discriminate)).
          rewrite (IH [] (flushed (rev (c0 :: w0)) acc) Hokr ltac:(congruence)).
          unfold flushed at 2. unfold flushed. destruct (rev (c0 :: w0)) eqn:E; [apply (f_equal (@length _)) in E; rewrite rev_length in E; discriminate E|].
          rewrite <- E, rev_involutive. cbn [rev]. rewrite <- app_assoc. reflexivity. }
  intros items acc Hok lead Hlead. destruct lead as [|x l].
  - cbn [gap_text map List.concat app]. rewrite (G items [] acc Hok ltac:(congruence)). reflexivity.
  - rewrite (lex_gap (x :: l) Hlead ltac:(discriminate)). cbn [flushed]. rewrite (G items [] acc Hok ltac:(congruence)). reflexivity.
Qed.

Corollary elements_layout_irrelevant : forall items lead,
  layout_ok items = true -> forallb gapel_ok lead = true ->
  elements_of (gap_text lead ++ render items) = map (fun p => tok_text (fst p)) items.
Proof. intros items lead H1 H2. unfold elements_of. rewrite (lex_layout_irrelevant items [] H1 lead H2). reflexivity. Qed.
