(* Proofs/Secs2Dec.v — decoding the E5 encoding of a value gives the value back (C01 round trip). *)
From SG Require Import Base.Prelude Base.Kinds Base.Float Gen.VarConsts Gen.Jis8 Spec.E5 Model.Secs2 Model.Denote Model.Secs2Wf.
From SG Require Import Proofs.BytesProofs Proofs.FloatProofs Proofs.Secs2Enc.
From Coq Require Import Lia ZifyBool ZifyN ZifyNat.
Ltac Zify.zify_post_hook ::= Z.div_mod_to_equations.
Open Scope N_scope.

(* ---------- header ---------- *)
Lemma nlb_cases n : n <= MAXLEN ->
  (nlb n = 1%nat \/ nlb n = 2%nat \/ nlb n = 3%nat) /\ n < 256 ^ N.of_nat (nlb n).
Proof.
  unfold nlb, MAXLEN. intro H. destruct (N.leb_spec n 255); [split; [auto|cbn; lia]|].
  destruct (N.leb_spec n 65535); (split; [auto|cbn; lia]).
Qed.

Lemma header_decode o fc n rest :
  fc < 64 -> n <= MAXLEN ->
  decode_item_header o (e5_header fc n ++ rest) =
  match o with
  | Some c => if c =? fc then Ok (rest, fc, n, N.of_nat (S (nlb n))) else Err EValue
  | None => Ok (rest, fc, n, N.of_nat (S (nlb n)))
  end.
Proof.
  intros Hfc Hn. destruct (nlb_cases n Hn) as [Hk Hlt].
  unfold e5_header. cbn [app decode_item_header].
  set (k := nlb n) in *.
  assert (Hfb : fc * 4 + N.of_nat k < 256) by lia.
  destruct (fb_dec _ Hfb) as [D1 D2]. rewrite D1, D2.
  replace ((fc * 4 + N.of_nat k) / 4) with fc by lia.
  replace ((fc * 4 + N.of_nat k) mod 4) with (N.of_nat k) by lia.
  rewrite Nat2N.id.
  rewrite shorter_spec.
  assert (Hlen : (length (be k n ++ rest) <? k)%nat = false).
  { apply Nat.ltb_ge. rewrite app_length, be_length. lia. }
  rewrite Hlen.
  rewrite firstn_app, be_length, Nat.sub_diag, firstn_O, app_nil_r.
  rewrite firstn_all2 by (rewrite be_length; lia).
  rewrite skipn_app, be_length, Nat.sub_diag. rewrite skipn_all2 by (rewrite be_length; lia). cbn [skipn app].
  rewrite be_val_be0 by assumption. reflexivity.
Qed.

Lemma header_len fc n : nlen (e5_header fc n) = N.of_nat (S (nlb n)).
Proof. unfold e5_header, nlen. cbn [length]. rewrite be_length. reflexivity. Qed.

Lemma nlen_app {A} (a b : list A) : nlen (a ++ b) = nlen a + nlen b.
Proof. unfold nlen. rewrite app_length. lia. Qed.

(* ---------- payload helpers ---------- *)
Lemma firstn_len_app {A} (l t : list A) : firstn (length l) (l ++ t) = l.
Proof. rewrite firstn_app, Nat.sub_diag, firstn_O, app_nil_r. apply firstn_all. Qed.
Lemma skipn_len_app {A} (l t : list A) : skipn (length l) (l ++ t) = t.
Proof. rewrite skipn_app, Nat.sub_diag, skipn_all. reflexivity. Qed.

Lemma min_len {A} (l t : list A) : N.to_nat (N.min (len l) (nlen (l ++ t))) = length l.
Proof. unfold len, nlen. rewrite app_length. lia. Qed.

Lemma firstn_w_app {A} w (c t : list A) : length c = w -> firstn w (c ++ t) = c.
Proof. intros <-. apply firstn_len_app. Qed.
Lemma skipn_w_app {A} w (c t : list A) : length c = w -> skipn w (c ++ t) = t.
Proof. intros <-. apply skipn_len_app. Qed.

Lemma read_chunks_ok {A} w (f : A -> list N) (l : list A) tail :
  (forall x, length (f x) = w) ->
  read_chunks w (length l) (List.concat (map f l) ++ tail) = Ok (map f l, tail).
Proof.
  intros Hf. induction l as [|x l IH]; cbn [length map List.concat read_chunks app]; [reflexivity|].
  rewrite <- app_assoc. rewrite (firstn_w_app w) by apply Hf. rewrite (skipn_w_app w) by apply Hf.
  rewrite Hf, Nat.eqb_refl. cbn [negb]. rewrite IH. reflexivity.
Qed.

Lemma concat_len {A} w (f : A -> list N) (l : list A) :
  (forall x, length (f x) = w) -> nlen (List.concat (map f l)) = N.of_nat w * len l.
Proof.
  intro Hf. unfold nlen, len. induction l as [|x l IH]; cbn [map List.concat length]; [lia|].
  rewrite app_length, Hf. lia.
Qed.

Lemma bool_bytes_back l :
  map (fun b => negb (b =? 0)) (map (fun b : bool => if b then 1 else 0) l) = l.
Proof. induction l as [|[|] l IH]; cbn; f_equal; assumption. Qed.

(* JIS-8: the generated tables invert each other on the encodable code points *)
Definition jis_tables_ok : bool :=
  forallb (fun kv => match jis8_decode (snd kv) with Some c => c =? fst kv | None => false end) jis8_encode_table.
Lemma gen_jis_inverse : jis_tables_ok = true. Proof. vm_compute. reflexivity. Qed.
Lemma jis_decode_encode c b : jis8_encode c = Some b -> jis8_decode b = Some c.
Proof.
  unfold jis8_encode. destruct (find (fun kv => fst kv =? c) jis8_encode_table) as [kv|] eqn:E; [|discriminate].
  intro H. injection H as <-. apply find_some in E as [Hin Hc]. apply N.eqb_eq in Hc. subst c.
  pose proof gen_jis_inverse as S. unfold jis_tables_ok in S. rewrite forallb_forall in S. specialize (S kv Hin).
  destruct (jis8_decode (snd kv)); [|discriminate]. apply N.eqb_eq in S. subst. reflexivity.
Qed.
Lemma text_decode_jis cps bs : optM jis8_encode cps = Some bs -> text_decode true bs = Ok cps.
Proof.
  revert bs; induction cps as [|c cps IH]; intros bs H; cbn in H.
  - injection H as <-. reflexivity.
  - destruct (jis8_encode c) as [b|] eqn:E; [|discriminate]. destruct (optM jis8_encode cps) as [r|]; [|discriminate].
    injection H as <-. cbn. rewrite (jis_decode_encode _ _ E). cbn.
    specialize (IH r eq_refl). cbn in IH. rewrite IH. reflexivity.
Qed.
Lemma jis_encodable cps :
  forallb (fun c => match jis8_encode c with Some _ => true | None => false end) cps = true ->
  exists bs, optM jis8_encode cps = Some bs.
Proof.
  induction cps as [|c cps IH]; cbn; intro H; [eexists; reflexivity|].
  apply andb_prop in H as [H1 H2]. destruct (jis8_encode c); [|discriminate].
  destruct (IH H2) as [bs ->]. eexists; reflexivity.
Qed.

(* Dynamic.decode's class table: every class is found by its own format code *)
Definition fc_of (d : dkind) : N :=
  match d with
  | DArr => fc_Array
  | DScal KBin => fc_Binary | DScal KBool => fc_Boolean | DScal KStr => fc_String | DScal KJis => fc_JIS8
  | DScal (KNum k) => num_fc k
  end.
Lemma gen_dyn_table d : dkind_of_code (fc_of d) = Some d.
Proof. destruct d as [|[| | | |k]]; try reflexivity. destruct k; reflexivity. Qed.

(* ---------- scalars ---------- *)
Lemma cnt_false_Z (c : bool) : negb c = true -> c = false. Proof. destruct c; [discriminate|reflexivity]. Qed.

Lemma decode_bin c l tail pos :
  wf_scal KBin c (VBin l) = true -> e5_wf (EB l) = true ->
  decode_scal KBin c (e5_encode (EB l) ++ tail) pos = Ok (VBin l, tail, pos + nlen (e5_encode (EB l))).
Proof.
  pose proof code_lt_64 as (cL & cB & _).
  intros Hwf He. cbn [wf_scal] in Hwf. apply andb_prop in Hwf as [Hc _]. apply cnt_false_Z in Hc.
  cbn [e5_wf] in He. apply andb_prop in He as [Hlen _]. apply N.leb_le in Hlen.
  cbn [e5_encode decode_scal]. rewrite <- app_assoc, header_decode by assumption.
  rewrite gen_fc_binary, N.eqb_refl. cbn [bind].
  rewrite min_len, firstn_len_app, skipn_len_app.
  rewrite nlen_app, header_len.
  destruct (N.eqb_spec (len l) 0) as [E|E].
  - assert (l = []) as -> by (destruct l; [reflexivity|unfold len in E; cbn in E; lia]).
    cbn [bind]. f_equal. f_equal. unfold nlen, len. cbn. lia.
  - cbn [set_bin bind]. rewrite Hc. cbn [bind]. f_equal. f_equal. unfold nlen, len. lia.
Qed.

Lemma decode_bool c l tail pos :
  wf_scal KBool c (VBool l) = true -> e5_wf (EBool l) = true ->
  decode_scal KBool c (e5_encode (EBool l) ++ tail) pos = Ok (VBool l, tail, pos + nlen (e5_encode (EBool l))).
Proof.
  pose proof code_lt_64 as (cL & cB & cBo & _).
  intros Hwf He. cbn [wf_scal] in Hwf. apply cnt_false_Z in Hwf.
  cbn [e5_wf] in He. apply N.leb_le in He.
  cbn [e5_encode decode_scal]. rewrite <- app_assoc, header_decode by assumption.
  rewrite gen_fc_boolean, N.eqb_refl. cbn [bind].
  set (pl := map (fun b : bool => if b then 1 else 0) l).
  assert (Hpl : length pl = length l) by (unfold pl; apply map_length).
  assert (Hlt : (nlen (pl ++ tail) <? len l) = false).
  { apply N.ltb_ge. unfold nlen, len. rewrite app_length. lia. }
  rewrite Hlt. unfold len. rewrite Nat2N.id, <- Hpl, firstn_len_app, skipn_len_app.
  unfold set_bool, zlen. rewrite map_length, Hpl. fold (zlen l). rewrite Hwf.
  rewrite (mapM_ok _ (fun p => match p with PBool b => b | _ => false end)).
  2:{ intros x Hx. apply in_map_iff in Hx as (b & <- & _). reflexivity. }
  cbn [bind]. rewrite map_map. unfold pl. rewrite map_map.
  assert (map (fun x : bool => negb ((if x then 1 else 0) =? 0)) l = l) as ->.
  { clear. induction l as [|[|] l IH]; cbn; f_equal; assumption. }
  f_equal. f_equal. rewrite nlen_app, header_len. unfold nlen. rewrite map_length. lia.
Qed.

Lemma decode_str c l tail pos :
  wf_scal KStr c (VText false l) = true -> e5_wf (EA l) = true ->
  decode_scal KStr c (e5_encode (EA l) ++ tail) pos = Ok (VText false l, tail, pos + nlen (e5_encode (EA l))).
Proof.
  pose proof code_lt_64 as (cL & cB & cBo & cA & _).
  intros Hwf He. cbn [wf_scal] in Hwf. apply andb_prop in Hwf as [Hc Hb]. apply cnt_false_Z in Hc.
  cbn [e5_wf] in He. apply andb_prop in He as [Hlen _]. apply N.leb_le in Hlen.
  cbn [e5_encode decode_scal]. rewrite <- app_assoc, header_decode by assumption.
  rewrite gen_fc_string, N.eqb_refl. cbn [bind].
  rewrite min_len, firstn_len_app, skipn_len_app.
  unfold text_decode. cbn [bind]. unfold set_text. cbn [bind]. rewrite text_encode_latin by assumption. cbn [bind]. rewrite Hc. cbn [bind].
  f_equal. f_equal. rewrite nlen_app, header_len. unfold nlen, len. lia.
Qed.

Lemma decode_jis c cps bs tail pos :
  wf_scal KJis c (VText true cps) = true -> optM jis8_encode cps = Some bs -> e5_wf (EJ bs) = true ->
  decode_scal KJis c (e5_encode (EJ bs) ++ tail) pos = Ok (VText true cps, tail, pos + nlen (e5_encode (EJ bs))).
Proof.
  pose proof code_lt_64 as (cL & cB & cBo & cA & cJ & _).
  intros Hwf Hd He. cbn [wf_scal] in Hwf. apply andb_prop in Hwf as [Hc Hb]. apply cnt_false_Z in Hc.
  cbn [e5_wf] in He. apply andb_prop in He as [Hlen _]. apply N.leb_le in Hlen.
  cbn [e5_encode decode_scal]. rewrite <- app_assoc, header_decode by assumption.
  rewrite gen_fc_jis8, N.eqb_refl. cbn [bind].
  rewrite min_len, firstn_len_app, skipn_len_app.
  rewrite (text_decode_jis _ _ Hd). cbn [bind]. unfold set_text. cbn [bind]. rewrite (text_encode_jis _ _ Hd). cbn [bind]. rewrite Hc. cbn [bind].
  f_equal. f_equal. rewrite nlen_app, header_len. unfold nlen, len. lia.
Qed.

Lemma pow_8w w : (Z.of_N (256 ^ N.of_nat w) = 2 ^ (8 * Z.of_nat w))%Z.
Proof.
  rewrite N2Z.inj_pow. change (Z.of_N 256) with (2 ^ 8)%Z. rewrite <- Z.pow_mul_r by lia. f_equal. lia.
Qed.

Lemma unpack_unsigned c w z :
  sc_signed c = false -> sc_bytes c = w -> c <> SC_f_ -> c <> SC_d_ ->
  (0 <= z < 2 ^ (8 * Z.of_nat w))%Z -> unpack_int c (be w (Z.to_N z)) = Ok z.
Proof.
  intros Hs Hb Hf Hd Hz. unfold unpack_int. rewrite Hs.
  assert (be_val (be w (Z.to_N z)) 0 = Z.to_N z) as ->.
  { apply be_val_be0. pose proof (pow_8w w). lia. }
  destruct c; try congruence; f_equal; lia.
Qed.

Lemma unpack_signed c w z :
  sc_signed c = true -> sc_bytes c = w -> (0 < w)%nat ->
  (- 2 ^ (8 * Z.of_nat w - 1) <= z < 2 ^ (8 * Z.of_nat w - 1))%Z ->
  unpack_int c (be w (tc_enc w z)) = Ok z.
Proof.
  intros Hs Hb Hw Hz. unfold unpack_int. rewrite Hs, Hb.
  rewrite be_val_be0 by apply tc_enc_lt. rewrite tc_roundtrip by assumption.
  destruct c; cbn in Hs; try discriminate; reflexivity.
Qed.

Lemma set_num_ints k c l :
  num_base_is_float k = false -> cnt_ge0_lt c (zlen l) = false -> forallb (int_in_range k) l = true ->
  set_num k c (PList (map PInt l)) = Ok (VNum k l).
Proof.
  intros Hf Hc Hr. unfold set_num. rewrite Hf. cbn [is_float_plain andb].
  unfold zlen in *. rewrite map_length, Hc.
  rewrite (mapM_ok _ (fun p => match p with PInt z => z | _ => 0%Z end)).
  - cbn [bind]. rewrite map_map, map_id. reflexivity.
  - intros x Hx. apply in_map_iff in Hx as (z & <- & Hz). rewrite forallb_forall in Hr.
    unfold conv_int. cbn [to_int bind]. rewrite (Hr z Hz). reflexivity.
Qed.

Lemma wbytes_pos w : (0 < wbytes w)%nat. Proof. destruct w; cbn; lia. Qed.

Lemma decode_num_generic k c (A : Type) (l : list A) (g : A -> list N) v tail pos :
  (forall x, length (g x) = num_nbytes k) -> (0 < num_nbytes k)%nat ->
  num_fc k < 64 -> N.of_nat (num_nbytes k) * len l <= MAXLEN ->
  (do v <- (if num_base_is_float k
            then do fl <- mapM (unpack_flt (num_scode k)) (map g l); set_num k c (PList (map PFloat fl))
            else do il <- mapM (unpack_int (num_scode k)) (map g l); set_num k c (PList (map PInt il)));
   Ok (v, tail, pos + N.of_nat (S (nlb (N.of_nat (num_nbytes k) * len l))) + N.of_nat (length l * num_nbytes k))) = Ok v ->
  decode_scal (KNum k) c ((e5_header (num_fc k) (N.of_nat (num_nbytes k) * len l) ++ List.concat (map g l)) ++ tail) pos = Ok v.
Proof.
  intros Hg Hw Hfc Hlen H. cbn [decode_scal]. rewrite <- app_assoc, header_decode by assumption.
  rewrite N.eqb_refl. cbn [bind].
  destruct (Nat.eqb_spec (num_nbytes k) 0) as [E|_]; [lia|].
  replace (N.of_nat (num_nbytes k) * len l / N.of_nat (num_nbytes k)) with (len l)
    by (rewrite N.mul_comm, N.div_mul by lia; reflexivity).
  assert (Hn : nlen (List.concat (map g l) ++ tail) <? len l * N.of_nat (num_nbytes k) = false).
  { apply N.ltb_ge. rewrite nlen_app, (concat_len (num_nbytes k)) by assumption. lia. }
  rewrite Hn. replace (N.to_nat (len l)) with (length l) by (unfold len; lia).
  rewrite read_chunks_ok by assumption. cbn [bind fst snd].
  exact H.
Qed.

Lemma decode_int k c l i tail pos :
  wf_scal (KNum k) c (VNum k l) = true -> denote_num k l = Some i -> e5_wf i = true ->
  decode_scal (KNum k) c (e5_encode i ++ tail) pos = Ok (VNum k l, tail, pos + nlen (e5_encode i)).
Proof.
  pose proof code_lt_64 as (_ & _ & _ & _ & _ & _ & _ & cI & cU).
  intros Hwf Hd He. cbn [wf_scal] in Hwf.
  apply andb_prop in Hwf as [Hwf Hr]. apply andb_prop in Hwf as [Hwf Hc]. apply andb_prop in Hwf as [_ Hf].
  apply cnt_false_Z in Hc. apply cnt_false_Z in Hf.
  pose proof (gen_fc_num k) as Hfc. pose proof (gen_nbytes k) as Hnb. pose proof (gen_scode k) as (Hsb & Hss & Hf4 & Hf8).
  assert (Hcases : (is_unsigned k = true /\ i = EU (e5w k) l) \/ (is_signed k = true /\ i = EI (e5w k) l)).
  { destruct k; cbn in Hd; try discriminate; injection Hd as <-; cbn; auto. }
  destruct Hcases as [[Hu ->]|[Hsg ->]].
  - cbn [e5_wf] in He. apply andb_prop in He as [Hlen Hrange]. apply N.leb_le in Hlen.
    cbn [e5_encode]. rewrite <- Hnb. replace (code_U (e5w k)) with (num_fc k) by (rewrite Hfc, Hu; reflexivity).
    apply decode_num_generic.
    + intro x. apply be_length.
    + rewrite Hnb. apply wbytes_pos.
    + rewrite Hfc, Hu. apply cU.
    + rewrite Hnb. exact Hlen.
    + rewrite Hf. rewrite (mapM_ok _ (fun b => Z.of_N (be_val b 0))).
      2:{ intros x Hx. apply in_map_iff in Hx as (z & <- & Hz). rewrite forallb_forall in Hrange.
          rewrite Hnb. rewrite unpack_unsigned; try assumption.
          - pose proof (urange_spec _ _ (Hrange z Hz)). pose proof (pow_8w (wbytes (e5w k))).
            f_equal. rewrite be_val_be0; lia.
          - rewrite Hss. destruct k; try discriminate; reflexivity.
          - intro E. apply Hf4 in E. subst k. discriminate.
          - intro E. apply Hf8 in E. subst k. discriminate.
          - apply urange_spec. auto. }
      cbn [bind]. rewrite !map_map.
      rewrite (map_ext_in _ PInt).
      2:{ intros z Hz. f_equal. rewrite forallb_forall in Hrange.
        pose proof (urange_spec _ _ (Hrange z Hz)). pose proof (pow_8w (wbytes (e5w k))). rewrite ?Hnb. rewrite be_val_be0; lia. }
      rewrite set_num_ints by assumption. cbn [bind]. f_equal. f_equal.
      rewrite nlen_app, header_len, (concat_len (num_nbytes k)) by (intro; apply be_length). unfold len. lia.
  - assert (Hu : is_unsigned k = false) by (destruct k; try discriminate; reflexivity).
    cbn [e5_wf] in He. apply andb_prop in He as [Hlen Hrange]. apply N.leb_le in Hlen.
    cbn [e5_encode]. rewrite <- Hnb. replace (code_I (e5w k)) with (num_fc k) by (rewrite Hfc, Hu, Hsg; reflexivity).
    apply decode_num_generic.
    + intro x. apply be_length.
    + rewrite Hnb. apply wbytes_pos.
    + rewrite Hfc, Hu, Hsg. apply cI.
    + rewrite Hnb. exact Hlen.
    + rewrite Hf. rewrite (mapM_ok _ (fun b => tc_dec (num_nbytes k) (be_val b 0))).
      2:{ intros x Hx. apply in_map_iff in Hx as (z & <- & Hz). rewrite forallb_forall in Hrange.
          pose proof (irange_spec _ _ (Hrange z Hz)) as Hi.
          rewrite Hnb. rewrite unpack_signed; try assumption.
          - f_equal. rewrite be_val_be0 by apply tc_enc_lt. rewrite tc_roundtrip; [reflexivity|apply wbytes_pos|assumption].
          - rewrite Hss. assumption.
          - apply wbytes_pos. }
      cbn [bind]. rewrite !map_map.
      rewrite (map_ext_in _ PInt).
      2:{ intros z Hz. f_equal. rewrite forallb_forall in Hrange.
        pose proof (irange_spec _ _ (Hrange z Hz)). rewrite ?Hnb, be_val_be0 by apply tc_enc_lt.
        apply tc_roundtrip; [apply wbytes_pos|assumption]. }
      rewrite set_num_ints by assumption. cbn [bind]. f_equal. f_equal.
      rewrite nlen_app, header_len, (concat_len (num_nbytes k)) by (intro; apply be_length). unfold len. lia.
Qed.

Lemma set_num_flts k c l :
  num_base_is_float k = true -> cnt_ge0_lt c (zlen l) = false ->
  (forall b, In b l -> nan64 b = false /\ flt_in_range k b = true) ->
  set_num k c (PList (map PFloat l)) = Ok (VFlt k l).
Proof.
  intros Hf Hc Hr. unfold set_num. rewrite Hf. cbn [is_float_plain andb negb].
  unfold zlen in *. rewrite map_length, Hc.
  rewrite (mapM_ok _ (fun p => match p with PFloat z => z | _ => 0 end)).
  - cbn [bind]. rewrite map_map, map_id. reflexivity.
  - intros x Hx. apply in_map_iff in Hx as (z & <- & Hz). destruct (Hr z Hz) as [Hn Hi].
    unfold conv_flt. cbn [to_flt]. rewrite Hn. cbn [bind]. rewrite Hi. reflexivity.
Qed.

Lemma finite_not_nan b : finite64 b = true -> nan64 b = false.
Proof. unfold finite64, nan64. destruct (exp64 b =? 2047); [discriminate|reflexivity]. Qed.

Lemma decode_f8 c l tail pos :
  wf_scal (KNum F8) c (VFlt F8 l) = true -> e5_wf (EF8 l) = true ->
  decode_scal (KNum F8) c (e5_encode (EF8 l) ++ tail) pos = Ok (VFlt F8 l, tail, pos + nlen (e5_encode (EF8 l))).
Proof.
  pose proof code_lt_64 as (_ & _ & _ & _ & _ & cF4 & cF8 & _).
  intros Hwf He. cbn [wf_scal] in Hwf.
  apply andb_prop in Hwf as [Hwf Hr]. apply andb_prop in Hwf as [Hwf Hc]. apply andb_prop in Hwf as [_ Hf].
  apply cnt_false_Z in Hc.
  pose proof (gen_fc_num F8) as Hfc. pose proof (gen_nbytes F8) as Hnb. pose proof (gen_scode F8) as (Hsb & Hss & Hf4 & Hf8).
  cbn [is_unsigned is_signed e5w wbytes] in *.
  cbn [e5_wf] in He. apply andb_prop in He as [Hlen _]. apply N.leb_le in Hlen.
  cbn [e5_encode]. rewrite <- Hfc. replace (8 * len l) with (N.of_nat (num_nbytes F8) * len l) by (rewrite Hnb; reflexivity).
  apply decode_num_generic.
  - intro x. rewrite Hnb. apply be_length.
  - rewrite Hnb. lia.
  - rewrite Hfc. exact cF8.
  - rewrite Hnb. exact Hlen.
  - rewrite Hf. assert (num_scode F8 = SC_d_) as -> by (apply Hf8; reflexivity).
    rewrite forallb_forall in Hr.
    rewrite (mapM_ok _ (fun b => be_val b 0)).
    2:{ intros x Hx. apply in_map_iff in Hx as (b & <- & Hb). specialize (Hr b Hb).
        apply andb_prop in Hr as [Hr _]. apply andb_prop in Hr as [Hlt Hfin]. apply N.ltb_lt in Hlt.
        unfold unpack_flt. rewrite ?Hnb; rewrite be_val_be0 by exact Hlt. rewrite finite_not_nan by assumption. reflexivity. }
    cbn [bind]. rewrite !map_map. rewrite (map_ext_in _ PFloat).
    2:{ intros b Hb. specialize (Hr b Hb). apply andb_prop in Hr as [Hr _]. apply andb_prop in Hr as [Hlt _].
        apply N.ltb_lt in Hlt. rewrite ?Hnb; rewrite be_val_be0 by exact Hlt. reflexivity. }
    rewrite set_num_flts; try assumption.
    + cbn [bind]. f_equal. f_equal.
      rewrite nlen_app, header_len, (concat_len (num_nbytes F8)) by (intro; rewrite Hnb; apply be_length). unfold len. lia.
    + intros b Hb. specialize (Hr b Hb). apply andb_prop in Hr as [Hr Hi]. apply andb_prop in Hr as [_ Hfin].
      split; [apply finite_not_nan|]; assumption.
Qed.

Lemma optM_r32_in l r : optM r32 l = Some r -> forall x, In x r -> exists b, In b l /\ round32 b = Ok x.
Proof.
  revert r; induction l as [|b l IH]; intros r H x Hx; cbn in H.
  - injection H as <-. destruct Hx.
  - unfold r32 in H at 1. destruct (round32 b) as [y|] eqn:E; [|discriminate].
    destruct (optM r32 l) as [rs|]; [|discriminate]. injection H as <-. destruct Hx as [<-|Hx].
    + exists b. split; [left; reflexivity|assumption].
    + destruct (IH rs eq_refl x Hx) as (b' & Hb' & Hr'). exists b'. split; [right|]; assumption.
Qed.
Lemma optM_r32_canon l r : optM r32 l = Some r -> map widen32 r = map canon_f4 l.
Proof.
  revert r; induction l as [|b l IH]; intros r H; cbn in H.
  - injection H as <-. reflexivity.
  - unfold r32 in H at 1. destruct (round32 b) as [y|] eqn:E; [|discriminate].
    destruct (optM r32 l) as [rs|]; [|discriminate]. injection H as <-. cbn [map]. rewrite (IH rs eq_refl).
    unfold canon_f4 at 2. rewrite E. reflexivity.
Qed.

Lemma decode_f4 c l r tail pos :
  wf_scal (KNum F4) c (VFlt F4 l) = true -> optM r32 l = Some r -> e5_wf (EF4 r) = true ->
  decode_scal (KNum F4) c (e5_encode (EF4 r) ++ tail) pos =
  Ok (VFlt F4 (map canon_f4 l), tail, pos + nlen (e5_encode (EF4 r))).
Proof.
  pose proof code_lt_64 as (_ & _ & _ & _ & _ & cF4 & cF8 & _).
  intros Hwf Hd He. cbn [wf_scal] in Hwf.
  apply andb_prop in Hwf as [Hwf Hr]. apply andb_prop in Hwf as [Hwf Hc]. apply andb_prop in Hwf as [_ Hf].
  apply cnt_false_Z in Hc.
  pose proof (gen_fc_num F4) as Hfc. pose proof (gen_nbytes F4) as Hnb. pose proof (gen_scode F4) as (Hsb & Hss & Hf4 & Hf8).
  pose proof gen_flt_bounds as (Bmax & Bmin & _).
  cbn [is_unsigned is_signed e5w wbytes] in *.
  cbn [e5_wf] in He. apply andb_prop in He as [Hlen _]. apply N.leb_le in Hlen.
  cbn [e5_encode]. rewrite <- Hfc. replace (4 * len r) with (N.of_nat (num_nbytes F4) * len r) by (rewrite Hnb; reflexivity).
  assert (Hlr : length r = length l) by (apply (optM_length _ _ _ Hd)).
  assert (Hgood : forall x, In x r -> x < 2^32 /\ finite32 x = true).
  { intros x Hx. destruct (optM_r32_in _ _ Hd x Hx) as (b & Hb & Hrb). rewrite forallb_forall in Hr.
    specialize (Hr b Hb). apply andb_prop in Hr as [Hr _]. apply andb_prop in Hr as [Hlt Hfin]. apply N.ltb_lt in Hlt.
    destruct (round32_finite b x Hlt Hfin Hrb). split; assumption. }
  apply decode_num_generic.
  - intro x. rewrite Hnb. apply be_length.
  - rewrite Hnb. lia.
  - rewrite Hfc. exact cF4.
  - rewrite Hnb. exact Hlen.
  - rewrite Hf. assert (num_scode F4 = SC_f_) as -> by (apply Hf4; reflexivity).
    rewrite (mapM_ok _ (fun b => widen32 (be_val b 0))).
    2:{ intros x Hx. apply in_map_iff in Hx as (b & <- & Hb). destruct (Hgood b Hb) as [Hlt Hfin].
        unfold unpack_flt. rewrite ?Hnb; rewrite be_val_be0 by exact Hlt. rewrite finite32_not_nan by assumption. reflexivity. }
    cbn [bind]. rewrite !map_map. rewrite (map_ext_in _ (fun x => PFloat (widen32 x))).
    2:{ intros b Hb. destruct (Hgood b Hb) as [Hlt _]. rewrite ?Hnb; rewrite be_val_be0 by exact Hlt. reflexivity. }
    rewrite <- (map_map widen32 PFloat). rewrite (optM_r32_canon _ _ Hd).
    rewrite set_num_flts; try assumption.
    + cbn [bind]. f_equal. f_equal.
      rewrite nlen_app, header_len, (concat_len (num_nbytes F4)) by (intro; rewrite Hnb; apply be_length). unfold len. lia.
    + unfold zlen in *. rewrite map_length. exact Hc.
    + intros b Hb. rewrite <- (optM_r32_canon _ _ Hd) in Hb. apply in_map_iff in Hb as (x & <- & Hx).
      destruct (Hgood x Hx) as [Hlt Hfin]. destruct (widen32_in_range x Hlt Hfin) as (Hn & H1 & H2).
      split; [exact Hn|]. unfold flt_in_range. rewrite Bmax, Bmin, H1, H2. reflexivity.
Qed.

(* ---------- all scalars ---------- *)
Lemma decode_scal_ok k c v i tail pos :
  wf_scal k c v = true -> denote v = Some i -> e5_wf i = true ->
  decode_scal k c (e5_encode i ++ tail) pos = Ok (canon v, tail, pos + nlen (e5_encode i)).
Proof.
  intros Hwf Hd He.
  destruct k as [| | | |n]; destruct v as [l|l|l|l|j l|n' l|n' l|]; try discriminate Hwf.
  - injection Hd as <-. apply decode_bin; assumption.
  - injection Hd as <-. apply decode_bool; assumption.
  - destruct j; [discriminate Hwf|]. injection Hd as <-. apply decode_str; assumption.
  - destruct j; [|discriminate Hwf]. cbn [denote] in Hd.
    destruct (optM jis8_encode l) as [bs|] eqn:E; [|discriminate]. injection Hd as <-. apply decode_jis; assumption.
  - assert (n = n') as <-.
    { cbn [wf_scal] in Hwf. destruct n, n'; try discriminate Hwf; reflexivity. }
    cbn [canon]. apply decode_int; assumption.
  - assert (n = n') as <-.
    { cbn [wf_scal] in Hwf. destruct n, n'; try discriminate Hwf; reflexivity. }
    destruct n; try discriminate Hd.
    + cbn [denote] in Hd. destruct (optM r32 l) as [r|] eqn:E; [|discriminate]. injection Hd as <-.
      cbn [canon]. apply decode_f4; assumption.
    + injection Hd as <-. cbn [canon]. apply decode_f8; assumption.
Qed.

(* the encoding of a scalar starts with the header of its own class *)
Lemma scalar_encoding_shape v i k :
  kind_of v = Some (DScal k) -> denote v = Some i -> e5_wf i = true ->
  exists n p, e5_encode i = e5_header (fc_of (DScal k)) n ++ p /\ n <= MAXLEN /\ fc_of (DScal k) < 64.
Proof.
  pose proof code_lt_64 as (cL & cB & cBo & cA & cJ & cF4 & cF8 & cI & cU).
  intros Hk Hd He. destruct v as [l|l|l|l|j l|n l|n l|]; try discriminate Hk.
  - injection Hk as <-. injection Hd as <-. cbn [e5_wf] in He. apply andb_prop in He as [H _]. apply N.leb_le in H.
    eexists _, _. cbn [e5_encode fc_of]. rewrite gen_fc_binary. split; [reflexivity|]. split; assumption.
  - injection Hk as <-. injection Hd as <-. cbn [e5_wf] in He. apply N.leb_le in He.
    eexists _, _. cbn [e5_encode fc_of]. rewrite gen_fc_boolean. split; [reflexivity|]. split; assumption.
  - destruct j; injection Hk as <-; cbn [denote] in Hd.
    + destruct (optM jis8_encode l); [|discriminate]. injection Hd as <-.
      cbn [e5_wf] in He. apply andb_prop in He as [H _]. apply N.leb_le in H.
      eexists _, _. cbn [e5_encode fc_of]. rewrite gen_fc_jis8. split; [reflexivity|]. split; assumption.
    + injection Hd as <-. cbn [e5_wf] in He. apply andb_prop in He as [H _]. apply N.leb_le in H.
      eexists _, _. cbn [e5_encode fc_of]. rewrite gen_fc_string. split; [reflexivity|]. split; assumption.
  - injection Hk as <-. cbn [denote] in Hd. cbn [fc_of]. pose proof (gen_fc_num n) as Hfc.
    destruct n; cbn in Hd; try discriminate; injection Hd as <-; cbn [e5_wf] in He; apply andb_prop in He as [H _];
      apply N.leb_le in H; eexists _, _; cbn [e5_encode]; rewrite Hfc; cbn [is_unsigned is_signed e5w];
      (split; [reflexivity|]); (split; [exact H|]); auto.
  - injection Hk as <-. cbn [fc_of]. pose proof (gen_fc_num n) as Hfc.
    destruct n; cbn [denote] in Hd; try discriminate.
    + destruct (optM r32 l); [|discriminate]. injection Hd as <-. cbn [e5_wf] in He. apply andb_prop in He as [H _].
      apply N.leb_le in H. eexists _, _. cbn [e5_encode]. rewrite Hfc. cbn [is_unsigned is_signed].
      split; [reflexivity|]. split; assumption.
    + injection Hd as <-. cbn [e5_wf] in He. apply andb_prop in He as [H _].
      apply N.leb_le in H. eexists _, _. cbn [e5_encode]. rewrite Hfc. cbn [is_unsigned is_signed].
      split; [reflexivity|]. split; assumption.
Qed.

Lemma canon_scalar v k : kind_of v = Some (DScal k) -> forall t, wf v t = true ->
  match t with TScal k' c => wf_scal k' c v = true | TDyn a c => allowed_has a (DScal k) = true /\ wf_scal k c v = true | _ => False end.
Proof.
  intros Hk t Hwf. destruct v as [l|l|l|l|j l|n l|n l|]; try discriminate Hk; destruct t as [fs|e c|k' c|a c];
    try discriminate Hwf; try exact Hwf; cbn [wf] in Hwf; rewrite Hk in Hwf;
    apply andb_prop in Hwf as [H1 H3]; (split; [exact H1|exact H3]).
Qed.

(* fuel needed: two levels per nesting depth under a Dynamic (Dynamic -> Array(ANYVALUE) -> element), one less elsewhere *)
Definition need (v : val) (t : ty) : nat :=
  match t with TDyn _ _ => 2 * vdepth v | _ => 2 * vdepth v - 1 end%nat.
Lemma need_le v t n : (2 * vdepth v <= n)%nat -> (need v t <= n)%nat.
Proof. unfold need. destruct t; lia. Qed.
Lemma vdepth_pos v : (1 <= vdepth v)%nat. Proof. destruct v; cbn; lia. Qed.

(* ---------- the loops ---------- *)
Section loops.
  Variable f : nat.
  Hypothesis IHf : forall v t, (need v t <= f)%nat -> forall i, wf v t = true -> denote v = Some i -> e5_wf i = true ->
      forall tail pos, py_decode f t (e5_encode i ++ tail) pos = Ok (canon v, tail, pos + nlen (e5_encode i)).

  Lemma items_ok e : forall l r, denotes l = Some r -> forallb e5_wf r = true ->
    forallb (fun x => wf x e) l = true -> (forall x, In x l -> (2 * vdepth x <= f)%nat) ->
    forall tail pos acc,
      dec_items (py_decode f e) (length l) (List.concat (map e5_encode r) ++ tail) pos acc =
      Ok (VArr (rev acc ++ map canon l), tail, pos + nlen (List.concat (map e5_encode r))).
  Proof.
    induction l as [|x l IH]; intros r Hd He Hwf Hdep tail pos acc.
    - injection Hd as <-. cbn. rewrite app_nil_r. f_equal. f_equal. unfold nlen; cbn; lia.
    - rewrite denotes_cons in Hd. destruct (denote x) as [y|] eqn:Ex; [|discriminate].
      destruct (denotes l) as [ys|] eqn:Eys; [|discriminate]. injection Hd as <-.
      cbn [forallb] in He, Hwf. apply andb_prop in He as [Hy Hys]. apply andb_prop in Hwf as [Hwx Hwl].
      cbn [length dec_items map List.concat]. rewrite <- app_assoc.
      rewrite (IHf x e (need_le _ _ _ (Hdep x (or_introl eq_refl))) y Hwx Ex Hy). cbn [bind].
      rewrite (IH ys eq_refl Hys Hwl (fun z Hz => Hdep z (or_intror Hz))).
      f_equal. f_equal; [f_equal|].
      + cbn [rev map]. rewrite <- app_assoc. reflexivity.
      + rewrite nlen_app. lia.
  Qed.

  Lemma fields_ok : forall l fs r, denotes l = Some r -> forallb e5_wf r = true ->
    wf (VRec l) (TRec fs) = true -> (forall x, In x l -> (2 * vdepth x <= f)%nat) ->
    forall tail pos acc,
      dec_fields (py_decode f) (length l) fs (List.concat (map e5_encode r) ++ tail) pos acc =
      Ok (VRec (rev acc ++ map canon l), tail, pos + nlen (List.concat (map e5_encode r))).
  Proof.
    induction l as [|x l IH]; intros fs r Hd He Hwf Hdep tail pos acc.
    - injection Hd as <-. destruct fs; [|discriminate Hwf]. cbn. rewrite app_nil_r. f_equal. f_equal. unfold nlen; cbn; lia.
    - destruct fs as [|[fname ft] fs]; [discriminate Hwf|].
      rewrite denotes_cons in Hd. destruct (denote x) as [y|] eqn:Ex; [|discriminate].
      destruct (denotes l) as [ys|] eqn:Eys; [|discriminate]. injection Hd as <-.
      cbn [forallb] in He. apply andb_prop in He as [Hy Hys].
      cbn [wf snd] in Hwf. apply andb_prop in Hwf as [Hwx Hwl].
      cbn [length dec_fields map List.concat]. rewrite <- app_assoc.
      rewrite (IHf x ft (need_le _ _ _ (Hdep x (or_introl eq_refl))) y Hwx Ex Hy). cbn [bind].
      rewrite (IH fs ys eq_refl Hys Hwl (fun z Hz => Hdep z (or_intror Hz))).
      f_equal. f_equal; [f_equal|].
      + cbn [rev map]. rewrite <- app_assoc. reflexivity.
      + rewrite nlen_app. lia.
  Qed.
End loops.

Lemma vdepth_in x l : In x l -> (vdepth x <= fold_right (fun x m => Nat.max (vdepth x) m) O l)%nat.
Proof. induction l as [|y l IH]; intro H; [destruct H|]. destruct H as [<-|H]; cbn; [lia|]. specialize (IH H). lia. Qed.

Lemma wf_rec_length l fs : wf (VRec l) (TRec fs) = true -> length l = length fs.
Proof.
  revert fs; induction l as [|x l IH]; intros [|f fs] H; try discriminate H; [reflexivity|].
  cbn [wf] in H. apply andb_prop in H as [_ H]. cbn [length]. f_equal. apply IH. exact H.
Qed.

(* ---------- C01: decode (encode v) = v, consuming exactly the encoding ---------- *)
Theorem roundtrip_gen : forall fuel v t, (need v t <= fuel)%nat ->
  forall i, wf v t = true -> denote v = Some i -> e5_wf i = true ->
  forall tail pos, py_decode fuel t (e5_encode i ++ tail) pos = Ok (canon v, tail, pos + nlen (e5_encode i)).
Proof.
  pose proof code_lt_64 as (cL & _).
  pose proof gen_fc_list as [fA fL].
  induction fuel as [|f IHf]; intros v t Hfuel i Hwf Hd He tail pos.
  { pose proof (vdepth_pos v). unfold need in Hfuel. destruct t; [| | |]; try lia.
    (* fuel 0 is only possible for a non-Dynamic type at depth 1... which still needs 1 *) }
  destruct (kind_of v) as [[|k]|] eqn:Hk.
  - (* array *)
    destruct v as [l|l|l|l|j l|n l|n l|]; try discriminate Hk; [|destruct j; discriminate Hk].
    rewrite denote_arr in Hd. destruct (denotes l) as [r|] eqn:Er; [|discriminate]. injection Hd as <-.
    cbn [e5_wf] in He. apply andb_prop in He as [Hlen Hall]. apply N.leb_le in Hlen.
    assert (Hlr : len r = nlen l) by (unfold len, nlen; rewrite (denotes_length _ _ Er); reflexivity).
    destruct t as [fs|e c|k' c|a c]; try discriminate Hwf; [| destruct k'; discriminate Hwf |].
    + (* Array(e) *)
      assert (Hdep : forall x, In x l -> (2 * vdepth x <= f)%nat).
      { intros x Hx. pose proof (vdepth_in x l Hx). unfold need in Hfuel. cbn [vdepth] in Hfuel. lia. }
      cbn [wf] in Hwf.
      cbn [py_decode e5_encode]. rewrite <- app_assoc, header_decode by assumption.
      rewrite fA, N.eqb_refl. cbn [bind].
      assert (Hn : N.of_nat (length (List.concat (map e5_encode r) ++ tail)) <? len r = false).
      { apply N.ltb_ge. rewrite app_length. rewrite Hlr. unfold nlen.
        clear - Er. revert r Er. induction l as [|x l IH]; intros r Er; [cbn; lia|].
        rewrite denotes_cons in Er. destruct (denote x) as [y|]; [|discriminate]. destruct (denotes l) as [ys|]; [|discriminate].
        injection Er as <-. specialize (IH ys eq_refl). cbn [map List.concat length]. rewrite app_length.
        assert (1 <= length (e5_encode y))%nat by (destruct y; cbn; lia). lia. }
      rewrite Hn. rewrite Hlr. unfold nlen at 1. rewrite Nat2N.id.
      rewrite (items_ok f IHf e l r Er Hall Hwf Hdep). cbn [rev app canon].
      f_equal. f_equal. rewrite nlen_app, header_len. lia.
    + (* Dynamic holding a list: decoded as Array(ANYVALUE) one level down *)
      cbn [wf] in Hwf. apply andb_prop in Hwf as [Ha Hwl].
      cbn [py_decode]. cbn [e5_encode]. rewrite <- app_assoc, header_decode by assumption. cbn [bind].
      change code_L with (fc_of DArr) at 1. rewrite gen_dyn_table. rewrite Ha. cbn [negb].
      rewrite app_assoc. change (e5_header code_L (len r) ++ List.concat (map e5_encode r)) with (e5_encode (EL r)).
      apply (IHf (VArr l) (TArr TAny (-1))).
      * unfold need in *. lia.
      * cbn [wf]. exact Hwl.
      * rewrite denote_arr, Er. reflexivity.
      * cbn [e5_wf]. apply andb_true_intro. split; [apply N.leb_le|]; assumption.
  - (* scalar *)
    pose proof (canon_scalar v k Hk t Hwf) as Ht.
    destruct t as [fs|e c|k' c|a c]; try contradiction.
    + cbn [py_decode]. apply decode_scal_ok; assumption.
    + destruct Ht as (Ha & Hws).
      destruct (scalar_encoding_shape v i k Hk Hd He) as (n & p & Henc & Hn & Hc).
      cbn [py_decode]. rewrite Henc at 1. rewrite <- app_assoc, header_decode by assumption. cbn [bind].
      rewrite gen_dyn_table.
      rewrite Ha. cbn [negb]. apply decode_scal_ok; assumption.
  - (* record / none *)
    destruct v as [l|l|l|l|j l|n l|n l|]; try discriminate Hk; [|destruct j; discriminate Hk|].
    2:{ destruct t as [fs|e c|k' c|a c]; try discriminate Hwf. destruct k'; discriminate Hwf. }
    destruct t as [fs|e c|k' c|a c]; try discriminate Hwf.
    2:{ destruct k'; discriminate Hwf. }
    rewrite denote_rec in Hd. destruct (denotes l) as [r|] eqn:Er; [|discriminate]. injection Hd as <-.
    cbn [e5_wf] in He. apply andb_prop in He as [Hlen Hall]. apply N.leb_le in Hlen.
    assert (Hlr : len r = nlen l) by (unfold len, nlen; rewrite (denotes_length _ _ Er); reflexivity).
    assert (Hdep : forall x, In x l -> (2 * vdepth x <= f)%nat).
    { intros x Hx. pose proof (vdepth_in x l Hx). unfold need in Hfuel. cbn [vdepth] in Hfuel. lia. }
    cbn [py_decode e5_encode]. rewrite <- app_assoc, header_decode by assumption.
    rewrite fL, N.eqb_refl. cbn [bind].
    pose proof (wf_rec_length l fs Hwf) as Hlf.
    assert (Hn : nlen fs <? len r = false) by (apply N.ltb_ge; rewrite Hlr; unfold nlen; lia).
    rewrite Hn, Hlr. unfold nlen at 1. rewrite Nat2N.id.
    rewrite (fields_ok f IHf l fs r Er Hall Hwf Hdep). cbn [rev app canon].
    f_equal. f_equal. rewrite nlen_app, header_len. lia.
Qed.

Theorem roundtrip : forall fuel v, (2 * vdepth v <= fuel)%nat ->
  forall t i, wf v t = true -> denote v = Some i -> e5_wf i = true ->
  forall tail pos, py_decode fuel t (e5_encode i ++ tail) pos = Ok (canon v, tail, pos + nlen (e5_encode i)).
Proof. intros fuel v H t i. apply roundtrip_gen. apply need_le. exact H. Qed.

(* when every F4 double is exactly a binary32 value, decode returns the very same value *)
Lemma canon_exact : forall v, exact32 v = true -> canon v = v.
Proof.
  induction v as [l IH|l IH|l|l|j l|k l|k l|] using val_ind'; intro H; try reflexivity.
  - cbn [canon exact32] in *. f_equal. rewrite forallb_forall in H. rewrite <- (map_id l) at 2.
    apply map_ext_in. intros x Hx. rewrite Forall_forall in IH. apply IH; auto.
  - cbn [canon exact32] in *. f_equal. rewrite forallb_forall in H. rewrite <- (map_id l) at 2.
    apply map_ext_in. intros x Hx. rewrite Forall_forall in IH. apply IH; auto.
  - destruct k; try reflexivity. cbn [canon exact32] in *. f_equal. rewrite forallb_forall in H.
    rewrite <- (map_id l) at 2. apply map_ext_in. intros b Hb. specialize (H b Hb). unfold canon_f4.
    destruct (round32 b) as [r|]; [|discriminate]. apply N.eqb_eq. exact H.
Qed.
