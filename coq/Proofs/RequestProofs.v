(* Proofs/RequestProofs.v — with the steps of send_and_waitfor_response as the source has them (Gen/Request.v), a call only ever returns the
   reply that carries the system bytes of its own request, or nothing: for any number of calls of one thread, any arrivals (late replies,
   duplicates, anything with the system bytes of an earlier request), any timeouts and failing sends, in any order. *)
From Coq Require Import Lia.
From SG Require Import Base.Prelude Gen.Request Model.Request.
Local Open Scope nat_scope.

Definition P0 := request_ops.
Definition P1 := [QRegister true; QSend; QOnFailure [QRemove; QReturnNone]; QWait; QRemove; QReturnResponse].
Definition P2 := [QSend; QOnFailure [QRemove; QReturnNone]; QWait; QRemove; QReturnResponse].
Definition P4 := [QWait; QRemove; QReturnResponse].
Definition P5 := [QRemove; QReturnResponse].
Definition P6 := [QReturnResponse].
Definition F1 := [QRemove; QReturnNone].
Definition F2 := [QReturnNone].

Definition resp_ok (s : rq) : Prop := resp s = None \/ resp s = Some (cur_id s).
Definition q_own (s : rq) : Prop := Forall (fun x => x = cur_id s) (q s).

Definition rinv (s : rq) : Prop :=
  Forall res_ok (results s) /\
  ( ((pc s = P0 \/ pc s = P1 \/ pc s = [] \/ pc s = F2) /\ reg s = None)
    \/ (pc s = P6 /\ reg s = None /\ resp_ok s)
    \/ ((pc s = P2 \/ pc s = P4 \/ pc s = F1) /\ reg s = Some (cur_id s) /\ q_own s)
    \/ (pc s = P5 /\ reg s = Some (cur_id s) /\ q_own s /\ resp_ok s) ).

Lemma start_pc calls : pc (rstart request_ops calls) = P0 \/ pc (rstart request_ops calls) = [].
Proof. destruct calls; [right|left]; reflexivity. Qed.

Lemma finish_inv s r : Forall res_ok (results s) -> (r = None \/ r = Some (cur_id s)) -> reg s = None -> rinv (finish request_ops s r).
Proof.
  intros HR Hr Hg. split.
  - cbn [finish results]. apply Forall_app. split; [exact HR|]. constructor; [exact Hr|constructor].
  - left. split; [|exact Hg]. cbn [finish pc]. destruct (todo s); [right; right; left|left]; reflexivity.
Qed.

Lemma rinv_step s l : rinv s -> rinv (rstep request_ops s l).
Proof.
  intros [HR H]. destruct l.
  - (* the thread takes its next step *)
    destruct H as [[[E|[E|[E|E]]] Hg] | [[E [Hg Hp]] | [[[E|[E|E]] [Hg Hq]] | [E [Hg [Hq Hp]]]]]]; unfold rstep; rewrite E; cbn [P0 P1 P2 P4 P5 P6 F1 F2 request_ops].
    + split; [exact HR|]. left. split; [right; left; reflexivity|exact Hg].
    + split; [exact HR|]. right. right. left. split; [left; reflexivity|]. split; [reflexivity|constructor].
    + split; [exact HR|]. left. split; [right; right; left; exact E|exact Hg].
    + apply finish_inv; [exact HR|left; reflexivity|exact Hg].
    + apply finish_inv; [exact HR|exact Hp|exact Hg].
    + split; [exact HR|]. right. right. left. split; [right; left; reflexivity|]. split; [exact Hg|exact Hq].
    + destruct (q s) as [|x rest] eqn:Q.
      * split; [exact HR|]. right. right. left. split; [right; left; exact E|]. split; [exact Hg|]. unfold q_own. rewrite Q. constructor.
      * split; [exact HR|]. right. right. right. unfold q_own in Hq. rewrite Q in Hq. inversion Hq as [|? ? Hx Hrest]; subst.
        split; [reflexivity|]. split; [exact Hg|]. split; [exact Hrest|]. right. reflexivity.
    + split; [exact HR|]. left. split; [right; right; right; reflexivity|reflexivity].
    + split; [exact HR|]. right. left. split; [reflexivity|]. split; [reflexivity|exact Hp].
  - (* the send fails *)
    destruct H as [[[E|[E|[E|E]]] Hg] | [[E [Hg Hp]] | [[[E|[E|E]] [Hg Hq]] | [E [Hg [Hq Hp]]]]]]; unfold rstep; rewrite E; cbn [P0 P1 P2 P4 P5 P6 F1 F2 request_ops];
      try (split; [exact HR|]; first [ solve [left; split; [auto 6|exact Hg]] | solve [right; left; split; [exact E|split; [exact Hg|exact Hp]]]
                                     | solve [right; right; left; split; [auto 6|split; [exact Hg|exact Hq]]]
                                     | solve [right; right; right; split; [exact E|split; [exact Hg|split; [exact Hq|exact Hp]]]] ]).
  - (* something arrives *)
    unfold rstep. destruct (existsb (Nat.eqb k) (sent s)); [|split; [exact HR|exact H]].
    destruct H as [[Hpc Hg] | [[E [Hg Hp]] | [[Hpc [Hg Hq]] | [E [Hg [Hq Hp]]]]]]; rewrite Hg.
    + unfold rinv, resp_ok, q_own; cbn [results pc reg q cur_id resp]. split; [exact HR|]. left. split; [exact Hpc|reflexivity].
    + unfold rinv, resp_ok, q_own; cbn [results pc reg q cur_id resp]. split; [exact HR|]. right. left. split; [exact E|]. split; [reflexivity|exact Hp].
    + destruct (Nat.eqb_spec (cur_id s) k) as [<-|N]; unfold rinv, resp_ok, q_own in *; cbn [results pc reg q cur_id resp];
        (split; [exact HR|]; right; right; left; split; [exact Hpc|]; split; [reflexivity|]).
      * apply Forall_app. split; [exact Hq|]. constructor; [reflexivity|constructor].
      * exact Hq.
    + destruct (Nat.eqb_spec (cur_id s) k) as [<-|N]; unfold rinv, resp_ok, q_own in *; cbn [results pc reg q cur_id resp];
        (split; [exact HR|]; right; right; right; split; [exact E|]; split; [reflexivity|]; split; [|exact Hp]).
      * apply Forall_app. split; [exact Hq|]. constructor; [reflexivity|constructor].
      * exact Hq.
  - (* the timer runs out *)
    destruct H as [[[E|[E|[E|E]]] Hg] | [[E [Hg Hp]] | [[[E|[E|E]] [Hg Hq]] | [E [Hg [Hq Hp]]]]]]; unfold rstep; rewrite E; cbn [P0 P1 P2 P4 P5 P6 F1 F2 request_ops];
      try (split; [exact HR|]; first [ solve [left; split; [auto 6|exact Hg]] | solve [right; left; split; [exact E|split; [exact Hg|exact Hp]]]
                                     | solve [right; right; left; split; [auto 6|split; [exact Hg|exact Hq]]]
                                     | solve [right; right; right; split; [exact E|split; [exact Hg|split; [exact Hq|exact Hp]]]] ]).
    destruct (q s) eqn:Q.
    + split; [exact HR|]. right. right. right. split; [reflexivity|]. split; [exact Hg|]. split; [constructor|]. left. reflexivity.
    + split; [exact HR|]. right. right. left. split; [right; left; exact E|]. split; [exact Hg|exact Hq].
Qed.

Theorem requests_answered_by_their_own_replies calls sched :
  Forall res_ok (results (rrun request_ops (rstart request_ops calls) sched)).
Proof.
  assert (I : rinv (rstart request_ops calls)).
  { split; [constructor|]. left. split; [|reflexivity]. destruct (start_pc calls) as [E|E]; rewrite E; auto. }
  unfold rrun. generalize dependent (rstart request_ops calls). induction sched as [|l r IH]; intros s I; [apply I|].
  cbn [fold_left]. apply IH, rinv_step, I.
Qed.

(* registering behind the send: the reply is there before the waiter, it goes to the application and the call comes back empty *)
Lemma register_after_send_refuted :
  let s := rrun register_after_send (rstart register_after_send 1) [RStep; RStep; RArrive 1; RStep; RTimeout; RStep; RStep] in
  results s = [(1, None)] /\ rapp s = [1].
Proof. vm_compute. split; reflexivity. Qed.

(* a waiter that is kept from one request to the next: the second copy of the first reply answers the second request *)
Lemma reused_waiter_refuted :
  let s := rrun reused_waiter (rstart reused_waiter 2) [RStep; RStep; RStep; RArrive 1; RArrive 1; RStep; RStep; RStep; RStep; RStep; RStep; RStep; RStep; RStep] in
  results s = [(1, Some 1); (2, Some 1)].
Proof. vm_compute. reflexivity. Qed.
