(* Proofs/LifecycleProofs.v — what the protocol object does when its connection comes up and when it ends, as read statement by statement from
   the source (Gen/Lifecycle.v), carried out on the model's state, is the model's connect and close step (Model/Endpoint.v); and the orders the
   repairs D8 and D62 established are orders of these regenerated sequences. *)
From SG Require Import Base.Prelude Base.Kinds Spec.E37Session Model.StateMachine Model.Secs2 Model.Frames Model.HsmsRx Model.HsmsSession Model.Endpoint
  Gen.Machines Gen.Lifecycle.
Local Open Scope Z_scope.
Local Open Scope string_scope.

(* carrying a lifecycle step out on the model's state: the session (state machine, open transactions, closing flag), the receive buffer, what
   goes out.  Threads, the connected flag and the events announced to the application have no state in the sequential model. *)
Fixpoint run_life (e : ep) (ops : list life_op) : ep * list sout :=
  match ops with
  | [] => (e, [])
  | LTransition n :: r => run_life {| e_hs := fst (request (e_hs e) n); e_rx := e_rx e |} r
  | LCancelOpenTransactions :: r =>
      run_life {| e_hs := {| h_sm := h_sm (e_hs e); h_queues := []; h_closing := h_closing (e_hs e) |}; e_rx := e_rx e |} r
  | LClearReceiveBuffer :: r => run_life {| e_hs := e_hs e; e_rx := rx_init |} r
  | LSendSeparate :: r => let '(e1, o) := run_life e r in (e1, OutCtrl ST_SEPARATE 0 :: o)
  | LFire name :: r =>
      (* "disconnected" is the last thing: the connection object has cleared its own closing flag by then *)
      if String.eqb name "disconnected"
      then run_life {| e_hs := {| h_sm := h_sm (e_hs e); h_queues := h_queues (e_hs e); h_closing := false |}; e_rx := e_rx e |} r
      else run_life e r
  | _ :: r => run_life e r
  end.

Theorem connect_is_the_code e :
  ep_step e LConnect = run_life e hsms_on_connected_ops.
Proof.
  unfold ep_step, hsms_on_connected_ops. cbn [run_life String.eqb Ascii.eqb Bool.eqb hs_step].
  destruct (request (e_hs e) "connect") as [s1 r]. reflexivity.
Qed.

Theorem close_is_the_code e :
  is_connected (e_hs e) = true ->
  ep_step e LClose = run_life e (hsms_on_disconnecting_ops ++ hsms_on_disconnected_ops).
Proof.
  intro C. unfold ep_step. rewrite C. unfold hsms_on_disconnecting_ops, hsms_on_disconnected_ops.
  cbn [app run_life String.eqb Ascii.eqb Bool.eqb hs_step e_hs e_rx h_sm h_queues h_closing fst].
  destruct (request (e_hs e) "disconnect") as [s1 r]. reflexivity.
Qed.

(* position of the first occurrence *)
Fixpoint pos (p : life_op -> bool) (l : list life_op) : option nat :=
  match l with [] => None | x :: r => if p x then Some O else option_map S (pos p r) end.
Definition before (p q : life_op -> bool) (l : list life_op) : bool :=
  match pos p l, pos q l with Some a, Some b => (a <? b)%nat | _, _ => false end.
Definition is_transition (n : string) (o : life_op) := match o with LTransition m => String.eqb m n | _ => false end.
Definition is_fire (n : string) (o : life_op) := match o with LFire m => String.eqb m n | _ => false end.

(* D8: the session leaves NOT CONNECTED before the receive / dispatch threads run; D44 / D62 / C09: when "disconnected" is announced the threads
   are stopped, nobody waits for a reply any more, the send queue is resolved and the receive buffer is empty *)
Theorem lifecycle_orders :
  before (is_transition "connect") (fun o => match o with LStartThreads => true | _ => false end) hsms_on_connected_ops = true /\
  before (is_transition "disconnect") (is_fire "disconnected") hsms_on_disconnected_ops = true /\
  before (fun o => match o with LStopThreads => true | _ => false end) (is_fire "disconnected") hsms_on_disconnected_ops = true /\
  before (fun o => match o with LCancelSendQueue => true | _ => false end) (is_fire "disconnected") hsms_on_disconnected_ops = true /\
  before (fun o => match o with LCancelOpenTransactions => true | _ => false end) (is_fire "disconnected") hsms_on_disconnected_ops = true /\
  before (fun o => match o with LClearReceiveBuffer => true | _ => false end) (is_fire "disconnected") hsms_on_disconnected_ops = true.
Proof. repeat split; vm_compute; reflexivity. Qed.
