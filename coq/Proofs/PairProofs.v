(* Proofs/PairProofs.v — C20 (establishment): the composed model of a host and an equipment handler has finitely many
   reachable states; they are enumerated, the enumeration is shown closed under every event, and the claim is decided on
   each of them. *)
From SG Require Import Base.Prelude Spec.E37Session Spec.E30Comm Model.StateMachine Model.HsmsSession Model.GemComm Model.Pair Gen.Machines.
Open Scope Z_scope.

Definition gc_eqb (a b : gc) : bool :=
  (g_cur a =? g_cur b)%nat && Bool.eqb (g_link a) (g_link b) && Bool.eqb (g_t3 a) (g_t3 b) && Bool.eqb (g_delay a) (g_delay b).
Definition side_eqb (a b : side) : bool := (d_cur a =? d_cur b)%nat && Bool.eqb (d_wait a) (d_wait b) && gc_eqb (d_comm a) (d_comm b).
Definition pair_eqb (a b : pair) : bool := side_eqb (pa a) (pa b) && side_eqb (pp a) (pp b) && list_eqb msg_eqb (a2p a) (a2p b) && list_eqb msg_eqb (p2a a) (p2a b).

Lemma msgs_eq a b : list_eqb msg_eqb a b = true -> a = b.
Proof.
  revert b. induction a as [|x a IH]; destruct b as [|y b]; cbn; try discriminate; [reflexivity|]. rewrite andb_true_iff. intros [E1 E2].
  f_equal; [destruct x, y; try discriminate E1; reflexivity|apply IH; exact E2].
Qed.
Lemma gc_eq a b : gc_eqb a b = true -> a = b.
Proof.
  destruct a, b. unfold gc_eqb; cbn. rewrite !andb_true_iff. intros [[[A B] C] D].
  apply Nat.eqb_eq in A. apply Bool.eqb_prop in B, C, D. subst. reflexivity.
Qed.
Lemma side_eq a b : side_eqb a b = true -> a = b.
Proof.
  destruct a, b. unfold side_eqb; cbn. rewrite !andb_true_iff. intros [[A B] C].
  apply Nat.eqb_eq in A. apply Bool.eqb_prop in B. apply gc_eq in C. subst. reflexivity.
Qed.
Lemma pair_eq a b : pair_eqb a b = true -> a = b.
Proof.
  destruct a, b. unfold pair_eqb; cbn. rewrite !andb_true_iff. intros [[[A B] C] D].
  apply side_eq in A, B. apply msgs_eq in C, D. subst. reflexivity.
Qed.

Definition events : list pev := [EnA; EnP; DisA; DisP; Conn; DelA2P; DelP2A].
Definition memb (p : pair) (l : list pair) : bool := existsb (pair_eqb p) l.
Fixpoint add_new (cands visited : list pair) : list pair * list pair :=   (* (new ones, visited extended) *)
  match cands with
  | [] => ([], visited)
  | c :: r => if memb c visited then add_new r visited else let '(n, v) := add_new r (visited ++ [c]) in (c :: n, v)
  end.
Fixpoint bfs (fuel : nat) (frontier visited : list pair) : list pair :=
  match fuel with
  | O => visited
  | S f => match frontier with
           | [] => visited
           | _ => let '(next, v) := add_new (flat_map (fun s => map (pstep s) events) frontier) visited in bfs f next v
           end
  end.
Definition reachable : list pair := bfs 60 [pair0] [pair0].

Lemma reachable_closed : forallb (fun s => forallb (fun e => memb (pstep s e) reachable) events) reachable = true.
Proof. vm_compute. reflexivity. Qed.

Lemma memb_in p l : memb p l = true -> In p l.
Proof. unfold memb. rewrite existsb_exists. intros [q [Hin E]]. apply pair_eq in E. subst. exact Hin. Qed.

Lemma event_in e : In e events. Proof. destruct e; cbn; tauto. Qed.

Theorem all_reachable es : forall p, In p reachable -> In (prun p es) reachable.
Proof.
  induction es as [|e r IH]; intros p Hp; cbn [prun fold_left]; [exact Hp|]. apply IH.
  pose proof reachable_closed as C. rewrite forallb_forall in C. specialize (C p Hp). rewrite forallb_forall in C.
  apply memb_in. exact (C e (event_in e)).
Qed.

Lemma pair0_reachable : In pair0 reachable.
Proof. apply memb_in. vm_compute. reflexivity. Qed.

(* the claim, decided on every reachable state *)
Lemma settles_table : forallb (fun s => negb (enabled (pa s) && enabled (pp s)) || settles 16 s) reachable = true.
Proof. vm_compute. reflexivity. Qed.

(* after ANY history of enabling, disabling, connecting and deliveries in any order: if both sides are enabled, then
   whatever the order of the remaining deliveries, both reach SELECTED and COMMUNICATING within 16 steps *)
Theorem both_reach_communicating es :
  let p := prun pair0 es in enabled (pa p) = true -> enabled (pp p) = true -> settles 16 p = true.
Proof.
  cbv zeta. intros Ha Hp. pose proof (all_reachable es pair0 pair0_reachable) as R.
  pose proof settles_table as T. rewrite forallb_forall in T. specialize (T _ R). cbv beta in T.
  apply orb_true_iff in T as [T|T]; [|exact T]. exfalso. apply negb_true_iff in T. rewrite Ha, Hp in T. discriminate T.
Qed.

(* communication is never reported established on a side whose session is not SELECTED *)
Lemma comm_needs_selected_table : forallb (fun s => (negb (communicating (pa s)) || selected (pa s)) && (negb (communicating (pp s)) || selected (pp s))) reachable = true.
Proof. vm_compute. reflexivity. Qed.
Theorem communicating_implies_selected es :
  let p := prun pair0 es in (communicating (pa p) = true -> selected (pa p) = true) /\ (communicating (pp p) = true -> selected (pp p) = true).
Proof.
  cbv zeta. pose proof (all_reachable es pair0 pair0_reachable) as R. pose proof comm_needs_selected_table as T.
  rewrite forallb_forall in T. specialize (T _ R). cbv beta in T. apply andb_true_iff in T as [A B]. split; intro H; [rewrite H in A|rewrite H in B]; cbn [negb orb] in *; assumption.
Qed.
