(* Proofs/ReasmProofs.v — the reassembly key and the start rule of Model/Frames.v are the ones the code has (Gen/Reasm.v, regenerated from
   Protocol._add_message_block): the model's one-number key tells two in-range headers apart exactly when the code's key tuple does. *)
From Coq Require Import Lia ZifyBool.
From SG Require Import Base.Prelude Base.Kinds Gen.ProtoConsts Gen.Reasm Model.Secs2 Model.Frames Proofs.FramesProofs.
Open Scope Z_scope.

(* a header field of the model by the name the code uses for it *)
Definition field_of (name : string) (h : shdr) : option Z :=
  if String.eqb name "system" then Some (s_system h)
  else if String.eqb name "stream" then Some (s_stream h)
  else if String.eqb name "function" then Some (s_function h)
  else if String.eqb name "require_response" then Some (if s_w h then 1 else 0)
  else if String.eqb name "device_id" then Some (s_device h)
  else if String.eqb name "block" then Some (s_block h)
  else if String.eqb name "from_equipment" then Some (if s_r h then 1 else 0)
  else if String.eqb name "last_block" then Some (if s_e h then 1 else 0)
  else None.
Definition key_tuple (fields : list string) (h : shdr) : list (option Z) := map (fun f => field_of f h) fields.

Lemma msg_key_is_the_code_key h1 h2 :
  hdr_fields_ok h1 -> hdr_fields_ok h2 ->
  (msg_key h1 = msg_key h2 <-> key_tuple reasm_key_fields h1 = key_tuple reasm_key_fields h2).
Proof.
  unfold hdr_fields_ok, msg_key, key_tuple, reasm_key_fields. cbn [map field_of String.eqb Ascii.eqb Bool.eqb].
  intros H1 H2. split.
  - intro E. assert (s_system h1 = s_system h2 /\ s_stream h1 = s_stream h2 /\ s_function h1 = s_function h2 /\ s_w h1 = s_w h2) as (-> & -> & -> & ->).
    { destruct (s_w h1), (s_w h2); repeat split; lia. }
    reflexivity.
  - intro E. injection E as -> -> -> Ew. destruct (s_w h1), (s_w h2); try discriminate Ew; reflexivity.
Qed.

Lemma starts_message_is_the_code_rule b :
  starts_message b = existsb (fun v => s_block (sb_hdr b) =? v) reasm_start_blocks.
Proof. unfold starts_message, reasm_start_blocks. cbn [existsb]. rewrite orb_false_r. reflexivity. Qed.
