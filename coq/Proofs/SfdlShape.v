(* Proofs/SfdlShape.v — C19: every well-formed structure definition of the documented grammar is read with the documented shape.
   atoks: the tokens of a definition; validate / gen_sfdl / build of Model/Sfdl.v on those tokens, for every nesting. *)
From Coq Require Import Ascii.
From SG Require Import Base.Prelude Base.Kinds Spec.SfdlDoc Model.Secs2 Model.Sfdl Gen.DataItems Proofs.SfdlProofs.
From Coq Require Import Lia.
Open Scope N_scope.

Definition tx (s : string) : text := text_of_string s.

(* ---------- the tokens of a definition ---------- *)
Fixpoint atoks (a : sast) : list text :=
  match a with
  | AItem n => [[cp_lt]; tx n; [cp_gt]]
  | AList nm ms => [cp_lt] :: T_L :: (match nm with Some n => [tx n] | None => [] end) ++
                   (fix go (l : list sast) : list text := match l with [] => [] | x :: r => atoks x ++ go r end) ms ++ [[cp_gt]]
  end.
Definition aflat (l : list sast) : list text := flat_map atoks l.
Lemma atoks_list nm ms : atoks (AList nm ms) =
  ([cp_lt] :: T_L :: (match nm with Some n => [tx n] | None => [] end) ++ aflat ms ++ [[cp_gt]])%list.
Proof. reflexivity. Qed.

(* well-formed: data item names are catalogue names written as the catalogue writes them; a list name is a word that is not a bracket;
   every list has at least one member (an empty list is not in the documented grammar) *)
Definition name_ok (n : string) : bool :=
  match upper (tx n) with Ok u => text_eqb u (tx n) | Err _ => false end &&
  match item_ty (tx n) with Some _ => true | None => false end && negb (text_eqb (tx n) T_L).
Definition lname_ok (n : string) : bool := negb (is_bracket (tx n)).
Fixpoint ast_ok (a : sast) : bool :=
  match a with
  | AItem n => name_ok n
  | AList nm ms => match nm with Some n => lname_ok n | None => true end && negb (match ms with [] => true | _ => false end) &&
                   (fix go (l : list sast) : bool := match l with [] => true | x :: r => ast_ok x && go r end) ms
  end.
Lemma ast_ok_list nm ms : ast_ok (AList nm ms) =
  match nm with Some n => lname_ok n | None => true end && negb (match ms with [] => true | _ => false end) && forallb ast_ok ms.
Proof. reflexivity. Qed.

Section sast_ind'.
  Variable P : sast -> Prop.
  Hypothesis HItem : forall n, P (AItem n).
  Hypothesis HList : forall nm ms, Forall P ms -> P (AList nm ms).
  Fixpoint sast_ind' (a : sast) : P a :=
    match a with
    | AItem n => HItem n
    | AList nm ms => HList nm ms ((fix go (l : list sast) : Forall P l :=
                       match l with [] => Forall_nil P | x :: r => Forall_cons x (sast_ind' x) (go r) end) ms)
    end.
End sast_ind'.

Lemma text_eqb_eq a b : text_eqb a b = true -> a = b.
Proof.
  unfold text_eqb. revert b. induction a as [|x a IH]; destruct b as [|y b]; cbn [list_eqb]; try discriminate; [reflexivity|].
  intro H. apply andb_prop in H as [H1 H2]. apply N.eqb_eq in H1. subst. f_equal. apply IH. exact H2.
Qed.
Lemma text_eqb_refl a : text_eqb a a = true.
Proof. unfold text_eqb. induction a as [|x a IH]; [reflexivity|]. cbn [list_eqb]. rewrite N.eqb_refl, IH. reflexivity. Qed.

Definition ty_tok (a : sast) : text := match a with AItem n => tx n | AList _ _ => T_L end.
Lemma atoks_head a : exists tl, atoks a = [cp_lt] :: ty_tok a :: tl.
Proof. destruct a as [n|nm ms]; eexists; reflexivity. Qed.
Lemma aflat_len l : (length l <= length (aflat l))%nat.
Proof.
  induction l as [|x l IH]; [apply le_n|]. unfold aflat in *. cbn [flat_map length]. rewrite app_length.
  destruct (atoks_head x) as [tl ->]. cbn [length]. lia.
Qed.

Lemma name_ok_parts n : name_ok n = true ->
  upper (tx n) = Ok (tx n) /\ (exists t, item_ty (tx n) = Some t) /\ text_eqb (tx n) T_L = false /\ attr_exists (tx n) = true.
Proof.
  unfold name_ok. intro H. apply andb_prop in H as [H H3]. apply andb_prop in H as [H1 H2]. apply negb_true_iff in H3.
  destruct (upper (tx n)) as [u|] eqn:Eu; [|discriminate]. apply text_eqb_eq in H1. subst u.
  destruct (item_ty (tx n)) as [t|] eqn:Et; [|discriminate].
  repeat split; [exists t; reflexivity|exact H3|].
  unfold item_ty in Et. unfold attr_exists.
  destruct (find (fun p => text_eqb (text_of_string (fst p)) (tx n)) data_item_table) as [p|] eqn:Ef; [|discriminate].
  apply find_some in Ef as [Hin Hp]. apply orb_true_iff. left. apply existsb_exists. exists p. split; assumption.
Qed.

(* ---------- validation ---------- *)
Definition vitems (v : list text -> res (list text)) :=
  fix items (g : nat) (els : list text) : res (list text) :=
    match g with
    | O => Err EOutOfFuel
    | S g' =>
      match els with
      | [] => Err EValue
      | y :: _ =>
        if negb (is_bracket y) then Err EValue
        else if text_eqb y [cp_gt] then Ok els
        else do rest <- v els; items g' rest
      end
    end.
Lemma validate_S f open item r1 : validate (S f) (open :: item :: r1) =
  if negb (text_eqb open [cp_lt]) then Err EValue else
  do r2 <- (if negb (text_eqb item T_L) then (if attr_exists item then Ok r1 else Err EValue)
            else match r1 with
                 | [] => Err EValue
                 | x :: r1' => vitems (validate f) (S (length r1)) (if is_bracket x then r1 else r1')
                 end);
  match r2 with close :: r3 => if text_eqb close [cp_gt] then Ok r3 else Err EValue | [] => Err EValue end.
Proof. reflexivity. Qed.

Definition validates (a : sast) : Prop :=
  forall f rest, (length (atoks a ++ rest) < f)%nat -> validate f (atoks a ++ rest) = Ok rest.

Lemma vitems_ok f ms : Forall validates ms -> forall g rest,
  (length (aflat ms ++ [cp_gt] :: rest) < f)%nat -> (length ms < g)%nat ->
  vitems (validate f) g (aflat ms ++ [cp_gt] :: rest) = Ok ([cp_gt] :: rest).
Proof.
  induction ms as [|m ms IH]; intros HF g rest Hf Hg; (destruct g as [|g]; [inversion Hg|]).
  - reflexivity.
  - inversion HF as [|? ? Hm Hms]; subst. unfold aflat in *. cbn [flat_map] in *. rewrite <- app_assoc in *.
    destruct (atoks_head m) as [tl Etl]. cbn [vitems]. rewrite Etl at 1. cbn [app].
    change (is_bracket [cp_lt]) with true. change (text_eqb [cp_lt] [cp_gt]) with false. cbn [negb]. cbn iota.
    rewrite (Hm f _ Hf). cbn [bind]. apply IH; [exact Hms| |cbn [length] in Hg; lia].
    rewrite app_length in Hf. lia.
Qed.

Lemma validate_ok a : ast_ok a = true -> validates a.
Proof.
  induction a as [n|nm ms IH] using sast_ind'; intros Hok f rest Hf; (destruct f as [|f]; [inversion Hf|]).
  - cbn [ast_ok] in Hok. destruct (name_ok_parts n Hok) as (_ & _ & HL & HA).
    cbn [atoks app]. rewrite validate_S. change (text_eqb [cp_lt] [cp_lt]) with true. cbn [negb]. rewrite HL. cbn [negb]. rewrite HA. cbn [bind].
    change (text_eqb [cp_gt] [cp_gt]) with true. reflexivity.
  - rewrite ast_ok_list in Hok. apply andb_prop in Hok as [Hok Hms]. apply andb_prop in Hok as [Hnm Hne].
    assert (HV : Forall validates ms).
    { clear Hf Hne. induction ms as [|x l IHl]; [constructor|]. cbn [forallb] in Hms. apply andb_prop in Hms as [Hx Hl].
      inversion IH as [|? ? Px Pl]; subst. constructor; [apply Px; exact Hx|apply IHl; assumption]. }
    rewrite atoks_list in *. cbn [app] in *. rewrite validate_S. change (text_eqb [cp_lt] [cp_lt]) with true. cbn [negb].
    change (text_eqb T_L T_L) with true. cbn [negb]. rewrite <- !app_assoc in *. change ([[cp_gt]] ++ rest)%list with ([cp_gt] :: rest) in *.
    destruct ms as [|m ms']; [discriminate Hne|].
    destruct nm as [n|]; cbn [app] in *.
    + unfold lname_ok in Hnm. apply negb_true_iff in Hnm. rewrite Hnm.
      rewrite (vitems_ok f (m :: ms') HV).
      * cbn [bind]. change (text_eqb [cp_gt] [cp_gt]) with true. reflexivity.
      * cbn [length] in Hf. lia.
      * pose proof (aflat_len (m :: ms')). cbn [length]. rewrite app_length. cbn [length] in *. lia.
    + destruct (atoks_head m) as [tl Etl]. unfold aflat at 1. cbn [flat_map]. rewrite Etl at 1. cbn [app].
      change (is_bracket [cp_lt]) with true. cbn iota.
      match goal with |- context [vitems _ ?g ?els] => replace els with (aflat (m :: ms') ++ [cp_gt] :: rest)%list end.
      2:{ unfold aflat. cbn [flat_map]. rewrite Etl. cbn [app]. rewrite <- !app_assoc. reflexivity. }
      rewrite (vitems_ok f (m :: ms') HV).
      * cbn [bind]. change (text_eqb [cp_gt] [cp_gt]) with true. reflexivity.
      * cbn [length] in Hf. lia.
      * pose proof (aflat_len (m :: ms')). cbn [length]. rewrite !app_length. cbn [length] in *.
        unfold aflat in *. cbn [flat_map] in *. rewrite Etl in *. cbn [app length] in *. rewrite !app_length in *. cbn [length]. lia.
Qed.

(* ---------- _generate_from_sfdl ---------- *)
Definition first_item (ms : list sast) : bool := match ms with AItem _ :: _ => true | _ => false end.
Definition eff_name (nm : option string) (tn : option text) : option text := match nm with Some n => Some (tx n) | None => tn end.
Definition subs0 (nm : option string) (tn : option text) (ms : list sast) : list fmtel :=
  match eff_name nm tn with Some x => if first_item ms then [EName x] else [] | None => [] end.
Fixpoint fmt_of (a : sast) (tn : option text) : fmt :=
  match a with
  | AItem n => FItem (tx n)
  | AList nm ms => FList (subs0 nm tn ms ++
      (fix go (l : list sast) : list fmtel := match l with [] => [] | m :: r => EFmt (fmt_of m (option_map tx nm)) :: go r end) ms)
  end.
Definition members (key : option text) (ms : list sast) : list fmtel := map (fun m => EFmt (fmt_of m key)) ms.
Lemma fmt_of_list nm tn ms : fmt_of (AList nm ms) tn = FList (subs0 nm tn ms ++ members (option_map tx nm) ms).
Proof. reflexivity. Qed.

Definition gitems (gen : list text -> res (fmt * list text)) :=
  fix items (g : nat) (ts : list text) (acc : list fmtel) : res (fmt * list text) :=
    match g with
    | O => Err EOutOfFuel
    | S g' =>
      match ts with
      | [] => Err EValue
      | y :: r =>
        if negb (is_bracket y) then Err EValue
        else if text_eqb y [cp_gt] then Ok (FList (rev acc), r)
        else do (sub, rest) <- gen ts; items g' rest (EFmt sub :: acc)
      end
    end.

Lemma gen_S f open item r1 token_name : gen_sfdl (S f) (open :: item :: r1) token_name =
  if negb (text_eqb open [cp_lt]) then Err EValue else
  do uname <- upper item;
  if negb (text_eqb uname T_L) then
    match item_ty uname with
    | None => if attr_exists uname then Err EUnmodelled else Err EValue
    | Some _ =>
      match r1 with
      | close :: r2 => if text_eqb close [cp_gt] then Ok (FItem uname, r2) else Err EValue
      | [] => Err EValue
      end
    end
  else
    do p1 <- peekv r1 1;
    let '(key, token_name, r2) := if is_bracket p1 then (None, token_name, r1) else (Some p1, Some p1, tl r1) in
    do p2 <- peekv r2 2;
    let '(subs, token_name) :=
      match token_name with
      | Some nm => if negb (text_eqb p2 T_L) then ([EName nm], None) else ([], token_name)
      | None => ([], None)
      end in
    gitems (fun ts => gen_sfdl f ts key) (S (length r2)) r2 (rev subs).
Proof. reflexivity. Qed.

Definition generates (a : sast) : Prop :=
  forall f rest tn, (length (atoks a ++ rest) < f)%nat -> gen_sfdl f (atoks a ++ rest) tn = Ok (fmt_of a tn, rest).

Lemma gitems_ok f key ms : Forall generates ms -> forall g rest acc,
  (length (aflat ms ++ [cp_gt] :: rest) < f)%nat -> (length ms < g)%nat ->
  gitems (fun ts => gen_sfdl f ts key) g (aflat ms ++ [cp_gt] :: rest) acc = Ok (FList (rev acc ++ members key ms), rest).
Proof.
  induction ms as [|m ms IH]; intros HF g rest acc Hf Hg; (destruct g as [|g]; [inversion Hg|]).
  - cbn [aflat flat_map app gitems members map]. change (is_bracket [cp_gt]) with true. change (text_eqb [cp_gt] [cp_gt]) with true. cbn [negb]. cbn iota.
    rewrite app_nil_r. reflexivity.
  - inversion HF as [|? ? Hm Hms]; subst. unfold aflat in *. cbn [flat_map] in *. rewrite <- app_assoc in *.
    destruct (atoks_head m) as [tl Etl]. cbn [gitems]. rewrite Etl at 1. cbn [app].
    change (is_bracket [cp_lt]) with true. change (text_eqb [cp_lt] [cp_gt]) with false. cbn [negb]. cbn iota.
    rewrite (Hm f _ key Hf). cbn [bind]. rewrite IH; [|exact Hms| |cbn [length] in Hg; lia].
    + cbn [rev members map]. rewrite <- app_assoc. reflexivity.
    + rewrite app_length in Hf. lia.
Qed.

Lemma gen_ok a : ast_ok a = true -> generates a.
Proof.
  induction a as [n|nm ms IH] using sast_ind'; intros Hok f rest tn Hf; (destruct f as [|f]; [inversion Hf|]).
  - cbn [ast_ok] in Hok. destruct (name_ok_parts n Hok) as (HU & (t & HT) & HL & _).
    cbn [atoks app]. rewrite gen_S. change (text_eqb [cp_lt] [cp_lt]) with true. cbn [negb]. rewrite HU. cbn [bind]. rewrite HL. cbn [negb]. rewrite HT.
    change (text_eqb [cp_gt] [cp_gt]) with true. reflexivity.
  - rewrite ast_ok_list in Hok. apply andb_prop in Hok as [Hok Hms]. apply andb_prop in Hok as [Hnm Hne].
    assert (HG : Forall generates ms).
    { clear Hf Hne. induction ms as [|x l IHl]; [constructor|]. cbn [forallb] in Hms. apply andb_prop in Hms as [Hx Hl].
      inversion IH as [|? ? Px Pl]; subst. constructor; [apply Px; exact Hx|apply IHl; assumption]. }
    destruct ms as [|m ms']; [discriminate Hne|].
    assert (Hp2 : forall r, peekv (aflat (m :: ms') ++ r) 2 = Ok (ty_tok m)).
    { intro r. unfold aflat. cbn [flat_map]. destruct (atoks_head m) as [tl ->]. reflexivity. }
    assert (Hfi : negb (text_eqb (ty_tok m) T_L) = first_item (m :: ms')).
    { destruct m as [n0|nm0 ms0]; cbn [ty_tok first_item]; [|reflexivity].
      cbn [forallb ast_ok] in Hms. apply andb_prop in Hms as [Hn0 _]. destruct (name_ok_parts n0 Hn0) as (_ & _ & HL & _). rewrite HL. reflexivity. }
    assert (HupL : upper T_L = Ok T_L) by reflexivity.
    rewrite atoks_list in *. cbn [app] in *. rewrite gen_S. change (text_eqb [cp_lt] [cp_lt]) with true. cbn [negb]. rewrite HupL. cbn [bind].
    change (text_eqb T_L T_L) with true. cbn [negb]. rewrite <- !app_assoc in *. change ([[cp_gt]] ++ rest)%list with ([cp_gt] :: rest) in *.
    rewrite fmt_of_list.
    destruct nm as [n|]; cbn [app] in *.
    + unfold lname_ok in Hnm. apply negb_true_iff in Hnm. cbn [peekv Nat.sub nth_error bind]. rewrite Hnm. cbn [tl].
      rewrite Hp2. cbn [bind]. rewrite Hfi. unfold subs0. cbn [eff_name option_map].
      destruct (first_item (m :: ms')).
      * rewrite (gitems_ok f (Some (tx n)) (m :: ms') HG); [reflexivity| |].
        -- cbn [length] in Hf. lia.
        -- pose proof (aflat_len (m :: ms')). cbn [length]. rewrite app_length. cbn [length] in *. lia.
      * rewrite (gitems_ok f (Some (tx n)) (m :: ms') HG); [reflexivity| |].
        -- cbn [length] in Hf. lia.
        -- pose proof (aflat_len (m :: ms')). cbn [length]. rewrite app_length. cbn [length] in *. lia.
    + assert (Hp1 : forall r, peekv (aflat (m :: ms') ++ r) 1 = Ok [cp_lt]).
      { intro r. unfold aflat. cbn [flat_map]. destruct (atoks_head m) as [tl ->]. reflexivity. }
      rewrite Hp1. cbn [bind]. change (is_bracket [cp_lt]) with true. cbn iota. rewrite Hp2. cbn [bind]. rewrite Hfi.
      unfold subs0. cbn [eff_name option_map].
      assert (Hlen : (length (aflat (m :: ms') ++ [cp_gt] :: rest) < f)%nat) by (cbn [length] in Hf; lia).
      assert (Hg : (length (m :: ms') < S (length (aflat (m :: ms') ++ [cp_gt] :: rest)))%nat)
        by (pose proof (aflat_len (m :: ms')); rewrite app_length; cbn [length] in *; lia).
      destruct tn as [x|]; [destruct (first_item (m :: ms'))|];
        rewrite (gitems_ok f None (m :: ms') HG _ _ _ Hlen Hg); reflexivity.
Qed.

(* ---------- generate(): structure and names ---------- *)
Fixpoint shape_of (s : sty) : shape :=
  match s with
  | SLeaf n _ => ShItem n
  | SArr e => ShArray (shape_of e)
  | SRec fs => ShRecord (map (fun p => (fst p, shape_of (snd p))) fs)
  end.

Definition key_of (e : fmt) (ename : text) : res text :=
  match e with
  | FList [EFmt _] | FList [EName _; EFmt _] => Ok ename
  | FList sub => name_from_format sub
  | FItem _ => Ok ename
  end.
Definition bgo (bld : fmt -> res (sty * text)) :=
  fix go (items : list fmtel) (acc : list (string * sty)) : res (list (string * sty)) :=
    match items with
    | [] => Ok acc
    | EName _ :: r => go r acc
    | EFmt e :: r => do (et, ename) <- bld e; do key <- key_of e ename; go r (od_set (string_of_text key) et acc)
    end.
Lemma build_list items : build (FList items) =
  match items with
  | [EFmt e] => do (et, ename) <- build e;
                do aname <- match e with FList sub => name_from_format sub | FItem _ => Ok ename end;
                Ok (SArr et, aname)
  | [EName n; EFmt e] => do (et, _) <- build e; Ok (SArr et, n)
  | _ => do fields <- bgo build items []; Ok (SRec fields, match items with EName n :: _ => n | _ => T_DATA end)
  end.
Proof. reflexivity. Qed.

Lemma sot n : string_of_text (tx n) = n.
Proof. induction n as [|a n IH]; [reflexivity|]. cbn [tx text_of_string string_of_text]. rewrite ascii_N_embedding. unfold tx in IH. rewrite IH. reflexivity. Qed.

Definition fname (a : sast) (tn : option text) : text :=
  match a with AList nm ms => match subs0 nm tn ms with EName x :: _ => x | _ => T_DATA end | AItem n => tx n end.
Definition bname (a : sast) (tn : option text) : text :=
  match a with
  | AItem n => tx n
  | AList nm ms =>
    match subs0 nm tn ms with
    | EName x :: _ => x
    | _ => match ms with [m] => match m with AItem n => tx n | AList _ _ => fname m (option_map tx nm) end | _ => T_DATA end
    end
  end.

Lemma subs0_cases nm tn ms : subs0 nm tn ms = [] \/ exists x, subs0 nm tn ms = [EName x].
Proof. unfold subs0. destruct (eff_name nm tn) as [x|]; [|left; reflexivity]. destruct (first_item ms); [right; exists x; reflexivity|left; reflexivity]. Qed.

Lemma key_of_bname m tn : ast_ok m = true -> key_of (fmt_of m tn) (bname m tn) = Ok (bname m tn).
Proof.
  destruct m as [n|nm ms]; [reflexivity|]. intro Hok. rewrite ast_ok_list in Hok. apply andb_prop in Hok as [Hok _]. apply andb_prop in Hok as [_ Hne].
  rewrite fmt_of_list. unfold bname. destruct ms as [|m1 [|m2 r]]; [discriminate Hne| |].
  - destruct (subs0_cases nm tn [m1]) as [E|[x E]]; rewrite E; reflexivity.
  - destruct (subs0_cases nm tn (m1 :: m2 :: r)) as [E|[x E]]; rewrite E; reflexivity.
Qed.

(* the key a record gives to its member is the documented key: for members of an unnamed record, and for those members of a
   named record that the documented naming covers (naming_supported: no unnamed list directly under a named record) *)
Definition member_ok (key : option text) (m : sast) : Prop :=
  key = None \/ match m with AList None _ => False | _ => True end.

Lemma key_ok m key : ast_ok m = true -> naming_supported m = true -> member_ok key m -> bname m key = tx (doc_key m).
Proof.
  intros Hok Hn Hm. destruct m as [n|[n'|] ms]; [reflexivity| |].
  - (* named list *)
    unfold bname, subs0. cbn [eff_name doc_key]. destruct (first_item ms) eqn:Ef; [reflexivity|].
    cbn [naming_supported] in Hn. apply andb_prop in Hn as [_ Hn].
    destruct ms as [|m1 [|m2 r]]; [discriminate Hn| |].
    + destruct m1 as [n1|[n1|] ms1]; [discriminate Ef|discriminate Hn|]. destruct ms1 as [|[n2|? ?] r1]; try discriminate Hn. reflexivity.
    + destruct m1 as [n1|[?|] [|[?|? ?] ?]]; try discriminate Ef; discriminate Hn.
  - (* unnamed list: nothing is handed down *)
    destruct Hm as [->|[]]. unfold bname, subs0. cbn [eff_name option_map].
    destruct ms as [|m1 [|m2 r]]; [reflexivity| |destruct m1; reflexivity].
    destruct m1 as [n1|[n1|] ms1]; [reflexivity| |reflexivity].
    cbn [naming_supported] in Hn. rewrite andb_false_r in Hn. discriminate Hn.
Qed.

Lemma od_set_fresh k v acc : existsb (String.eqb k) (map fst acc) = false -> od_set k v acc = (acc ++ [(k, v)])%list.
Proof.
  induction acc as [|[k' v'] acc IH]; intro H; [reflexivity|]. cbn [map fst existsb] in H. apply orb_false_iff in H as [H1 H2].
  cbn [od_set app]. rewrite H1. rewrite (IH H2). reflexivity.
Qed.
Lemma distinct_mid l k r : distinct (l ++ k :: r) = true -> existsb (String.eqb k) l = false.
Proof.
  induction l as [|x l IH]; intro H; [reflexivity|]. cbn [app distinct] in H. apply andb_prop in H as [Hx Hl].
  cbn [existsb]. rewrite (IH Hl), orb_false_r. apply negb_true_iff in Hx. rewrite existsb_app in Hx. apply orb_false_iff in Hx as [_ Hx].
  cbn [existsb] in Hx. apply orb_false_iff in Hx as [Hx _]. rewrite String.eqb_sym. exact Hx.
Qed.

Definition builds (a : sast) : Prop :=
  forall tn, exists s, build (fmt_of a tn) = Ok (s, bname a tn) /\ shape_of s = doc_shape a.

Lemma bgo_ok key ms : Forall (fun m => builds m /\ ast_ok m = true /\ naming_supported m = true /\ member_ok key m) ms ->
  forall acc, distinct (map fst acc ++ map doc_key ms) = true ->
  exists ss, Forall2 (fun m s => shape_of s = doc_shape m) ms ss /\
             bgo build (members key ms) acc = Ok (acc ++ combine (map doc_key ms) ss)%list.
Proof.
  induction ms as [|m ms IH]; intros HF acc Hd.
  - exists []. split; [constructor|]. cbn [members map bgo combine]. rewrite app_nil_r. reflexivity.
  - inversion HF as [|? ? (Hb & Hok & Hn & Hm) Hms]; subst. cbn [map] in Hd.
    destruct (Hb key) as (s & Es & Sh). cbn [members map bgo]. rewrite Es. cbn [bind]. rewrite (key_of_bname m key Hok). cbn [bind].
    rewrite (key_ok m key Hok Hn Hm), sot. rewrite od_set_fresh by (apply (distinct_mid _ _ _ Hd)).
    destruct (IH Hms (acc ++ [(doc_key m, s)])%list) as (ss & F2 & E).
    { rewrite map_app. cbn [map fst]. rewrite <- app_assoc. exact Hd. }
    exists (s :: ss). split; [constructor; assumption|]. fold (members key ms). rewrite E. cbn [map combine]. rewrite <- app_assoc. reflexivity.
Qed.

Lemma shape_fields ms ss : Forall2 (fun m s => shape_of s = doc_shape m) ms ss ->
  map (fun p : string * sty => (fst p, shape_of (snd p))) (combine (map doc_key ms) ss) = map (fun m => (doc_key m, doc_shape m)) ms.
Proof. intro H. induction H as [|m s ms ss E _ IH]; [reflexivity|]. cbn [map combine fst snd]. rewrite E, IH. reflexivity. Qed.

Lemma bgo_skip bld x r acc : bgo bld (EName x :: r) acc = bgo bld r acc.
Proof. reflexivity. Qed.

Lemma name_from_members key m ms : name_from_format (members key (m :: ms)) = Ok T_DATA.
Proof. reflexivity. Qed.

Theorem build_ok a : ast_ok a = true -> keys_distinct a = true -> naming_supported a = true -> builds a.
Proof.
  induction a as [n|nm ms IH] using sast_ind'; intros Hok Hk Hn tn.
  - cbn [ast_ok] in Hok. destruct (name_ok_parts n Hok) as (_ & (t & HT) & _ & _).
    exists (SLeaf (string_of_text (tx n)) t). cbn [fmt_of build bname]. rewrite HT. split; [reflexivity|]. cbn [shape_of doc_shape]. rewrite sot. reflexivity.
  - rewrite ast_ok_list in Hok. apply andb_prop in Hok as [Hok Hms]. apply andb_prop in Hok as [_ Hne].
    cbn [keys_distinct] in Hk. apply andb_prop in Hk as [Hdist Hkd].
    assert (Hns : forallb naming_supported ms = true).
    { destruct nm; cbn [naming_supported] in Hn; apply andb_prop in Hn as [H _]; exact H. }
    assert (HB : Forall (fun m => builds m /\ ast_ok m = true /\ naming_supported m = true) ms).
    { clear Hne Hdist Hn. induction ms as [|x l IHl]; [constructor|]. cbn [forallb] in Hms, Hkd, Hns.
      apply andb_prop in Hms as [Hx Hl]. apply andb_prop in Hkd as [Kx Kl]. apply andb_prop in Hns as [Nx Nl].
      inversion IH as [|? ? Px Pl]; subst. constructor; [repeat split; [apply Px|..]; assumption|apply IHl; assumption]. }
    rewrite fmt_of_list. destruct ms as [|m1 [|m2 r]]; [discriminate Hne| |].
    + (* one member: an open list *)
      inversion HB as [|? ? (Hb1 & Hok1 & _) _]; subst. destruct (Hb1 (option_map tx nm)) as (s1 & E1 & S1).
      exists (SArr s1). unfold bname. destruct (subs0_cases nm tn [m1]) as [E|[x E]]; rewrite E; cbn [app members map]; rewrite build_list, E1; cbn [bind].
      * split; [|cbn [shape_of doc_shape]; rewrite S1; reflexivity].
        destruct m1 as [n1|nm1 ms1]; [reflexivity|]. rewrite fmt_of_list. unfold fname.
        rewrite ast_ok_list in Hok1. apply andb_prop in Hok1 as [Hok1 _]. apply andb_prop in Hok1 as [_ Hne1].
        destruct ms1 as [|y ys]; [discriminate Hne1|].
        destruct (subs0_cases nm1 (option_map tx nm) (y :: ys)) as [E'|[x' E']]; rewrite E'; reflexivity.
      * split; [reflexivity|]. cbn [shape_of doc_shape]. rewrite S1. reflexivity.
    + (* several members: a record *)
      assert (HM : Forall (fun m => builds m /\ ast_ok m = true /\ naming_supported m = true /\ member_ok (option_map tx nm) m) (m1 :: m2 :: r)).
      { destruct nm as [n0|].
        - (* named record: starts with a data item and has no unnamed list among its members *)
          cbn [naming_supported] in Hn. apply andb_prop in Hn as [_ Hn]. destruct m1 as [n1|[?|] [|[?|? ?] ?]]; try discriminate Hn.
          rewrite forallb_forall in Hn. apply Forall_forall. intros m Hin. rewrite Forall_forall in HB. destruct (HB m Hin) as (B & O & N).
          repeat split; try assumption. right. specialize (Hn m Hin). destruct m as [?|[?|] ?]; [exact I|exact I|discriminate Hn].
        - apply Forall_forall. intros m Hin. rewrite Forall_forall in HB. destruct (HB m Hin) as (B & O & N). repeat split; try assumption. left. reflexivity. }
      destruct (bgo_ok (option_map tx nm) (m1 :: m2 :: r) HM [] Hdist) as (ss & F2 & E).
      exists (SRec (combine (map doc_key (m1 :: m2 :: r)) ss)). unfold bname.
      destruct (subs0_cases nm tn (m1 :: m2 :: r)) as [E0|[x E0]]; rewrite E0; cbn [app]; rewrite build_list.
      * cbn [members map]. cbn [members map] in E. rewrite E. cbn [bind app]. split; [reflexivity|].
        change (doc_key m1 :: doc_key m2 :: map doc_key r) with (map doc_key (m1 :: m2 :: r)).
        cbn [shape_of]. rewrite (shape_fields _ _ F2). reflexivity.
      * cbn [members map]. rewrite bgo_skip. cbn [members map] in E. rewrite E. cbn [bind app]. split; [reflexivity|].
        change (doc_key m1 :: doc_key m2 :: map doc_key r) with (map doc_key (m1 :: m2 :: r)).
        cbn [shape_of]. rewrite (shape_fields _ _ F2). reflexivity.
Qed.

(* ---------- the whole reader ---------- *)
Definition sfdl_dom (a : sast) : bool := ast_ok a && keys_distinct a && naming_supported a.

Theorem structure_of_tokens a src : sfdl_dom a = true -> elements_of src = atoks a ->
  exists s, sfdl_structure src = Ok s /\ shape_of s = doc_shape a.
Proof.
  unfold sfdl_dom. intros Hd He. apply andb_prop in Hd as [Hd Hn]. apply andb_prop in Hd as [Hok Hk].
  destruct (build_ok a Hok Hk Hn None) as (s & Eb & Sh). exists s. split; [|exact Sh].
  unfold sfdl_structure, tokens_of. rewrite He.
  pose proof (validate_ok a Hok (S (length (atoks a))) []) as V. rewrite app_nil_r in V. rewrite V by lia. cbn [bind length].
  rewrite Nat.sub_0_r, firstn_all.
  pose proof (gen_ok a Hok (S (length (atoks a))) [] None) as G. rewrite app_nil_r in G. rewrite G by lia. cbn [bind].
  rewrite Eb. reflexivity.
Qed.

(* in any layout *)
Theorem documented_shape a items lead : sfdl_dom a = true ->
  layout_ok items = true -> forallb gapel_ok lead = true -> map (fun p => tok_text (fst p)) items = atoks a ->
  exists s, sfdl_structure (gap_text lead ++ render items) = Ok s /\ shape_of s = doc_shape a.
Proof.
  intros Hd Hl Hg Ht. apply structure_of_tokens; [exact Hd|]. rewrite (elements_layout_irrelevant items lead Hl Hg). exact Ht.
Qed.

(* ---------- what is never accepted ---------- *)
Lemma vitems_suffix (v : list text -> res (list text)) :
  (forall els rest, v els = Ok rest -> exists pre, els = (pre ++ [cp_gt] :: rest)%list) ->
  forall g els r2, vitems v g els = Ok r2 -> exists pre, els = (pre ++ r2)%list.
Proof.
  intro Hv. induction g as [|g IH]; intros els r2 H; [discriminate|]. cbn [vitems] in H.
  destruct els as [|y r]; [discriminate|]. destruct (negb (is_bracket y)); [discriminate|].
  destruct (text_eqb y [cp_gt]).
  - injection H as <-. exists []. reflexivity.
  - destruct (v (y :: r)) as [rest|] eqn:E; [|discriminate]. cbn [bind] in H.
    destruct (Hv _ _ E) as [p1 E1]. destruct (IH _ _ H) as [p2 E2]. rewrite E1, E2. exists (p1 ++ [cp_gt] :: p2)%list. rewrite <- app_assoc. reflexivity.
Qed.

(* the validation only accepts elements that start with '<' and a list tag or a known data item, and what it consumes ends with the closing '>' *)
Theorem validate_accepts_only : forall f els rest, validate f els = Ok rest ->
  (exists item r, els = [cp_lt] :: item :: r /\ (item = T_L \/ attr_exists item = true)) /\
  (exists pre, els = (pre ++ [cp_gt] :: rest)%list).
Proof.
  induction f as [|f IH]; intros els rest H; [discriminate|].
  destruct els as [|open [|item r1]]; [discriminate H|cbn [validate] in H; destruct (negb (text_eqb open [cp_lt])); discriminate H|].
  rewrite validate_S in H.
  destruct (text_eqb open [cp_lt]) eqn:Eo; [|discriminate]. cbn [negb] in H. apply text_eqb_eq in Eo. subst open.
  destruct (text_eqb item T_L) eqn:EL; cbn [negb] in H.
  - apply text_eqb_eq in EL. subst item. split; [exists T_L, r1; split; [reflexivity|left; reflexivity]|].
    destruct r1 as [|x r1']; [discriminate|].
    destruct (vitems (validate f) (S (length (x :: r1'))) (if is_bracket x then x :: r1' else r1')) as [r2|] eqn:Ev; [|discriminate]. cbn [bind] in H.
    destruct r2 as [|close r3]; [discriminate|]. destruct (text_eqb close [cp_gt]) eqn:Ec; [|discriminate]. injection H as <-.
    apply text_eqb_eq in Ec. subst close.
    destruct (vitems_suffix (validate f) (fun e r Hr => proj2 (IH e r Hr)) _ _ _ Ev) as [pre Ep].
    destruct (is_bracket x).
    + exists ([cp_lt] :: T_L :: pre). cbn [app]. rewrite Ep. reflexivity.
    + exists ([cp_lt] :: T_L :: x :: pre). cbn [app]. rewrite Ep. reflexivity.
  - destruct (attr_exists item) eqn:EA; [|discriminate]. cbn [bind] in H.
    split; [exists item, r1; split; [reflexivity|right; exact EA]|].
    destruct r1 as [|close r3]; [discriminate|]. destruct (text_eqb close [cp_gt]) eqn:Ec; [|discriminate]. injection H as <-.
    apply text_eqb_eq in Ec. subst close. exists [[cp_lt]; item]. reflexivity.
Qed.

(* ... so no structure is generated from a text whose elements are not a closed, known definition *)
Corollary structure_only_of_closed src s : sfdl_structure src = Ok s ->
  exists item r pre rest, elements_of src = [cp_lt] :: item :: r /\ (item = T_L \/ attr_exists item = true) /\
                          elements_of src = (pre ++ [cp_gt] :: rest)%list.
Proof.
  unfold sfdl_structure, tokens_of. intro H.
  destruct (validate (S (length (elements_of src))) (elements_of src)) as [rest|] eqn:E; [|discriminate].
  destruct (validate_accepts_only _ _ _ E) as ((item & r & E1 & K) & (pre & E2)).
  exists item, r, pre, rest. repeat split; assumption.
Qed.

(* ... and (after D56) the definition has to be the WHOLE text: its last element is the closing '>' of the structure, nothing follows *)
Corollary structure_only_of_whole_text src s : sfdl_structure src = Ok s ->
  exists item r pre, elements_of src = [cp_lt] :: item :: r /\ (item = T_L \/ attr_exists item = true) /\
                     elements_of src = (pre ++ [[cp_gt]])%list.
Proof.
  unfold sfdl_structure, tokens_of. intro H.
  destruct (validate (S (length (elements_of src))) (elements_of src)) as [rest|] eqn:E; [|discriminate].
  destruct (validate_accepts_only _ _ _ E) as ((item & r & E1 & K) & (pre & E2)).
  destruct rest as [|x rest]; [|discriminate H].
  exists item, r, pre. repeat split; assumption.
Qed.
