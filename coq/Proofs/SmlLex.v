(* Proofs/SmlLex.v — C15: what SMLParser.parse_all makes of the pieces to_sml prints.
   Token-level printers (str_toks, ptoks) and the lemma that the tokenizer turns the printed text of ANY item
   into exactly those tokens. *)
From SG Require Import Base.Prelude Base.Kinds Base.Float Gen.ItemConsts Gen.Jis8 Model.Secs2 Model.Item Model.Sfdl Model.Sml.
From SG Require Import Proofs.SmlProofs Proofs.Secs2Enc.
From Coq Require Import Lia.
Open Scope N_scope.

Definition plainc (c : N) : bool := negb (sml_ws c) && negb (sml_op c) && negb (sml_quote c).
Definition flush (cur : text) (acc : list text) : list text := match cur with [] => acc | _ => rev cur :: acc end.

Lemma lex_nil d acc : sml_lex [] [] d acc = rev acc. Proof. reflexivity. Qed.

Lemma lex_plain w : forall cur r acc, forallb plainc w = true -> sml_lex (w ++ r) cur 0 acc = sml_lex r (rev w ++ cur) 0 acc.
Proof.
  induction w as [|c w IH]; intros cur r acc H; [reflexivity|].
  cbn [forallb] in H. apply andb_prop in H as [Hc Hw]. unfold plainc in Hc.
  apply andb_prop in Hc as [Hc Hq]. apply andb_prop in Hc as [Hs Ho].
  apply negb_true_iff in Hs, Ho, Hq.
  change ((c :: w) ++ r)%list with (c :: (w ++ r))%list. cbn [sml_lex]. change (0 =? 0) with true. cbn [negb].
  rewrite Hs, Ho, Hq. rewrite IH by exact Hw. cbn [rev]. rewrite <- app_assoc. reflexivity.
Qed.

Lemma lex_ws c r cur acc : sml_ws c = true -> sml_lex (c :: r) cur 0 acc = sml_lex r [] 0 (flush cur acc).
Proof. intro H. cbn [sml_lex]. change (0 =? 0) with true. cbn [negb]. rewrite H. reflexivity. Qed.

Lemma lex_op c r cur acc : sml_ws c = false -> sml_op c = true -> sml_lex (c :: r) cur 0 acc = sml_lex r [] 0 ([c] :: flush cur acc).
Proof. intros H1 H2. cbn [sml_lex]. change (0 =? 0) with true. cbn [negb]. rewrite H1, H2. reflexivity. Qed.

Lemma lex_open r acc : sml_lex (c_dq :: r) [] 0 acc = sml_lex r [c_dq] c_dq acc.
Proof. reflexivity. Qed.

Lemma lex_lit c r cur acc : (c =? c_dq) = false -> sml_lex (c :: r) cur c_dq acc = sml_lex r (c :: cur) c_dq acc.
Proof. intro H. cbn [sml_lex]. change (c_dq =? 0) with false. cbn [negb]. rewrite H. reflexivity. Qed.

Lemma lex_close r cur acc : sml_lex (c_dq :: r) cur c_dq acc = sml_lex r [] 0 (rev (c_dq :: cur) :: acc).
Proof. reflexivity. Qed.

Lemma flush_nil acc : flush [] acc = acc. Proof. reflexivity. Qed.
Lemma flush_word w acc : w <> [] -> flush (rev w ++ []) acc = w :: acc.
Proof.
  intro H. rewrite app_nil_r. unfold flush. destruct (rev w) as [|x y] eqn:E.
  - apply (f_equal (@rev N)) in E. rewrite rev_involutive in E. contradiction.
  - rewrite <- E, rev_involutive. reflexivity.
Qed.

Lemma lex_indent n r acc : sml_lex (indent n ++ r) [] 0 acc = sml_lex r [] 0 acc.
Proof. induction n as [|n IH]; [reflexivity|]. unfold indent in *. cbn [repeat]. change ((sp :: repeat sp n) ++ r)%list with (sp :: (repeat sp n ++ r))%list.
  rewrite lex_ws by reflexivity. rewrite flush_nil. exact IH. Qed.

(* a list of plain words, each preceded by a blank, then " >" *)
Definition wordb (w : text) : bool := forallb plainc w && negb (match w with [] => true | _ => false end).
Lemma wordb_ne w : wordb w = true -> w <> [].
Proof. unfold wordb. destruct w; [rewrite andb_false_r; discriminate|discriminate]. Qed.
Lemma wordb_plain w : wordb w = true -> forallb plainc w = true.
Proof. unfold wordb. intro H. apply andb_prop in H as [H _]. exact H. Qed.

Lemma lex_words ws : forall cur0 acc rest, forallb wordb ws = true ->
  sml_lex (concat (map (fun t => sp :: t) ws) ++ sp :: c_gt :: rest) cur0 0 acc = sml_lex rest [] 0 ([c_gt] :: rev ws ++ flush cur0 acc).
Proof.
  induction ws as [|w ws IH]; intros cur0 acc rest H.
  - cbn [map concat app rev]. rewrite lex_ws by reflexivity. rewrite lex_op by reflexivity. reflexivity.
  - cbn [forallb] in H. apply andb_prop in H as [Hw Hws]. cbn [map concat].
    change ((sp :: w) ++ concat (map (fun t => sp :: t) ws))%list with (sp :: (w ++ concat (map (fun t => sp :: t) ws)))%list.
    change ((sp :: (w ++ concat (map (fun t => sp :: t) ws))) ++ sp :: c_gt :: rest)%list
      with (sp :: ((w ++ concat (map (fun t => sp :: t) ws)) ++ sp :: c_gt :: rest))%list.
    rewrite lex_ws by reflexivity. rewrite <- app_assoc. rewrite lex_plain by (apply wordb_plain; exact Hw).
    rewrite IH by exact Hws. rewrite flush_word by (apply wordb_ne; exact Hw). cbn [rev]. rewrite <- app_assoc. reflexivity.
Qed.

(* ---------- text bodies ---------- *)
Definition enc1 (jis : bool) (c : N) : res N :=
  if jis then match jis8_encode c with Some b => Ok b | None => Err EUnicode end else if c <? 256 then Ok c else Err EUnicode.
Lemma text_encode_enc1 jis cps : text_encode jis cps = mapM (enc1 jis) cps.
Proof. destruct jis; reflexivity. Qed.

(* run: the characters of the quoted run being printed, last first *)
Definition closed (run : option text) : list text := match run with Some r => [c_dq :: rev r ++ [c_dq]] | None => [] end.
Fixpoint str_toks (jis : bool) (printable : list N) (cps : text) (run : option text) : res (list text) :=
  match cps with
  | [] => Ok (closed run)
  | c :: r =>
    if existsb (N.eqb c) printable && negb (c =? c_dq) then
      str_toks jis printable r (Some (c :: match run with Some x => x | None => [] end))
    else
      do b <- enc1 jis c;
      do rest <- str_toks jis printable r None;
      Ok (closed run ++ print_hex b :: rest)
  end.

Definition bytes256 : list N := map N.of_nat (seq 0 256).
Lemma in_bytes256 b : b < 256 -> In b bytes256.
Proof. intro H. unfold bytes256. apply in_map_iff. exists (N.to_nat b). split; [apply N2Nat.id|]. apply in_seq. lia. Qed.

Lemma hex_words : forallb (fun b => wordb (print_hex b)) bytes256 = true.
Proof. vm_compute. reflexivity. Qed.
Lemma hex_word b : b < 256 -> wordb (print_hex b) = true.
Proof. intro H. pose proof hex_words as T. rewrite forallb_forall in T. apply T. apply in_bytes256. exact H. Qed.

Lemma jis_table_bytes : forallb (fun kv => snd kv <? 256) jis8_encode_table = true.
Proof. vm_compute. reflexivity. Qed.
Lemma enc1_byte jis c b : enc1 jis c = Ok b -> b < 256.
Proof.
  unfold enc1. destruct jis.
  - unfold jis8_encode. destruct (find (fun kv => fst kv =? c) jis8_encode_table) as [kv|] eqn:E; [|discriminate].
    intro H0. injection H0 as <-. apply find_some in E as [Hin _]. pose proof jis_table_bytes as T. rewrite forallb_forall in T.
    apply N.ltb_lt. apply T. exact Hin.
  - destruct (N.ltb_spec c 256); [|discriminate]. intro H0. injection H0 as <-. assumption.
Qed.

Definition lex_cur (run : option text) (cur0 : text) : text := match run with Some r => (r ++ [c_dq])%list | None => cur0 end.
Definition lex_delim (run : option text) : N := match run with Some _ => c_dq | None => 0 end.
Definition lex_acc (run : option text) (cur0 : text) (acc : list text) := match run with Some _ => acc | None => flush cur0 acc end.
Definition in_run (run : option text) : bool := match run with Some _ => true | None => false end.

Lemma closed_rev r : rev (c_dq :: r ++ [c_dq]) = (c_dq :: rev r ++ [c_dq])%list.
Proof. cbn [rev]. rewrite rev_app_distr. reflexivity. Qed.

Lemma lex_str jis pr : forall cps run body toks cur0 acc rest,
  str_body jis pr cps (in_run run) = Ok body -> str_toks jis pr cps run = Ok toks ->
  sml_lex (body ++ c_gt :: rest) (lex_cur run cur0) (lex_delim run) acc = sml_lex rest [] 0 ([c_gt] :: rev toks ++ lex_acc run cur0 acc).
Proof.
  induction cps as [|c cps IH]; intros run body toks cur0 acc rest Hb Ht.
  - cbn [str_body str_toks] in Hb, Ht. injection Hb as <-. injection Ht as <-. destruct run as [r|]; cbn [in_run lex_cur lex_delim lex_acc closed].
    + change ([c_dq] ++ c_gt :: rest)%list with (c_dq :: c_gt :: rest). rewrite lex_close. rewrite lex_op by reflexivity. rewrite flush_nil.
      rewrite closed_rev. reflexivity.
    + cbn [app rev]. rewrite lex_op by reflexivity. reflexivity.
  - cbn [str_body str_toks] in Hb, Ht.
    destruct (existsb (N.eqb c) pr && negb (c =? c_dq)) eqn:Ep.
    + apply andb_prop in Ep as [_ Hq]. apply negb_true_iff in Hq.
      destruct (str_body jis pr cps true) as [rest'|] eqn:Er; [|discriminate]. cbn [bind] in Hb. injection Hb as <-.
      destruct run as [r|]; cbn [in_run lex_cur lex_delim lex_acc].
      * change (([c] ++ rest') ++ c_gt :: rest)%list with (c :: (rest' ++ c_gt :: rest))%list. rewrite lex_lit by exact Hq.
        specialize (IH (Some (c :: r)) rest' toks cur0 acc rest Er Ht). cbn [lex_cur lex_delim lex_acc] in IH. exact IH.
      * change ((sp :: c_dq :: [c]) ++ rest')%list with (sp :: c_dq :: c :: rest')%list.
        change ((sp :: c_dq :: c :: rest') ++ c_gt :: rest)%list with (sp :: c_dq :: c :: (rest' ++ c_gt :: rest))%list.
        rewrite lex_ws by reflexivity. rewrite lex_open. rewrite lex_lit by exact Hq.
        specialize (IH (Some [c]) rest' toks cur0 (flush cur0 acc) rest Er Ht). cbn [lex_cur lex_delim lex_acc app] in IH. exact IH.
    + fold (enc1 jis c) in Hb. destruct (enc1 jis c) as [b|] eqn:Eb; [|discriminate]. cbn [bind] in Hb, Ht.
      destruct (str_body jis pr cps false) as [rest'|] eqn:Er; [|discriminate]. cbn [bind] in Hb. injection Hb as <-.
      destruct (str_toks jis pr cps None) as [toks'|] eqn:Et; [|discriminate]. cbn [bind] in Ht. injection Ht as <-.
      pose proof (hex_word b (enc1_byte _ _ _ Eb)) as Hw.
      specialize (IH None rest' toks' (rev (print_hex b) ++ [])%list). cbn [in_run lex_cur lex_delim lex_acc] in IH.
      destruct run as [r|]; cbn [in_run lex_cur lex_delim lex_acc closed].
      * change ((c_dq :: sp :: print_hex b) ++ rest')%list with (c_dq :: sp :: (print_hex b ++ rest'))%list.
        change ((c_dq :: sp :: (print_hex b ++ rest')) ++ c_gt :: rest)%list with (c_dq :: sp :: ((print_hex b ++ rest') ++ c_gt :: rest))%list.
        rewrite lex_close. rewrite lex_ws by reflexivity. rewrite flush_nil. rewrite <- app_assoc.
        rewrite lex_plain by (apply wordb_plain; exact Hw). rewrite (IH _ _ Er Et).
        rewrite flush_word by (apply wordb_ne; exact Hw). rewrite closed_rev.
        cbn [app rev]. rewrite <- !app_assoc. reflexivity.
      * change ((sp :: print_hex b) ++ rest')%list with (sp :: (print_hex b ++ rest'))%list.
        change ((sp :: (print_hex b ++ rest')) ++ c_gt :: rest)%list with (sp :: ((print_hex b ++ rest') ++ c_gt :: rest))%list.
        rewrite lex_ws by reflexivity. rewrite <- app_assoc.
        rewrite lex_plain by (apply wordb_plain; exact Hw). rewrite (IH _ _ Er Et).
        rewrite flush_word by (apply wordb_ne; exact Hw).
        cbn [app rev]. rewrite <- !app_assoc. reflexivity.
Qed.

(* ---------- whole items ---------- *)
Definition tn_of (v : val) : text := match type_name v with Ok t => t | Err _ => [] end.
Definition bool_tok (b : bool) : text := if b then [48; 120; 49] else [48; 120; 48].
Definition scal_toks (v : val) : list text :=
  match v with
  | VBin l => map print_hex l
  | VBool l => map bool_tok l
  | VNum _ l => map print_Z l
  | VText jis cps => match str_toks jis (if jis then item_printable_J else item_printable_A) cps None with Ok t => t | Err _ => [] end
  | _ => []
  end.
Fixpoint ptoks (v : val) : list text :=
  match v with
  | VArr [] => [[c_lt]; tn_of v; [c_gt]]
  | VArr l => [c_lt] :: tn_of v :: [c_lb] :: print_N (N.of_nat (length l)) :: [c_rb] ::
              (fix go (l : list val) : list text := match l with [] => [] | x :: r => ptoks x ++ go r end) l ++ [[c_gt]]
  | _ => [c_lt] :: tn_of v :: scal_toks v ++ [[c_gt]]
  end.
Definition flat_toks (l : list val) : list text := flat_map ptoks l.
Lemma ptoks_arr x l : ptoks (VArr (x :: l)) =
  ([c_lt] :: tn_of (VArr (x :: l)) :: [c_lb] :: print_N (N.of_nat (length (x :: l))) :: [c_rb] :: flat_toks (x :: l) ++ [[c_gt]])%list.
Proof.
  reflexivity.
Qed.

(* the items the printer and the reader agree on; F4/F8 values are not modelled (float formatting) *)
Fixpoint sml_dom (v : val) : bool :=
  match v with
  | VArr l => (fix go (l : list val) : bool := match l with [] => true | x :: r => sml_dom x && go r end) l
  | VBin l => forallb (fun b => b <? 256) l
  | VBool _ => true
  | VText jis cps => is_ok (text_encode jis cps)
  | VNum k l => negb (item_is_float k) && forallb (in_bounds (item_min_int k) (item_max_int k)) l
  | VFlt k [] => item_is_float k
  | _ => false
  end.
Lemma sml_dom_arr l : sml_dom (VArr l) = forallb sml_dom l.
Proof. cbn [sml_dom]. induction l as [|x l IH]; [reflexivity|]. cbn [forallb]. rewrite IH. reflexivity. Qed.

Lemma lex_head ind tn r acc : wordb tn = true ->
  sml_lex ((indent ind ++ [c_lt; sp] ++ tn) ++ r) [] 0 acc = sml_lex r (rev tn ++ []) 0 ([c_lt] :: acc).
Proof.
  intro H. rewrite <- !app_assoc. rewrite lex_indent. change ([c_lt; sp] ++ tn ++ r)%list with (c_lt :: sp :: (tn ++ r))%list.
  rewrite lex_op by reflexivity. rewrite lex_ws by reflexivity. cbn [flush]. apply lex_plain. apply wordb_plain. exact H.
Qed.

Lemma simple_eq (head : text) (vals : list text) :
  match vals with [] => Ok (head ++ [sp; c_gt])%list | _ => Ok (head ++ [sp] ++ join_sp vals ++ [sp; c_gt])%list end
  = Ok (head ++ concat (map (fun t => sp :: t) vals) ++ [sp; c_gt])%list.
Proof.
  destruct vals as [|x r]; [reflexivity|]. cbn [join_sp map concat]. rewrite <- ?app_assoc. reflexivity.
Qed.

Lemma lex_simple ind tn vals acc rest : wordb tn = true -> forallb wordb vals = true ->
  sml_lex (((indent ind ++ [c_lt; sp] ++ tn) ++ concat (map (fun t => sp :: t) vals) ++ [sp; c_gt]) ++ rest) [] 0 acc
  = sml_lex rest [] 0 (rev ([c_lt] :: tn :: vals ++ [[c_gt]]) ++ acc).
Proof.
  intros Ht Hv. rewrite <- app_assoc. rewrite lex_head by exact Ht. rewrite <- app_assoc.
  change ([sp; c_gt] ++ rest)%list with (sp :: c_gt :: rest). rewrite lex_words by exact Hv.
  rewrite flush_word by (apply wordb_ne; exact Ht). f_equal.
  cbn [rev]. rewrite rev_app_distr. cbn [rev app]. rewrite <- !app_assoc. reflexivity.
Qed.

Lemma str_ok jis pr cps : is_ok (mapM (enc1 jis) cps) = true ->
  forall run, exists body toks, str_body jis pr cps (in_run run) = Ok body /\ str_toks jis pr cps run = Ok toks.
Proof.
  induction cps as [|c cps IH]; intros H run.
  - eexists; eexists; split; reflexivity.
  - cbn [mapM] in H. destruct (enc1 jis c) as [b|] eqn:Eb; [|discriminate]. cbn [bind] in H.
    destruct (mapM (enc1 jis) cps) as [bs|] eqn:Em; [|discriminate]. specialize (IH eq_refl).
    cbn [str_body str_toks]. fold (enc1 jis c). rewrite Eb. cbn [bind].
    destruct (existsb (N.eqb c) pr && negb (c =? c_dq)).
    + destruct (IH (Some (c :: match run with Some x => x | None => [] end))) as (body & toks & B & T).
      cbn [in_run] in B. rewrite B, T. cbn [bind]. eexists; eexists; split; reflexivity.
    + destruct (IH None) as (body & toks & B & T). cbn [in_run] in B. rewrite B, T. cbn [bind]. eexists; eexists; split; reflexivity.
Qed.

Lemma bool_words l : forallb wordb (map bool_tok l) = true.
Proof. induction l as [|b l IH]; [reflexivity|]. cbn [map forallb]. rewrite IH. destruct b; reflexivity. Qed.
Lemma hex_words_l l : forallb (fun b => b <? 256) l = true -> forallb wordb (map print_hex l) = true.
Proof.
  induction l as [|b l IH]; intro H; [reflexivity|]. cbn [forallb] in H. apply andb_prop in H as [Hb Hl].
  cbn [map forallb]. rewrite (IH Hl). rewrite hex_word by (apply N.ltb_lt; exact Hb). reflexivity.
Qed.
Lemma dec_plain ds : Forall (fun c => is_dec c = true) ds -> forallb plainc ds = true.
Proof.
  intro H. induction H as [|c ds Hc _ IH]; [reflexivity|]. cbn [forallb]. rewrite IH, andb_true_r.
  unfold is_dec in Hc. apply andb_prop in Hc as [H1 H2]. apply N.leb_le in H1, H2.
  unfold plainc, sml_ws, sml_op, sml_quote, c_lt, c_gt, c_lb, c_rb, c_sq, c_dq.
  repeat match goal with |- context [c =? ?k] => destruct (N.eqb_spec c k); [lia|] end. reflexivity.
Qed.
Lemma print_N_word n : wordb (print_N n) = true.
Proof.
  destruct (print_N_spec n) as (ds & E & _ & F & Ne). rewrite E. unfold wordb. rewrite (dec_plain _ F). destruct ds; [contradiction|reflexivity].
Qed.
Lemma print_Z_word z : wordb (print_Z z) = true.
Proof.
  unfold print_Z. destruct (z <? 0)%Z; [|apply print_N_word].
  pose proof (print_N_word (Z.to_N (- z))) as H. unfold wordb in *. apply andb_prop in H as [H _]. cbn [forallb]. rewrite H. reflexivity.
Qed.
Lemma dec_words l : forallb wordb (map print_Z l) = true.
Proof. induction l as [|z l IH]; [reflexivity|]. cbn [map forallb]. rewrite IH, print_Z_word. reflexivity. Qed.

Lemma body_eq (x : text) r : ((x ++ concat (map (fun t => nl :: t) r)) ++ [nl])%list = concat (map (fun t => t ++ [nl])%list (x :: r)).
Proof.
  revert x; induction r as [|y r IH]; intro x.
  - cbn [map concat]. rewrite !app_nil_r. reflexivity.
  - cbn [map concat] in *. rewrite <- (IH y). rewrite <- !app_assoc. reflexivity.
Qed.

Definition lexes (v : val) (t : text) : Prop :=
  forall acc rest, sml_lex (t ++ rest) [] 0 acc = sml_lex rest [] 0 (rev (ptoks v) ++ acc).

Lemma lex_items l : forall items rest acc, Forall2 lexes l items ->
  sml_lex (concat (map (fun t => t ++ [nl])%list items) ++ rest) [] 0 acc = sml_lex rest [] 0 (rev (flat_toks l) ++ acc).
Proof.
  induction l as [|x l IH]; intros items rest acc H; inversion H as [|? t ? its Hx Hl]; subst; [reflexivity|].
  cbn [map concat]. rewrite <- !app_assoc. rewrite Hx. change ([nl] ++ ?r)%list with (nl :: r).
  rewrite lex_ws by reflexivity. rewrite flush_nil. rewrite (IH its _ _ Hl). unfold flat_toks. cbn [flat_map].
  rewrite rev_app_distr, <- app_assoc. reflexivity.
Qed.

Lemma go_eq ind l :
  (fix go (l : list val) : res (list text) :=
     match l with [] => Ok [] | x :: r => do t <- to_sml (ind + 4) x; do ts <- go r; Ok (t :: ts) end) l
  = mapM (to_sml (ind + 4)) l.
Proof. induction l as [|y l IH]; [reflexivity|]. cbn [mapM]. rewrite IH. reflexivity. Qed.

Lemma to_sml_arr ind x l : to_sml ind (VArr (x :: l)) =
  do items <- mapM (to_sml (ind + 4)) (x :: l);
  Ok ((indent ind ++ [c_lt; sp] ++ text_of_string item_sml_L) ++ [sp; c_lb] ++ print_N (N.of_nat (length (x :: l))) ++ [c_rb; nl] ++
      match items with [] => [] | y :: r => y ++ concat (map (fun t => nl :: t) r) end ++ [nl] ++ indent ind ++ [c_gt]).
Proof. cbn [to_sml type_name bind mapM]. rewrite go_eq. reflexivity. Qed.

Lemma num_names k : wordb (text_of_string (item_sml k)) = true.
Proof. destruct k; reflexivity. Qed.

Theorem lex_item v : sml_dom v = true -> forall ind, exists t, to_sml ind v = Ok t /\ lexes v t.
Proof.
  induction v as [l IH|l IH|l|l|j l|k l|k l|] using val_ind'; intros Hd ind; try discriminate Hd.
  - (* lists *)
    rewrite sml_dom_arr in Hd. destruct l as [|x l].
    + eexists. split; [reflexivity|]. intros acc rest. cbn [ptoks tn_of type_name].
      exact (lex_simple ind (text_of_string item_sml_L) [] acc rest eq_refl eq_refl).
    + assert (Hi : exists items, mapM (to_sml (ind + 4)) (x :: l) = Ok items /\ Forall2 lexes (x :: l) items).
      { revert Hd IH. generalize (x :: l). intro l0. induction l0 as [|y l0 IHl]; intros Hd IH.
        - exists []. split; [reflexivity|constructor].
        - cbn [forallb] in Hd. apply andb_prop in Hd as [Hy Hl]. inversion IH as [|? ? Py Pl]; subst.
          destruct (Py Hy (ind + 4)%nat) as (t & Et & Lt). destruct (IHl Hl Pl) as (its & Ei & Li).
          exists (t :: its). cbn [mapM]. rewrite Et, Ei. split; [reflexivity|constructor; assumption]. }
      destruct Hi as (items & Ei & Li). rewrite to_sml_arr, Ei. cbn [bind]. eexists. split; [reflexivity|].
      intros acc rest. rewrite ptoks_arr.
      destruct items as [|y its]; [inversion Li|].
      rewrite <- !app_assoc. rewrite (app_assoc (indent ind)). rewrite (app_assoc (indent ind ++ [c_lt; sp])).
      rewrite <- (app_assoc (indent ind) [c_lt; sp]).
      rewrite lex_head by reflexivity. change ([sp; c_lb] ++ ?r)%list with (sp :: c_lb :: r).
      rewrite lex_ws by reflexivity. rewrite flush_word by discriminate. rewrite lex_op by reflexivity. rewrite flush_nil.
      rewrite lex_plain by (apply wordb_plain; apply print_N_word).
      change ([c_rb; nl] ++ ?r)%list with (c_rb :: nl :: r). rewrite lex_op by reflexivity. rewrite lex_ws by reflexivity. rewrite flush_nil.
      rewrite flush_word by (apply wordb_ne; apply print_N_word).
      rewrite (app_assoc y), (app_assoc (y ++ _) [nl]). rewrite body_eq. rewrite (lex_items _ _ _ _ Li).
      rewrite lex_indent. change ([c_gt] ++ rest)%list with (c_gt :: rest). rewrite lex_op by reflexivity. rewrite flush_nil.
      f_equal. cbn [tn_of type_name]. cbn [rev]. rewrite rev_app_distr. cbn [rev app]. rewrite <- !app_assoc. reflexivity.
  - (* binary *)
    cbn [sml_dom] in Hd. eexists. split.
    + cbn [to_sml type_name bind]. rewrite simple_eq. reflexivity.
    + intros acc rest. cbn [ptoks tn_of type_name scal_toks]. apply lex_simple; [reflexivity|apply hex_words_l; exact Hd].
  - (* boolean *)
    eexists. split.
    + cbn [to_sml type_name bind]. rewrite simple_eq. reflexivity.
    + intros acc rest. cbn [ptoks tn_of type_name scal_toks]. apply lex_simple; [reflexivity|apply bool_words].
  - (* text *)
    cbn [sml_dom] in Hd. rewrite text_encode_enc1 in Hd.
    destruct (str_ok j (if j then item_printable_J else item_printable_A) l Hd None) as (body & toks & B & T). cbn [in_run] in B.
    destruct j.
    all: (eexists; split; [cbn [to_sml type_name bind]; rewrite B; cbn [bind]; reflexivity|]).
    all: intros acc rest; cbn [ptoks tn_of type_name scal_toks]; rewrite T;
      rewrite <- !app_assoc; rewrite (app_assoc (indent ind)), (app_assoc (indent ind ++ [c_lt; sp]));
      rewrite <- (app_assoc (indent ind) [c_lt; sp]); rewrite lex_head by reflexivity;
      change ([c_gt] ++ rest)%list with (c_gt :: rest);
      match goal with |- sml_lex _ ?c _ ?a = _ => pose proof (lex_str _ _ l None body toks c a rest B T) as L end;
      cbn [lex_cur lex_delim lex_acc] in L; rewrite L;
      rewrite flush_word by discriminate; f_equal;
      cbn [rev]; rewrite rev_app_distr; cbn [rev app]; rewrite <- !app_assoc; reflexivity.
  - (* integers *)
    cbn [sml_dom] in Hd. apply andb_prop in Hd as [Hf _]. eexists. split.
    + cbn [to_sml type_name bind]. rewrite simple_eq. reflexivity.
    + intros acc rest. cbn [ptoks tn_of type_name scal_toks]. apply lex_simple; [apply num_names|apply dec_words].
  - (* empty float items *)
    destruct l as [|b l]; [|discriminate Hd]. eexists. split.
    + cbn [to_sml type_name bind]. reflexivity.
    + intros acc rest. cbn [ptoks tn_of type_name scal_toks]. exact (lex_simple ind _ [] acc rest (num_names k) eq_refl).
Qed.
