(* Proofs/DataProofs.v — C13: the model of the equipment's data tables refines the E5 reference; S2F15 is all-or-nothing
   and keeps every constant inside its declared range. *)
From SG Require Import Base.Prelude Spec.E5Reports Spec.E5Data Model.EquipData Proofs.ReportsProofs.
From Coq Require Import Lia.
Open Scope Z_scope.

Lemma known_lookup {A} k (tab : list (id * A)) : known k tab = match rlookup k tab with Some _ => true | None => false end.
Proof. unfold known, rlookup. induction tab as [|p tab IH]; cbn; [reflexivity|]. destruct (id_eqb (fst p) k); cbn; [reflexivity|exact IH]. Qed.

(* dict keys are unique *)
Definition keys_ok {A} (tab : list (id * A)) : bool := nodup_ids (map fst tab).
Definition wf (t : dtab) : Prop := keys_ok (svs t) = true /\ keys_ok (ecs t) = true /\ keys_ok (alarms t) = true.

Lemma lookup_own {A B} (f : id -> A -> B) (d : id -> B) (tab : list (id * A)) : keys_ok tab = true ->
  map (fun k => match rlookup k tab with Some a => f k a | None => d k end) (map fst tab) = map (fun p => f (fst p) (snd p)) tab.
Proof.
  unfold keys_ok. induction tab as [|p tab IH]; cbn [map nodup_ids]; [reflexivity|]. intro H. apply andb_true_iff in H as [H1 H2].
  unfold rlookup at 1. cbn [find]. rewrite id_eqb_refl. cbn [snd]. f_equal. rewrite <- (IH H2).
  apply map_ext_in. intros k Hk. unfold rlookup. cbn [find].
  destruct (id_eqb (fst p) k) eqn:E; [|reflexivity]. apply id_eqb_eq in E. subst k. apply negb_true_iff in H1.
  exfalso. unfold mem in H1. assert (X : existsb (id_eqb (fst p)) (map fst tab) = true); [|congruence].
  apply existsb_exists. exists (fst p). split; [exact Hk|apply id_eqb_refl].
Qed.

Lemma keys_map {A} (g : id * A -> id * A) (tab : list (id * A)) : (forall p, fst (g p) = fst p) -> keys_ok (map g tab) = keys_ok tab.
Proof. intro H. unfold keys_ok. rewrite map_map. f_equal. apply map_ext. exact H. Qed.

(* ---------- S2F15 ---------- *)
Definition bound_ok_lo (c : econst) (v : num) : bool := match ec_min c with Some lo => num_le lo v | None => true end.
Definition bound_ok_hi (c : econst) (v : num) : bool := match ec_max c with Some hi => num_le v hi | None => true end.

Lemma in_range_bounds c v : in_range c v = bound_ok_lo c v && bound_ok_hi c v.
Proof.
  unfold in_range, bound_ok_lo, bound_ok_hi. destruct v; try (rewrite andb_true_r; reflexivity).
  destruct (ec_min c) as [lo|], (ec_max c) as [hi|]; cbn; try destruct lo; try destruct hi; try destruct positive; try destruct positive0; reflexivity.
Qed.

Definition ec_items (t : dtab) (p : id * num) : list (option Z) :=
  match rlookup (fst p) (ecs t) with
  | None => [Some 1]
  | Some c => [if negb (bound_ok_lo c (snd p)) then Some 3 else None; if negb (bound_ok_hi c (snd p)) then Some 3 else None]
  end.

Lemma ec_check_lww t data : ec_check t data = lww (flat_map (ec_items t) data) 0.
Proof.
  unfold ec_check, lww. rewrite fold_flat_map. generalize 0. induction data as [|p r IH]; intro a; cbn [fold_left]; [reflexivity|].
  rewrite <- IH. f_equal. unfold ec_items, bound_ok_lo, bound_ok_hi. destruct (rlookup (fst p) (ecs t)) as [c|]; cbn [fold_left]; [|reflexivity].
  destruct (ec_min c) as [lo|], (ec_max c) as [hi|]; cbn;
    repeat match goal with |- context [negb ?b] => destruct b; cbn end; reflexivity.
Qed.

Definition ex_unknown (t : dtab) (data : list (id * num)) : bool := existsb (fun p => match rlookup (fst p) (ecs t) with Some _ => false | None => true end) data.
Definition ex_outside (t : dtab) (data : list (id * num)) : bool :=
  existsb (fun p => match rlookup (fst p) (ecs t) with Some c => negb (in_range c (snd p)) | None => false end) data.

Lemma ec_items_some t data k : In (Some k) (flat_map (ec_items t) data) -> (k = 1 /\ ex_unknown t data = true) \/ (k = 3 /\ ex_outside t data = true).
Proof.
  intro H. apply in_flat_map in H as [p [Hp Hi]]. unfold ec_items in Hi. destruct (rlookup (fst p) (ecs t)) as [c|] eqn:L.
  - right. assert (k = 3 /\ in_range c (snd p) = false) as [-> R].
    { rewrite in_range_bounds. destruct Hi as [Hi|[Hi|[]]].
      - destruct (bound_ok_lo c (snd p)); cbn in Hi; [discriminate Hi|]. injection Hi as <-. split; reflexivity.
      - destruct (bound_ok_hi c (snd p)); cbn in Hi; [discriminate Hi|]. injection Hi as <-. split; [reflexivity|apply andb_false_r]. }
    split; [reflexivity|]. apply existsb_exists. exists p. split; [exact Hp|]. rewrite L, R. reflexivity.
  - left. destruct Hi as [Hi|[]]. injection Hi as <-. split; [reflexivity|]. apply existsb_exists. exists p. split; [exact Hp|]. rewrite L. reflexivity.
Qed.

Lemma ec_items_none t data : forallb is_none (flat_map (ec_items t) data) = true -> ex_unknown t data = false /\ ex_outside t data = false.
Proof.
  intro H. rewrite forallb_forall in H.
  assert (G : forall p, In p data -> forall o, In o (ec_items t p) -> is_none o = true).
  { intros p Hp o Ho. apply H. apply in_flat_map. exists p. split; assumption. }
  split.
  - destruct (ex_unknown t data) eqn:E; [|reflexivity]. apply existsb_exists in E as [p [Hp B]]. specialize (G p Hp). unfold ec_items in G.
    destruct (rlookup (fst p) (ecs t)); [discriminate B|]. specialize (G _ (or_introl eq_refl)). discriminate G.
  - destruct (ex_outside t data) eqn:E; [|reflexivity]. apply existsb_exists in E as [p [Hp B]]. specialize (G p Hp). unfold ec_items in G.
    destruct (rlookup (fst p) (ecs t)) as [c|]; [|discriminate B]. apply negb_true_iff in B. rewrite in_range_bounds in B.
    pose proof (G _ (or_introl eq_refl)) as G1. pose proof (G _ (or_intror (or_introl eq_refl))) as G2.
    destruct (bound_ok_lo c (snd p)); cbn in G1; [|discriminate G1]. destruct (bound_ok_hi c (snd p)); cbn in G2; [|discriminate G2]. discriminate B.
Qed.

Theorem ec_check_ok t data :
  (ec_check t data = 0 <-> ex_unknown t data || ex_outside t data = false) /\
  (ec_check t data <> 0 -> In (DAck (ec_check t data)) ((if ex_unknown t data then [DAck 1] else []) ++ (if ex_outside t data then [DAck 3] else []))).
Proof.
  rewrite ec_check_lww. destruct (lww_spec (flat_map (ec_items t) data) 0) as [[N E]|S].
  - rewrite E. destruct (ec_items_none t data N) as [-> ->]. split; [split; reflexivity|intro X; contradiction X; reflexivity].
  - destruct (ec_items_some t data _ S) as [[K X]|[K X]]; rewrite K; destruct (ex_unknown t data), (ex_outside t data); try discriminate X;
      (split; [split; intro Y; discriminate Y | intros _; cbn; auto]).
Qed.

Theorem set_refused_changes_nothing t data k : snd (m_set_ec t data) = DAck k -> k <> 0 -> fst (m_set_ec t data) = t.
Proof.
  unfold m_set_ec. destruct (ec_check t data =? 0); cbn [fst snd]; [|reflexivity]. intros H N. injection H as <-. contradiction N. reflexivity.
Qed.

(* an accepted S2F15 keeps every constant in range *)
Definition same_bounds (a b : list (id * econst)) : Prop :=
  forall k, match rlookup k a, rlookup k b with
            | Some x, Some y => ec_min x = ec_min y /\ ec_max x = ec_max y
            | None, None => True | _, _ => False end.

Lemma ec_assign_lookup tab p k :
  rlookup k (ec_assign tab p) =
  match rlookup k tab with
  | Some c => Some (if id_eqb k (fst p) then {| ec_name := ec_name c; ec_unit := ec_unit c; ec_min := ec_min c; ec_max := ec_max c; ec_def := ec_def c; ec_value := snd p |} else c)
  | None => None
  end.
Proof.
  unfold ec_assign, rlookup. induction tab as [|q tab IH]; cbn [map find]; [reflexivity|].
  destruct (id_eqb (fst q) (fst p)) eqn:E; cbn [fst].
  - destruct (id_eqb (fst q) k) eqn:E2; cbn [snd]; [|exact IH]. apply id_eqb_eq in E2. subst k. rewrite E. reflexivity.
  - destruct (id_eqb (fst q) k) eqn:E2; cbn [snd]; [|exact IH]. apply id_eqb_eq in E2. subst k. rewrite E. reflexivity.
Qed.

Lemma assign_keeps_range tab p : forallb (fun q => in_range (snd q) (ec_value (snd q))) tab = true ->
  (forall c, rlookup (fst p) tab = Some c -> in_range c (snd p) = true) ->
  keys_ok tab = true ->
  forallb (fun q => in_range (snd q) (ec_value (snd q))) (ec_assign tab p) = true.
Proof.
  intros H Hp Hk. unfold ec_assign. rewrite forallb_forall in *. intros q Hq. apply in_map_iff in Hq as [q0 [<- Hq0]].
  destruct (id_eqb (fst q0) (fst p)) eqn:E; [|exact (H _ Hq0)]. cbn [snd ec_value].
  assert (L : rlookup (fst p) tab = Some (snd q0)).
  { apply id_eqb_eq in E. rewrite <- E. clear -Hq0 Hk. unfold keys_ok in Hk. induction tab as [|x tab IH]; [contradiction Hq0|].
    cbn [map nodup_ids] in Hk. apply andb_true_iff in Hk as [K1 K2]. unfold rlookup. cbn [find]. destruct Hq0 as [->|Hin].
    - rewrite id_eqb_refl. reflexivity.
    - destruct (id_eqb (fst x) (fst q0)) eqn:E; [|apply IH; assumption]. apply id_eqb_eq in E. apply negb_true_iff in K1. exfalso.
      assert (X : mem (fst x) (map fst tab) = true); [|congruence]. apply existsb_exists. exists (fst q0). split; [apply in_map; exact Hin|rewrite E; apply id_eqb_refl]. }
  specialize (Hp _ L). unfold in_range in *. cbn [ec_min ec_max]. exact Hp.
Qed.

Lemma assign_keys tab p : keys_ok (ec_assign tab p) = keys_ok tab.
Proof. unfold ec_assign. apply keys_map. intro q. destruct (id_eqb (fst q) (fst p)); reflexivity. Qed.

Lemma fold_assign_range data : forall tab,
  forallb (fun q => in_range (snd q) (ec_value (snd q))) tab = true -> keys_ok tab = true ->
  (forall p c, In p data -> rlookup (fst p) tab = Some c -> bound_ok_lo c (snd p) && bound_ok_hi c (snd p) = true) ->
  forallb (fun q => in_range (snd q) (ec_value (snd q))) (fold_left ec_assign data tab) = true /\ keys_ok (fold_left ec_assign data tab) = true.
Proof.
  induction data as [|p r IH]; intros tab H Hk Hd; cbn [fold_left]; [split; assumption|].
  apply IH.
  - apply assign_keeps_range; [exact H| |exact Hk]. intros c L. rewrite in_range_bounds. apply (Hd p c (or_introl eq_refl) L).
  - rewrite assign_keys. exact Hk.
  - intros q c Hq L. rewrite ec_assign_lookup in L. destruct (rlookup (fst q) tab) as [c0|] eqn:L0; [|discriminate L]. injection L as <-.
    specialize (Hd q c0 (or_intror Hq) L0). unfold bound_ok_lo, bound_ok_hi in *. destruct (id_eqb (fst q) (fst p)); exact Hd.
Qed.

Lemma accepted_in_bounds t data : ex_outside t data = false ->
  forall p c, In p data -> rlookup (fst p) (ecs t) = Some c -> bound_ok_lo c (snd p) && bound_ok_hi c (snd p) = true.
Proof.
  intros H p c Hp L. unfold ex_outside in H. destruct (bound_ok_lo c (snd p) && bound_ok_hi c (snd p)) eqn:E; [reflexivity|].
  exfalso. assert (X : existsb (fun p0 => match rlookup (fst p0) (ecs t) with Some c0 => negb (in_range c0 (snd p0)) | None => false end) data = true); [|congruence].
  apply existsb_exists. exists p. split; [exact Hp|]. rewrite L, in_range_bounds, E. reflexivity.
Qed.

(* ---------- all steps ---------- *)
Theorem step_keeps t o : wf t -> ecs_in_range t = true -> wf (fst (ed_step t o)) /\ ecs_in_range (fst (ed_step t o)) = true.
Proof.
  intros (W1 & W2 & W3) R. destruct o as [ids|ids|ids|data|ids|k on|ids| |k|k|k v| ]; cbn [ed_step fst]; try (split; [repeat split; assumption|exact R]).
  - unfold m_set_ec. destruct (ec_check_ok t data) as [[Z1 _] _]. destruct (ec_check t data =? 0) eqn:E; cbn [fst]; [|split; [repeat split; assumption|exact R]].
    apply Z.eqb_eq in E. apply Z1 in E. apply orb_false_iff in E as [_ E].
    destruct (fold_assign_range data (ecs t) R W2 (accepted_in_bounds t data E)) as [A B].
    split; [repeat split; cbn [svs ecs alarms]; assumption|exact A].
  - destruct (negb (known k (alarms t))); cbn [fst]; [split; [repeat split; assumption|exact R]|].
    split; [|exact R]. unfold upd_alarm; repeat split; cbn [svs ecs alarms]; try assumption. rewrite keys_map; [exact W3|]. intro p. destruct (id_eqb (fst p) k); reflexivity.
  - destruct (rlookup k (alarms t)) as [a|]; [|split; [repeat split; assumption|exact R]]. destruct (al_set a); cbn [fst]; [split; [repeat split; assumption|exact R]|].
    split; [|exact R]. unfold upd_alarm; repeat split; cbn [svs ecs alarms]; try assumption. rewrite keys_map; [exact W3|]. intro p. destruct (id_eqb (fst p) k); reflexivity.
  - destruct (rlookup k (alarms t)) as [a|]; [|split; [repeat split; assumption|exact R]]. destruct (negb (al_set a)); cbn [fst]; [split; [repeat split; assumption|exact R]|].
    split; [|exact R]. unfold upd_alarm; repeat split; cbn [svs ecs alarms]; try assumption. rewrite keys_map; [exact W3|]. intro p. destruct (id_eqb (fst p) k); reflexivity.
  - split; [|exact R]. unfold upd_alarm; repeat split; cbn [svs ecs alarms]; try assumption. rewrite keys_map; [exact W1|]. intro p. destruct (id_eqb (fst p) k); reflexivity.
Qed.

Theorem run_keeps ops : forall t, wf t -> ecs_in_range t = true -> wf (fst (ed_run t ops)) /\ ecs_in_range (fst (ed_run t ops)) = true.
Proof.
  induction ops as [|o r IH]; intros t W R; cbn [ed_run]; [split; assumption|].
  destruct (step_keeps t o W R) as [W1 R1]. destruct (ed_step t o) as [t1 out]. cbn [fst] in *.
  specialize (IH t1 W1 R1). destruct (ed_run t1 r) as [t2 outs]. exact IH.
Qed.

Definition admitted13 (t : dtab) (o : dop) (t' : dtab) (out : dout) : Prop :=
  match e5d_step t o with
  | None => True
  | Some (t1, alts) => t' = t1 /\ exists alt, In alt alts /\ In out alt
  end.

Lemma option_map_match {A B} (g : A -> B) (x : option A) : option_map g x = match x with Some a => Some (g a) | None => None end.
Proof. destruct x; reflexivity. Qed.

Lemma alarm_ids_filter flag tab : m_alarm_ids flag tab = map fst (filter (fun p => flag (snd p)) tab).
Proof. induction tab as [|[k a] r IH]; [reflexivity|]. cbn [m_alarm_ids filter snd]. destruct (flag a); cbn [map fst]; rewrite IH; reflexivity. Qed.

Theorem step_refines13 t o : wf t -> admitted13 t o (fst (ed_step t o)) (snd (ed_step t o)).
Proof.
  intros (W1 & W2 & W3). unfold admitted13. destruct o as [ids|ids|ids|data|ids|k on|ids| |k|k|k v| ]; cbn [ed_step e5d_step fst snd].
  - split; [reflexivity|]. eexists. split; [left; reflexivity|]. left. unfold m_req_sv, all_or. destruct ids as [|i r].
    + f_equal. symmetry. rewrite <- (lookup_own (fun _ s => Some (sv_value s)) (fun _ => None) (svs t) W1).
      apply map_ext. intro k. apply option_map_match.
    + f_equal. apply map_ext. intro k. rewrite known_lookup. destruct (rlookup k (svs t)); reflexivity.
  - split; [reflexivity|]. eexists. split; [left; reflexivity|]. left. unfold m_name_sv, all_or. destruct ids as [|i r]; [|reflexivity].
    f_equal. exact (lookup_own (fun k s => (k, sv_name s, sv_unit s)) (fun k => (k, ""%string, ""%string)) (svs t) W1).
  - split; [reflexivity|]. eexists. split; [left; reflexivity|]. left. unfold m_req_ec, all_or. destruct ids as [|i r]; [|reflexivity].
    f_equal. symmetry. rewrite <- (lookup_own (fun _ c => Some (ec_value c)) (fun _ => None) (ecs t) W2).
    apply map_ext. intro k. apply option_map_match.
  - unfold m_set_ec. destruct (ec_check_ok t data) as [[Z1 Z2] Z3]. fold (ex_unknown t data) (ex_outside t data).
    destruct (ec_check t data =? 0) eqn:E.
    + apply Z.eqb_eq in E. rewrite (Z1 E). cbn [fst snd]. split; [reflexivity|]. eexists. split; [left; reflexivity|left; reflexivity].
    + apply Z.eqb_neq in E. destruct (ex_unknown t data || ex_outside t data) eqn:B; [|contradiction E; apply Z2; reflexivity].
      cbn [fst snd]. split; [reflexivity|]. eexists. split; [left; reflexivity|]. exact (Z3 E).
  - split; [reflexivity|]. eexists. split; [left; reflexivity|]. left. unfold m_name_ec, all_or. destruct ids as [|i r]; [|reflexivity].
    f_equal. exact (lookup_own (fun k c => (k, ec_name c, Some (ec_min c, ec_max c, ec_def c), ec_unit c)) (fun k => (k, ""%string, None, ""%string)) (ecs t) W2).
  - rewrite known_lookup. destruct (rlookup k (alarms t)) as [a|]; cbn [negb fst snd]; (split; [reflexivity|]); eexists; (split; [left; reflexivity|left; reflexivity]).
  - split; [reflexivity|]. eexists. split; [left; reflexivity|left; reflexivity].
  - split; [reflexivity|]. eexists. split; [left; reflexivity|left; reflexivity].
  - destruct (rlookup k (alarms t)) as [a|]; [|exact I]. destruct (al_set a) eqn:S; cbn [fst snd]; (split; [reflexivity|]); eexists; (split; [left; reflexivity|]); left;
      [reflexivity|]. unfold alcd. cbn [al_code al_set]. destruct (al_enabled a); reflexivity.
  - destruct (rlookup k (alarms t)) as [a|]; [|exact I]. destruct (al_set a) eqn:S; cbn [negb fst snd]; (split; [reflexivity|]); eexists; (split; [left; reflexivity|]); left;
      [|reflexivity]. unfold alcd. cbn [al_code al_set]. rewrite Z.add_0_r. destruct (al_enabled a); reflexivity.
  - split; [reflexivity|]. eexists. split; [left; reflexivity|left; reflexivity].
  - split; [reflexivity|]. eexists. split; [left; reflexivity|]. left. f_equal; symmetry; apply (alarm_ids_filter (fun a => _ a)).
Qed.

(* S5F5 is never aborted: one row per requested ALID, in request order, also for alarms that do not exist *)
Lemma list_alarms_rows t ids : ids <> [] ->
  exists rows, snd (ed_step t (DListAlarms ids)) = DAlarms rows /\ map (fun r => fst (fst r)) rows = ids /\
    forall k, In k ids -> In (match rlookup k (alarms t) with Some a => (k, alcd a, al_text a) | None => (k, NO_ALCD, ""%string) end) rows.
Proof.
  intro N. destruct ids as [|i r]; [contradiction|]. cbn [ed_step snd]. eexists. split; [reflexivity|]. split.
  - rewrite map_map. rewrite <- (map_id (i :: r)) at 2. apply map_ext. intro k. destruct (rlookup k (alarms t)); reflexivity.
  - intros k Hk. apply in_map_iff. exists k. split; [|exact Hk]. destruct (rlookup k (alarms t)) as [a|]; [|reflexivity].
    unfold al_row, alcd, ALARM_SET. reflexivity.
Qed.

(* the status variables AlarmsEnabled / AlarmsSet list exactly the alarms enabled / set at that moment, in table order *)
Lemma alarm_svs_current t :
  snd (ed_step t DReqAlarmSVs) = DAlarmLists (map fst (filter (fun p => al_enabled (snd p)) (alarms t))) (map fst (filter (fun p => al_set (snd p)) (alarms t))).
Proof. cbn [ed_step snd]. f_equal; apply (alarm_ids_filter (fun a => _ a)). Qed.
