(* Proofs/SmlProofs.v — C15: the SML reader terminates within a bound given by the input length, consumes
   tokens, and integers survive printing and re-reading. *)
From SG Require Import Base.Prelude Base.Kinds Gen.Jis8 Gen.ItemConsts Model.Secs2 Model.Item Model.Sfdl Model.Sml.
From Coq Require Import Lia ZifyBool ZifyN ZifyNat.
Ltac Zify.zify_post_hook ::= Z.div_mod_to_equations.
Open Scope N_scope.

(* ---------- the value loop of scalar items ---------- *)
Lemma read_values_ok {A} (conv : text -> res A) : forall fuel ts, (length ts < fuel)%nat ->
  match read_values conv fuel ts with
  | Ok (_, rest) => (length rest < length ts)%nat
  | Err e => e <> EOutOfFuel \/ exists t, In t ts /\ conv t = Err EOutOfFuel
  end.
Proof.
  induction fuel as [|f IH]; intros ts Hf; [lia|]. cbn [read_values].
  destruct ts as [|t r]; [left; discriminate|]. destruct (is_tok t c_gt); [cbn; lia|].
  destruct (conv t) as [x|e] eqn:Ec; cbn [bind].
  - specialize (IH r ltac:(cbn in Hf; lia)). destruct (read_values conv f r) as [[xs rest]|e]; cbn [bind fst snd].
    + cbn [length]. lia.
    + destruct IH as [H|(t' & Hin & Ht')]; [left; exact H|right; exists t'; split; [right; exact Hin|exact Ht']].
  - destruct e; try (left; discriminate). right. exists t. split; [left; reflexivity|exact Ec].
Qed.

Lemma parse_int0_fuel t : parse_int0 t <> Err EOutOfFuel.
Proof.
  unfold parse_int0. destruct (exotic t); [discriminate|]. destruct (split_sign t) as [neg ds].
  destruct ds as [|c r]; [discriminate|].
  repeat match goal with
         | |- context [match ?x with _ => _ end] => destruct x; try discriminate
         end.
Qed.
Lemma parse_int10_fuel t : parse_int10 t <> Err EOutOfFuel.
Proof.
  unfold parse_int10. destruct (exotic t); [discriminate|]. destruct (split_sign t) as [neg ds].
  destruct ds; [discriminate|]. destruct (digits_val 10 _ 0); discriminate.
Qed.
Lemma bounded_fuel lo hi z : bounded lo hi z <> Err EOutOfFuel.
Proof. unfold bounded. destruct (in_bounds lo hi z); discriminate. Qed.
Lemma mapM_fuel {A B} (f : A -> res B) l : (forall x, f x <> Err EOutOfFuel) -> mapM f l <> Err EOutOfFuel.
Proof.
  intro H. induction l as [|x l IH]; cbn; [discriminate|]. specialize (H x). destruct (f x) as [y|e]; cbn.
  - destruct (mapM f l) as [ys|e]; cbn; [discriminate|exact IH].
  - intro E. apply H. congruence.
Qed.
Lemma text_encode_fuel j t : text_encode j t <> Err EOutOfFuel.
Proof. unfold text_encode. destruct j; apply mapM_fuel; intro c; [destruct (jis8_encode c)|destruct (c <? 256)]; discriminate. Qed.
Lemma text_decode_fuel j t : text_decode j t <> Err EOutOfFuel.
Proof. unfold text_decode. destruct j; [apply mapM_fuel; intro c; destruct (jis8_decode c); discriminate|discriminate]. Qed.

Lemma read_scalar_ok c ts :
  match read_scalar c ts with
  | Ok (_, rest) => (length rest < length ts)%nat
  | Err e => e <> EOutOfFuel
  end.
Proof.
  unfold read_scalar. destruct c as [| | | | |k]; try discriminate.
  - match goal with |- context [read_values ?cv ?f ts] => pose proof (read_values_ok cv f ts ltac:(lia)) as H; destruct (read_values cv f ts) as [[xs rest]|e] end; cbn [bind fst snd]; [exact H|].
    destruct H as [H|(t & _ & Ht)]; [exact H|]. exfalso. cbn beta in Ht.
    pose proof (parse_int0_fuel t). destruct (parse_int0 t) as [z|]; cbn [bind] in Ht; [|congruence].
    pose proof (bounded_fuel item_min_B item_max_B z). destruct (bounded item_min_B item_max_B z); cbn [bind] in Ht; [discriminate|congruence].
  - match goal with |- context [read_values ?cv ?f ts] => pose proof (read_values_ok cv f ts ltac:(lia)) as H; destruct (read_values cv f ts) as [[xs rest]|e] end; cbn [bind fst snd]; [exact H|].
    destruct H as [H|(t & _ & Ht)]; [exact H|]. exfalso. cbn beta in Ht.
    pose proof (parse_int0_fuel t). destruct (parse_int0 t) as [z|]; cbn [bind] in Ht; [|congruence].
    pose proof (bounded_fuel item_min_BOOLEAN item_max_BOOLEAN z). destruct (bounded item_min_BOOLEAN item_max_BOOLEAN z); cbn [bind] in Ht; [discriminate|congruence].
  - match goal with |- context [read_values ?cv ?f ts] => pose proof (read_values_ok cv f ts ltac:(lia)) as H; destruct (read_values cv f ts) as [[xs rest]|e] end; cbn [bind fst snd].
    + pose proof (text_decode_fuel false (List.concat xs)). destruct (text_decode false (List.concat xs)); cbn [bind]; [exact H|intro E; inversion E; subst; match goal with H0 : Err EOutOfFuel <> Err EOutOfFuel |- _ => apply H0; reflexivity end].
    + destruct H as [H|(t & _ & Ht)]; [exact H|]. exfalso. cbn beta in Ht. destruct t as [|c0 t0]; [|destruct (N.eqb_spec c0 34) as [->|Hc]].
      * pose proof (parse_int0_fuel []). destruct (parse_int0 []) as [z|]; cbn [bind] in Ht; [|congruence].
        pose proof (bounded_fuel item_min_A item_max_A z). destruct (bounded item_min_A item_max_A z); cbn [bind] in Ht; [discriminate|congruence].
      * exact (text_encode_fuel false _ Ht).
      * assert (Hm : forall (X : Type) (a b : X), match c0 :: t0 with 34 :: _ => a | _ => b end = b).
        { intros X a b. destruct c0 as [|p]; [reflexivity|]. do 6 (destruct p as [p|p|]; try reflexivity). exfalso. apply Hc. reflexivity. }
        rewrite Hm in Ht.
        pose proof (parse_int0_fuel (c0 :: t0)). destruct (parse_int0 (c0 :: t0)) as [z|]; cbn [bind] in Ht; [|congruence].
        pose proof (bounded_fuel item_min_A item_max_A z). destruct (bounded item_min_A item_max_A z); cbn [bind] in Ht; [discriminate|congruence].
  - match goal with |- context [read_values ?cv ?f ts] => pose proof (read_values_ok cv f ts ltac:(lia)) as H; destruct (read_values cv f ts) as [[xs rest]|e] end; cbn [bind fst snd].
    + pose proof (text_decode_fuel true (List.concat xs)). destruct (text_decode true (List.concat xs)); cbn [bind]; [exact H|intro E; inversion E; subst; match goal with H0 : Err EOutOfFuel <> Err EOutOfFuel |- _ => apply H0; reflexivity end].
    + destruct H as [H|(t & _ & Ht)]; [exact H|]. exfalso. cbn beta in Ht. destruct t as [|c0 t0]; [|destruct (N.eqb_spec c0 34) as [->|Hc]].
      * pose proof (parse_int0_fuel []). destruct (parse_int0 []) as [z|]; cbn [bind] in Ht; [|congruence].
        pose proof (bounded_fuel item_min_J item_max_J z). destruct (bounded item_min_J item_max_J z); cbn [bind] in Ht; [discriminate|congruence].
      * exact (text_encode_fuel true _ Ht).
      * assert (Hm : forall (X : Type) (a b : X), match c0 :: t0 with 34 :: _ => a | _ => b end = b).
        { intros X a b. destruct c0 as [|p]; [reflexivity|]. do 6 (destruct p as [p|p|]; try reflexivity). exfalso. apply Hc. reflexivity. }
        rewrite Hm in Ht.
        pose proof (parse_int0_fuel (c0 :: t0)). destruct (parse_int0 (c0 :: t0)) as [z|]; cbn [bind] in Ht; [|congruence].
        pose proof (bounded_fuel item_min_J item_max_J z). destruct (bounded item_min_J item_max_J z); cbn [bind] in Ht; [discriminate|congruence].
  - destruct (item_is_float k).
    + destruct ts as [|t r]; [discriminate|]. destruct (is_tok t c_gt); [cbn; lia|discriminate].
    + match goal with |- context [read_values ?cv ?f ts] => pose proof (read_values_ok cv f ts ltac:(lia)) as H; destruct (read_values cv f ts) as [[xs rest]|e] end; cbn [bind fst snd]; [exact H|].
      destruct H as [H|(t & _ & Ht)]; [exact H|]. exfalso. cbn beta in Ht.
      pose proof (parse_int10_fuel t). destruct (parse_int10 t) as [z|]; cbn [bind] in Ht; [|congruence].
      exact (bounded_fuel _ _ _ Ht).
Qed.

(* ---------- the recursive reader ---------- *)
Lemma read_list_items_ok (rd : list text -> res (val * list text)) bound :
  (forall ts, (length ts <= bound)%nat ->
     match rd ts with Ok (_, rest) => (length rest < length ts)%nat | Err e => e <> EOutOfFuel end) ->
  forall g ts acc, (length ts < g)%nat -> (length ts <= bound)%nat ->
  match read_list_items rd g ts acc with Ok (_, rest) => (length rest < length ts)%nat | Err e => e <> EOutOfFuel end.
Proof.
  intro Hrd. induction g as [|g IH]; intros ts acc Hg Hb; [lia|]. cbn [read_list_items].
  destruct ts as [|t rest]; [discriminate|]. destruct (closes_list t); [cbn; lia|].
  specialize (Hrd (t :: rest) Hb). destruct (rd (t :: rest)) as [[x ts2]|e]; cbn [bind fst snd]; [|exact Hrd].
  specialize (IH ts2 (x :: acc) ltac:(lia) ltac:(lia)).
  destruct (read_list_items rd g ts2 (x :: acc)) as [[vs r]|e]; [lia|exact IH].
Qed.

(* the reader never needs more recursion than there are tokens, and every item it returns consumed tokens *)
Theorem read_item_ok : forall fuel ts, (length ts < fuel)%nat ->
  match read_item fuel ts with Ok (_, rest) => (length rest < length ts)%nat | Err e => e <> EOutOfFuel end.
Proof.
  induction fuel as [|f IH]; intros ts Hf; [lia|]. cbn [read_item].
  destruct ts as [|open [|ty r]]; try discriminate.
  destruct (negb (is_tok open c_lt)); [discriminate|].
  unfold upper. destruct (forallb (fun c => c <? 128) ty); cbn [bind]; [|discriminate].
  destruct (class_of_name (map upper_cp ty)) as [c|]; [|discriminate].
  assert (Hsc : forall c', match read_scalar c' r with Ok (_, rest) => (length rest < length (open :: ty :: r))%nat | Err e => e <> EOutOfFuel end).
  { intro c'. pose proof (read_scalar_ok c' r) as H. destruct (read_scalar c' r) as [[v rest]|e]; [cbn [length]; lia|exact H]. }
  destruct c; try apply Hsc.
  (* a list *)
  unfold peek1. destruct r as [|p r']; [discriminate|]. cbn [bind].
  assert (Hloop : forall r1, (length r1 <= length (p :: r'))%nat ->
            match read_list_items (read_item f) (S (length r1)) r1 [] with
            | Ok (_, rest) => (length rest < length r1)%nat | Err e => e <> EOutOfFuel end).
  { intros r1 Hr1. apply (read_list_items_ok (read_item f) (length (p :: r'))); [|lia|exact Hr1].
    intros ts' Hts'. apply IH. cbn [length] in *. lia. }
  destruct (is_tok p c_lb).
  - destruct r' as [|len_tok [|closing r'']]; try discriminate.
    destruct (is_tok closing c_rb); [|discriminate]. cbn [bind].
    specialize (Hloop r'' ltac:(cbn [length]; lia)).
    destruct (read_list_items (read_item f) (S (length r'')) r'' []) as [[vals rest]|e]; cbn [bind]; [|exact Hloop].
    pose proof (parse_int10_fuel len_tok) as Hp. destruct (parse_int10 len_tok) as [n|e]; cbn [bind]; [|intro E; apply Hp; inversion E; reflexivity].
    destruct ((0 <? n)%Z && negb (n =? Z.of_nat (length vals))%Z); cbn [bind]; [discriminate|]. cbn [length] in *. lia.
  - cbn [bind]. specialize (Hloop (p :: r') ltac:(lia)).
    destruct (read_list_items (read_item f) (S (length (p :: r'))) (p :: r') []) as [[vals rest]|e]; cbn [bind]; [|exact Hloop].
    cbn [length] in *. lia.
Qed.

Corollary from_sml_terminates src : from_sml src <> Err EOutOfFuel.
Proof.
  unfold from_sml. pose proof (read_item_ok (S (length (sml_tokens src))) (sml_tokens src) ltac:(lia)) as H.
  destruct (read_item _ _) as [[v rest]|e]; cbn [bind snd fst]; [destruct rest; discriminate|]. intro E. apply H. congruence.
Qed.

(* a result is only ever returned for a text whose first item is closed: the reader stopped right after a '>' *)
Lemma read_values_closed {A} (conv : text -> res A) : forall fuel ts xs rest,
  read_values conv fuel ts = Ok (xs, rest) -> exists pre, ts = pre ++ [c_gt] :: rest.
Proof.
  induction fuel as [|f IH]; intros ts xs rest H; [discriminate|]. cbn [read_values] in H.
  destruct ts as [|t r]; [discriminate|]. destruct (is_tok t c_gt) eqn:Et.
  - injection H as <- <-. exists []. unfold is_tok, text_eqb in Et. cbn [app]. f_equal.
    destruct t as [|a [|b t']]; cbn in Et; try discriminate; [|rewrite andb_false_r in Et; discriminate].
    apply andb_prop in Et as [Ea _]. apply N.eqb_eq in Ea. subst. reflexivity.
  - destruct (conv t); [|discriminate]. cbn [bind] in H. destruct (read_values conv f r) as [[ys rs]|] eqn:E; [|discriminate].
    cbn [bind fst snd] in H. injection H as <- <-. destruct (IH r ys rs E) as [pre ->]. exists (t :: pre). reflexivity.
Qed.

(* ---------- integers survive printing and reading ---------- *)
Definition is_dec (c : N) : bool := (48 <=? c) && (c <=? 57).

Lemma digit_val_dec d : d < 10 -> digit_val (48 + d) = Some d /\ is_dec (48 + d) = true.
Proof.
  intro H. unfold digit_val, is_dec.
  destruct (N.leb_spec 48 (48 + d)); [|lia]. destruct (N.leb_spec (48 + d) 57); [|lia]. cbn [andb].
  split; [f_equal; lia|reflexivity].
Qed.

Lemma dec_digits_S f n acc :
  dec_digits (S f) n acc = if n <? 10 then (48 + n mod 10) :: acc else dec_digits f (n / 10) ((48 + n mod 10) :: acc).
Proof. reflexivity. Qed.

Lemma dec_digits_spec : forall f n suf a, n < 10 ^ N.of_nat (S f) ->
  Forall (fun c => is_dec c = true) suf ->
  exists k, digits_val 10 (dec_digits (S f) n suf) a = digits_val 10 suf (a * 10 ^ k + n) /\
            Forall (fun c => is_dec c = true) (dec_digits (S f) n suf) /\ dec_digits (S f) n suf <> [].
Proof.
  induction f as [|f IH]; intros n suf a Hn Hs.
  - change (10 ^ N.of_nat 1) with 10 in Hn. rewrite dec_digits_S. destruct (N.ltb_spec n 10) as [_|H]; [|lia].
    rewrite N.mod_small by lia. destruct (digit_val_dec n Hn) as [D1 D2].
    exists 1. cbn [digits_val]. rewrite D1. destruct (N.ltb_spec n 10); [|lia]. rewrite N.pow_1_r.
    split; [reflexivity|]. split; [constructor; assumption|discriminate].
  - rewrite dec_digits_S. destruct (N.ltb_spec n 10) as [H|H].
    + rewrite N.mod_small by lia. destruct (digit_val_dec n H) as [D1 D2].
      exists 1. cbn [digits_val]. rewrite D1. destruct (N.ltb_spec n 10); [|lia]. rewrite N.pow_1_r.
      split; [reflexivity|]. split; [constructor; assumption|discriminate].
    + assert (Hm : n mod 10 < 10) by (apply N.mod_lt; lia). destruct (digit_val_dec (n mod 10) Hm) as [D1 D2].
      assert (Hd : n / 10 < 10 ^ N.of_nat (S f)).
      { apply N.div_lt_upper_bound; [lia|]. rewrite <- N.pow_succ_r'. rewrite <- Nat2N.inj_succ. exact Hn. }
      destruct (IH (n / 10) ((48 + n mod 10) :: suf) a Hd ltac:(constructor; assumption)) as (k & E & F & Ne).
      exists (k + 1). rewrite E. cbn [digits_val]. rewrite D1. destruct (N.ltb_spec (n mod 10) 10); [|lia].
      split; [|split; assumption]. f_equal. rewrite N.pow_add_r, N.pow_1_r. pose proof (N.div_mod n 10 ltac:(lia)). lia.
Qed.

Lemma print_N_spec n : exists ds, print_N n = ds /\ digits_val 10 ds 0 = Some n /\
  Forall (fun c => is_dec c = true) ds /\ ds <> [].
Proof.
  unfold print_N. set (f := N.to_nat (N.log2 n)).
  assert (Hn : n < 10 ^ N.of_nat (S f)).
  { unfold f. rewrite Nat2N.inj_succ, N2Nat.id. destruct (N.eq_dec n 0) as [->|Hz]; [reflexivity|].
    pose proof (N.log2_spec n ltac:(lia)) as [_ L].
    assert (2 ^ N.succ (N.log2 n) <= 10 ^ N.succ (N.log2 n)) by (apply N.pow_le_mono_l; lia). lia. }
  destruct (dec_digits_spec f n [] 0 Hn ltac:(constructor)) as (k & E & F & Ne).
  exists (dec_digits (S f) n []). split; [reflexivity|]. split; [|split; assumption].
  rewrite E. cbn [digits_val]. rewrite N.mul_0_l, N.add_0_l. reflexivity.
Qed.

Lemma dec_not_exotic ds : Forall (fun c => is_dec c = true) ds -> exotic ds = false.
Proof.
  intro H. unfold exotic. induction H as [|c ds Hc Hds IH]; [reflexivity|]. cbn [existsb]. rewrite IH.
  unfold is_dec in Hc. destruct (N.eqb_spec c 95); [subst; discriminate Hc|]. destruct (N.ltb_spec 127 c); [|reflexivity].
  apply andb_prop in Hc as [_ Hc]. apply N.leb_le in Hc. lia.
Qed.

Theorem int_print_parse z : parse_int10 (print_Z z) = Ok z.
Proof.
  unfold print_Z. destruct (Z.ltb_spec z 0) as [Hneg|Hpos].
  - destruct (print_N_spec (Z.to_N (- z))) as (ds & E & V & F & Ne). rewrite E.
    unfold parse_int10. assert (exotic (45 :: ds) = false) as -> by (cbn [exotic existsb]; apply dec_not_exotic; exact F).
    cbn [split_sign]. destruct ds as [|d ds']; [congruence|]. rewrite V. unfold signed. f_equal. lia.
  - destruct (print_N_spec (Z.to_N z)) as (ds & E & V & F & Ne). rewrite E.
    unfold parse_int10. rewrite (dec_not_exotic ds F).
    destruct ds as [|d ds']; [congruence|].
    assert (split_sign (d :: ds') = (false, d :: ds')) as ->.
    { inversion F as [|? ? Hd _]; subst. unfold is_dec in Hd. unfold split_sign.
      destruct d as [|p]; [discriminate Hd|]. do 6 (destruct p as [p|p|]; try reflexivity; try discriminate Hd). }
    rewrite V. unfold signed. f_equal. lia.
Qed.
