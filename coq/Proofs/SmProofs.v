(* Proofs/SmProofs.v — C18: the state-machine engine. *)
From SG Require Import Base.Prelude Spec.StateChart Model.StateMachine Gen.Machines.
From Coq Require Import Lia.
Open Scope nat_scope.

(* ---------- a request that is not allowed raises and changes nothing ---------- *)
Theorem disallowed_unchanged m h os fuel st name :
  (find_trans m name = None \/ exists srcs dst, find_trans m name = Some (srcs, dst) /\ existsb (Nat.eqb (cur st)) srcs = false) ->
  perform m h os (S fuel) st name = (st, true).
Proof.
  intros [H|(srcs & dst & H & Hs)]; cbn [perform]; rewrite H; [reflexivity|]. rewrite Hs. reflexivity.
Qed.

(* ---------- flat machines (no parent states): nested requests from enter / called handlers ---------- *)
Definition flat (m : machine) : Prop := forall s, parent_of m s = None.
Definition trans_in_range (m : machine) : Prop :=
  forall name srcs dst, find_trans m name = Some (srcs, dst) -> dst < nstates m.
Definition quiet_leave (h : handlers) : Prop := forall s, h (Leave s) = [].

Fixpoint one_hot (n i : nat) : list bool :=
  match n with O => [] | S k => match i with O => true :: repeat false k | S j => false :: one_hot k j end end.
Definition inv (m : machine) (st : sm) : Prop := cur st < nstates m /\ active st = one_hot (nstates m) (cur st).

Lemma set_nth_off n i : i < n -> set_nth i false (one_hot n i) = repeat false n.
Proof. revert i; induction n as [|n IH]; intros [|i] H; cbn; try lia; [reflexivity|]. rewrite IH by lia. reflexivity. Qed.
Lemma set_nth_on n i : i < n -> set_nth i true (repeat false n) = one_hot n i.
Proof. revert i; induction n as [|n IH]; intros [|i] H; cbn; try lia; [reflexivity|]. rewrite IH by lia. reflexivity. Qed.

Lemma run_requests_inv (P : sm -> Prop) (pf : sm -> string -> outcome) :
  (forall st n, P st -> snd (pf st n) = false -> P (fst (pf st n))) ->
  forall names st, P st -> snd (run_requests pf st names) = false -> P (fst (run_requests pf st names)).
Proof.
  intros Hpf. induction names as [|n r IH]; intros st Hst Hr; cbn [run_requests] in *; [exact Hst|].
  specialize (Hpf st n Hst). destruct (pf st n) as [st1 raised]. cbn [fst snd] in Hpf.
  destruct raised; [discriminate Hr|]. apply IH; [apply Hpf; reflexivity|exact Hr].
Qed.

Lemma inv_log m st e : inv m st -> inv m (with_log st e).
Proof. intros [A B]; split; assumption. Qed.

Lemma inv_spent m st e : inv m st -> inv m (with_spent st e).
Proof. intros [A B]; split; assumption. Qed.

Lemma fire_inv m h os (pf : sm -> string -> outcome) :
  (forall st n, inv m st -> snd (pf st n) = false -> inv m (fst (pf st n))) ->
  forall st e, inv m st -> snd (fire h os pf st e) = false -> inv m (fst (fire h os pf st e)).
Proof.
  intros Hpf st e Hst Hr. unfold fire in *.
  set (st0 := with_log st e) in *.
  assert (H0 : inv m st0) by (apply inv_log; exact Hst).
  destruct (if os e then if existsb (evt_same e) (spent st0) then (st0, []) else (with_spent st0 e, h e) else (st0, h e)) as [st0' names] eqn:E.
  assert (H0' : inv m st0').
  { destruct (os e); [destruct (existsb (evt_same e) (spent st0))|]; injection E as <- <-; [exact H0|apply inv_spent; exact H0|exact H0]. }
  pose proof (run_requests_inv (inv m) pf Hpf names st0' H0') as R.
  destruct (run_requests pf st0' names) as [st1 raised]. cbn [fst snd] in R.
  destruct raised; [discriminate Hr|]. cbn [fst]. apply inv_log. apply R. reflexivity.
Qed.

Lemma leave_flat m h os pf n st s dst : flat m -> quiet_leave h -> 0 < n ->
  exists st', leave_chain m h os pf n st s dst = (st', false) /\ cur st' = cur st /\ active st' = set_nth s false (active st).
Proof.
  intros Hflat Hq Hn. destruct n as [|k]; [lia|]. cbn [leave_chain]. unfold fire. rewrite Hq.
  destruct (os (Leave s)); [destruct (existsb (evt_same (Leave s)) (spent (with_log st (Leave s))))|];
    cbn [run_requests]; rewrite Hflat; eexists; (split; [reflexivity|split; reflexivity]).
Qed.

Theorem flat_nested_consistent m h os : flat m -> trans_in_range m -> quiet_leave h ->
  forall fuel st name, inv m st -> snd (perform m h os fuel st name) = false -> inv m (fst (perform m h os fuel st name)).
Proof.
  intros Hflat Hrange Hq. induction fuel as [|f IH]; intros st name Hinv Hok; [discriminate Hok|].
  cbn [perform] in *. destruct (find_trans m name) as [[srcs dst]|] eqn:Ef; [|discriminate Hok].
  destruct (negb (existsb (Nat.eqb (cur st)) srcs)); [discriminate Hok|].
  pose proof (Hrange _ _ _ Ef) as Hdst. destruct Hinv as [Hc Ha].
  destruct (leave_flat m h os (perform m h os f) (nstates m) st (cur st) dst Hflat Hq ltac:(lia)) as (st1 & Hl & Hc1 & Ha1).
  rewrite Hl in *. rewrite Hc1 in *.
  set (st2 := with_cur st1 dst) in *.
  assert (He : enter_chain m h os (perform m h os f) (nstates m) st2 dst (cur st) =
               fire h os (perform m h os f) (with_active st2 dst true) (Enter dst)).
  { destruct (nstates m) as [|k] eqn:En; [lia|]. cbn [enter_chain].
    destruct (fire h os (perform m h os f) (with_active st2 dst true) (Enter dst)) as [s3 r3]. destruct r3; [reflexivity|].
    rewrite Hflat. reflexivity. }
  rewrite He in *.
  assert (Hinv2 : inv m (with_active st2 dst true)).
  { split; [exact Hdst|]. unfold st2. cbn [with_active with_cur cur active]. rewrite Ha1, Ha, set_nth_off, set_nth_on by assumption. reflexivity. }
  pose proof (fire_inv m h os (perform m h os f) (fun s n Hs Hn => IH s n Hs Hn) _ (Enter dst) Hinv2) as R1.
  destruct (fire h os (perform m h os f) (with_active st2 dst true) (Enter dst)) as [st3 r3]. cbn [fst snd] in R1.
  destruct r3; [discriminate Hok|]. specialize (R1 eq_refl).
  apply (fire_inv m h os (perform m h os f) (fun s n Hs Hn => IH s n Hs Hn) st3 (Called name) R1). exact Hok.
Qed.

(* ---------- the three shipped machines: every state x every request, by exhaustive evaluation ---------- *)
Definition evt_eqb (a b : evt) : bool :=
  match a, b with
  | Enter x, Enter y | Leave x, Leave y => x =? y
  | Called x, Called y | PostCalled x, PostCalled y => String.eqb x y
  | PostEnter x, PostEnter y | PostLeave x, PostLeave y => x =? y
  | _, _ => false
  end.
Definition is_primary (e : evt) : bool := match e with Enter _ | Leave _ | Called _ => true | _ => false end.
Definition count (e : evt) (l : list evt) : nat := length (filter (evt_eqb e) l).
Definition same_events (a b : list evt) : bool := (length a =? length b) && forallb (fun e => count e a =? count e b) a.

Definition start_state (m : machine) (s : nat) : sm := {| cur := s; active := active_after (m_parent m) s; log := []; spent := [] |}.

(* the engine's verdict, end state, flags and events for request `name` in state s are those of the reference *)
Definition step_conforms (m : machine) (s : nat) (name : string) : bool :=
  let '(st, raised) := perform m no_handlers never_one_shot 4 (start_state m s) name in
  match find (fun t => String.eqb (fst (fst t)) name) (m_trans m) with
  | Some (_, srcs, dst) =>
    if mem s srcs then
      negb raised && (cur st =? dst) && list_eqb Bool.eqb (active st) (active_after (m_parent m) dst) &&
      same_events (filter is_primary (log st)) (map Leave (exits (m_parent m) s dst) ++ map Enter (enters (m_parent m) s dst) ++ [Called name]) &&
      same_events (filter (fun e => negb (is_primary e)) (log st)) (map post_of (filter is_primary (log st)))
    else raised && (cur st =? s) && list_eqb Bool.eqb (active st) (active_after (m_parent m) s) && match log st with [] => true | _ => false end
  | None => raised && (cur st =? s) && list_eqb Bool.eqb (active st) (active_after (m_parent m) s) && match log st with [] => true | _ => false end
  end.

Definition machine_conforms (m : machine) : bool :=
  forest_ok (m_parent m) &&
  forallb (fun s => forallb (step_conforms m s) ("no such transition"%string :: map (fun t => fst (fst t)) (m_trans m)))
          (seq 0 (nstates m)).

Theorem shipped_machines_conform :
  machine_conforms connection_machine = true /\ machine_conforms communication_machine = true /\ machine_conforms control_machine = true.
Proof. repeat split; vm_compute; reflexivity. Qed.

Lemma machine_conforms_spec m : machine_conforms m = true ->
  forall s name, s < nstates m -> (name = "no such transition"%string \/ In name (map (fun t => fst (fst t)) (m_trans m))) ->
  step_conforms m s name = true.
Proof.
  unfold machine_conforms. intros H s name Hs Hn. apply andb_prop in H as [_ H].
  rewrite forallb_forall in H. specialize (H s). rewrite in_seq in H. specialize (H ltac:(lia)).
  rewrite forallb_forall in H. apply H. destruct Hn as [->|Hn]; [left; reflexivity|right; exact Hn].
Qed.

(* ---------- what does NOT hold: nested requests in a hierarchical machine ---------- *)
(* states 0 (root), 1 (root, parent of 2); "go": 0 -> 2, and the enter handler of 2 immediately requests "back": 2 -> 0 *)
Definition cex_machine : machine :=
  {| m_parent := [None; None; Some 1]; m_trans := [("go"%string, [0], 2); ("back"%string, [2], 0)] |}.
Definition cex_handlers : handlers := fun e => match e with Enter 2 => ["back"%string] | _ => [] end.
Theorem nested_hierarchical_refuted :
  let '(st, raised) := perform cex_machine cex_handlers never_one_shot 8 (start_state cex_machine 0) "go"%string in
  raised = false /\ cur st = 0 /\ active st = [true; true; false] /\ active_after (m_parent cex_machine) 0 = [true; false; false].
Proof. vm_compute. repeat split. Qed.

(* ---------- what does NOT hold: two threads requesting at the same time (no lock) ---------- *)
(* flat machine, atomic steps of _perform_transition: check source; fire leave + clear flag; set current; set flag + fire enter; fire called *)
Inductive pc := PCheck | PLeave | PSet | PEnter | PCalled | PDone | PRaised.
Record thread := { t_pc : pc; t_name : string; t_dst : nat; t_old : nat }.
Definition cstep (m : machine) (st : sm) (t : thread) : sm * thread :=
  match t_pc t with
  | PCheck => match find_trans m (t_name t) with
              | Some (srcs, dst) => if existsb (Nat.eqb (cur st)) srcs
                                    then (st, {| t_pc := PLeave; t_name := t_name t; t_dst := dst; t_old := 0 |})
                                    else (st, {| t_pc := PRaised; t_name := t_name t; t_dst := 0; t_old := 0 |})
              | None => (st, {| t_pc := PRaised; t_name := t_name t; t_dst := 0; t_old := 0 |})
              end
  | PLeave => (with_active (with_log st (Leave (cur st))) (cur st) false, {| t_pc := PSet; t_name := t_name t; t_dst := t_dst t; t_old := 0 |})
  | PSet => (with_cur st (t_dst t), {| t_pc := PEnter; t_name := t_name t; t_dst := t_dst t; t_old := cur st |})
  | PEnter => (with_log (with_active st (t_dst t) true) (Enter (t_dst t)), {| t_pc := PCalled; t_name := t_name t; t_dst := t_dst t; t_old := t_old t |})
  | PCalled => (with_log st (Called (t_name t)), {| t_pc := PDone; t_name := t_name t; t_dst := t_dst t; t_old := t_old t |})
  | _ => (st, t)
  end.
(* a schedule says which of the two threads moves next *)
Fixpoint crun (m : machine) (st : sm) (a b : thread) (sched : list bool) : sm * thread * thread :=
  match sched with
  | [] => (st, a, b)
  | true :: r => let '(st', a') := cstep m st a in crun m st' a' b r
  | false :: r => let '(st', b') := cstep m st b in crun m st' a b' r
  end.
Definition two_machine : machine := {| m_parent := [None; None; None]; m_trans := [("x"%string, [0], 1); ("y"%string, [0], 2)] |}.
Theorem concurrent_refuted :
  let t name := {| t_pc := PCheck; t_name := name; t_dst := 0; t_old := 0 |} in
  let '(st, a, b) := crun two_machine (start_state two_machine 0) (t "x"%string) (t "y"%string)
                          [true; false; true; false; true; false; true; false; true; false] in
  t_pc a = PDone /\ t_pc b = PDone /\                     (* both requests were "allowed" and ran to completion *)
  cur st = 2 /\ active st = [false; true; true] /\         (* two states report active *)
  count (Leave 0) (log st) = 2.                            (* the state left once fired its leave event twice *)
Proof. vm_compute. repeat split. Qed.

(* a request made from a LEAVE handler of a flat machine: A's leave handler (once) requests ac while ab is under way *)
Definition leave_machine : machine := {| m_parent := [None; None; None]; m_trans := [("ab"%string, [0], 1); ("ac"%string, [0], 2)] |}.
Definition leave_handlers : handlers := fun e => match e with Leave 0 => ["ac"%string] | _ => [] end.
Definition leave_once : evt -> bool := fun e => match e with Leave 0 => true | _ => false end.
Theorem nested_from_leave_refuted :
  let '(st, raised) := perform leave_machine leave_handlers leave_once 8 (start_state leave_machine 0) "ab"%string in
  raised = false /\ cur st = 1 /\ active st = [false; true; true] /\ count (Leave 0) (log st) = 2.
Proof. vm_compute. repeat split. Qed.
