(* Proofs/AlarmsProofs.v — set_alarm / clear_alarm as read statement by statement from the source (Gen/Alarms.v), carried out on the model's alarm
   table, are Model/EquipData.v's steps: in particular the alarm's state changes before its report goes out (D63). *)
From Coq Require Import Lia.
From SG Require Import Base.Prelude Spec.E5Reports Spec.E5Data Gen.Alarms Model.EquipData.
Local Open Scope Z_scope.

(* carrying the steps out for alarm k; `st` is the table as the steps have changed it so far, the result is the table and what the caller / the host
   sees: DAbort = ValueError to the caller, DReport = an S5F1 on the wire.  ATrigger is the collection event of the alarm: C12's matter. *)
Fixpoint run_alarm (ops : list alarm_op) (st : dtab) (k : id) : dtab * dout :=
  match ops with
  | [] => (st, DNone)
  | ARaiseIfUnknown :: r => match rlookup k (alarms st) with None => (st, DAbort) | Some _ => run_alarm r st k end
  | AReturnIfSet b :: r =>
      match rlookup k (alarms st) with
      | Some a => if Bool.eqb (al_set a) b then (st, DNone) else run_alarm r st k
      | None => (st, DAbort)
      end
  | ASetFlag b :: r =>
      match rlookup k (alarms st) with
      | Some a => run_alarm r (upd_alarm st k (fun _ => {| al_code := al_code a; al_text := al_text a; al_enabled := al_enabled a; al_set := b |})) k
      | None => (st, DAbort)
      end
  | AReportIfEnabled with_set_bit :: r =>
      match rlookup k (alarms st) with
      | Some a => if al_enabled a then (fst (run_alarm r st k), DReport (if with_set_bit then Z.lor (al_code a) 128 else al_code a) k) else run_alarm r st k
      | None => (st, DAbort)
      end
  | ATrigger _ :: r => run_alarm r st k
  end.

Lemma lor128_sweep : forallb (fun c => Z.lor c 128 =? c + 128) (map Z.of_nat (seq 0 128)) = true.
Proof. vm_compute. reflexivity. Qed.
Lemma lor128 c : 0 <= c < 128 -> Z.lor c 128 = c + 128.
Proof.
  intro H. pose proof lor128_sweep as S. rewrite forallb_forall in S.
  apply Z.eqb_eq, S, in_map_iff. exists (Z.to_nat c). split; [lia|]. apply in_seq. lia.
Qed.

Lemma lookup_upd (m : list (id * alarm)) k a' :
  rlookup k m <> None -> rlookup k (map (fun p => if id_eqb (fst p) k then (fst p, a') else p) m) = Some a'.
Proof.
  unfold rlookup. induction m as [|p m IH]; cbn [find map]; intro H; [contradiction H; reflexivity|].
  destruct (id_eqb (fst p) k) eqn:E; cbn [fst snd]; rewrite E; [reflexivity|]. apply IH. exact H.
Qed.

Theorem set_alarm_code_is_model t k :
  (forall a, rlookup k (alarms t) = Some a -> 0 <= al_code a < 128) ->
  ed_step t (DSetAlarm k) = run_alarm set_alarm_ops t k /\ ed_step t (DClearAlarm k) = run_alarm clear_alarm_ops t k.
Proof.
  intro Hc. unfold ed_step, set_alarm_ops, clear_alarm_ops. cbn [run_alarm].
  destruct (rlookup k (alarms t)) as [a|] eqn:L; [|split; reflexivity]. specialize (Hc a eq_refl).
  split; destruct (al_set a) eqn:S; cbn [Bool.eqb negb]; try reflexivity;
    unfold upd_alarm; cbn [alarms]; rewrite lookup_upd by (rewrite L; discriminate); cbn [al_enabled al_code];
    destruct (al_enabled a); cbn [fst]; rewrite ?lor128 by exact Hc; reflexivity.
Qed.
