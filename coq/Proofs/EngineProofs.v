(* Proofs/EngineProofs.v — the hand-written chains of Model/StateMachine.v are interpreters of the step sequences regenerated from the source
   (Gen/Engine.v): State.enter / State.leave level by level, and StateMachine._perform_transition step by step, for every machine, every table
   of handlers and every state. *)
From SG Require Import Base.Prelude Model.StateMachine Gen.Engine.
Local Open Scope nat_scope.
Local Open Scope string_scope.

Section Interp.
Variable m : machine.
Variable h : handlers.
Variable one_shot : evt -> bool.
Variable prf : sm -> string -> outcome.       (* the requests made from inside handlers *)

Definition evt_of (name : string) (s : nat) : evt := if String.eqb name "enter" then Enter s else Leave s.

(* a condition on the way up to the parent p, by the name the translator gave it; `other` is the source (enter) / the destination (leave) and is
   never None inside a transition *)
Definition cond_holds (st : sm) (p other : nat) (c : string) : bool :=
  if String.eqb c "other_outside_parent" then negb (is_within m other p)
  else if String.eqb c "parent_inactive" then negb (nth p (active st) false)
  else false.

(* one level: the statements of State.enter / State.leave for state s; result: state, exception?, go on to the parent? *)
Fixpoint run_state_ops (ops : list state_op) (st : sm) (s other : nat) : sm * bool * bool :=
  match ops with
  | [] => (st, false, false)
  | OSetActive :: r => run_state_ops r (with_active st s true) s other
  | OClearActive :: r => run_state_ops r (with_active st s false) s other
  | OFire e :: r => let '(st1, raised) := fire h one_shot prf st (evt_of e s) in
                    if raised then (st1, true, false) else run_state_ops r st1 s other
  | OParent cs :: r => match parent_of m s with
                       | Some p => if existsb (cond_holds st p other) cs then (st, false, true) else run_state_ops r st s other
                       | None => run_state_ops r st s other
                       end
  end.

Fixpoint chain_ops (ops : list state_op) (fuel : nat) (st : sm) (s other : nat) : outcome :=
  let '(st1, raised, up) := run_state_ops ops st s other in
  if raised then (st1, true) else
  if up then match fuel with
             | O => (st1, false)
             | S f => match parent_of m s with Some p => chain_ops ops f st1 p other | None => (st1, false) end
             end
  else (st1, false).

Lemma enter_chain_is_ops fuel : forall st s src,
  enter_chain m h one_shot prf fuel st s src = chain_ops state_enter_ops fuel st s src.
Proof.
  induction fuel as [|f IH]; intros st s src; cbn [enter_chain chain_ops state_enter_ops run_state_ops evt_of String.eqb Ascii.eqb Bool.eqb];
    destruct (fire h one_shot prf (with_active st s true) (Enter s)) as [st2 raised]; destruct raised; try reflexivity;
    destruct (parent_of m s) as [p|]; try reflexivity; cbn [existsb cond_holds String.eqb Ascii.eqb Bool.eqb orb];
    destruct (is_within m src p); destruct (nth p (active st2) false); cbn [negb andb orb]; try reflexivity; apply IH.
Qed.

Lemma leave_chain_is_ops fuel : forall st s dst,
  leave_chain m h one_shot prf fuel st s dst = chain_ops state_leave_ops fuel st s dst.
Proof.
  induction fuel as [|f IH]; intros st s dst; cbn [leave_chain chain_ops state_leave_ops run_state_ops evt_of String.eqb Ascii.eqb Bool.eqb];
    destruct (fire h one_shot prf st (Leave s)) as [st1 raised]; destruct raised; try reflexivity;
    destruct (parent_of m s) as [p|]; try reflexivity; cbn [existsb cond_holds String.eqb Ascii.eqb Bool.eqb orb];
    destruct (is_within m dst p); cbn [negb orb]; try reflexivity; apply IH.
Qed.

(* _perform_transition inside the lock, after the look-up: the statements in source order; `old` is the remembered state *)
Fixpoint run_perform_ops (ops : list trans_op) (name : string) (srcs : list nat) (dst : nat) (st : sm) (old : nat) : outcome :=
  match ops with
  | [] => (st, false)
  | TCheckSource :: r => if negb (existsb (Nat.eqb (cur st)) srcs) then (st, true) else run_perform_ops r name srcs dst st old
  | TLeaveCurrent :: r => let '(st1, raised) := chain_ops state_leave_ops (nstates m) st (cur st) dst in
                          if raised then (st1, true) else run_perform_ops r name srcs dst st1 old
  | TRememberCurrent :: r => run_perform_ops r name srcs dst st (cur st)
  | TAssignCurrent :: r => run_perform_ops r name srcs dst (with_cur st dst) old
  | TEnterFromRemembered :: r => let '(st1, raised) := chain_ops state_enter_ops (nstates m) st dst old in
                                 if raised then (st1, true) else run_perform_ops r name srcs dst st1 old
  | TFireCalled :: r => let '(st1, raised) := fire h one_shot prf st (Called name) in
                        if raised then (st1, true) else run_perform_ops r name srcs dst st1 old
  end.
End Interp.

(* StateMachine._perform_transition: one request, the nested ones going through the same function with less fuel *)
Theorem perform_is_ops m h one_shot f st name :
  perform m h one_shot (S f) st name =
  match find_trans m name with
  | None => (st, true)
  | Some (srcs, dst) => run_perform_ops m h one_shot (perform m h one_shot f) perform_ops name srcs dst st 0
  end.
Proof.
  cbn [perform]. destruct (find_trans m name) as [[srcs dst]|]; [|reflexivity].
  cbn [run_perform_ops perform_ops]. destruct (negb (existsb (Nat.eqb (cur st)) srcs)); [reflexivity|].
  rewrite leave_chain_is_ops. destruct (chain_ops _ _ _ _ state_leave_ops (nstates m) st (cur st) dst) as [st1 r1]. destruct r1; [reflexivity|].
  rewrite enter_chain_is_ops. cbn [cur with_cur].
  destruct (chain_ops m h one_shot (perform m h one_shot f) state_enter_ops (nstates m) (with_cur st1 dst) dst (cur st1)) as [st3 r3]. destruct r3; [reflexivity|].
  destruct (fire h one_shot (perform m h one_shot f) st3 (Called name)) as [st4 r4]. destruct r4; reflexivity.
Qed.
