(* Proofs/EndpointProofs.v — C09: whatever prefix of whatever stream has arrived, closing the connection leaves the
   endpoint model clean and reusable; a stream cut anywhere delivers exactly the messages that arrived completely. *)
From SG Require Import Base.Prelude Base.Kinds Spec.E37Session Spec.E4E37Frames Model.StateMachine Model.Secs2 Model.Frames Model.HsmsRx Model.HsmsSession Model.Endpoint
  Gen.Machines Proofs.Secs2Dec Proofs.FramesProofs Proofs.RxProofs Proofs.SessionProofs.
From Coq Require Import Lia.
Open Scope Z_scope.

(* ---------- closing ---------- *)
Definition clean (e : ep) : Prop := e_rx e = rx_init /\ abs_state (e_hs e) = NotConnected /\ h_closing (e_hs e) = false.

Theorem close_cleans e : inv (e_hs e) -> is_connected (e_hs e) = true -> clean (fst (ep_step e LClose)) /\ inv (e_hs (fst (ep_step e LClose))).
Proof.
  intros Hi Hc. cbn [ep_step]. rewrite Hc.
  assert (Hst : abs_state (e_hs e) <> NotConnected).
  { unfold is_connected in Hc. apply negb_true_iff in Hc. unfold abs_state. change connection_NOT_CONNECTED with 0%nat in Hc.
    destruct Hi as [[C|[C|C]] _]; rewrite C in *; cbn in *; try discriminate; congruence. }
  assert (E : exists a' o, e37_step (SessionProofs.abs (e_hs e)) EvClosed = Some (a', o) /\ st a' = NotConnected /\ closing a' = false).
  { cbn [e37_step SessionProofs.abs st]. destruct (abs_state (e_hs e)); [contradiction Hst; reflexivity| |]; eexists; eexists; (split; [reflexivity|split; reflexivity]). }
  destruct E as (a' & o & E & S1 & S2). destruct (step_refines (e_hs e) EvClosed a' o Hi I E) as (_ & A & B).
  destruct (hs_step (e_hs e) EvClosed) as [s1 o1]. cbn [fst snd e_hs e_rx] in *. split; [|exact B].
  split; [reflexivity|]. unfold SessionProofs.abs in A. rewrite <- A in S1, S2. cbn [st closing] in S1, S2. split; assumption.
Qed.

(* ---------- a whole frame at the head of the buffer ---------- *)
Lemma drain_cons_frame m rest : frame_ok m ->
  drainF (enc_frame m ++ rest) = let '(b, blk, out, ab) := drainF rest in (b, blk, Delivered (fst m) (snd m) :: out, ab).
Proof.
  intro Hm. destruct (enc_frame_shape m Hm) as (L14 & Llen & Ldec). set (fr := enc_frame m) in *.
  unfold drainF at 1. cbn [drain].
  assert ((length (fr ++ rest) <? 4)%nat = false) as -> by (apply Nat.ltb_ge; rewrite app_length; lia).
  assert (F4 : firstn 4 (fr ++ rest) = firstn 4 fr) by (rewrite firstn_app; replace (4 - length fr)%nat with O by lia; rewrite firstn_O, app_nil_r; reflexivity).
  rewrite F4, Llen.
  assert ((N.of_nat (length (fr ++ rest)) <? N.of_nat (length fr))%N = false) as -> by (apply N.ltb_ge; rewrite app_length; lia).
  rewrite Nat2N.id, firstn_len_app, skipn_len_app, Ldec.
  assert (Hfu : drain (length (fr ++ rest)) rest = drainF rest).
  { unfold drainF. apply drain_fuel; [rewrite app_length|]; lia. }
  rewrite Hfu. destruct (drainF rest) as [[[b blk] out] ab]. destruct m; reflexivity.
Qed.

(* a proper prefix of a frame: nothing is delivered, nothing is dropped *)
Lemma drain_partial m cut : frame_ok m -> (cut < length (enc_frame m))%nat ->
  exists blk, drainF (firstn cut (enc_frame m)) = (firstn cut (enc_frame m), blk, [], false).
Proof.
  intros Hm Hc. destruct (enc_frame_shape m Hm) as (L14 & Llen & _). set (fr := enc_frame m) in *.
  unfold drainF. cbn [drain]. rewrite firstn_length_le by lia.
  destruct (cut <? 4)%nat eqn:E4; [eexists; reflexivity|]. apply Nat.ltb_ge in E4.
  assert (F4 : firstn 4 (firstn cut fr) = firstn 4 fr) by (rewrite firstn_firstn; f_equal; lia).
  rewrite F4, Llen.
  assert ((N.of_nat cut <? N.of_nat (length fr))%N = true) as -> by (apply N.ltb_lt; lia).
  eexists; reflexivity.
Qed.

(* the messages that lie completely before the cut *)
Fixpoint whole (cut : nat) (ms : list (hhdr * list N)) : list (hhdr * list N) :=
  match ms with
  | [] => []
  | m :: r => if (length (enc_frame m) <=? cut)%nat then m :: whole (cut - length (enc_frame m)) r else []
  end.

Theorem prefix_delivers_whole ms : Forall frame_ok ms -> forall cut,
  exists b blk, drainF (firstn cut (List.concat (map enc_frame ms))) = (b, blk, map (fun m => Delivered (fst m) (snd m)) (whole cut ms), false).
Proof.
  induction ms as [|m r IH]; intros H cut; cbn [map List.concat whole].
  - rewrite firstn_nil. exists [], false. reflexivity.
  - inversion H as [|? ? Hm Hr]; subst. rewrite firstn_app.
    destruct (length (enc_frame m) <=? cut)%nat eqn:E.
    + apply Nat.leb_le in E. rewrite firstn_all2 by exact E. rewrite (drain_cons_frame m _ Hm).
      destruct (IH Hr (cut - length (enc_frame m))%nat) as (b & blk & D). rewrite D. exists b, blk. reflexivity.
    + apply Nat.leb_gt in E. replace (cut - length (enc_frame m))%nat with O by lia. rewrite firstn_O, app_nil_r.
      destruct (drain_partial m cut Hm E) as [blk D]. rewrite D. eexists; eexists; reflexivity.
Qed.

(* ---------- reusable after the close ---------- *)
Definition select_req (system : Z) : hhdr * list N :=
  ({| h_system := system; h_session := 65535; h_stream := 0; h_function := 0; h_w := false; h_ptype := 0; h_stype := 1 |}, []).

Theorem reusable_after_close e system : inv (e_hs e) -> clean e -> 0 <= system < 4294967296 ->
  let '(e2, outs) := ep_run e [LConnect; LFeed (enc_frame (select_req system))] in
  outs = [[]; [OutCtrl ST_SELECT_RSP system]] /\ abs_state (e_hs e2) = Selected /\ e_rx e2 = rx_init.
Proof.
  intros Hi (Hrx & Hst & Hcl) Hs. cbn [ep_run ep_step].
  (* connect *)
  assert (E1 : e37_step (SessionProofs.abs (e_hs e)) EvConnected = Some ({| st := NotSelected; waiting := h_queues (e_hs e); closing := false |}, [])).
  { cbn [e37_step SessionProofs.abs st waiting]. rewrite Hst. reflexivity. }
  destruct (step_refines (e_hs e) EvConnected _ _ Hi I E1) as (O1 & A1 & I1).
  destruct (hs_step (e_hs e) EvConnected) as [s1 o1] eqn:H1. cbn [fst snd e_hs e_rx] in *. subst o1.
  assert (C1 : is_connected s1 = true).
  { unfold is_connected. change connection_NOT_CONNECTED with 0%nat. assert (X : abs_state s1 = NotSelected) by (apply (f_equal st) in A1; exact A1).
    unfold abs_state in X. destruct (cur (h_sm s1)) as [|[|[|[|n]]]]; cbn in *; try discriminate X; reflexivity. }
  rewrite C1, Hrx.
  (* the Select.req frame *)
  assert (Fok : frame_ok (select_req system)).
  { split; [|cbn; lia]. unfold hhdr_fields_ok, select_req. cbn [fst h_system h_session h_stream h_function h_ptype h_stype]. repeat split; try lia. }
  unfold rx_feed. cbn [rx_buf rx_init app]. fold (drainF (enc_frame (select_req system))).
  pose proof (drain_cons_frame (select_req system) [] Fok) as D. rewrite app_nil_r in D. rewrite D. cbn [drainF drain length Nat.ltb Nat.leb].
  cbn [deliver fst snd select_req event_of h_stype h_system h_function Z.eqb].
  assert (E2 : e37_step (SessionProofs.abs s1) (EvCtrl 1 system 0) = Some ({| st := Selected; waiting := waiting (SessionProofs.abs s1); closing := closing (SessionProofs.abs s1) |}, [OutCtrl ST_SELECT_RSP system])).
  { rewrite A1. reflexivity. }
  destruct (step_refines s1 (EvCtrl 1 system 0) _ _ I1 ltac:(cbn; discriminate) E2) as (O2 & A2 & _).
  destruct (hs_step s1 (EvCtrl 1 system 0)) as [s2 o2]. cbn [fst snd e_hs e_rx] in *. subst o2.
  split; [reflexivity|]. split; [apply (f_equal st) in A2; exact A2|reflexivity].
Qed.
