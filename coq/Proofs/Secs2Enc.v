(* Proofs/Secs2Enc.v — the model's encoder produces exactly the E5 encoding. *)
From SG Require Import Base.Prelude Base.Kinds Base.Float Gen.VarConsts Gen.Jis8 Spec.E5 Model.Secs2 Model.Denote.
From SG Require Import Proofs.BytesProofs.
From Coq Require Import Lia ZifyBool ZifyN ZifyNat.
Ltac Zify.zify_post_hook ::= Z.div_mod_to_equations.
Open Scope N_scope.

(* ---------- facts about the generated constants (re-checked whenever the source changes) ---------- *)
Lemma gen_fc_list : fc_Array = code_L /\ fc_List = code_L. Proof. split; reflexivity. Qed.
Lemma gen_fc_binary : fc_Binary = code_B. Proof. reflexivity. Qed.
Lemma gen_fc_boolean : fc_Boolean = code_BOOL. Proof. reflexivity. Qed.
Lemma gen_fc_string : fc_String = code_A. Proof. reflexivity. Qed.
Lemma gen_fc_jis8 : fc_JIS8 = code_J. Proof. reflexivity. Qed.
(* the model's text codecs are latin-1 (identity below 256) and the generated JIS-8 tables *)
Lemma gen_codings : coding_String = "latin-1"%string /\ coding_JIS8 = "jis_8"%string. Proof. split; reflexivity. Qed.

Definition e5w (k : num_kind) : e5int :=
  match k with U1 | I1 => W1 | U2 | I2 => W2 | U4 | I4 | F4 => W4 | U8 | I8 | F8 => W8 end.
Definition is_unsigned (k : num_kind) : bool := match k with U1 | U2 | U4 | U8 => true | _ => false end.
Definition is_signed (k : num_kind) : bool := match k with I1 | I2 | I4 | I8 => true | _ => false end.

Lemma gen_fc_num k :
  num_fc k = (if is_unsigned k then code_U (e5w k) else if is_signed k then code_I (e5w k)
              else match k with F4 => code_F4 | _ => code_F8 end).
Proof. destruct k; reflexivity. Qed.
Lemma gen_nbytes k : num_nbytes k = wbytes (e5w k). Proof. destruct k; reflexivity. Qed.
Lemma gen_scode k :
  sc_bytes (num_scode k) = wbytes (e5w k) /\ sc_signed (num_scode k) = is_signed k /\
  (num_scode k = SC_f_ <-> k = F4) /\ (num_scode k = SC_d_ <-> k = F8).
Proof. destruct k; repeat split; intro H; try reflexivity; discriminate H. Qed.
Lemma gen_base_float k : num_base_is_float k = negb (is_unsigned k || is_signed k).
Proof. destruct k; reflexivity. Qed.
Lemma gen_int_bounds k :
  is_unsigned k = true -> num_min_int k = 0%Z /\ num_max_int k = (2 ^ (8 * Z.of_nat (wbytes (e5w k))) - 1)%Z.
Proof. destruct k; intro H; try discriminate H; split; reflexivity. Qed.
Lemma gen_sint_bounds k :
  is_signed k = true ->
  num_min_int k = (- 2 ^ (8 * Z.of_nat (wbytes (e5w k)) - 1))%Z /\
  num_max_int k = (2 ^ (8 * Z.of_nat (wbytes (e5w k)) - 1) - 1)%Z.
Proof. destruct k; intro H; try discriminate H; split; reflexivity. Qed.
Lemma gen_flt_bounds :
  num_max_flt F4 = FLT_MAX64 /\ num_min_flt F4 = neg64 FLT_MAX64 /\
  num_max_flt F8 = DBL_MAX64 /\ num_min_flt F8 = neg64 DBL_MAX64.
Proof. repeat split; reflexivity. Qed.

(* ---------- item header ---------- *)
Lemma be_1 n : be 1 n = [n mod 256]. Proof. reflexivity. Qed.
Lemma be_2 n : be 2 n = [(n / 256) mod 256; n mod 256]. Proof. reflexivity. Qed.
Lemma be_3 n : be 3 n = [(n / 65536) mod 256; (n / 256) mod 256; n mod 256].
Proof. cbn [be app]. rewrite N.div_div by lia. reflexivity. Qed.

Theorem header_exact fc n :
  fc < 64 -> n <= MAXLEN -> encode_item_header fc n = Ok (e5_header fc n).
Proof.
  intros Hfc Hn. unfold encode_item_header, e5_header, nlb, MAXLEN in *.
  destruct (N.ltb_spec 0xFFFFFF n) as [H|H]; [lia|].
  destruct (N.ltb_spec 0xFFFF n) as [H1|H1].
  - destruct (N.leb_spec n 255) as [H2|H2]; [lia|].
    destruct (N.leb_spec n 65535) as [H3|H3]; [lia|].
    rewrite fb_enc by (auto; lia). rewrite mask_b2, mask_b1, mask_b0, be_3. reflexivity.
  - destruct (N.ltb_spec 0xFF n) as [H2|H2].
    + destruct (N.leb_spec n 255) as [H3|H3]; [lia|].
      destruct (N.leb_spec n 65535) as [H4|H4]; [|lia].
      rewrite fb_enc by (auto; lia). rewrite mask_b1, mask_b0, be_2. reflexivity.
    + destruct (N.leb_spec n 255) as [H3|H3]; [|lia].
      rewrite fb_enc by (auto; lia). rewrite mask_b0, be_1. reflexivity.
Qed.

(* ---------- induction principle for the nested value type ---------- *)
Section val_ind'.
  Variable P : val -> Prop.
  Hypothesis HRec : forall l, Forall P l -> P (VRec l).
  Hypothesis HArr : forall l, Forall P l -> P (VArr l).
  Hypothesis HBin : forall l, P (VBin l).
  Hypothesis HBool : forall l, P (VBool l).
  Hypothesis HText : forall j l, P (VText j l).
  Hypothesis HNum : forall k l, P (VNum k l).
  Hypothesis HFlt : forall k l, P (VFlt k l).
  Hypothesis HNone : P VNone.
  Fixpoint val_ind' (v : val) : P v :=
    let fix go (l : list val) : Forall P l :=
      match l with [] => Forall_nil P | x :: r => Forall_cons x (val_ind' x) (go r) end in
    match v with
    | VRec l => HRec l (go l)
    | VArr l => HArr l (go l)
    | VBin l => HBin l
    | VBool l => HBool l
    | VText j l => HText j l
    | VNum k l => HNum k l
    | VFlt k l => HFlt k l
    | VNone => HNone
    end.
End val_ind'.

(* the list-level denotation used inside [denote] *)
Definition denotes (l : list val) : option (list e5item) :=
  (fix go (l : list val) : option (list e5item) :=
     match l with
     | [] => Some []
     | x :: r => match denote x, go r with Some y, Some ys => Some (y :: ys) | _, _ => None end
     end) l.
Lemma denote_rec l : denote (VRec l) = match denotes l with Some r => Some (EL r) | None => None end.
Proof. reflexivity. Qed.
Lemma denote_arr l : denote (VArr l) = match denotes l with Some r => Some (EL r) | None => None end.
Proof. reflexivity. Qed.
Lemma denotes_cons x r :
  denotes (x :: r) = match denote x, denotes r with Some y, Some ys => Some (y :: ys) | _, _ => None end.
Proof. reflexivity. Qed.
Lemma denotes_length l r : denotes l = Some r -> length r = length l.
Proof.
  revert r; induction l as [|x l IH]; intros r H.
  - inversion H; reflexivity.
  - rewrite denotes_cons in H. destruct (denote x); [|discriminate]. destruct (denotes l) eqn:E; [|discriminate].
    inversion H; subst. cbn. f_equal. apply IH. reflexivity.
Qed.

(* ---------- helpers ---------- *)
Lemma concatM_map {A B} (f : A -> res (list B)) (g : A -> list B) l :
  (forall x, In x l -> f x = Ok (g x)) -> concatM (map f l) = Ok (List.concat (map g l)).
Proof.
  induction l as [|x l IH]; intro H; cbn; [reflexivity|].
  rewrite (H x) by (left; reflexivity). cbn. rewrite IH by (intros y Hy; apply H; right; exact Hy). reflexivity.
Qed.

Lemma mapM_ok {A B} (f : A -> res B) (g : A -> B) l :
  (forall x, In x l -> f x = Ok (g x)) -> mapM f l = Ok (map g l).
Proof.
  induction l as [|x l IH]; intro H; cbn; [reflexivity|].
  rewrite (H x) by (left; reflexivity). cbn. rewrite IH by (intros y Hy; apply H; right; exact Hy). reflexivity.
Qed.

Lemma mapM_id_ok {A} (f : A -> res A) l :
  (forall x, In x l -> f x = Ok x) -> mapM f l = Ok l.
Proof. intro H. rewrite (mapM_ok f (fun x => x)) by assumption. rewrite map_id. reflexivity. Qed.

Lemma nlen_le {A} (l : list A) : nlen l = len l. Proof. reflexivity. Qed.

Lemma text_encode_jis cps bs : optM jis8_encode cps = Some bs -> text_encode true cps = Ok bs.
Proof.
  revert bs; induction cps as [|c cps IH]; intros bs H; cbn in *.
  - inversion H; reflexivity.
  - destruct (jis8_encode c); [|discriminate]. destruct (optM jis8_encode cps); [|discriminate].
    inversion H; subst. rewrite (IH l eq_refl). reflexivity.
Qed.
Lemma optM_length {A B} (f : A -> option B) l r : optM f l = Some r -> length r = length l.
Proof.
  revert r; induction l as [|x l IH]; intros r H; cbn in *.
  - inversion H; reflexivity.
  - destruct (f x); [|discriminate]. destruct (optM f l); [|discriminate]. inversion H; subst. cbn. f_equal. auto.
Qed.

Lemma text_encode_latin cps : bytesb cps = true -> text_encode false cps = Ok cps.
Proof.
  intro H. unfold text_encode. apply mapM_id_ok. intros x Hx.
  unfold bytesb in H. rewrite forallb_forall in H. specialize (H x Hx). unfold byteb in H. rewrite H. reflexivity.
Qed.

Lemma pack_int_unsigned c w z :
  sc_signed c = false -> sc_bytes c = w -> c <> SC_f_ -> c <> SC_d_ ->
  (0 <= z < 2 ^ (8 * Z.of_nat w))%Z -> pack_int c z = Ok (be w (Z.to_N z)).
Proof.
  intros Hs Hb Hf Hd Hz. unfold pack_int. destruct c; try congruence; cbn in Hs; try discriminate;
  cbn in Hb; subst w; cbn [sc_bytes sc_signed];
  (destruct (Z.leb_spec 0 z); [|lia]); (match goal with |- context [(z <? ?m)%Z] => destruct (Z.ltb_spec z m); [|cbn in *; lia] end);
  cbn [andb]; rewrite tc_enc_unsigned by assumption; reflexivity.
Qed.

Lemma pack_int_signed c w z :
  sc_signed c = true -> sc_bytes c = w ->
  (- 2 ^ (8 * Z.of_nat w - 1) <= z < 2 ^ (8 * Z.of_nat w - 1))%Z -> pack_int c z = Ok (be w (tc_enc w z)).
Proof.
  intros Hs Hb Hz. unfold pack_int. destruct c; cbn in Hs; try discriminate;
  cbn in Hb; subst w; cbn [sc_bytes sc_signed];
  (match goal with |- context [(?m <=? z)%Z] => destruct (Z.leb_spec m z); [|cbn in *; lia] end);
  (match goal with |- context [(z <? ?m)%Z] => destruct (Z.ltb_spec z m); [|cbn in *; lia] end);
  reflexivity.
Qed.

Lemma urange_spec w z : urange w z = true -> (0 <= z < 2 ^ (8 * Z.of_nat (wbytes w)))%Z.
Proof. unfold urange. lia. Qed.
Lemma irange_spec w z : irange w z = true ->
  (- 2 ^ (8 * Z.of_nat (wbytes w) - 1) <= z < 2 ^ (8 * Z.of_nat (wbytes w) - 1))%Z.
Proof. unfold irange. cbv zeta. lia. Qed.

Lemma code_lt_64 :
  code_L < 64 /\ code_B < 64 /\ code_BOOL < 64 /\ code_A < 64 /\ code_J < 64 /\ code_F4 < 64 /\ code_F8 < 64 /\
  (forall w, code_I w < 64) /\ (forall w, code_U w < 64).
Proof. repeat split; try (intro w; destruct w); reflexivity. Qed.

Lemma pack_f4 l r : optM r32 l = Some r ->
  concatM (map (pack_flt SC_f_) l) = Ok (List.concat (map (be 4) r)).
Proof.
  revert r; induction l as [|b l IH]; intros r H; cbn in *.
  - inversion H; reflexivity.
  - unfold r32 in H at 1. destruct (round32 b) as [x|]; [|discriminate].
    destruct (optM r32 l) as [rs|]; [|discriminate]. inversion H; subst. cbn.
    rewrite (IH rs eq_refl). reflexivity.
Qed.

(* ---------- C01: encode is exactly E5 ---------- *)
Theorem encode_exact : forall v i, denote v = Some i -> e5_wf i = true -> py_encode v = Ok (e5_encode i).
Proof.
  pose proof code_lt_64 as (cL & cB & cBo & cA & cJ & cF4 & cF8 & cI & cU).
  pose proof gen_fc_list as [fA fL].
  induction v as [l IH|l IH|l|l|j l|k l|k l|] using val_ind'; intros i Hd Hwf.
  1,2: ( (rewrite denote_rec in Hd || rewrite denote_arr in Hd);
    destruct (denotes l) as [r|] eqn:Er; [|discriminate]; inversion Hd; subst i; clear Hd;
    cbn [e5_wf] in Hwf; apply andb_prop in Hwf as [Hlen Hall];
    cbn [py_encode e5_encode];
    assert (Hl : nlen l = len r) by (unfold nlen, len; rewrite (denotes_length _ _ Er); reflexivity);
    rewrite Hl, fA, header_exact by (auto; lia); cbn [bind];
    assert (G : concatM (map py_encode l) = Ok (List.concat (map e5_encode r)));
    [ clear Hlen Hl; revert r Er Hall; induction IH as [|x l Hx Hl IHl]; intros r Er Hall;
      [ inversion Er; reflexivity
      | rewrite denotes_cons in Er; destruct (denote x) as [y|] eqn:Ex; [|discriminate];
        destruct (denotes l) as [ys|] eqn:Eys; [|discriminate]; inversion Er; subst r;
        cbn [forallb] in Hall; apply andb_prop in Hall as [Hy Hys];
        cbn [map concatM List.concat]; rewrite (Hx y eq_refl Hy); cbn [bind];
        rewrite (IHl ys eq_refl Hys); reflexivity ]
    | rewrite G; reflexivity ] ).
  - (* Binary *)
    inversion Hd; subst i. cbn [e5_wf] in Hwf. apply andb_prop in Hwf as [Hlen _].
    cbn [py_encode e5_encode]. rewrite gen_fc_binary, nlen_le, header_exact by (auto; lia). reflexivity.
  - (* Boolean *)
    inversion Hd; subst i. cbn [e5_wf] in Hwf.
    cbn [py_encode e5_encode]. rewrite gen_fc_boolean, nlen_le, header_exact by (auto; lia). reflexivity.
  - (* text *)
    destruct j; cbn [denote] in Hd.
    + destruct (optM jis8_encode l) as [bs|] eqn:E; [|discriminate]. inversion Hd; subst i.
      cbn [e5_wf] in Hwf. apply andb_prop in Hwf as [Hlen _].
      cbn [py_encode e5_encode]. rewrite gen_fc_jis8.
      assert (nlen l = len bs) as -> by (unfold nlen, len; rewrite (optM_length _ _ _ E); reflexivity).
      rewrite header_exact by (auto; lia). cbn [bind]. rewrite (text_encode_jis _ _ E). reflexivity.
    + inversion Hd; subst i. cbn [e5_wf] in Hwf. apply andb_prop in Hwf as [Hlen Hb].
      cbn [py_encode e5_encode]. rewrite gen_fc_string, nlen_le, header_exact by (auto; lia). cbn [bind].
      rewrite text_encode_latin by assumption. reflexivity.
  - (* integers *)
    cbn [denote] in Hd. cbn [py_encode].
    pose proof (gen_fc_num k) as Hfc. pose proof (gen_nbytes k) as Hnb. pose proof (gen_scode k) as (Hsb & Hss & Hf4 & Hf8).
    assert (Hcases : (is_unsigned k = true /\ i = EU (e5w k) l) \/ (is_signed k = true /\ i = EI (e5w k) l)).
    { destruct k; cbn in Hd; try discriminate; inversion Hd; subst; cbn; auto. }
    destruct Hcases as [[Hu ->]|[Hsg ->]].
    + cbn [e5_wf] in Hwf. apply andb_prop in Hwf as [Hlen Hr].
      cbn [e5_encode]. rewrite Hfc, Hu, Hnb, N.mul_comm, header_exact by (auto; unfold len in *; unfold nlen; lia).
      cbn [bind]. rewrite (concatM_map _ (fun z => be (wbytes (e5w k)) (Z.to_N z))).
      * reflexivity.
      * intros z Hz. rewrite forallb_forall in Hr. apply pack_int_unsigned; try assumption.
        -- rewrite Hss. destruct k; try discriminate; reflexivity.
        -- intro E. apply Hf4 in E. subst k. discriminate.
        -- intro E. apply Hf8 in E. subst k. discriminate.
        -- apply urange_spec. auto.
    + assert (Hu : is_unsigned k = false) by (destruct k; try discriminate; reflexivity).
      cbn [e5_wf] in Hwf. apply andb_prop in Hwf as [Hlen Hr].
      cbn [e5_encode]. rewrite Hfc, Hu, Hsg, Hnb, N.mul_comm, header_exact by (auto; unfold len in *; unfold nlen; lia).
      cbn [bind]. rewrite (concatM_map _ (fun z => be (wbytes (e5w k)) (tc_enc (wbytes (e5w k)) z))).
      * reflexivity.
      * intros z Hz. rewrite forallb_forall in Hr. apply pack_int_signed; try assumption.
        -- rewrite Hss. assumption.
        -- apply irange_spec. auto.
  - (* floats *)
    pose proof (gen_fc_num k) as Hfc. pose proof (gen_nbytes k) as Hnb. pose proof (gen_scode k) as (Hsb & Hss & Hf4 & Hf8).
    destruct k; cbn [denote] in Hd; try discriminate.
    + destruct (optM r32 l) as [r|] eqn:E; [|discriminate]. inversion Hd; subst i.
      cbn [e5_wf] in Hwf. apply andb_prop in Hwf as [Hlen _].
      cbn [py_encode e5_encode]. rewrite Hfc, Hnb. cbn [is_unsigned is_signed e5w wbytes].
      assert (nlen l = len r) as -> by (unfold nlen, len; rewrite (optM_length _ _ _ E); reflexivity).
      rewrite N.mul_comm. change (N.of_nat 4) with 4. rewrite header_exact by (auto; lia). cbn [bind].
      assert (num_scode F4 = SC_f_) as -> by (apply Hf4; reflexivity).
      rewrite (pack_f4 _ _ E). reflexivity.
    + inversion Hd; subst i. cbn [e5_wf] in Hwf. apply andb_prop in Hwf as [Hlen _].
      cbn [py_encode e5_encode]. rewrite Hfc, Hnb. cbn [is_unsigned is_signed e5w wbytes].
      rewrite N.mul_comm. change (N.of_nat 8) with 8. rewrite nlen_le, header_exact by (auto; lia). cbn [bind].
      assert (num_scode F8 = SC_d_) as -> by (apply Hf8; reflexivity).
      rewrite (concatM_map _ (be 8)) by reflexivity. reflexivity.
  - discriminate.
Qed.
