(* Proofs/HandOverProofs.v — for every schedule of the receiver thread, the dispatcher thread and the requester: only the dispatcher thread
   hands messages to the application, in arrival order; the requester only gets reply candidates; nothing is lost or handed over twice. *)
From Coq Require Import Lia Sorting.Sorted Sorting.Permutation.
From SG Require Import Base.Prelude Base.PyRt Gen.HandOver Model.HandOver.
Open Scope nat_scope.

Section Generic.
Variable deliver : bool -> bool -> bool -> handover_action.
(* what the proofs need of the decision: the receiver thread never hands a message to the application, the dispatcher thread never queues
   one again, and the requester is only given reply candidates while it waits *)
Hypothesis direct_never_app : forall c w, deliver c w true <> ToApp.
Hypothesis dispatcher_never_requeues : forall c w, deliver c w false <> ToQueue.
Hypothesis requester_only_candidates : forall c w d, deliver c w d = ToRequester -> c = true /\ w = true.

Definition hinv (s : hst) : Prop :=
  Forall (fun x => snd x = true) (app s) /\ Forall (fun m => cand m = true) (got s) /\
  Forall (fun m => cand m = true) (otl (inflight s)).

Lemma hinv_step s l : hinv s -> hinv (hstep deliver s l).
Proof.
  intros (A & G & I). unfold hinv. destruct l; cbn [hstep].
  - destruct (inflight s) as [x|] eqn:IF; [rewrite IF; repeat split; assumption|]. destruct (pending s) as [|m r]; [rewrite IF; repeat split; assumption|].
    destruct (cand m && waiting s) eqn:E; cbn [app got inflight otl]; repeat split; try assumption.
    constructor; [|constructor]. apply andb_prop in E. apply E.
  - destruct (inflight s) as [m|] eqn:IF; [|rewrite IF; repeat split; assumption].
    destruct (deliver (cand m) (waiting s) true) eqn:D; cbn [app got inflight otl]; repeat split; try assumption; try constructor.
    + apply Forall_app. split; [assumption|]. constructor; [|constructor]. cbn [otl] in I. inversion I; assumption.
    + exfalso. exact (direct_never_app _ _ D).
  - destruct (dq s) as [|m r]; [repeat split; assumption|].
    destruct (deliver (cand m) (waiting s) false) eqn:D; cbn [app got inflight otl]; repeat split; try assumption.
    + apply Forall_app. split; [assumption|]. constructor; [|constructor]. apply (requester_only_candidates _ _ _ D).
    + apply Forall_app. split; [assumption|]. constructor; [reflexivity|constructor].
  - cbn [app got inflight]. repeat split; assumption.
Qed.

Lemma hinv_run sched : forall s, hinv s -> hinv (hrun deliver s sched).
Proof. induction sched as [|l r IH]; intros s H; [exact H|]. cbn [hrun fold_left]. apply IH, hinv_step, H. Qed.

(* ---- order: what can still reach the application stays one sorted line; handing to the requester only removes from it ---- *)
Definition ids (l : list msg) : list nat := map mid l.

Lemma sorted_remove (a b : list nat) x : StronglySorted lt (a ++ x :: b) -> StronglySorted lt (a ++ b).
Proof.
  induction a as [|y a IH]; cbn; intro H.
  - inversion H; assumption.
  - inversion H as [|? ? Hs Hf]; subst. constructor; [apply IH; assumption|].
    rewrite Forall_app in *. destruct Hf as [Hf1 Hf2]. split; [assumption|]. inversion Hf2; assumption.
Qed.

Ltac lnorm H := cbn [app got dq inflight pending otl] in *; rewrite ?map_app in *; cbn [map fst] in *;
                 rewrite ?app_nil_l, ?app_nil_r in *; rewrite <- ?app_assoc in *; cbn [List.app] in *.

Lemma line_step s l : StronglySorted lt (ids (app_line s)) -> StronglySorted lt (ids (app_line (hstep deliver s l))).
Proof.
  unfold app_line, ids. intro H. destruct l; cbn [hstep].
  - destruct (inflight s) as [x|] eqn:IF; [rewrite IF; exact H|]. destruct (pending s) as [|m r] eqn:P; [rewrite IF, P; exact H|].
    destruct (cand m && waiting s); lnorm H; exact H.
  - destruct (inflight s) as [m|] eqn:IF; [|rewrite IF; exact H].
    destruct (deliver (cand m) (waiting s) true) eqn:D.
    + lnorm H. rewrite app_assoc in H. apply sorted_remove in H. rewrite <- app_assoc in H. exact H.
    + lnorm H. exact H.
    + exfalso. exact (direct_never_app _ _ D).
  - destruct (dq s) as [|m r] eqn:Q; [rewrite Q; exact H|].
    destruct (deliver (cand m) (waiting s) false) eqn:D.
    + lnorm H. apply sorted_remove in H. exact H.
    + exfalso. exact (dispatcher_never_requeues _ _ D).
    + lnorm H. exact H.
  - exact H.
Qed.

Lemma line_run sched : forall s, StronglySorted lt (ids (app_line s)) -> StronglySorted lt (ids (app_line (hrun deliver s sched))).
Proof. induction sched as [|l r IH]; intros s H; [exact H|]. cbn [hrun fold_left]. apply IH, line_step, H. Qed.

Lemma sorted_prefix (a b : list nat) : StronglySorted lt (a ++ b) -> StronglySorted lt a.
Proof.
  induction a as [|y a IH]; cbn; intro H; [constructor|].
  inversion H as [|? ? Hs Hf]; subst. constructor; [apply IH; assumption|]. rewrite Forall_app in Hf. apply Hf.
Qed.

(* ---- conservation ---- *)
Lemma everything_step s l : Permutation (everything (hstep deliver s l)) (everything s).
Proof.
  unfold everything. destruct l; cbn [hstep].
  - destruct (inflight s) as [x|] eqn:IF; [rewrite IF; reflexivity|]. destruct (pending s) as [|m r] eqn:P; [rewrite IF, P; reflexivity|].
    destruct (cand m && waiting s); lnorm IF; reflexivity.
  - destruct (inflight s) as [m|] eqn:IF; [|rewrite IF; reflexivity].
    destruct (deliver (cand m) (waiting s) true); lnorm IF.
    + apply Permutation_app_head, Permutation_app_head. first [apply Permutation_middle | apply Permutation_sym, Permutation_middle].
    + reflexivity.
    + apply Permutation_app_head. rewrite (app_assoc (got s) (dq s) (m :: pending s)). apply Permutation_cons_app. rewrite <- app_assoc. reflexivity.
  - destruct (dq s) as [|m r] eqn:Q; [rewrite Q; reflexivity|].
    destruct (deliver (cand m) (waiting s) false); lnorm Q.
    + apply Permutation_app_head, Permutation_app_head. reflexivity.
    + apply Permutation_app_head, Permutation_app_head. first [apply Permutation_middle | apply Permutation_sym, Permutation_middle].
    + apply Permutation_app_head. first [apply Permutation_middle | apply Permutation_sym, Permutation_middle].
  - reflexivity.
Qed.

Lemma everything_run sched : forall s, Permutation (everything (hrun deliver s sched)) (everything s).
Proof.
  induction sched as [|l r IH]; intro s; [reflexivity|]. cbn [hrun fold_left].
  etransitivity; [apply IH|apply everything_step].
Qed.

Theorem handover_generic arrivals sched :
  StronglySorted lt (ids arrivals) ->
  let s := hrun deliver (hstart arrivals) sched in
  Forall (fun x => snd x = true) (app s) /\
  StronglySorted lt (ids (map fst (app s))) /\
  Forall (fun m => cand m = true) (got s) /\
  Permutation (everything s) arrivals.
Proof.
  intros Hs s.
  assert (I : hinv s) by (apply hinv_run; repeat split; constructor).
  assert (L : StronglySorted lt (ids (app_line s))).
  { apply line_run. unfold app_line, hstart; cbn. exact Hs. }
  destruct I as (A & G & _). split; [exact A|]. split; [|split; [exact G|]].
  - unfold app_line, ids in L. rewrite map_app in L. apply sorted_prefix in L. exact L.
  - etransitivity; [apply everything_run|]. unfold everything, hstart; cbn. reflexivity.
Qed.
End Generic.

(* ---- the decision regenerated from the source meets the three requirements ---- *)
Lemma gen_direct_never_app c w : deliver_action c w true <> ToApp.
Proof. destruct c, w; discriminate. Qed.
Lemma gen_dispatcher_never_requeues c w : deliver_action c w false <> ToQueue.
Proof. destruct c, w; discriminate. Qed.
Lemma gen_requester_only_candidates c w d : deliver_action c w d = ToRequester -> c = true /\ w = true.
Proof. destruct c, w, d; cbn; intro H; try discriminate H; split; reflexivity. Qed.

Theorem handover_holds arrivals sched :
  StronglySorted lt (ids arrivals) ->
  let s := hrun deliver_action (hstart arrivals) sched in
  Forall (fun x => snd x = true) (app s) /\
  StronglySorted lt (ids (map fst (app s))) /\
  Forall (fun m => cand m = true) (got s) /\
  Permutation (everything s) arrivals.
Proof. apply handover_generic; [exact gen_direct_never_app|exact gen_dispatcher_never_requeues|exact gen_requester_only_candidates]. Qed.

(* when everything has come to rest, every arrival is either with the application or with the requester - exactly once *)
Corollary handover_complete arrivals sched :
  StronglySorted lt (ids arrivals) ->
  let s := hrun deliver_action (hstart arrivals) sched in
  quiet s = true -> Permutation (map fst (app s) ++ got s) arrivals.
Proof.
  intros Hs s Q. destruct (handover_holds arrivals sched Hs) as (_ & _ & _ & P). fold s in P.
  unfold everything in P. unfold quiet in Q.
  destruct (pending s); [|discriminate Q]. destruct (inflight s); [discriminate Q|]. destruct (dq s); [|discriminate Q].
  cbn [otl] in P. rewrite !app_nil_r in P. exact P.
Qed.

(* ---- before D78: the schedule of the finding ---- *)
Definition d78_arrivals : list msg := [ {| mid := 1; cand := false |}; {| mid := 2; cand := false |}; {| mid := 3; cand := true |} ].
Definition d78_schedule : list label := [RLook; RLook; RLook; QGiveUp; RHand; DPop; DPop].

Lemma before_D78_refuted :
  let s := hrun deliver_before_D78 (hstart d78_arrivals) d78_schedule in
  map (fun x => (mid (fst x), snd x)) (app s) = [(3, false); (1, true); (2, true)].
Proof. vm_compute. reflexivity. Qed.

Lemma after_D78_same_schedule :
  let s := hrun deliver_action (hstart d78_arrivals) (d78_schedule ++ [DPop]) in
  map (fun x => (mid (fst x), snd x)) (app s) = [(1, true); (2, true); (3, true)] /\ quiet s = true.
Proof. vm_compute. split; reflexivity. Qed.
