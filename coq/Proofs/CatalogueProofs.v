(* Proofs/CatalogueProofs.v — C03: facts about the regenerated catalogue, decided by evaluation over the
   finite table, and the round trip of every catalogued function as a corollary of C01. *)
From SG Require Import Base.Prelude Base.Kinds Spec.E5 Model.Secs2 Model.Denote Model.Secs2Wf Model.Sfdl Model.Functions Gen.DataItems Gen.Catalogue.
From SG Require Import Proofs.BytesProofs Proofs.Secs2Enc Proofs.Secs2Dec.
From Coq Require Import Lia.
Open Scope N_scope.

Definition unique_sf (tbl : list fentry) : bool :=
  forallb (fun e => (length (filter (same_sf (f_stream e) (f_function e)) tbl) =? 1)%nat) tbl.
Definition all_parse (tbl : list fentry) : bool := forallb (fun e => is_ok (fn_structure e)) tbl.

Definition find_sf (tbl : list fentry) (s f : N) : option fentry := find (same_sf s f) tbl.
Definition tokens_eqb (a b : option (list N)) : bool :=
  match a, b with
  | None, None => true
  | Some x, Some y => list_eqb (list_eqb N.eqb) (elements_of x) (elements_of y)
  | _, _ => false
  end.
Definition agree (a b : fentry) : bool :=
  Bool.eqb (f_to_host a) (f_to_host b) && Bool.eqb (f_to_equipment a) (f_to_equipment b) && Bool.eqb (f_has_reply a) (f_has_reply b) &&
  Bool.eqb (f_reply_required a) (f_reply_required b) && Bool.eqb (f_multi_block a) (f_multi_block b) && tokens_eqb (f_sfdl a) (f_sfdl b).
Definition classes_eq_yaml : bool :=
  (length catalogue =? length yaml_catalogue)%nat &&
  forallb (fun e => match find_sf yaml_catalogue (f_stream e) (f_function e) with Some y => agree e y | None => false end) catalogue &&
  forallb (fun y => match find_sf catalogue (f_stream y) (f_function y) with Some _ => true | None => false end) yaml_catalogue.

(* primary/secondary pairing *)
Definition pair_entry_ok (tbl : list fentry) (e : fentry) : bool :=
  (* a function that has a reply is a primary (odd), its secondary F+1 is catalogued, expects no reply and goes the other way *)
  (if f_has_reply e then
     N.odd (f_function e) &&
     match find_sf tbl (f_stream e) (f_function e + 1) with
     | Some p => negb (f_has_reply p) && implb (f_to_host e) (f_to_equipment p) && implb (f_to_equipment e) (f_to_host p)
     | None => false
     end
   else true) &&
  implb (f_reply_required e) (f_has_reply e) &&
  (* a secondary (even, not an abort) has a catalogued primary that declares a reply *)
  (if N.even (f_function e) && negb (f_function e =? 0) then
     match find_sf tbl (f_stream e) (f_function e - 1) with Some p => f_has_reply p | None => false end
   else true).
Definition pairing_ok (tbl : list fentry) : bool := forallb (pair_entry_ok tbl) tbl.
Definition pairing_exceptions (tbl : list fentry) : list string := map f_name (filter (fun e => negb (pair_entry_ok tbl e)) tbl).

(* ---------- lookup by stream/function finds exactly the catalogued class ---------- *)
Lemma lookup_unique tbl e : unique_sf tbl = true -> In e tbl ->
  lookup_sf tbl (f_stream e) (f_function e) = Ok (Some e).
Proof.
  intros Hu Hin. unfold unique_sf in Hu. rewrite forallb_forall in Hu. specialize (Hu e Hin). apply Nat.eqb_eq in Hu.
  unfold lookup_sf. assert (Hf : In e (filter (same_sf (f_stream e) (f_function e)) tbl)).
  { apply filter_In. split; [exact Hin|]. unfold same_sf. rewrite !N.eqb_refl. reflexivity. }
  destruct (filter (same_sf (f_stream e) (f_function e)) tbl) as [|x [|y l]]; cbn in Hu; try lia.
  destruct Hf as [->|[]]. reflexivity.
Qed.

Lemma be_length_nlb n : (1 <= length (be (nlb n) n))%nat.
Proof. rewrite Proofs.BytesProofs.be_length. unfold nlb. destruct (n <=? 255); [lia|]. destruct (n <=? 65535); lia. Qed.

(* an encoding is at least two bytes per nesting level *)
Lemma encode_length_depth : forall v i, denote v = Some i -> (2 * vdepth v <= length (e5_encode i))%nat.
Proof.
  induction v as [l IH|l IH|l|l|j l|k l|k l|] using val_ind'; intros i Hd; try discriminate.
  1,2: ( (rewrite denote_rec in Hd || rewrite denote_arr in Hd);
    destruct (denotes l) as [r|] eqn:Er; [|discriminate]; injection Hd as <-;
    cbn [e5_encode vdepth]; unfold e5_header; rewrite app_length; cbn [length];
    assert (G : (2 * fold_right (fun x m => Nat.max (vdepth x) m) 0 l <= length (List.concat (map e5_encode r)))%nat);
    [ clear - IH Er; revert r Er; induction IH as [|x l Hx Hl IHl]; intros r Er;
      [ cbn; lia
      | rewrite denotes_cons in Er; destruct (denote x) as [y|] eqn:Ex; [|discriminate];
        destruct (denotes l) as [ys|] eqn:Eys; [|discriminate]; injection Er as <-;
        cbn [fold_right map List.concat]; rewrite app_length; specialize (Hx y eq_refl); specialize (IHl ys eq_refl); lia ]
    | match goal with |- context [be (nlb ?n) ?n] => pose proof (be_length_nlb n) end; lia ] ).
  all: cbn [vdepth].
  - injection Hd as <-. cbn [e5_encode]. unfold e5_header. rewrite app_length. cbn [length]. match goal with |- context [be (nlb ?n) ?n] => pose proof (be_length_nlb n) end. lia.
  - injection Hd as <-. cbn [e5_encode]. unfold e5_header. rewrite app_length. cbn [length]. match goal with |- context [be (nlb ?n) ?n] => pose proof (be_length_nlb n) end. lia.
  - destruct j; cbn [denote] in Hd; [destruct (optM Gen.Jis8.jis8_encode l); [|discriminate]|]; injection Hd as <-;
      cbn [e5_encode]; unfold e5_header; rewrite app_length; cbn [length]; match goal with |- context [be (nlb ?n) ?n] => pose proof (be_length_nlb n) end; lia.
  - cbn [denote] in Hd. destruct k; cbn in Hd; try discriminate; injection Hd as <-; cbn [e5_encode]; unfold e5_header;
      rewrite app_length; cbn [length]; match goal with |- context [be (nlb ?n) ?n] => pose proof (be_length_nlb n) end; lia.
  - destruct k; cbn [denote] in Hd; try discriminate; [destruct (optM r32 l); [|discriminate]|]; injection Hd as <-;
      cbn [e5_encode]; unfold e5_header; rewrite app_length; cbn [length]; match goal with |- context [be (nlb ?n) ?n] => pose proof (be_length_nlb n) end; lia.
Qed.

(* ---------- C03: every catalogued function round-trips and is found by its S/F numbers ---------- *)
Theorem fn_roundtrip tbl e s v i :
  unique_sf tbl = true -> In e tbl -> fn_structure e = Ok (Some s) ->
  wf v (erase s) = true -> denote v = Some i -> e5_wf i = true ->
  py_encode v = Ok (e5_encode i) /\
  decode_by_sf tbl (f_stream e) (f_function e) (e5_encode i) = Ok (e, Some (erase s, canon v)).
Proof.
  intros Hu Hin Hs Hwf Hd He. split; [apply encode_exact; assumption|].
  unfold decode_by_sf. rewrite (lookup_unique tbl e Hu Hin). cbn [bind].
  unfold fn_construct. rewrite Hs. cbn [bind].
  pose proof (encode_length_depth v i Hd) as Hlen.
  pose proof (roundtrip (S (length (e5_encode i))) v ltac:(lia) (erase s) i Hwf Hd He [] 0) as R.
  rewrite app_nil_r in R. rewrite R. cbn [bind]. reflexivity.
Qed.

Theorem fn_header_only tbl e body :
  unique_sf tbl = true -> In e tbl -> f_sfdl e = None ->
  decode_by_sf tbl (f_stream e) (f_function e) body = Ok (e, None) /\ fn_encode None = Ok [].
Proof.
  intros Hu Hin Hn. split; [|reflexivity]. unfold decode_by_sf. rewrite (lookup_unique tbl e Hu Hin). cbn [bind].
  unfold fn_construct, fn_structure. rewrite Hn. reflexivity.
Qed.

