(* Proofs/SendQueueProofs.v — C09: one run of _process_send_queue resolves every queued block, whatever the writes do. *)
From SG Require Import Base.Prelude Gen.SendQueue Model.SendQueue.
From Coq Require Import Lia.
Open Scope nat_scope.

Definition total (blocks : list nat) : nat := fold_right Nat.add 0 blocks.

Lemma send_packets_q_enough n : forall ws, n <= length ws ->
  exists b ws', send_packets_q n ws = (Some b, ws') /\ length ws - n <= length ws'.
Proof.
  induction n as [|k IH]; intros ws H.
  - exists true, ws. split; [reflexivity|lia].
  - destruct ws as [|[|] r]; cbn [length] in H; [lia| |].
    + destruct (IH r ltac:(lia)) as (b & ws' & E & L). exists b, ws'. cbn [send_packets_q]. split; [exact E|cbn [length]; lia].
    + exists false, r. split; [reflexivity|cbn [length]; lia].
Qed.

(* with QContinue: if the connection answers every send_data call (the script is long enough), every block is resolved *)
Theorem continue_resolves_all blocks : forall ws, total blocks <= length ws ->
  Forall (fun r => r <> None) (process_queue QContinue blocks ws).
Proof.
  induction blocks as [|n r IH]; intros ws H; [constructor|].
  cbn [total fold_right] in H. fold (total r) in H.
  destruct (send_packets_q_enough n ws ltac:(lia)) as (b & ws' & E & L).
  cbn [process_queue]. rewrite E. destruct b; (constructor; [discriminate|apply IH; lia]).
Qed.

(* with QReturn the first failed block strands everything behind it *)
Theorem return_strands : process_queue QReturn [1; 1; 1] [false; false; false] = [Some false; None; None].
Proof. reflexivity. Qed.

(* the number of resolved blocks never exceeds the queue, the order is the queue's (the result list is positional) *)
Lemma process_queue_length mode blocks : forall ws, length (process_queue mode blocks ws) = length blocks.
Proof.
  induction blocks as [|n r IH]; intro ws; [reflexivity|]. cbn [process_queue].
  destruct (send_packets_q n ws) as [[[|]|] ws']; cbn [length]; rewrite ?map_length, ?IH; try reflexivity.
  destruct mode; rewrite ?map_length, ?IH; reflexivity.
Qed.
