(* Proofs/PyVarHdrProofs.v - Base.encode_item_header / decode_item_header as translated from the source (Gen/PyVarHdr.v) are the
   functions of Model/Secs2.v; plus the Z/N conversion lemmas shared with PyItemHdrProofs.v *)
From Coq Require Import Lia ZifyBool ZifyN ZifyNat.
From SG Require Import Base.Prelude Base.Kinds Base.PyRt Gen.ProtoConsts Gen.PyVarHdr Model.Secs2 Proofs.BytesProofs.
Open Scope Z_scope.

(* ---------------- item headers: Python ints (Z) against the N model ---------------- *)
Lemma ofN_land a b : Z.of_N (N.land a b) = Z.land (Z.of_N a) (Z.of_N b).
Proof. destruct a, b; reflexivity. Qed.
Lemma ofN_lor a b : Z.of_N (N.lor a b) = Z.lor (Z.of_N a) (Z.of_N b).
Proof. destruct a, b; reflexivity. Qed.
Lemma ofN_shiftl a n : Z.of_N (N.shiftl a n) = Z.shiftl (Z.of_N a) (Z.of_N n).
Proof. rewrite N.shiftl_mul_pow2, Z.shiftl_mul_pow2 by lia. rewrite N2Z.inj_mul, N2Z.inj_pow. reflexivity. Qed.
Lemma ofN_shiftr a n : Z.of_N (N.shiftr a n) = Z.shiftr (Z.of_N a) (Z.of_N n).
Proof. rewrite N.shiftr_div_pow2, Z.shiftr_div_pow2 by lia. rewrite N2Z.inj_div, N2Z.inj_pow. reflexivity. Qed.

Lemma bytes_of_ofN l : Forall (fun b => (b < 256)%N) l -> bytes_of (map Z.of_N l) = Ok l.
Proof.
  intro H. unfold bytes_of.
  assert (E : forallb (fun x => (0 <=? x) && (x <? 256)) (map Z.of_N l) = true).
  { apply forallb_forall. intros x Hx. apply in_map_iff in Hx. destruct Hx as [b [<- Hb]].
    rewrite Forall_forall in H. specialize (H b Hb). lia. }
  rewrite E. f_equal. rewrite map_map. rewrite <- (map_id l) at 2. apply map_ext. intro; apply N2Z.id.
Qed.

Lemma fbyte_lt c k : (c < 64)%N -> (k = 1 \/ k = 2 \/ k = 3)%N -> (N.lor (N.shiftl c 2) k < 256)%N.
Proof. intros Hc Hk. rewrite (fb_enc c k Hc Hk). lia. Qed.

Lemma m2_z len : Z.shiftr (Z.land (Z.of_N len) 16711680) 16 = Z.of_N (N.shiftr (N.land len 0xFF0000) 16).
Proof. rewrite ofN_shiftr, ofN_land. reflexivity. Qed.
Lemma m1_z len : Z.shiftr (Z.land (Z.of_N len) 65280) 8 = Z.of_N (N.shiftr (N.land len 0x00FF00) 8).
Proof. rewrite ofN_shiftr, ofN_land. reflexivity. Qed.
Lemma m0_z len : Z.land (Z.of_N len) 255 = Z.of_N (N.land len 0x0000FF).
Proof. rewrite ofN_land. reflexivity. Qed.
Lemma fb3_z fc : Z.lor (Z.shiftl (Z.of_N fc) 2) 3 = Z.of_N (N.lor (N.shiftl fc 2) 3).
Proof. rewrite ofN_lor, ofN_shiftl. reflexivity. Qed.
Lemma fb2_z fc : Z.lor (Z.shiftl (Z.of_N fc) 2) 2 = Z.of_N (N.lor (N.shiftl fc 2) 2).
Proof. rewrite ofN_lor, ofN_shiftl. reflexivity. Qed.
Lemma fb1_z fc : Z.lor (Z.shiftl (Z.of_N fc) 2) 1 = Z.of_N (N.lor (N.shiftl fc 2) 1).
Proof. rewrite ofN_lor, ofN_shiftl. reflexivity. Qed.

Ltac enc_header fc len Hfc :=
  assert (B2 : (N.shiftr (N.land len 0xFF0000) 16 < 256)%N) by (rewrite mask_b2; apply N.mod_lt; discriminate);
  assert (B1 : (N.shiftr (N.land len 0x00FF00) 8 < 256)%N) by (rewrite mask_b1; apply N.mod_lt; discriminate);
  assert (B0 : (N.land len 0x0000FF < 256)%N) by (rewrite mask_b0; apply N.mod_lt; discriminate);
  assert (F3 : (N.lor (N.shiftl fc 2) 3 < 256)%N) by (apply fbyte_lt; auto);
  assert (F2 : (N.lor (N.shiftl fc 2) 2 < 256)%N) by (apply fbyte_lt; auto);
  assert (F1 : (N.lor (N.shiftl fc 2) 1 < 256)%N) by (apply fbyte_lt; auto);
  cbv zeta; rewrite ?m2_z, ?m1_z, ?m0_z, ?fb3_z, ?fb2_z, ?fb1_z;
  destruct (Z.ltb_spec (Z.of_N len) 0) as [H|_]; [lia|];
  destruct (N.ltb_spec 0xFFFFFF len) as [H1|H1]; destruct (Z.gtb_spec (Z.of_N len) 16777215) as [G1|G1]; try lia; [reflexivity|];
  destruct (N.ltb_spec 0xFFFF len) as [H2|H2]; destruct (Z.gtb_spec (Z.of_N len) 65535) as [G2|G2]; try lia;
  [ apply (bytes_of_ofN [_; _; _; _]); repeat constructor; assumption |];
  destruct (N.ltb_spec 0xFF len) as [H3|H3]; destruct (Z.gtb_spec (Z.of_N len) 255) as [G3|G3]; try lia;
  [ apply (bytes_of_ofN [_; _; _]); repeat constructor; assumption
  | apply (bytes_of_ofN [_; _]); repeat constructor; assumption ].

(* Base.encode_item_header, as translated from the source, is the model's function (format codes are below 64) *)
Lemma base_encode_item_header_is_model fc len :
  (fc < 64)%N -> base_encode_item_header (Z.of_N fc) (Z.of_N len) = encode_item_header fc len.
Proof. intro Hfc. unfold base_encode_item_header, encode_item_header. enc_header fc len Hfc. Qed.


(* ---------------- decoding ---------------- *)
Lemma shl8 acc a : Z.add (Z.shiftl (Z.of_N acc) 8) (Z.of_N a) = Z.of_N (acc * 256 + a).
Proof. rewrite Z.shiftl_mul_pow2 by lia. change (2 ^ 8) with 256. lia. Qed.

Lemma zidx_nat data p :
  zidx data (Z.of_nat p) = match nth_error data p with Some b => Ok (Z.of_N b) | None => Err EIndex end.
Proof.
  unfold zidx. destruct (Z.ltb_spec (Z.of_nat p) 0) as [H|_]; [lia|]. rewrite Nat2Z.id.
  destruct (nth_error data p) eqn:E.
  - assert (p < length data)%nat by (apply nth_error_Some; congruence).
    destruct (Z.ltb_spec (Z.of_nat p) 0); destruct (Z.leb_spec (Z.of_nat (length data)) (Z.of_nat p)); try lia; reflexivity.
  - destruct ((Z.of_nat p <? 0) || (Z.of_nat (length data) <=? Z.of_nat p)); reflexivity.
Qed.

Lemma skipn_nth {A} (l : list A) : forall p, skipn p l = match nth_error l p with Some b => b :: skipn (S p) l | None => [] end.
Proof. induction l as [|a l IH]; intros [|p]; try reflexivity. cbn [skipn nth_error]. rewrite IH. destruct (nth_error l p); reflexivity. Qed.

Lemma base_loop data n : forall p acc,
  iterM n (fun st : Z * Z => let '(v_length, v_text_pos) := st in
             let v_length := Z.shiftl v_length 8 in
             do t2 <- zidx data v_text_pos; let v_length := Z.add v_length t2 in
             let v_text_pos := Z.add v_text_pos 1 in Ok (v_length, v_text_pos))
        (Z.of_N acc, Z.of_nat p)
  = if shorter (skipn p data) n then Err EIndex
    else Ok (Z.of_N (be_val (firstn n (skipn p data)) acc), Z.of_nat (p + n)).
Proof.
  induction n as [|n IH]; intros p acc.
  - cbn [iterM]. rewrite Nat.add_0_r. reflexivity.
  - cbn [iterM]. cbv zeta. rewrite zidx_nat. rewrite (skipn_nth data p).
    destruct (nth_error data p) as [b|]; [|reflexivity].
    cbn [bind]. rewrite shl8. replace (Z.add (Z.of_nat p) 1) with (Z.of_nat (S p)) by lia. rewrite IH.
    rewrite !shorter_spec. cbn [length firstn be_val].
    replace (S p + n)%nat with (p + S n)%nat by lia.
    destruct (Nat.ltb_spec (length (firstn n (skipn (S p) data))) n);
      destruct (Nat.ltb_spec (S (length (firstn n (skipn (S p) data)))) (S n)); try lia; reflexivity.
Qed.

Definition same_ok {A} (x y : res A) : Prop :=
  match x, y with Ok a, Ok b => a = b | Err _, Err _ => True | _, _ => False end.
Definition fc_z (fc : option N) : Z := match fc with Some c => Z.of_N c | None => -1 end.

(* Base.decode_item_header(data, p) reads the header the model reads from data[p:]; the position it returns is p + header length
   (exceptions agree up to their kind: an empty data is ValueError in the code, IndexError in the model) *)
Lemma base_decode_item_header_is_model fc data p :
  same_ok (base_decode_item_header (fc_z fc) data (Z.of_nat p))
          (do (rest, code, len, hl) <- decode_item_header fc (skipn p data);
           Ok (Z.of_nat p + Z.of_N hl, Z.of_N code, Z.of_N len)).
Proof.
  unfold base_decode_item_header, decode_item_header.
  destruct (Z.eqb_spec (Z.of_nat (length data)) 0) as [E|E].
  { destruct data; [|discriminate]. destruct p; exact I. }
  rewrite zidx_nat, (skipn_nth data p). destruct (nth_error data p) as [fb|]; [|exact I].
  cbn [bind]. cbv zeta. unfold for_range.
  change 3 with (Z.of_N 3). rewrite <- ofN_land.
  replace (Z.to_nat (Z.of_N (N.land fb 3))) with (N.to_nat (N.land fb 3)) by lia.
  change 0 with (Z.of_N 0) at 1. replace (Z.add (Z.of_nat p) 1) with (Z.of_nat (S p)) by lia.
  rewrite base_loop.
  destruct (shorter (skipn (S p) data) (N.to_nat (N.land fb 3))); [exact I|].
  cbn [bind].
  change 252 with (Z.of_N 252). change 2 with (Z.of_N 2). rewrite <- ofN_land, <- ofN_shiftr.
  destruct fc as [c|]; cbn [fc_z].
  - destruct (N.eqb_spec c (N.shiftr (N.land fb 252) 2)) as [Ec|Ec].
    + subst c. rewrite Z.eqb_refl. replace (Z.leb 0 _) with true by lia. cbn [andb negb bind]. cbv [same_ok]. f_equal. f_equal. lia.
    + destruct (Z.eqb_spec (Z.of_N c) (Z.of_N (N.shiftr (N.land fb 252) 2))) as [Ez|Ez]; [apply N2Z.inj in Ez; contradiction|].
      replace (Z.leb 0 (Z.of_N c)) with true by lia. exact I.
  - cbn [bind]. cbv [same_ok]. cbn. f_equal. f_equal. lia.
Qed.
