(* Proofs/ReportsProofs.v — C12: invariants of the event report configuration and refinement of the E5 reference. *)
From SG Require Import Base.Prelude Spec.E5Reports Model.EventReports.
From Coq Require Import Lia.
Open Scope Z_scope.

Lemma id_eqb_refl x : id_eqb x x = true.
Proof. destruct x; cbn; [apply Z.eqb_refl|apply String.eqb_refl]. Qed.
Lemma id_eqb_eq x y : id_eqb x y = true -> x = y.
Proof. destruct x, y; cbn; try discriminate; intro H; [apply Z.eqb_eq in H|apply String.eqb_eq in H]; subst; reflexivity. Qed.

(* ---------- invariants ---------- *)
Definition defined (c : rcfg) (r : id) : bool := match rlookup r (reports c) with Some _ => true | None => false end.
Definition vids_known (env : renv) (c : rcfg) : bool := forallb (fun rp => forallb (fun v => mem v (vids env)) (snd rp)) (reports c).
Definition links_nonempty (c : rcfg) : bool := forallb (fun l => match fst (snd l) with [] => false | _ => true end) (links c).
Definition inv (env : renv) (c : rcfg) : Prop := integrity c = true /\ vids_known env c = true /\ links_nonempty c = true.

Lemma inv0 env : inv env cfg0. Proof. repeat split. Qed.

Lemma has_lookup {A} k (m : list (id * A)) : has k m = match rlookup k m with Some _ => true | None => false end.
Proof.
  unfold has, rlookup. induction m as [|p m IH]; cbn; [reflexivity|]. destruct (id_eqb (fst p) k); cbn; [reflexivity|exact IH].
Qed.

Lemma rremove_absent {A} k (m : list (id * A)) : has k m = false -> rremove k m = m.
Proof.
  unfold has, rremove. induction m as [|p m IH]; cbn; [reflexivity|]. intro H. apply orb_false_iff in H as [H1 H2]. rewrite H1. cbn. f_equal. exact (IH H2).
Qed.

Lemma rlookup_rremove_other {A} k k' (m : list (id * A)) : id_eqb k' k = false -> rlookup k (rremove k' m) = rlookup k m.
Proof.
  intro N. unfold rlookup, rremove. induction m as [|p m IH]; cbn; [reflexivity|].
  destruct (id_eqb (fst p) k') eqn:E; cbn.
  - apply id_eqb_eq in E. rewrite E, N. exact IH.
  - destruct (id_eqb (fst p) k); [reflexivity|exact IH].
Qed.

Lemma rlookup_rset {A} k k' (v : A) (m : list (id * A)) :
  rlookup k (rset k' v m) = if id_eqb k' k then Some v else rlookup k m.
Proof.
  unfold rset. destruct (existsb (fun p => id_eqb (fst p) k') m) eqn:Ex.
  - unfold rlookup. induction m as [|p m IH]; cbn in *; [discriminate Ex|].
    destruct (id_eqb (fst p) k') eqn:E; cbn.
    + destruct (id_eqb k' k) eqn:E2; [reflexivity|]. apply id_eqb_eq in E. rewrite E, E2.
      clear IH Ex. induction m as [|q m IH]; cbn; [reflexivity|]. destruct (id_eqb (fst q) k') eqn:E3; cbn.
      * rewrite E2. apply id_eqb_eq in E3. rewrite E3, E2 in *. exact IH.
      * destruct (id_eqb (fst q) k); [reflexivity|exact IH].
    + cbn in Ex. destruct (id_eqb (fst p) k) eqn:E2.
      * destruct (id_eqb k' k) eqn:E3; [|reflexivity]. apply id_eqb_eq in E3. subst. congruence.
      * apply IH. exact Ex.
  - unfold rlookup. induction m as [|p m IH]; cbn in *.
    + destruct (id_eqb k' k); reflexivity.
    + apply orb_false_iff in Ex as [E1 E2]. destruct (id_eqb (fst p) k) eqn:E3.
      * destruct (id_eqb k' k) eqn:E4; [|reflexivity]. apply id_eqb_eq in E4. subst. congruence.
      * apply IH. exact E2.
Qed.

Lemma forallb_rset {A} (P : id * A -> bool) k v (m : list (id * A)) :
  P (k, v) = true -> forallb P m = true -> forallb P (rset k v m) = true.
Proof.
  intros Hp Hm. unfold rset. destruct (existsb (fun p => id_eqb (fst p) k) m).
  - induction m as [|p m IH]; cbn in *; [reflexivity|]. apply andb_true_iff in Hm as [H1 H2].
    destruct (id_eqb (fst p) k); rewrite ?Hp, ?H1; cbn; apply IH; exact H2.
  - rewrite forallb_app, Hm. cbn. rewrite Hp. reflexivity.
Qed.

Lemma forallb_filter {A} (P Q : A -> bool) (l : list A) : forallb P l = true -> forallb P (filter Q l) = true.
Proof.
  induction l as [|x l IH]; cbn; [reflexivity|]. intro H. apply andb_true_iff in H as [H1 H2].
  destruct (Q x); cbn; rewrite ?H1; cbn; apply IH; exact H2.
Qed.

Lemma filter_notmem r (rs : list id) : mem r rs = false -> filter (fun x => negb (id_eqb x r)) rs = rs.
Proof.
  unfold mem. induction rs as [|x rs IH]; cbn; [reflexivity|]. intro H. apply orb_false_iff in H as [H1 H2].
  assert (E : id_eqb x r = false).
  { destruct (id_eqb x r) eqn:E; [|reflexivity]. apply id_eqb_eq in E. subst. rewrite id_eqb_refl in H1. discriminate H1. }
  rewrite E. cbn. f_equal. exact (IH H2).
Qed.

Lemma filter_removes r (rs : list id) x : In x (filter (fun y => negb (id_eqb y r)) rs) -> In x rs /\ id_eqb x r = false.
Proof. rewrite filter_In. intros [H1 H2]. split; [exact H1|]. apply negb_true_iff in H2. exact H2. Qed.

(* the model's one-pass unlinking is E5's "delete the report and every link to it" *)
Lemma unlink_eq ls r : forallb (fun l : id * (list id * bool) => match fst (snd l) with [] => false | _ => true end) ls = true ->
  unlink_report ls r =
  filter (fun l => match fst (snd l) with [] => false | _ => true end)
         (map (fun l => (fst l, (filter (fun x => negb (id_eqb x r)) (fst (snd l)), snd (snd l)))) ls).
Proof.
  induction ls as [|[ce [rs en]] rest IH]; cbn [unlink_report map filter forallb fst snd]; [reflexivity|].
  intro H. apply andb_true_iff in H as [H1 H2]. specialize (IH H2).
  destruct (mem r rs) eqn:M.
  - destruct (filter (fun x => negb (id_eqb x r)) rs) as [|y ys] eqn:F; cbn [fst snd]; rewrite IH; reflexivity.
  - rewrite (filter_notmem r rs M). cbn [fst snd]. destruct rs as [|y ys]; [discriminate H1|]. rewrite IH. reflexivity.
Qed.

Lemma define_apply_entry c e : links_nonempty c = true -> define_apply c e = define_entry c e.
Proof.
  intro H. unfold define_apply, define_entry, delete_report. destruct (snd e) as [|v vs]; [|reflexivity].
  f_equal; [|apply unlink_eq; exact H].
  destruct (has (fst e) (reports c)) eqn:E; [reflexivity|]. symmetry. apply rremove_absent. exact E.
Qed.

Section with_env.
Variable env : renv.

Lemma define_entry_inv c e : inv env c -> forallb (fun v => mem v (vids env)) (snd e) = true -> inv env (define_entry c e).
Proof.
  intros (I1 & I2 & I3) Hk. unfold define_entry. destruct (snd e) as [|v vs] eqn:Ev.
  - (* delete *)
    unfold delete_report. repeat split; cbn [reports links].
    + unfold integrity in *; cbn [reports links]. apply forallb_forall. intros l Hl. apply filter_In in Hl as [Hl _].
      apply in_map_iff in Hl as [l0 [<- Hl0]]. cbn [fst snd]. apply forallb_forall. intros x Hx. apply filter_removes in Hx as [Hx Hne].
      rewrite forallb_forall in I1. specialize (I1 l0 Hl0). rewrite forallb_forall in I1. specialize (I1 x Hx).
      rewrite rlookup_rremove_other; [exact I1|]. destruct (id_eqb (fst e) x) eqn:E; [|reflexivity].
      apply id_eqb_eq in E. subst. rewrite id_eqb_refl in Hne. discriminate Hne.
    + unfold vids_known in *; cbn [reports]. unfold rremove. apply forallb_filter. exact I2.
    + unfold links_nonempty; cbn [links]. apply forallb_forall. intros l Hl. apply filter_In in Hl as [_ Hl]. exact Hl.
  - repeat split; cbn [reports links].
    + unfold integrity in *; cbn [reports links]. apply forallb_forall. intros l Hl. apply forallb_forall. intros x Hx.
      rewrite forallb_forall in I1. specialize (I1 l Hl). rewrite forallb_forall in I1. specialize (I1 x Hx).
      rewrite rlookup_rset. destruct (id_eqb (fst e) x); [reflexivity|exact I1].
    + unfold vids_known in *; cbn [reports]. apply forallb_rset; [cbn [snd]; exact Hk|exact I2].
    + exact I3.
Qed.

Lemma define_fold_inv data : forall c, inv env c -> forallb (fun e => forallb (fun v => mem v (vids env)) (snd e)) data = true ->
  inv env (fold_left define_entry data c) /\ fold_left define_apply data c = fold_left define_entry data c.
Proof.
  induction data as [|e r IH]; intros c Hi Hk; cbn [fold_left]; [split; [exact Hi|reflexivity]|].
  cbn [forallb] in Hk. apply andb_true_iff in Hk as [K1 K2].
  rewrite (define_apply_entry c e (proj2 (proj2 Hi))). apply IH; [apply define_entry_inv; assumption|exact K2].
Qed.

(* ---- the S2F33 pre-check: 0 exactly when E5 finds no error; otherwise one of E5's error codes ---- *)
Definition redefines (c : rcfg) (e : id * list id) : bool := has (fst e) (reports c) && negb (match snd e with [] => true | _ => false end).
Definition unknown_vid (e : id * list id) : bool := existsb (fun v => negb (mem v (vids env))) (snd e).

Lemma inner_check vs : forall d, fold_left (fun d v => if negb (mem v (vids env)) then 4 else d) vs d =
  if existsb (fun v => negb (mem v (vids env))) vs then 4 else d.
Proof.
  induction vs as [|v vs IH]; intro d; cbn; [reflexivity|]. rewrite IH. destruct (negb (mem v (vids env))); cbn; [|reflexivity].
  destruct (existsb _ vs); reflexivity.
Qed.

Lemma define_check_spec c data : forall d, (d = 0 \/ d = 3 \/ d = 4) ->
  let k := fold_left (fun drack e => if redefines c e then 3 else fold_left (fun d v => if negb (mem v (vids env)) then 4 else d) (snd e) drack) data d in
  (k = 0 <-> d = 0 /\ existsb (redefines c) data = false /\ existsb unknown_vid data = false) /\
  (k = 3 -> d = 3 \/ existsb (redefines c) data = true) /\ (k = 4 -> d = 4 \/ existsb unknown_vid data = true) /\ (k = 0 \/ k = 3 \/ k = 4).
Proof.
  induction data as [|e r IH]; intros d Hd; cbn [fold_left existsb].
  - cbn zeta. intuition congruence.
  - rewrite inner_check. fold (unknown_vid e).
    destruct (redefines c e) eqn:R; [|destruct (unknown_vid e) eqn:U].
    + specialize (IH 3 ltac:(auto)). cbn zeta in *. cbn [orb]. rewrite ?orb_true_r. intuition (try congruence). all: try (right; repeat match goal with H : _ = true |- _ => rewrite H; clear H end; rewrite ?orb_true_r; reflexivity).
    + specialize (IH 4 ltac:(auto)). cbn zeta in *. cbn [orb]. rewrite ?orb_true_r. intuition (try congruence). all: try (right; repeat match goal with H : _ = true |- _ => rewrite H; clear H end; rewrite ?orb_true_r; reflexivity).
    + specialize (IH d Hd). cbn zeta in *. cbn [orb]. intuition (try congruence). all: try (right; repeat match goal with H : _ = true |- _ => rewrite H; clear H end; rewrite ?orb_true_r; reflexivity).
Qed.

Lemma define_check_unfold c data :
  define_check env c data =
  fold_left (fun drack e => if redefines c e then 3 else fold_left (fun d v => if negb (mem v (vids env)) then 4 else d) (snd e) drack) data 0.
Proof. reflexivity. Qed.

Lemma redefines_spec c data :
  existsb (redefines c) data = existsb (fun e => match snd e with [] => false | _ => match rlookup (fst e) (reports c) with Some _ => true | None => false end end) data.
Proof.
  induction data as [|e r IH]; cbn; [reflexivity|]. rewrite IH. f_equal. unfold redefines. rewrite has_lookup.
  destruct (snd e); destruct (rlookup (fst e) (reports c)); reflexivity.
Qed.

Lemma define_errors_spec c data :
  define_errors env c data = (if existsb (redefines c) data then [3] else []) ++ (if existsb unknown_vid data then [4] else []).
Proof. unfold define_errors. rewrite <- redefines_spec. reflexivity. Qed.

Theorem define_check_ok c data :
  (define_check env c data = 0 <-> define_errors env c data = []) /\
  (define_check env c data <> 0 -> In (define_check env c data) (define_errors env c data)).
Proof.
  rewrite define_check_unfold, define_errors_spec. destruct (define_check_spec c data 0 ltac:(auto)) as (A & B & C & D). cbn zeta in *.
  set (k := fold_left _ data 0) in *. split.
  - split.
    + intro K. apply A in K as (_ & K1 & K2). rewrite K1, K2. reflexivity.
    + intro K. apply A. destruct (existsb (redefines c) data); [discriminate K|]. destruct (existsb unknown_vid data); [discriminate K|]. auto.
  - intro N. destruct D as [D|[D|D]]; [contradiction| |].
    + rewrite D. destruct (B D) as [X|X]; [discriminate X|]. rewrite X. left. reflexivity.
    + rewrite D. destruct (C D) as [X|X]; [discriminate X|]. rewrite X. apply in_or_app. right. left. reflexivity.
Qed.
End with_env.

(* ---------- "the last error wins" loops ---------- *)
Definition lww (l : list (option Z)) (a : Z) : Z := fold_left (fun acc o => match o with Some c => c | None => acc end) l a.
Definition is_none (o : option Z) : bool := match o with None => true | Some _ => false end.

Lemma lww_spec l : forall a, (forallb is_none l = true /\ lww l a = a) \/ In (Some (lww l a)) l.
Proof.
  induction l as [|o r IH]; intro a; cbn; [left; auto|].
  destruct (IH (match o with Some c => c | None => a end)) as [[H1 H2]|H].
  - unfold lww in *. destruct o as [c|]; cbn.
    + right. left. rewrite H2. reflexivity.
    + left. split; [exact H1|exact H2].
  - right. right. exact H.
Qed.

Lemma fold_flat_map {A B C} (f : A -> B -> A) (g : C -> list B) (xs : list C) : forall a,
  fold_left f (flat_map g xs) a = fold_left (fun acc x => fold_left f (g x) acc) xs a.
Proof. induction xs as [|x xs IH]; intro a; cbn; [reflexivity|]. rewrite fold_left_app. apply IH. Qed.

Section link.
Variable env : renv.
Variable c : rcfg.

Definition undefined_r (r : id) : bool := negb (has r (reports c)).
Definition link_items (e : id * list id) : list (option Z) :=
  (if negb (mem (fst e) (ceids env)) then Some 4 else None) ::
  map (fun r => if undefined_r r then Some 5 else if linked_to c (fst e) r then Some 3 else None) (snd e).

Lemma link_inner_lww ce rs : forall l1,
  fold_left (fun l r => let l2 := match rlookup ce (links c) with Some (rs0, _) => if mem r rs0 then 3 else l | None => l end in
                        if negb (has r (reports c)) then 5 else l2) rs l1 =
  fold_left (fun acc o => match o with Some c0 => c0 | None => acc end)
            (map (fun r => if undefined_r r then Some 5 else if linked_to c ce r then Some 3 else None) rs) l1.
Proof.
  induction rs as [|x xs IH]; intro l1; cbn [fold_left map]; [reflexivity|]. rewrite IH. f_equal.
  unfold undefined_r, linked_to. destruct (negb (has x (reports c))); [reflexivity|].
  destruct (rlookup ce (links c)) as [[rs0 en]|]; [destruct (mem x rs0)|]; reflexivity.
Qed.

Lemma link_check_lww data : link_check env c data = lww (flat_map link_items data) 0.
Proof.
  unfold link_check, lww. rewrite fold_flat_map. generalize 0. induction data as [|e r IH]; intro a; cbn [fold_left]; [reflexivity|].
  rewrite <- IH. f_equal. cbn [link_items fold_left]. rewrite link_inner_lww. f_equal.
  destruct (negb (mem (fst e) (ceids env))); reflexivity.
Qed.

Definition ex_linked (data : list (id * list id)) : bool := existsb (fun e => existsb (fun r => linked_to c (fst e) r) (snd e)) data.
Definition ex_unknown_ce (data : list (id * list id)) : bool := existsb (fun e => negb (mem (fst e) (ceids env))) data.
Definition ex_undefined (data : list (id * list id)) : bool :=
  existsb (fun e => existsb (fun r => match rlookup r (reports c) with Some _ => false | None => true end) (snd e)) data.

Lemma undefined_r_spec r : undefined_r r = match rlookup r (reports c) with Some _ => false | None => true end.
Proof. unfold undefined_r. rewrite has_lookup. destruct (rlookup r (reports c)); reflexivity. Qed.

Lemma items_some data k : In (Some k) (flat_map link_items data) ->
  (k = 4 /\ ex_unknown_ce data = true) \/ (k = 5 /\ ex_undefined data = true) \/ (k = 3 /\ ex_linked data = true).
Proof.
  intro H. apply in_flat_map in H as [e [He Hi]]. cbn [link_items] in Hi. destruct Hi as [Hi|Hi].
  - destruct (negb (mem (fst e) (ceids env))) eqn:B; [|discriminate Hi]. injection Hi as <-. left. split; [reflexivity|].
    apply existsb_exists. exists e. split; assumption.
  - apply in_map_iff in Hi as [r [Hr Hin]]. destruct (undefined_r r) eqn:U.
    + injection Hr as <-. right. left. split; [reflexivity|]. apply existsb_exists. exists e. split; [exact He|].
      apply existsb_exists. exists r. split; [exact Hin|]. rewrite <- undefined_r_spec. exact U.
    + destruct (linked_to c (fst e) r) eqn:Lk; [|discriminate Hr]. injection Hr as <-. right. right. split; [reflexivity|].
      apply existsb_exists. exists e. split; [exact He|]. apply existsb_exists. exists r. split; assumption.
Qed.

Lemma items_none data : forallb is_none (flat_map link_items data) = true ->
  ex_unknown_ce data = false /\ ex_undefined data = false /\ ex_linked data = false.
Proof.
  intro H. rewrite forallb_forall in H.
  assert (G : forall e, In e data -> forall o, In o (link_items e) -> is_none o = true).
  { intros e He o Ho. apply H. apply in_flat_map. exists e. split; assumption. }
  repeat split.
  - destruct (ex_unknown_ce data) eqn:E; [|reflexivity]. apply existsb_exists in E as [e [He B]].
    specialize (G e He _ (or_introl eq_refl)). rewrite B in G. discriminate G.
  - destruct (ex_undefined data) eqn:E; [|reflexivity]. apply existsb_exists in E as [e [He B]]. apply existsb_exists in B as [r [Hr B]].
    assert (I : In (if undefined_r r then Some 5 else if linked_to c (fst e) r then Some 3 else None) (link_items e)).
    { right. apply in_map_iff. exists r. split; [reflexivity|exact Hr]. }
    specialize (G e He _ I). rewrite undefined_r_spec, B in G. discriminate G.
  - destruct (ex_linked data) eqn:E; [|reflexivity]. apply existsb_exists in E as [e [He B]]. apply existsb_exists in B as [r [Hr B]].
    assert (I : In (if undefined_r r then Some 5 else if linked_to c (fst e) r then Some 3 else None) (link_items e)).
    { right. apply in_map_iff. exists r. split; [reflexivity|exact Hr]. }
    specialize (G e He _ I). rewrite B in G. destruct (undefined_r r); discriminate G.
Qed.

Theorem link_check_ok data :
  (link_check env c data = 0 <-> link_errors env c data = []) /\
  (link_check env c data <> 0 -> In (link_check env c data) (link_errors env c data)).
Proof.
  rewrite link_check_lww. unfold link_errors. fold (ex_linked data) (ex_unknown_ce data) (ex_undefined data).
  destruct (lww_spec (flat_map link_items data) 0) as [[N E]|S].
  - rewrite E. destruct (items_none data N) as (-> & -> & ->). split; [split; reflexivity|intro X; contradiction X; reflexivity].
  - destruct (items_some data _ S) as [[K X]|[[K X]|[K X]]]; rewrite K;
      destruct (ex_linked data), (ex_unknown_ce data), (ex_undefined data); try discriminate X;
      (split; [split; intro Y; discriminate Y | intros _; cbn; auto 6]).
Qed.
End link.

Lemma rlookup_in {A} k (m : list (id * A)) v : rlookup k m = Some v -> exists k', In (k', v) m.
Proof.
  unfold rlookup. destruct (find (fun p => id_eqb (fst p) k) m) as [p|] eqn:F; [|discriminate]. intro H. injection H as <-.
  apply find_some in F as [F _]. exists (fst p). destruct p; exact F.
Qed.

Lemma link_apply_entry c e : link_apply c e = link_entry c e.
Proof.
  unfold link_apply, link_entry. destruct (snd e) as [|r rs].
  - f_equal. destruct (has (fst e) (links c)) eqn:E; [reflexivity|]. symmetry. apply rremove_absent. exact E.
  - f_equal. destruct (rlookup (fst e) (links c)) as [[old en]|] eqn:E; [reflexivity|].
    unfold rset. pose proof (has_lookup (fst e) (links c)) as H. rewrite E in H. unfold has in H. rewrite H. reflexivity.
Qed.

Lemma forallb_ext' {A} (f g : A -> bool) l : (forall x, f x = g x) -> forallb f l = forallb g l.
Proof. intro H. induction l as [|x l IH]; cbn; [reflexivity|]. rewrite H, IH. reflexivity. Qed.

Section link_inv.
Variable env : renv.

Lemma link_entry_inv c e : inv env c -> forallb (defined c) (snd e) = true -> inv env (link_entry c e) /\ reports (link_entry c e) = reports c.
Proof.
  intros (I1 & I2 & I3) Hd. unfold link_entry. destruct (snd e) as [|r rs] eqn:Es.
  - split; [|reflexivity]. repeat split; cbn [reports links].
    + unfold integrity in *; cbn [reports links]. unfold rremove. apply forallb_filter. exact I1.
    + exact I2.
    + unfold links_nonempty in *; cbn [links]. unfold rremove. apply forallb_filter. exact I3.
  - split; [|reflexivity]. destruct (rlookup (fst e) (links c)) as [[old en]|] eqn:E; repeat split; cbn [reports links]; try exact I2.
    + unfold integrity in *; cbn [reports links]. apply forallb_rset; [|exact I1]. cbn [fst snd]. rewrite forallb_app.
      apply rlookup_in in E as [k' Hin]. rewrite forallb_forall in I1. specialize (I1 _ Hin). cbn [fst snd] in I1. rewrite I1. exact Hd.
    + unfold links_nonempty in *; cbn [links]. apply forallb_rset; [|exact I3]. cbn [fst snd]. destruct old; reflexivity.
    + unfold integrity in *; cbn [reports links]. rewrite forallb_app, I1. cbn. unfold defined in Hd. cbn in Hd. rewrite Hd. reflexivity.
    + unfold links_nonempty in *; cbn [links]. rewrite forallb_app, I3. reflexivity.
Qed.

Lemma link_fold_inv data : forall c, inv env c -> forallb (fun e => forallb (defined c) (snd e)) data = true ->
  inv env (fold_left link_entry data c) /\ fold_left link_apply data c = fold_left link_entry data c /\ reports (fold_left link_entry data c) = reports c.
Proof.
  induction data as [|e r IH]; intros c Hi Hk; cbn [fold_left]; [auto|].
  cbn [forallb] in Hk. apply andb_true_iff in Hk as [K1 K2]. rewrite link_apply_entry.
  destruct (link_entry_inv c e Hi K1) as [Hi' Hr].
  assert (K2' : forallb (fun e0 => forallb (defined (link_entry c e)) (snd e0)) r = true).
  { rewrite <- K2. apply forallb_ext'. intro e0. apply forallb_ext'. intro x. unfold defined. rewrite Hr. reflexivity. }
  destruct (IH _ Hi' K2') as (A & B & C). split; [exact A|]. split; [exact B|]. rewrite C. exact Hr.
Qed.

(* ---- event reports ---- *)
Lemma report_of_some c r : inv env c -> defined c r = true -> build_report env c r = report_of env c r /\ report_of env c r <> None.
Proof.
  intros (_ & I2 & _) Hd. unfold build_report, report_of, defined in *. destruct (rlookup r (reports c)) as [vs|] eqn:E; [|discriminate Hd].
  split; [|discriminate]. apply rlookup_in in E as [k' Hin]. unfold vids_known in I2. rewrite forallb_forall in I2. specialize (I2 _ Hin). cbn [snd] in I2.
  f_equal. f_equal. f_equal. clear Hin. induction vs as [|v vs IH]; cbn in *; [reflexivity|]. apply andb_true_iff in I2 as [H1 H2]. rewrite H1. f_equal. exact (IH H2).
Qed.

Lemma all_some_map c rs : inv env c -> forallb (defined c) rs = true ->
  all_some (map (build_report env c) rs) = all_some (map (report_of env c) rs) /\ all_some (map (report_of env c) rs) <> None.
Proof.
  intro Hi. induction rs as [|r rs IH]; cbn; [split; [reflexivity|discriminate]|]. intro H. apply andb_true_iff in H as [H1 H2].
  destruct (report_of_some c r Hi H1) as [E N]. destruct (IH H2) as [E2 N2]. rewrite E, E2.
  destruct (report_of env c r); [|contradiction N; reflexivity]. destruct (all_some (map (report_of env c) rs)); [|contradiction N2; reflexivity].
  split; [reflexivity|discriminate].
Qed.

Lemma event_ok c ce : inv env c ->
  exists rpt, event_report env c ce = Some rpt /\ (forall rs en, rlookup ce (links c) = Some (rs, en) -> build_event env c ce = Some rpt).
Proof.
  intro Hi. unfold event_report, build_event. destruct (rlookup ce (links c)) as [[rs en]|] eqn:E.
  - pose proof Hi as (I1 & _). apply rlookup_in in E as [k' Hin]. unfold integrity in I1. rewrite forallb_forall in I1. specialize (I1 _ Hin). cbn [fst snd] in I1.
    destruct (all_some_map c rs Hi I1) as [A N]. destruct (all_some (map (report_of env c) rs)) as [rpt|] eqn:R; [|contradiction N; reflexivity].
    exists rpt. split; [reflexivity|]. intros rs0 en0 H. injection H as <- <-. exact A.
  - exists []. split; [reflexivity|]. intros rs en H. discriminate H.
Qed.
End link_inv.

(* ---------- S2F37 keeps the link lists ---------- *)
Lemma enable_fold_keeps (Q : list id -> bool) ceed which : forall ls ok,
  forallb (fun l : id * (list id * bool) => Q (fst (snd l))) ls = true ->
  forallb (fun l : id * (list id * bool) => Q (fst (snd l)))
    (fst (fold_left (fun acc ce => match rlookup ce (fst acc) with
                                   | Some (rs, _) => (rset ce (rs, ceed) (fst acc), snd acc)
                                   | None => (fst acc, false)
                                   end) which (ls, ok))) = true.
Proof.
  induction which as [|ce r IH]; intros ls ok H; cbn [fold_left fst snd]; [exact H|].
  destruct (rlookup ce ls) as [[rs en]|] eqn:E; cbn [fst snd]; apply IH; [|exact H].
  apply forallb_rset; [|exact H]. cbn [fst snd]. apply rlookup_in in E as [k' Hin]. rewrite forallb_forall in H. exact (H _ Hin).
Qed.

Lemma enable_inv env c ceed which : inv env c -> inv env (fst (m_enable c ceed which)).
Proof.
  intros (I1 & I2 & I3). unfold m_enable. destruct which as [|w ws].
  - repeat split; cbn [fst reports links]; [| exact I2 |].
    + unfold integrity in *; cbn [reports links]. rewrite forallb_forall in *. intros l Hl. apply in_map_iff in Hl as [l0 [<- Hl0]]. exact (I1 _ Hl0).
    + unfold links_nonempty in *; cbn [links]. rewrite forallb_forall in *. intros l Hl. apply in_map_iff in Hl as [l0 [<- Hl0]]. exact (I3 _ Hl0).
  - match goal with |- context [fold_left ?f ?l ?a] => destruct (fold_left f l a) as [ls ok] eqn:F end.
    assert (Hls : ls = fst (fold_left (fun acc ce => match rlookup ce (fst acc) with Some (rs, _) => (rset ce (rs, ceed) (fst acc), snd acc) | None => (fst acc, false) end) (w :: ws) (links c, true)))
      by (rewrite F; reflexivity).
    repeat split; cbn [fst reports links]; [| exact I2 |].
    + unfold integrity in *; cbn [reports links]. rewrite Hls.
      apply (enable_fold_keeps (fun rs => forallb (fun r => match rlookup r (reports c) with Some _ => true | None => false end) rs)). exact I1.
    + unfold links_nonempty in *; cbn [links]. rewrite Hls. apply (enable_fold_keeps (fun rs => match rs with [] => false | _ => true end)). exact I3.
Qed.

(* ---------- every step keeps the invariants; define/link/request/trigger are E5's ---------- *)
Definition covered (o : rop) : Prop := match o with REnable _ (_ :: _) => False | _ => True end.

Lemma no_unknown_vids env data : existsb (fun e : id * list id => existsb (fun v => negb (mem v (vids env))) (snd e)) data = false ->
  forallb (fun e : id * list id => forallb (fun v => mem v (vids env)) (snd e)) data = true.
Proof.
  induction data as [|e r IH]; cbn; [reflexivity|]. intro H. apply orb_false_iff in H as [H1 H2]. rewrite (IH H2), andb_true_r.
  clear IH H2. induction (snd e) as [|v vs IHv]; cbn in *; [reflexivity|]. apply orb_false_iff in H1 as [A B]. apply negb_false_iff in A. rewrite A. exact (IHv B).
Qed.

Lemma all_defined c data : existsb (fun e : id * list id => existsb (fun r => match rlookup r (reports c) with Some _ => false | None => true end) (snd e)) data = false ->
  forallb (fun e : id * list id => forallb (defined c) (snd e)) data = true.
Proof.
  induction data as [|e r IH]; cbn; [reflexivity|]. intro H. apply orb_false_iff in H as [H1 H2]. rewrite (IH H2), andb_true_r.
  clear IH H2. induction (snd e) as [|v vs IHv]; cbn in *; [reflexivity|]. apply orb_false_iff in H1 as [A B]. unfold defined at 1.
  destruct (rlookup v (reports c)); [|discriminate A]. exact (IHv B).
Qed.

Lemma errs_nil_define env c data : define_errors env c data = [] ->
  existsb (fun e : id * list id => existsb (fun v => negb (mem v (vids env))) (snd e)) data = false.
Proof.
  unfold define_errors. intro H. apply app_eq_nil in H as [_ H]. destruct (existsb _ data); [discriminate H|reflexivity].
Qed.
Lemma errs_nil_link env c data : link_errors env c data = [] ->
  existsb (fun e : id * list id => existsb (fun r => match rlookup r (reports c) with Some _ => false | None => true end) (snd e)) data = false.
Proof.
  unfold link_errors. intro H. apply app_eq_nil in H as [_ H]. apply app_eq_nil in H as [_ H]. destruct (existsb _ data); [discriminate H|reflexivity].
Qed.

Theorem step_inv env c o : inv env c -> inv env (fst (er_step env c o)).
Proof.
  intro Hi. destruct o as [data|data|ceed which|ce|ce]; cbn [er_step fst]; try exact Hi.
  - unfold m_define. destruct (define_check_ok env c data) as [[Z1 _] _].
    destruct (define_check env c data =? 0) eqn:E; cbn [negb fst]; [|exact Hi]. apply Z.eqb_eq in E.
    destruct data as [|e r]; [apply inv0|]. cbn [fst].
    destruct (define_fold_inv env (e :: r) c Hi (no_unknown_vids env _ (errs_nil_define env c _ (Z1 E)))) as [A B]. rewrite B. exact A.
  - unfold m_link. destruct (link_check_ok env c data) as [[Z1 _] _].
    destruct (link_check env c data =? 0) eqn:E; cbn [fst]; [|exact Hi]. apply Z.eqb_eq in E.
    destruct (link_fold_inv env data c Hi (all_defined c _ (errs_nil_link env c _ (Z1 E)))) as (A & B & _). rewrite B. exact A.
  - apply enable_inv. exact Hi.
Qed.

Definition admitted (env : renv) (c : rcfg) (o : rop) (c' : rcfg) (out : rout) : Prop :=
  exists alt, In alt (e5_step env c o) /\ fst alt = c' /\ In out (snd alt).

Theorem step_refines env c o : inv env c -> covered o -> admitted env c o (fst (er_step env c o)) (snd (er_step env c o)).
Proof.
  intros Hi Hc. unfold admitted. destruct o as [data|data|ceed which|ce|ce]; cbn [er_step e5_step].
  - (* S2F33 *)
    unfold m_define. destruct (define_check_ok env c data) as [[Z1 Z2] Z3].
    destruct (define_check env c data =? 0) eqn:E; cbn [negb fst snd].
    + apply Z.eqb_eq in E. pose proof (Z1 E) as Hn. destruct data as [|e r]; [eexists; split; [left; reflexivity|split; [reflexivity|left; reflexivity]]|].
      destruct (define_fold_inv env (e :: r) c Hi (no_unknown_vids env _ (errs_nil_define env c _ Hn))) as [_ B].
      rewrite Hn. cbn [fst snd]. rewrite B. destruct (clean_define (e :: r)); eexists; (split; [left; reflexivity|split; [reflexivity|left; reflexivity]]).
    + apply Z.eqb_neq in E. pose proof (Z3 E) as Hin. destruct data as [|e r]; [contradiction E; reflexivity|].
      destruct (define_errors env c (e :: r)) as [|x xs] eqn:Er; [contradiction Hin|].
      destruct (clean_define (e :: r)); exists (refuse c (x :: xs)); (split; [first [left; reflexivity | right; left; reflexivity]|split; [reflexivity|apply in_map; exact Hin]]).
  - (* S2F35 *)
    unfold m_link. destruct (link_check_ok env c data) as [[Z1 Z2] Z3].
    destruct (link_check env c data =? 0) eqn:E; cbn [fst snd].
    + apply Z.eqb_eq in E. pose proof (Z1 E) as Hn.
      destruct (link_fold_inv env data c Hi (all_defined c _ (errs_nil_link env c _ Hn))) as (_ & B & _).
      rewrite Hn, B. destruct (clean_link data); eexists; (split; [left; reflexivity|split; [reflexivity|left; reflexivity]]).
    + apply Z.eqb_neq in E. pose proof (Z3 E) as Hin.
      destruct (link_errors env c data) as [|x xs] eqn:Er; [contradiction Hin|].
      destruct (clean_link data); exists (refuse c (x :: xs)); (split; [first [left; reflexivity | right; left; reflexivity]|split; [reflexivity|apply in_map; exact Hin]]).
  - (* S2F37 with an empty list: all *)
    destruct which as [|w ws]; [|contradiction Hc]. cbn [m_enable fst snd]. eexists; split; [left; reflexivity|split; [reflexivity|left; reflexivity]].
  - (* S6F15 *)
    cbn [fst snd]. destruct (event_ok env c ce Hi) as (rpt & Ev & Bu). rewrite Ev. unfold m_request.
    destruct (rlookup ce (links c)) as [[rs en]|] eqn:L.
    + rewrite (Bu _ _ eq_refl). eexists; (split; [left; reflexivity|split; [reflexivity|cbn; auto]]).
    + unfold event_report in Ev. rewrite L in Ev. injection Ev as <-. eexists; (split; [left; reflexivity|split; [reflexivity|cbn; auto]]).
  - (* trigger *)
    cbn [fst snd]. destruct (event_ok env c ce Hi) as (rpt & Ev & Bu). rewrite Ev. unfold m_trigger, enabled.
    destruct (rlookup ce (links c)) as [[rs en]|] eqn:L.
    + destruct en; [rewrite (Bu _ _ eq_refl)|]; eexists; (split; [left; reflexivity|split; [reflexivity|cbn; auto]]).
    + eexists; (split; [left; reflexivity|split; [reflexivity|cbn; auto]]).
Qed.

(* refused define / link requests change nothing *)
Theorem refused_changes_nothing env c o k :
  (exists data, o = RDefine data \/ o = RLink data) -> snd (er_step env c o) = RAck k -> k <> 0 -> fst (er_step env c o) = c.
Proof.
  intros [data [-> | ->]] H N; cbn [er_step] in *.
  - unfold m_define in *. destruct (define_check env c data =? 0) eqn:E; cbn [negb fst snd] in *; [|reflexivity].
    destruct data; cbn [fst snd] in H; injection H as <-; contradiction N; reflexivity.
  - unfold m_link in *. destruct (link_check env c data =? 0) eqn:E; cbn [fst snd] in *; [|reflexivity]. injection H as <-. contradiction N; reflexivity.
Qed.

(* histories *)
Theorem run_inv env ops : forall c, inv env c -> inv env (fst (er_run env c ops)).
Proof.
  induction ops as [|o r IH]; intros c Hi; cbn [er_run]; [exact Hi|].
  pose proof (step_inv env c o Hi) as H1. destruct (er_step env c o) as [c1 out]. cbn [fst] in H1.
  specialize (IH c1 H1). destruct (er_run env c1 r) as [c2 outs]. exact IH.
Qed.

(* an event report never fails and lists exactly the linked reports, in link order, with the current values *)
Theorem report_wellformed env c ce rs : inv env c -> rlookup ce (links c) = Some (rs, true) ->
  m_request env c ce = m_trigger env c ce /\
  exists vss, map Some vss = map (fun r => rlookup r (reports c)) rs /\
              m_request env c ce = RReport ce (combine rs (map (map (value_of env)) vss)).
Proof.
  intros Hi L. unfold m_request, m_trigger. rewrite L. destruct (event_ok env c ce Hi) as (rpt & Ev & Bu). rewrite (Bu _ _ L).
  split; [reflexivity|]. unfold event_report in Ev. rewrite L in Ev. clear Bu L.
  revert rpt Ev. induction rs as [|r rs IH]; intros rpt Ev; cbn in Ev.
  - injection Ev as <-. exists []. split; reflexivity.
  - unfold report_of at 1 in Ev. destruct (rlookup r (reports c)) as [vs|] eqn:E; [|discriminate Ev].
    destruct (all_some (map (report_of env c) rs)) as [rest|] eqn:R; [|discriminate Ev]. injection Ev as <-.
    destruct (IH rest eq_refl) as (vss & M & Q). exists (vs :: vss). cbn. rewrite E, M. split; [reflexivity|].
    injection Q as Q. rewrite Q. reflexivity.
Qed.
