(* Proofs/SmHier.v — C18: hierarchical machines of any shape. When no callback requests a transition, every allowed
   request leaves exactly the destination and its ancestors active (State.leave / State.enter after the D27/D28 repairs). *)
From SG Require Import Base.Prelude Spec.StateChart Model.StateMachine.
From Coq Require Import Lia.
Open Scope nat_scope.

(* parents are declared before their children *)
Definition wfp (f : forest) : Prop := forall s p, nth s f None = Some p -> p < s /\ s < length f.

Lemma forest_ok_wfp f : forest_ok f = true -> wfp f.
Proof.
  unfold forest_ok, wfp. intros H s p Hn. rewrite forallb_forall in H.
  assert (Hs : s < length f). { destruct (Nat.lt_ge_cases s (length f)) as [L|G]; [exact L|]. rewrite nth_overflow in Hn by exact G. discriminate Hn. }
  specialize (H (s, Some p)). cbn [fst snd] in H. split; [|exact Hs]. apply Nat.ltb_lt. apply H.
  assert (E : (s, Some p) = nth s (combine (seq 0 (length f)) f) (0, None)).
  { rewrite combine_nth by (rewrite seq_length; reflexivity). rewrite seq_nth by exact Hs. rewrite Hn. reflexivity. }
  rewrite E. apply nth_In. rewrite combine_length, seq_length. lia.
Qed.

(* with enough fuel the chain does not depend on the fuel *)
Lemma chain_fuel f : wfp f -> forall s k1 k2, s <= k1 -> s <= k2 -> chain f k1 s = chain f k2 s.
Proof.
  intros W s. induction s as [s IH] using lt_wf_ind. intros k1 k2 H1 H2.
  destruct k1 as [|k1], k2 as [|k2]; cbn [chain].
  - reflexivity.
  - assert (s = 0) by lia. subst. destruct (nth 0 f None) as [p|] eqn:E; [destruct (W _ _ E); lia|reflexivity].
  - assert (s = 0) by lia. subst. destruct (nth 0 f None) as [p|] eqn:E; [destruct (W _ _ E); lia|reflexivity].
  - destruct (nth s f None) as [p|] eqn:E; [|reflexivity]. destruct (W _ _ E) as [Hp _]. f_equal. apply IH; lia.
Qed.

Definition anc (f : forest) (x i : nat) : bool := mem i (chain_of f x).

Lemma chain_unfold f : wfp f -> forall s, s < length f ->
  chain_of f s = s :: match nth s f None with Some p => chain_of f p | None => [] end.
Proof.
  intros W s Hs. unfold chain_of. remember (length f) as n eqn:L. destruct n as [|n]; [lia|].
  change (chain f (S n) s) with (s :: match nth s f None with Some p => chain f n p | None => [] end).
  destruct (nth s f None) as [p|] eqn:E; [|reflexivity]. f_equal. destruct (W _ _ E) as [Hp _]. apply chain_fuel; [exact W| |]; lia.
Qed.

Lemma anc_refl f x : anc f x x = true.
Proof. unfold anc, chain_of, mem. destruct (length f); cbn; rewrite Nat.eqb_refl; reflexivity. Qed.

Lemma anc_step f : wfp f -> forall x i, x < length f ->
  anc f x i = (i =? x) || match nth x f None with Some p => anc f p i | None => false end.
Proof.
  intros W x i Hx. unfold anc. rewrite (chain_unfold f W x Hx). unfold mem. cbn [existsb].
  destruct (nth x f None); reflexivity.
Qed.

Lemma anc_lt f : wfp f -> forall x i, x < length f -> anc f x i = true -> i <= x.
Proof.
  intros W x. induction x as [x IH] using lt_wf_ind. intros i Hx H. rewrite (anc_step f W x i Hx) in H.
  apply orb_true_iff in H as [H|H]; [apply Nat.eqb_eq in H; lia|].
  destruct (nth x f None) as [p|] eqn:E; [|discriminate H]. destruct (W _ _ E) as [Hp _]. specialize (IH p Hp i ltac:(lia) H). lia.
Qed.

(* containment is closed upwards *)
Lemma anc_up f : wfp f -> forall x i q, x < length f -> anc f x i = true -> nth i f None = Some q -> anc f x q = true.
Proof.
  intros W x. induction x as [x IH] using lt_wf_ind. intros i q Hx H Hq. rewrite (anc_step f W x i Hx) in H. rewrite (anc_step f W x q Hx).
  apply orb_true_iff in H as [H|H].
  - apply Nat.eqb_eq in H. subst i. rewrite Hq, anc_refl. apply orb_true_r.
  - destruct (nth x f None) as [p|] eqn:E; [|discriminate H]. destruct (W _ _ E) as [Hp _]. rewrite (IH p Hp i q ltac:(lia) H Hq). apply orb_true_r.
Qed.

Lemma anc_trans f : wfp f -> forall x y i, x < length f -> anc f x y = true -> anc f y i = true -> anc f x i = true.
Proof.
  intros W x. induction x as [x IH] using lt_wf_ind. intros y i Hx Hxy Hyi.
  rewrite (anc_step f W x y Hx) in Hxy. apply orb_true_iff in Hxy as [H|H].
  - apply Nat.eqb_eq in H. subst y. exact Hyi.
  - destruct (nth x f None) as [p|] eqn:E; [|discriminate H]. destruct (W _ _ E) as [Hp _].
    rewrite (anc_step f W x i Hx), E. rewrite (IH p Hp y i ltac:(lia) H Hyi). apply orb_true_r.
Qed.

(* State.is_within is that containment *)
Lemma within_anc m : wfp (m_parent m) -> forall s o k, s < nstates m -> s <= k -> within m k s o = anc (m_parent m) s o.
Proof.
  intros W s. induction s as [s IH] using lt_wf_ind. intros o k Hs Hk. unfold nstates in *.
  rewrite (anc_step _ W s o Hs). destruct k as [|k]; cbn [within]; rewrite (Nat.eqb_sym o s).
  - assert (s = 0) by lia. subst. destruct (0 =? o); [reflexivity|]. cbn. unfold parent_of.
    destruct (nth 0 (m_parent m) None) as [p|] eqn:E; [destruct (W _ _ E); lia|reflexivity].
  - destruct (s =? o); [reflexivity|]. cbn [orb]. unfold parent_of. destruct (nth s (m_parent m) None) as [p|] eqn:E; [|reflexivity].
    destruct (W _ _ E) as [Hp _]. apply IH; lia.
Qed.
Lemma is_within_anc m : wfp (m_parent m) -> forall s o, s < nstates m -> is_within m s o = anc (m_parent m) s o.
Proof. intros W s o Hs. unfold is_within. apply within_anc; [exact W|exact Hs|lia]. Qed.

(* ---------- lists of flags ---------- *)
Lemma set_nth_length i b l : length (set_nth i b l) = length l.
Proof. revert i. induction l as [|x l IH]; intros [|i]; cbn; try reflexivity. rewrite IH. reflexivity. Qed.
Lemma nth_set_nth l : forall i j b, i < length l -> nth i (set_nth j b l) false = if i =? j then b else nth i l false.
Proof.
  induction l as [|x l IH]; intros i j b H; cbn in H; [lia|]. destruct j as [|j], i as [|i]; cbn; try reflexivity. apply IH. lia.
Qed.
Definition clear (l : list nat) (a : list bool) : list bool := fold_left (fun a x => set_nth x false a) l a.
Definition setl (l : list nat) (a : list bool) : list bool := fold_left (fun a x => set_nth x true a) l a.
Lemma clear_length l : forall a, length (clear l a) = length a.
Proof. induction l as [|x l IH]; intro a; cbn; [reflexivity|]. rewrite IH, set_nth_length. reflexivity. Qed.
Lemma setl_length l : forall a, length (setl l a) = length a.
Proof. induction l as [|x l IH]; intro a; cbn; [reflexivity|]. rewrite IH, set_nth_length. reflexivity. Qed.
Lemma nth_clear l : forall a i, i < length a -> nth i (clear l a) false = nth i a false && negb (mem i l).
Proof.
  induction l as [|x l IH]; intros a i H; cbn [clear fold_left mem existsb]; [rewrite andb_true_r; reflexivity|].
  fold (clear l (set_nth x false a)). rewrite IH by (rewrite set_nth_length; exact H). rewrite nth_set_nth by exact H. fold (mem i l).
  destruct (i =? x); cbn; [rewrite andb_false_r; reflexivity|]. reflexivity.
Qed.
Lemma nth_setl l : forall a i, i < length a -> nth i (setl l a) false = nth i a false || mem i l.
Proof.
  induction l as [|x l IH]; intros a i H; cbn [setl fold_left mem existsb]; [rewrite orb_false_r; reflexivity|].
  fold (setl l (set_nth x true a)). rewrite IH by (rewrite set_nth_length; exact H). rewrite nth_set_nth by exact H. fold (mem i l).
  destruct (i =? x); cbn; [rewrite ?orb_true_r; reflexivity|]. reflexivity.
Qed.

(* ---------- the engine when no callback requests a transition ---------- *)
Section quiet.
Variable m : machine.
Variable h : handlers.
Variable os : evt -> bool.
Hypothesis Hq : forall e, h e = [].

Lemma fire_quiet pf st e : exists st', fire h os pf st e = (st', false) /\ cur st' = cur st /\ active st' = active st.
Proof.
  unfold fire. rewrite Hq. destruct (os e); [destruct (existsb (evt_same e) (spent (with_log st e)))|]; cbn [run_requests];
    eexists; (split; [reflexivity|split; reflexivity]).
Qed.

Fixpoint lpath (fuel s dst : nat) : list nat :=
  s :: match fuel with
       | O => []
       | S f => match parent_of m s with Some p => if is_within m dst p then [] else lpath f p dst | None => [] end
       end.

Lemma leave_spec pf : forall fuel st s dst,
  exists st', leave_chain m h os pf fuel st s dst = (st', false) /\ cur st' = cur st /\ active st' = clear (lpath fuel s dst) (active st).
Proof.
  induction fuel as [|f IH]; intros st s dst; cbn [leave_chain lpath].
  - destruct (fire_quiet pf st (Leave s)) as (st1 & -> & C & A). eexists. split; [reflexivity|]. cbn [with_active cur active clear fold_left]. rewrite C, A. auto.
  - destruct (fire_quiet pf st (Leave s)) as (st1 & -> & C & A).
    destruct (parent_of m s) as [p|]; [|eexists; split; [reflexivity|]; cbn [with_active cur active clear fold_left]; rewrite C, A; auto].
    destruct (is_within m dst p); [eexists; split; [reflexivity|]; cbn [with_active cur active clear fold_left]; rewrite C, A; auto|].
    destruct (IH (with_active st1 s false) p dst) as (st' & -> & C' & A'). eexists. split; [reflexivity|]. rewrite C', A'. cbn [with_active cur active clear fold_left]. rewrite C, A. auto.
Qed.

Fixpoint epath (fuel : nat) (a : list bool) (s src : nat) : list nat :=
  s :: match fuel with
       | O => []
       | S f => match parent_of m s with
                | Some p => let a' := set_nth s true a in if is_within m src p && nth p a' false then [] else epath f a' p src
                | None => []
                end
       end.

Lemma enter_spec pf : forall fuel st s src,
  exists st', enter_chain m h os pf fuel st s src = (st', false) /\ cur st' = cur st /\ active st' = setl (epath fuel (active st) s src) (active st).
Proof.
  induction fuel as [|f IH]; intros st s src; cbn [enter_chain epath].
  - destruct (fire_quiet pf (with_active st s true) (Enter s)) as (st1 & -> & C & A). eexists. split; [reflexivity|]. cbn [with_active cur active setl fold_left] in *. rewrite C, A. auto.
  - destruct (fire_quiet pf (with_active st s true) (Enter s)) as (st1 & -> & C & A). cbn [with_active cur active] in C, A.
    destruct (parent_of m s) as [p|]; [|eexists; split; [reflexivity|]; cbn [setl fold_left]; rewrite C, A; auto].
    rewrite A. destruct (is_within m src p && nth p (set_nth s true (active st)) false); [eexists; split; [reflexivity|]; cbn [setl fold_left]; rewrite C, A; auto|].
    destruct (IH st1 p src) as (st' & -> & C' & A'). eexists. split; [reflexivity|]. rewrite C', A', C, A. cbn [setl fold_left]. auto.
Qed.
End quiet.

Lemma mem_cons i x l : mem i (x :: l) = (i =? x) || mem i l.
Proof. reflexivity. Qed.
Lemma mem_nil i : mem i [] = false.
Proof. reflexivity. Qed.

Section hier.
Variable m : machine.
Let f := m_parent m.
Let n := nstates m.
Hypothesis W : wfp f.

Lemma parent_lt s p : parent_of m s = Some p -> p < s /\ s < n.
Proof. unfold parent_of. intro H. exact (W _ _ H). Qed.

(* the states left: src, and its ancestors that do not contain dst *)
Lemma lpath_mem dst i : dst < n -> forall s fuel, s < n -> s <= fuel ->
  mem i (lpath m fuel s dst) = anc f s i && ((i =? s) || negb (anc f dst i)).
Proof.
  intros Hd s. induction s as [s IH] using lt_wf_ind. intros fuel Hs Hf.
  rewrite (anc_step f W s i Hs). change (nth s f None) with (parent_of m s).
  destruct fuel as [|fu]; cbn [lpath]; rewrite mem_cons.
  - assert (s = 0) by lia. subst. rewrite mem_nil. destruct (parent_of m 0) as [p|] eqn:E; [destruct (parent_lt _ _ E); lia|].
    destruct (i =? 0); reflexivity.
  - destruct (parent_of m s) as [p|] eqn:E.
    + destruct (parent_lt _ _ E) as [Hp _]. rewrite (is_within_anc m W dst p Hd). fold f.
      destruct (i =? s) eqn:Eis; cbn [orb andb]; [reflexivity|].
      destruct (anc f dst p) eqn:Ad.
      * rewrite mem_nil. destruct (anc f p i) eqn:Ap; [|reflexivity]. cbn [andb]. rewrite (anc_trans f W dst p i Hd Ad Ap). reflexivity.
      * rewrite (IH p Hp fu ltac:(unfold n, nstates in *; lia) ltac:(lia)). destruct (i =? p) eqn:Eip; [|reflexivity].
        apply Nat.eqb_eq in Eip. subst i. rewrite Ad. cbn. reflexivity.
    + rewrite mem_nil. destruct (i =? s); reflexivity.
Qed.

(* the states entered: dst, and its ancestors up to (excluding) the first that contains src and is still active *)
Definition cond (src p : nat) : bool := anc f src p && negb (p =? src).
Definition after_leave (src dst i : nat) : bool := anc f src i && anc f dst i && negb (i =? src).

Lemma epath_mem src dst i : src < n -> dst < n -> forall s fuel a, s < n -> s <= fuel -> length a = n -> anc f dst s = true ->
  (forall q, q < s -> nth q a false = after_leave src dst q) ->
  mem i (epath m fuel a s src) = anc f s i && ((i =? s) || negb (cond src i)).
Proof.
  intros Hsrc Hd s. induction s as [s IH] using lt_wf_ind. intros fuel a Hs Hf La Hds Ha.
  rewrite (anc_step f W s i Hs). change (nth s f None) with (parent_of m s).
  destruct fuel as [|fu]; cbn [epath]; rewrite mem_cons.
  - assert (s = 0) by lia. subst. rewrite mem_nil. destruct (parent_of m 0) as [p|] eqn:E; [destruct (parent_lt _ _ E); lia|].
    destruct (i =? 0); reflexivity.
  - destruct (parent_of m s) as [p|] eqn:E.
    + destruct (parent_lt _ _ E) as [Hp _]. cbv zeta.
      assert (Hpn : p < n) by lia.
      rewrite (is_within_anc m W src p Hsrc). fold f.
      rewrite nth_set_nth by (rewrite La; exact Hpn). replace (p =? s) with false by (symmetry; apply Nat.eqb_neq; lia).
      rewrite (Ha p Hp). unfold after_leave.
      assert (Adp : anc f dst p = true) by (apply (anc_up f W dst s p Hd Hds); exact E).
      rewrite Adp, andb_true_r.
      replace (anc f src p && (anc f src p && negb (p =? src))) with (cond src p) by (unfold cond; destruct (anc f src p); reflexivity).
      destruct (i =? s) eqn:Eis; cbn [orb andb]; [reflexivity|].
      destruct (cond src p) eqn:Cp.
      * rewrite mem_nil. destruct (anc f p i) eqn:Ap; [|reflexivity]. cbn [andb].
        (* cond is closed upwards *)
        assert (Ci : cond src i = true).
        { unfold cond in *. apply andb_true_iff in Cp as [C1 C2]. rewrite (anc_trans f W src p i Hsrc C1 Ap). cbn [andb].
          apply negb_true_iff. apply Nat.eqb_neq. apply negb_true_iff in C2. apply Nat.eqb_neq in C2.
          pose proof (anc_lt f W p i Hpn Ap). pose proof (anc_lt f W src p Hsrc C1). intro X. subst i. assert (p = src) by lia. contradiction. }
        rewrite Ci. reflexivity.
      * rewrite (IH p Hp fu (set_nth s true a) Hpn ltac:(lia) ltac:(rewrite set_nth_length; exact La) Adp).
        -- destruct (i =? p) eqn:Eip; [|reflexivity]. apply Nat.eqb_eq in Eip. subst i. rewrite Cp. cbn. reflexivity.
        -- intros q Hq. rewrite nth_set_nth by (rewrite La; lia). replace (q =? s) with false by (symmetry; apply Nat.eqb_neq; lia). apply Ha. lia.
    + rewrite mem_nil. destruct (i =? s); reflexivity.
Qed.

(* exactly dst and its ancestors *)
Definition act_ok (st : sm) : Prop := cur st < n /\ length (active st) = n /\ forall i, i < n -> nth i (active st) false = anc f (cur st) i.

Variable h : handlers.
Variable os : evt -> bool.
Hypothesis Hq : forall e, h e = [].

Theorem hierarchical_consistent fuel st name srcs dst :
  find_trans m name = Some (srcs, dst) -> existsb (Nat.eqb (cur st)) srcs = true -> dst < n -> act_ok st ->
  exists st', perform m h os (S fuel) st name = (st', false) /\ cur st' = dst /\ act_ok st'.
Proof.
  intros Hf Hs Hd (Hc & Hl & Ha). cbn [perform]. rewrite Hf, Hs. cbn [negb].
  destruct (leave_spec m h os Hq (perform m h os fuel) (nstates m) st (cur st) dst) as (st1 & -> & C1 & A1).
  rewrite C1.
  destruct (enter_spec m h os Hq (perform m h os fuel) (nstates m) (with_cur st1 dst) dst (cur st)) as (st3 & -> & C3 & A3).
  destruct (fire_quiet h os Hq (perform m h os fuel) st3 (Called name)) as (st4 & -> & C4 & A4).
  cbn [with_cur cur active] in C3, A3.
  exists st4. split; [reflexivity|]. split; [rewrite C4, C3; reflexivity|].
  assert (L1 : length (active st1) = n) by (rewrite A1, clear_length; exact Hl).
  split; [rewrite C4, C3; exact Hd|]. split; [rewrite A4, A3, setl_length; exact L1|].
  intros i Hi. rewrite C4, C3, A4, A3. rewrite nth_setl by (rewrite L1; exact Hi).
  (* after leaving *)
  assert (AL : forall q, q < n -> nth q (active st1) false = after_leave (cur st) dst q).
  { intros q Hqn. rewrite A1, nth_clear by (rewrite Hl; exact Hqn). rewrite (Ha q Hqn).
    rewrite (lpath_mem dst q Hd (cur st) (nstates m) Hc ltac:(fold n; lia)). unfold after_leave. fold f.
    destruct (anc f (cur st) q); cbn [andb]; [|reflexivity]. rewrite (Nat.eqb_sym q (cur st)).
    destruct (cur st =? q); cbn; [rewrite andb_false_r; reflexivity|]. destruct (anc f dst q); reflexivity. }
  rewrite (epath_mem (cur st) dst i Hc Hd dst (nstates m) (active st1) Hd ltac:(fold n; lia) L1 (anc_refl f dst)).
  - rewrite (AL i Hi). unfold after_leave, cond. fold f.
    destruct (anc f dst i) eqn:Adi; cbn [andb orb]; [|rewrite andb_false_r; reflexivity].
    rewrite andb_true_r. destruct (i =? dst); cbn [orb]; [rewrite orb_true_r; reflexivity|].
    destruct (anc f (cur st) i && negb (i =? cur st)); reflexivity.
  - intros q Hqd. apply AL. lia.
Qed.
End hier.
