(* Proofs/SmlRead.v — C15: Item.from_sml reads the tokens of a printed item back as that item (any nesting, any length),
   and the round trip  from_sml (to_sml v) = v  for every item of the modelled domain. *)
From SG Require Import Base.Prelude Base.Kinds Base.Float Gen.ItemConsts Gen.Jis8 Model.Secs2 Model.Item Model.Sfdl Model.Sml.
From SG Require Import Proofs.SmlProofs Proofs.Secs2Enc Proofs.Secs2Dec Proofs.SmlLex.
From Coq Require Import Lia.
Open Scope N_scope.

Lemma mapM_app {A B} (f : A -> res B) a b : mapM f (a ++ b) = do x <- mapM f a; do y <- mapM f b; Ok (x ++ y)%list.
Proof.
  induction a as [|x a IH]; cbn [mapM app bind].
  - destruct (mapM f b); reflexivity.
  - destruct (f x); [|reflexivity]. cbn [bind]. rewrite IH. destruct (mapM f a); [|reflexivity]. cbn [bind]. destruct (mapM f b); reflexivity.
Qed.

Lemma word_not_gt w : wordb w = true -> is_tok w c_gt = false.
Proof.
  intro H. unfold is_tok, text_eqb. destruct w as [|c [|d w']]; [reflexivity| |cbn [list_eqb]; rewrite andb_false_r; reflexivity].
  cbn [list_eqb]. rewrite andb_true_r. destruct (N.eqb_spec c c_gt) as [->|]; [discriminate H|reflexivity].
Qed.
Lemma words_not_gt ws : forallb wordb ws = true -> forallb (fun t => negb (is_tok t c_gt)) ws = true.
Proof.
  induction ws as [|w ws IH]; intro H; [reflexivity|]. cbn [forallb] in *. apply andb_prop in H as [Hw Hws].
  rewrite (word_not_gt _ Hw), (IH Hws). reflexivity.
Qed.

Lemma read_values_mapM {A} (conv : text -> res A) toks : forall chunks rest fuel,
  mapM conv toks = Ok chunks -> forallb (fun t => negb (is_tok t c_gt)) toks = true -> (length toks < fuel)%nat ->
  read_values conv fuel (toks ++ [c_gt] :: rest) = Ok (chunks, rest).
Proof.
  induction toks as [|t toks IH]; intros chunks rest fuel Hm Hn Hf; (destruct fuel as [|f]; [inversion Hf|]).
  - cbn [mapM] in Hm. injection Hm as <-. reflexivity.
  - cbn [mapM] in Hm. destruct (conv t) as [x|] eqn:Ex; [|discriminate]. cbn [bind] in Hm.
    destruct (mapM conv toks) as [xs|] eqn:Em; [|discriminate]. cbn [bind] in Hm. injection Hm as <-.
    cbn [forallb] in Hn. apply andb_prop in Hn as [Ht Hn]. apply negb_true_iff in Ht.
    change ((t :: toks) ++ [c_gt] :: rest)%list with (t :: (toks ++ [c_gt] :: rest))%list. cbn [read_values]. rewrite Ht, Ex. cbn [bind].
    rewrite (IH xs rest f eq_refl Hn) by (cbn [length] in Hf; lia). reflexivity.
Qed.

(* ---------- the value readers of the item classes ---------- *)
Definition conv_bin (t : text) : res N := do z <- parse_int0 t; do z' <- bounded item_min_B item_max_B z; Ok (Z.to_N z').
Definition conv_bool (t : text) : res bool := do z <- parse_int0 t; do z' <- bounded item_min_BOOLEAN item_max_BOOLEAN z; Ok (z' =? 1)%Z.
Definition conv_num (k : num_kind) (t : text) : res Z := do z <- parse_int10 t; bounded (item_min_int k) (item_max_int k) z.
Definition conv_text (jis : bool) (t : text) : res (list N) :=
  match t with
  | 34 :: _ => text_encode jis (strip_quotes t)
  | _ => do z <- parse_int0 t; do z' <- bounded (if jis then item_min_J else item_min_A) (if jis then item_max_J else item_max_A) z; Ok [Z.to_N z']
  end.

Lemma read_scalar_bin ts : read_scalar CB ts = do r <- read_values conv_bin (S (length ts)) ts; Ok (VBin (fst r), snd r).
Proof. reflexivity. Qed.
Lemma read_scalar_bool ts : read_scalar CBool ts = do r <- read_values conv_bool (S (length ts)) ts; Ok (VBool (fst r), snd r).
Proof. reflexivity. Qed.
Lemma read_scalar_text (jis : bool) ts : read_scalar (if jis then CJ else CA) ts =
  do r <- read_values (conv_text jis) (S (length ts)) ts; do cps <- text_decode jis (concat (fst r)); Ok (VText jis cps, snd r).
Proof. destruct jis; reflexivity. Qed.
Lemma read_scalar_num k ts : item_is_float k = false ->
  read_scalar (CNum k) ts = do r <- read_values (conv_num k) (S (length ts)) ts; Ok (VNum k (fst r), snd r).
Proof. intro H. cbn [read_scalar]. rewrite H. reflexivity. Qed.

Lemma hex_bin : forallb (fun b => match conv_bin (print_hex b) with Ok b' => b' =? b | Err _ => false end) bytes256 = true.
Proof. vm_compute. reflexivity. Qed.
Lemma hex_text : forallb (fun jis => forallb (fun b => match conv_text jis (print_hex b) with Ok [b'] => b' =? b | _ => false end) bytes256) [true; false] = true.
Proof. vm_compute. reflexivity. Qed.

Lemma conv_bin_hex l : forallb (fun b => b <? 256) l = true -> mapM conv_bin (map print_hex l) = Ok l.
Proof.
  induction l as [|b l IH]; intro H; [reflexivity|]. cbn [forallb] in H. apply andb_prop in H as [Hb Hl].
  cbn [map mapM]. rewrite (IH Hl). pose proof hex_bin as T. rewrite forallb_forall in T.
  specialize (T b (in_bytes256 b ltac:(apply N.ltb_lt; exact Hb))). destruct (conv_bin (print_hex b)) as [b'|]; [|discriminate].
  apply N.eqb_eq in T. subst. reflexivity.
Qed.
Lemma conv_text_hex jis b : b < 256 -> conv_text jis (print_hex b) = Ok [b].
Proof.
  intro H. pose proof hex_text as T. rewrite forallb_forall in T. specialize (T jis ltac:(destruct jis; cbn; auto)).
  rewrite forallb_forall in T. specialize (T b (in_bytes256 b H)).
  destruct (conv_text jis (print_hex b)) as [[|b' [|? ?]]|]; try discriminate. apply N.eqb_eq in T. subst. reflexivity.
Qed.
Lemma conv_bool_tok l : mapM conv_bool (map bool_tok l) = Ok l.
Proof. induction l as [|b l IH]; [reflexivity|]. cbn [map mapM]. rewrite IH. destruct b; reflexivity. Qed.
Lemma conv_num_dec k l : forallb (in_bounds (item_min_int k) (item_max_int k)) l = true -> mapM (conv_num k) (map print_Z l) = Ok l.
Proof.
  induction l as [|z l IH]; intro H; [reflexivity|]. cbn [forallb] in H. apply andb_prop in H as [Hz Hl].
  cbn [map mapM]. rewrite (IH Hl). unfold conv_num. rewrite int_print_parse. cbn [bind]. unfold bounded. rewrite Hz. reflexivity.
Qed.

(* ---------- text ---------- *)
Definition dropq := fix drop (l : text) : text := match l with c :: r => if c =? c_dq then drop r else l | [] => [] end.
Lemma strip_quotes_eq t : strip_quotes t = rev (dropq (rev (dropq t))). Proof. reflexivity. Qed.
Definition nodq (w : text) : bool := forallb (fun c => negb (c =? c_dq)) w.
Lemma dropq_nodq w r : nodq w = true -> w <> [] -> dropq (w ++ r) = (w ++ r)%list.
Proof. destruct w as [|c w]; [contradiction|]. intros H _. cbn [nodq forallb] in H. apply andb_prop in H as [Hc _]. apply negb_true_iff in Hc. cbn [app dropq]. rewrite Hc. reflexivity. Qed.
Lemma nodq_rev w : nodq w = true -> nodq (rev w) = true.
Proof. unfold nodq. rewrite !forallb_forall. intros H x Hx. apply H. apply in_rev. exact Hx. Qed.
Lemma strip_run w : nodq w = true -> w <> [] -> strip_quotes (c_dq :: w ++ [c_dq]) = w.
Proof.
  intros H Hne. rewrite strip_quotes_eq. change (dropq (c_dq :: w ++ [c_dq])) with (dropq (w ++ [c_dq])). rewrite dropq_nodq by assumption.
  rewrite rev_app_distr. change (rev [c_dq] ++ rev w)%list with (c_dq :: rev w). change (dropq (c_dq :: rev w)) with (dropq (rev w)).
  rewrite <- (app_nil_r (rev w)). rewrite dropq_nodq; [rewrite app_nil_r; apply rev_involutive|apply nodq_rev; exact H|].
  intro E. apply (f_equal (@rev N)) in E. rewrite rev_involutive in E. contradiction.
Qed.

Definition run_ok (run : option text) : Prop := match run with Some r => r <> [] /\ nodq r = true | None => True end.
Definition run_chars (run : option text) : text := match run with Some r => rev r | None => [] end.

Lemma closed_read jis run x : run_ok run -> mapM (enc1 jis) (run_chars run) = Ok x ->
  exists ch, mapM (conv_text jis) (closed run) = Ok ch /\ concat ch = x /\ forallb (fun t => negb (is_tok t c_gt)) (closed run) = true.
Proof.
  destruct run as [r|]; cbn [run_ok run_chars closed]; intros Hr Hx.
  - destruct Hr as [Hne Hq]. exists [x]. cbn [mapM conv_text]. rewrite strip_run; [|apply nodq_rev; exact Hq|].
    + rewrite text_encode_enc1, Hx. cbn [bind concat]. rewrite app_nil_r. repeat split; reflexivity.
    + intro E. apply (f_equal (@rev N)) in E. rewrite rev_involutive in E. contradiction.
  - cbn [mapM] in Hx. injection Hx as <-. exists []. repeat split; reflexivity.
Qed.

Lemma str_read jis pr : forall cps run toks bs,
  str_toks jis pr cps run = Ok toks -> run_ok run -> mapM (enc1 jis) (run_chars run ++ cps) = Ok bs ->
  exists chunks, mapM (conv_text jis) toks = Ok chunks /\ concat chunks = bs /\ forallb (fun t => negb (is_tok t c_gt)) toks = true.
Proof.
  induction cps as [|c cps IH]; intros run toks bs Ht Hr Hb.
  - cbn [str_toks] in Ht. injection Ht as <-. rewrite app_nil_r in Hb. apply closed_read; assumption.
  - cbn [str_toks] in Ht. destruct (existsb (N.eqb c) pr && negb (c =? c_dq)) eqn:Ep.
    + apply andb_prop in Ep as [_ Hq].
      apply (IH _ toks bs Ht).
      * cbn [run_ok]. split; [discriminate|]. cbn [nodq forallb]. rewrite Hq. destruct run as [r|]; [apply Hr|reflexivity].
      * cbn [run_chars rev]. rewrite <- app_assoc. destruct run as [r|]; exact Hb.
    + destruct (enc1 jis c) as [b|] eqn:Eb; [|discriminate]. cbn [bind] in Ht.
      destruct (str_toks jis pr cps None) as [toks'|] eqn:Et; [|discriminate]. cbn [bind] in Ht. injection Ht as <-.
      rewrite mapM_app in Hb. destruct (mapM (enc1 jis) (run_chars run)) as [x|] eqn:Ex; [|discriminate]. cbn [bind] in Hb.
      cbn [mapM] in Hb. rewrite Eb in Hb. cbn [bind] in Hb. destruct (mapM (enc1 jis) cps) as [y|] eqn:Ey; [|discriminate]. cbn [bind] in Hb.
      injection Hb as <-.
      destruct (IH None toks' y Et I Ey) as (ch' & M' & C' & N').
      destruct (closed_read jis run x Hr Ex) as (ch & M & C & Nn).
      exists (ch ++ [b] :: ch')%list. rewrite mapM_app, M. cbn [bind mapM]. rewrite (conv_text_hex jis b (enc1_byte _ _ _ Eb)). cbn [bind].
      rewrite M'. cbn [bind]. split; [reflexivity|]. split.
      * rewrite concat_app. cbn [concat]. rewrite C, C'. reflexivity.
      * rewrite forallb_app, Nn. cbn [forallb]. rewrite N'. rewrite (word_not_gt _ (hex_word b (enc1_byte _ _ _ Eb))). reflexivity.
Qed.

Lemma encode_decode jis cps bs : text_encode jis cps = Ok bs -> text_decode jis bs = Ok cps.
Proof.
  destruct jis.
  - intro H. apply text_decode_jis. revert bs H. induction cps as [|c cps IH]; intros bs H; cbn in *.
    + injection H as <-. reflexivity.
    + destruct (jis8_encode c); [|discriminate]. cbn [bind] in H.
      destruct (mapM (fun c0 => match jis8_encode c0 with Some b => Ok b | None => Err EUnicode end) cps) as [r|]; [|discriminate].
      cbn [bind] in H. injection H as <-. rewrite (IH r eq_refl). reflexivity.
  - intro H. cbn [text_decode]. f_equal. revert bs H. induction cps as [|c cps IH]; intros bs H; cbn in *.
    + injection H as <-. reflexivity.
    + destruct (c <? 256); [|discriminate]. cbn [bind] in H.
      destruct (mapM (fun c0 => if c0 <? 256 then Ok c0 else Err EUnicode) cps) as [r|]; [|discriminate].
      cbn [bind] in H. injection H as <-. rewrite (IH r eq_refl). reflexivity.
Qed.

(* ---------- whole items ---------- *)
Lemma read_item_S f open ty r : read_item (S f) (open :: ty :: r) =
  if negb (is_tok open c_lt) then Err EValue else
  do uty <- upper ty;
  match class_of_name uty with
  | None => Err EValue
  | Some CL =>
    do p <- peek1 r;
    do lr <- (if is_tok p c_lb then
                match r with
                | _ :: len_tok :: closing :: r' => if is_tok closing c_rb then Ok (Some len_tok, r') else Err EValue
                | _ => Err EIndex
                end
              else Ok (None, r));
    let '(len_tok, r1) := lr in
    do res_ <- read_list_items (read_item f) (S (length r1)) r1 [];
    let '(vals, rest) := res_ in
    do _ <- match len_tok with
            | None => Ok tt
            | Some lt => do n <- parse_int10 lt;
                         if (0 <? n)%Z && negb (n =? Z.of_nat (length vals))%Z then Err EValue else Ok tt
            end;
    Ok (VArr vals, rest)
  | Some c => read_scalar c r
  end.
Proof. reflexivity. Qed.

Definition names (tn : text) (c : icls) : Prop := exists u, upper tn = Ok u /\ class_of_name u = Some c.
Lemma names_L : names (text_of_string item_sml_L) CL. Proof. eexists; split; reflexivity. Qed.
Lemma names_B : names (text_of_string item_sml_B) CB. Proof. eexists; split; reflexivity. Qed.
Lemma names_BOOLEAN : names (text_of_string item_sml_BOOLEAN) CBool. Proof. eexists; split; reflexivity. Qed.
Lemma names_text (j : bool) : names (text_of_string (if j then item_sml_J else item_sml_A)) (if j then CJ else CA).
Proof. destruct j; eexists; split; reflexivity. Qed.
Lemma names_num k : names (text_of_string (item_sml k)) (CNum k). Proof. destruct k; eexists; split; reflexivity. Qed.

Lemma read_item_scalar f tn c r : names tn c -> c <> CL -> read_item (S f) ([c_lt] :: tn :: r) = read_scalar c r.
Proof.
  intros (u & U & C) Hc. rewrite read_item_S. change (is_tok [c_lt] c_lt) with true. cbn [negb]. rewrite U. cbn [bind]. rewrite C.
  destruct c; try reflexivity. contradiction.
Qed.

Lemma ptoks_head v : exists tl, ptoks v = [c_lt] :: tl.
Proof. destruct v as [l|l|l|l|j l|k l|k l|]; try (eexists; reflexivity). destruct l; eexists; reflexivity. Qed.
Lemma flat_len l : (length l <= length (flat_toks l))%nat.
Proof.
  induction l as [|x l IH]; [apply le_n|]. unfold flat_toks in *. cbn [flat_map length]. rewrite app_length.
  destruct (ptoks_head x) as [tl ->]. cbn [length]. lia.
Qed.

Definition reads (x : val) : Prop :=
  forall fuel rest, (length (ptoks x ++ rest) < fuel)%nat -> read_item fuel (ptoks x ++ rest) = Ok (x, rest).

Lemma read_list_ok f l : Forall reads l -> forall g rest acc,
  (length (flat_toks l ++ [c_gt] :: rest) < f)%nat -> (length l < g)%nat ->
  read_list_items (read_item f) g (flat_toks l ++ [c_gt] :: rest) acc = Ok (rev acc ++ l, rest)%list.
Proof.
  induction l as [|x l IH]; intros HF g rest acc Hf Hg; (destruct g as [|g]; [inversion Hg|]).
  - cbn [flat_toks flat_map app read_list_items]. change (closes_list [c_gt]) with true. cbn iota. rewrite app_nil_r. reflexivity.
  - inversion HF as [|? ? Hx Hl]; subst. unfold flat_toks in *. cbn [flat_map] in *. rewrite <- app_assoc in *.
    destruct (ptoks_head x) as [tl Etl]. cbn [read_list_items]. rewrite Etl at 1. cbn [app].
    change (closes_list [c_lt]) with false. cbn iota.
    rewrite (Hx f _ Hf). cbn [bind fst snd].
    rewrite (IH Hl g rest (x :: acc)).
    + cbn [rev]. rewrite <- app_assoc. reflexivity.
    + rewrite app_length in Hf. lia.
    + cbn [length] in Hg. lia.
Qed.

Lemma parse_len n : parse_int10 (print_N (N.of_nat n)) = Ok (Z.of_nat n).
Proof.
  pose proof (int_print_parse (Z.of_nat n)) as H. unfold print_Z in H. destruct (Z.ltb_spec (Z.of_nat n) 0) as [Hn|_]; [lia|].
  rewrite <- nat_N_Z in H at 1. rewrite N2Z.id in H. exact H.
Qed.

Lemma scal_len (ws : list text) rest : (length ws < S (length ((ws ++ [[c_gt]]) ++ rest)))%nat.
Proof. rewrite !app_length. lia. Qed.

Theorem read_ptoks v : sml_dom v = true -> reads v.
Proof.
  induction v as [l IH|l IH|l|l|j l|k l|k l|] using val_ind'; intros Hd; try discriminate Hd; intros fuel rest Hf;
    (destruct fuel as [|f]; [inversion Hf|]).
  - (* lists *)
    rewrite sml_dom_arr in Hd.
    assert (HR : Forall reads l).
    { clear Hf. induction l as [|x l IHl]; [constructor|]. cbn [forallb] in Hd. apply andb_prop in Hd as [Hx Hl].
      inversion IH as [|? ? Px Pl]; subst. constructor; [apply Px; exact Hx|apply IHl; assumption]. }
    destruct names_L as (u & U & C).
    destruct l as [|x l].
    + cbn [ptoks tn_of type_name app]. rewrite read_item_S. change (is_tok [c_lt] c_lt) with true. cbn [negb]. rewrite U. cbn [bind]. rewrite C.
      cbn [peek1 bind]. change (is_tok [c_gt] c_lb) with false. cbn iota. cbn [bind length read_list_items].
      change (closes_list [c_gt]) with true. cbn iota. cbn [bind rev]. reflexivity.
    + rewrite ptoks_arr in *. cbn [tn_of type_name app]. rewrite read_item_S. change (is_tok [c_lt] c_lt) with true. cbn [negb]. rewrite U. cbn [bind]. rewrite C.
      cbn [peek1 bind]. change (is_tok [c_lb] c_lb) with true. cbn iota. change (is_tok [c_rb] c_rb) with true. cbn iota. cbn [bind].
      rewrite <- app_assoc. change ([[c_gt]] ++ rest)%list with ([c_gt] :: rest).
      rewrite (read_list_ok f (x :: l) HR).
      * cbn [bind rev app]. rewrite parse_len. cbn [bind]. rewrite Z.eqb_refl. cbn [negb]. rewrite andb_false_r. cbn [bind]. reflexivity.
      * cbn [app length] in Hf. rewrite <- app_assoc in Hf. cbn [app] in Hf.
        match type of Hf with (S (S (S (S (S ?a)))) < _)%nat => change (a < f)%nat end. lia.
      * pose proof (flat_len (x :: l)). rewrite app_length. cbn [length] in *. lia.
  - (* binary *)
    cbn [sml_dom] in Hd. cbn [ptoks tn_of type_name scal_toks app]. rewrite (read_item_scalar f _ CB) by (exact names_B || discriminate).
    rewrite read_scalar_bin. rewrite <- app_assoc. change ([[c_gt]] ++ rest)%list with ([c_gt] :: rest).
    rewrite (read_values_mapM conv_bin _ l rest); [reflexivity|apply conv_bin_hex; exact Hd|apply words_not_gt; apply hex_words_l; exact Hd|].
    rewrite !app_length. lia.
  - (* boolean *)
    cbn [ptoks tn_of type_name scal_toks app]. rewrite (read_item_scalar f _ CBool) by (exact names_BOOLEAN || discriminate).
    rewrite read_scalar_bool. rewrite <- app_assoc. change ([[c_gt]] ++ rest)%list with ([c_gt] :: rest).
    rewrite (read_values_mapM conv_bool _ l rest); [reflexivity|apply conv_bool_tok|apply words_not_gt; apply bool_words|].
    rewrite !app_length. lia.
  - (* text *)
    cbn [sml_dom] in Hd. destruct (text_encode j l) as [bs|] eqn:Eb; [|discriminate Hd].
    assert (Hok : is_ok (mapM (enc1 j) l) = true) by (rewrite <- text_encode_enc1, Eb; reflexivity).
    destruct (str_ok j (if j then item_printable_J else item_printable_A) l Hok None) as (body & toks & _ & T).
    rewrite text_encode_enc1 in Eb.
    destruct (str_read j _ l None toks bs T I Eb) as (chunks & M & Cc & Ng).
    assert (En : tn_of (VText j l) = text_of_string (if j then item_sml_J else item_sml_A)) by (destruct j; reflexivity).
    cbn [ptoks scal_toks app]. rewrite T, En. rewrite (read_item_scalar f _ (if j then CJ else CA)) by (apply names_text || (destruct j; discriminate)).
    rewrite read_scalar_text. rewrite <- app_assoc. change ([[c_gt]] ++ rest)%list with ([c_gt] :: rest).
    rewrite (read_values_mapM (conv_text j) _ chunks rest _ M Ng) by (rewrite !app_length; lia).
    cbn [bind fst snd]. rewrite Cc. rewrite (encode_decode j l bs) by (rewrite text_encode_enc1; exact Eb). reflexivity.
  - (* integers *)
    cbn [sml_dom] in Hd. apply andb_prop in Hd as [Hk Hb]. apply negb_true_iff in Hk.
    cbn [ptoks tn_of type_name scal_toks app]. rewrite (read_item_scalar f _ (CNum k)) by (apply names_num || discriminate).
    rewrite read_scalar_num by exact Hk. rewrite <- app_assoc. change ([[c_gt]] ++ rest)%list with ([c_gt] :: rest).
    rewrite (read_values_mapM (conv_num k) _ l rest); [reflexivity|apply conv_num_dec; exact Hb|apply words_not_gt; apply dec_words|].
    rewrite !app_length. lia.
  - (* empty float items *)
    destruct l as [|b l]; [|discriminate Hd]. cbn [sml_dom] in Hd.
    cbn [ptoks tn_of type_name scal_toks app]. rewrite (read_item_scalar f _ (CNum k)) by (apply names_num || discriminate).
    cbn [read_scalar]. rewrite Hd. change (is_tok [c_gt] c_gt) with true. reflexivity.
Qed.

(* the round trip *)
Theorem sml_roundtrip v : sml_dom v = true -> forall ind, exists t, to_sml ind v = Ok t /\ from_sml t = Ok v.
Proof.
  intros Hd ind. destruct (lex_item v Hd ind) as (t & Et & L). exists t. split; [exact Et|].
  unfold from_sml, sml_tokens. specialize (L [] []). rewrite app_nil_r in L. rewrite L. rewrite lex_nil, app_nil_r, rev_involutive.
  pose proof (read_ptoks v Hd (S (length (ptoks v))) []) as R. rewrite app_nil_r in R. rewrite R by lia. reflexivity.
Qed.

(* ---------- what is never accepted ---------- *)
Lemma is_tok_eq t c : is_tok t c = true -> t = [c].
Proof.
  unfold is_tok, text_eqb. destruct t as [|a [|b t']]; cbn [list_eqb]; try discriminate.
  - rewrite andb_true_r. intro E. apply N.eqb_eq in E. subst. reflexivity.
  - rewrite andb_false_r. discriminate.
Qed.

Lemma read_scalar_closed c ts v rest : read_scalar c ts = Ok (v, rest) -> exists pre, ts = (pre ++ [c_gt] :: rest)%list.
Proof.
  destruct c as [| | | | |k]; cbn [read_scalar]; intro H; try discriminate H.
  - destruct (read_values _ _ ts) as [[xs rs]|] eqn:E; [|discriminate]. cbn [bind fst snd] in H. injection H as _ <-. exact (read_values_closed _ _ _ _ _ E).
  - destruct (read_values _ _ ts) as [[xs rs]|] eqn:E; [|discriminate]. cbn [bind fst snd] in H. injection H as _ <-. exact (read_values_closed _ _ _ _ _ E).
  - destruct (read_values _ _ ts) as [[xs rs]|] eqn:E; [|discriminate]. cbn [bind fst snd] in H.
    destruct (text_decode false _); [|discriminate]. cbn [bind] in H. injection H as _ <-. exact (read_values_closed _ _ _ _ _ E).
  - destruct (read_values _ _ ts) as [[xs rs]|] eqn:E; [|discriminate]. cbn [bind fst snd] in H.
    destruct (text_decode true _); [|discriminate]. cbn [bind] in H. injection H as _ <-. exact (read_values_closed _ _ _ _ _ E).
  - destruct (item_is_float k).
    + destruct ts as [|t r]; [discriminate|]. destruct (is_tok t c_gt) eqn:Et; [|discriminate]. injection H as _ <-.
      apply is_tok_eq in Et. subst. exists []. reflexivity.
    + destruct (read_values _ _ ts) as [[xs rs]|] eqn:E; [|discriminate]. cbn [bind fst snd] in H. injection H as _ <-. exact (read_values_closed _ _ _ _ _ E).
Qed.

Lemma read_list_closed (rd : list text -> res (val * list text)) :
  (forall ts v rest, rd ts = Ok (v, rest) -> exists pre, ts = (pre ++ [c_gt] :: rest)%list) ->
  forall g ts acc vals rest, read_list_items rd g ts acc = Ok (vals, rest) -> exists pre, ts = (pre ++ [c_gt] :: rest)%list.
Proof.
  intro Hrd. induction g as [|g IH]; intros ts acc vals rest H; [discriminate|]. cbn [read_list_items] in H.
  destruct ts as [|t r]; [discriminate|]. destruct (closes_list t) eqn:Ec.
  - injection H as _ <-. apply is_tok_eq in Ec. subst. exists []. reflexivity.
  - destruct (rd (t :: r)) as [[x rs]|] eqn:Ex; [|discriminate]. cbn [bind fst snd] in H.
    destruct (Hrd _ _ _ Ex) as [p1 E1]. destruct (IH _ _ _ _ H) as [p2 E2]. subst rs. rewrite E1.
    exists (p1 ++ [c_gt] :: p2)%list. rewrite <- app_assoc. reflexivity.
Qed.

(* an item is only ever returned for tokens that start with '<' and a known type name, and the tokens it took end with '>' *)
Theorem read_item_accepts_only : forall fuel ts v rest, read_item fuel ts = Ok (v, rest) ->
  (exists ty r u c, ts = [c_lt] :: ty :: r /\ upper ty = Ok u /\ class_of_name u = Some c) /\
  (exists pre, ts = (pre ++ [c_gt] :: rest)%list).
Proof.
  induction fuel as [|f IH]; intros ts v rest H; [discriminate|].
  destruct ts as [|open [|ty r]]; try discriminate H. rewrite read_item_S in H.
  destruct (is_tok open c_lt) eqn:Eo; [|discriminate]. cbn [negb] in H. apply is_tok_eq in Eo. subst open.
  destruct (upper ty) as [u|] eqn:Eu; [|discriminate]. cbn [bind] in H.
  destruct (class_of_name u) as [c|] eqn:Ec; [|discriminate].
  split; [exists ty, r, u, c; repeat split; assumption|].
  assert (Hs : forall c', read_scalar c' r = Ok (v, rest) -> exists pre, ([c_lt] :: ty :: r = pre ++ [c_gt] :: rest)%list).
  { intros c' Hr. destruct (read_scalar_closed _ _ _ _ Hr) as [pre ->]. exists ([c_lt] :: ty :: pre). reflexivity. }
  destruct c as [| | | | |k]; [|exact (Hs CB H)|exact (Hs CBool H)|exact (Hs CA H)|exact (Hs CJ H)|exact (Hs (CNum k) H)].
  destruct (peek1 r) as [p|] eqn:Ep; [|discriminate]. cbn [bind] in H.
  assert (Hl : forall r1, (exists mid, r = (mid ++ r1)%list) ->
               forall vals, read_list_items (read_item f) (S (length r1)) r1 [] = Ok (vals, rest) ->
               exists pre, ([c_lt] :: ty :: r = pre ++ [c_gt] :: rest)%list).
  { intros r1 [mid ->] vals Hr.
    destruct (read_list_closed (read_item f) (fun ts0 v0 rest0 H0 => proj2 (IH ts0 v0 rest0 H0)) _ _ _ _ _ Hr) as [pre ->].
    exists ([c_lt] :: ty :: mid ++ pre)%list. cbn [app]. rewrite <- app_assoc. reflexivity. }
  destruct (is_tok p c_lb).
  - destruct r as [|a [|len_tok [|closing r']]]; try discriminate H. destruct (is_tok closing c_rb); [|discriminate]. cbn [bind] in H.
    destruct (read_list_items (read_item f) (S (length r')) r' []) as [[vals rs]|] eqn:Er; [|discriminate]. cbn [bind] in H.
    destruct (parse_int10 len_tok) as [n|]; [|discriminate]. cbn [bind] in H.
    destruct ((0 <? n)%Z && negb (n =? Z.of_nat (length vals))%Z); [discriminate|]. cbn [bind] in H. injection H as _ <-.
    apply (Hl r' (ex_intro _ [a; len_tok; closing] eq_refl) vals Er).
  - cbn [bind] in H. destruct (read_list_items (read_item f) (S (length r)) r []) as [[vals rs]|] eqn:Er; [|discriminate]. cbn [bind] in H.
    injection H as _ <-. apply (Hl r (ex_intro _ [] eq_refl) vals Er).
Qed.

(* the whole text: from_sml returns an item only if ALL tokens of the text are that one item - they start with '<' and a known type
   name and the last token of the text is its closing '>' (nothing behind it: no second item, no unclosed bracket, no literal left open) *)
Theorem from_sml_whole_text src v : from_sml src = Ok v ->
  (exists ty r u c, sml_tokens src = [c_lt] :: ty :: r /\ upper ty = Ok u /\ class_of_name u = Some c) /\
  (exists pre, sml_tokens src = (pre ++ [[c_gt]])%list).
Proof.
  unfold from_sml. destruct (read_item _ _) as [[v' rest]|e] eqn:E; cbn [bind fst snd]; [|discriminate].
  destruct rest as [|x rest]; [|discriminate]. intros _.
  destruct (read_item_accepts_only _ _ _ _ E) as [A B]. split; [exact A|exact B].
Qed.
