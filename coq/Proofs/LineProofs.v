(* Proofs/LineProofs.v — C17: the SECS-I line protocol delivers every valid block exactly once, however the line bytes
   are chunked, and answers a block with a wrong checksum with NAK without delivering it. *)
From SG Require Import Base.Prelude Base.Kinds Gen.ProtoConsts Spec.E4E37Frames Model.Secs2 Model.Frames Model.SecsILine.
From SG Require Import Proofs.BytesProofs Proofs.Secs2Dec Proofs.FramesProofs.
From Coq Require Import Lia ZifyBool ZifyN ZifyNat.
Ltac Zify.zify_post_hook ::= Z.div_mod_to_equations.
Open Scope N_scope.

(* chunking cannot matter: the receiver consumes bytes *)
Lemma srx_bytes_app m a b : srx_bytes m (a ++ b) = let '(m1, o1) := srx_bytes m a in let '(m2, o2) := srx_bytes m1 b in (m2, o1 ++ o2).
Proof.
  revert m. induction a as [|x a IH]; intro m; cbn [app srx_bytes].
  - destruct (srx_bytes m b); reflexivity.
  - destruct (srx_byte m x) as [m1 o1]. rewrite IH. destruct (srx_bytes m1 a) as [m2 o2]. destruct (srx_bytes m2 b) as [m3 o3]. rewrite app_assoc. reflexivity.
Qed.
Theorem chunking_irrelevant chunks : forall m, srx_chunks m chunks = srx_bytes m (List.concat chunks).
Proof.
  induction chunks as [|c r IH]; intro m; cbn [srx_chunks List.concat]; [reflexivity|].
  rewrite srx_bytes_app. destruct (srx_bytes m c) as [m1 o1]. rewrite IH. reflexivity.
Qed.

(* collecting: need more bytes than arrive *)
Lemma collect_partial : forall more need acc, (length more < need)%nat ->
  srx_bytes (RCollect need acc) more = (RCollect (need - length more) (acc ++ more), []).
Proof.
  induction more as [|b r IH]; intros need acc H; cbn [srx_bytes length].
  - rewrite Nat.sub_0_r, app_nil_r. reflexivity.
  - cbn [length] in H. destruct need as [|[|k]]; try lia. cbn [srx_byte]. rewrite IH by lia. rewrite <- app_assoc. cbn [app]. f_equal.
Qed.

(* a complete frame behind the length byte: decoded as a whole *)
Lemma collect_complete body acc : (0 < length body)%nat ->
  srx_bytes (RCollect (length body) acc) body =
  match sblock_decode (acc ++ body) with
  | Ok (Some blk) => (RIdle, [Got blk; SentACK]) | Ok None => (RIdle, [SentNAK]) | Err _ => (RIdle, [Raised]) end.
Proof.
  intro H. destruct (exists_last (l := body)) as (front & lastb & ->); [destruct body; [cbn in H; lia|discriminate]|].
  rewrite srx_bytes_app. rewrite app_length in *. cbn [length] in *. rewrite collect_partial by lia.
  replace (length front + 1 - length front)%nat with 1%nat by lia. cbn [srx_bytes srx_byte]. rewrite <- app_assoc.
  destruct (sblock_decode (acc ++ front ++ [lastb])) as [[blk|]|e]; reflexivity.
Qed.

(* one announced frame, from idle *)
Lemma receive_frame l rest : (length rest = N.to_nat l + 2)%nat ->
  srx_bytes RIdle (secsi_ENQ :: l :: rest) =
  match sblock_decode (l :: rest) with
  | Ok (Some blk) => (RIdle, [SentEOT; Got blk; SentACK]) | Ok None => (RIdle, [SentEOT; SentNAK]) | Err _ => (RIdle, [SentEOT; Raised]) end.
Proof.
  intro H. cbn [srx_bytes srx_byte]. rewrite <- H. rewrite collect_complete by lia. cbn [app].
  destruct (sblock_decode (l :: rest)) as [[blk|]|e]; reflexivity.
Qed.

Lemma exists_last2 {A} (l : list A) : (2 <= length l)%nat -> exists body c1 c0, l = body ++ [c1; c0].
Proof.
  intro H. destruct (exists_last (l := l)) as (l1 & c0 & ->); [destruct l; [cbn in H; lia|discriminate]|].
  rewrite app_length in H. cbn [length] in H.
  destruct (exists_last (l := l1)) as (body & c1 & ->); [destruct l1; [cbn in H; lia|discriminate]|].
  exists body, c1, c0. rewrite <- app_assoc. reflexivity.
Qed.

Lemma e4_block_bytes h data : hdr_fields_ok h -> Forall (fun b => b < 256) data -> (length data <= 244)%nat ->
  Forall (fun b => b < 256) (e4_block (to_e4 h) data).
Proof.
  intros Hok Hd Hlen.
  assert (Hwf : e4_hdr_ok (to_e4 h) = true).
  { destruct Hok as (A & B & C & D & E). unfold e4_hdr_ok, to_e4. cbn [e4_device e4_stream e4_function e4_blockno e4_system].
    change (2^15) with 32768. change (2^32) with 4294967296. lia. }
  destruct (e4_header_bytes_props _ Hwf) as [_ Hhb]. unfold e4_block. cbn [app]. constructor; [lia|].
  apply Forall_app. split; [exact Hhb|]. apply Forall_app. split; [exact Hd|apply be_bytes].
Qed.

Definition block_ok (h : shdr) (data : list N) : Prop := hdr_fields_ok h /\ Forall (fun b => b < 256) data /\ (length data <= 244)%nat.
Definition enc_block (h : shdr) (data : list N) : list N := e4_block (to_e4 h) data.

Lemma enc_block_shape h data : block_ok h data ->
  exists l rest, enc_block h data = l :: rest /\ (length rest = N.to_nat l + 2)%nat /\ l = 10 + N.of_nat (length data).
Proof.
  intros (Hok & Hd & Hlen). unfold enc_block, e4_block.
  assert (Hwf : e4_hdr_ok (to_e4 h) = true).
  { destruct Hok as (A & B & C & D & E). unfold e4_hdr_ok, to_e4. cbn [e4_device e4_stream e4_function e4_blockno e4_system].
    change (2^15) with 32768. change (2^32) with 4294967296. lia. }
  destruct (e4_header_bytes_props _ Hwf) as [Hl10 _]. cbn [app].
  eexists. eexists. split; [reflexivity|]. split; [|reflexivity]. rewrite !app_length, Hl10, be_length. lia.
Qed.

(* every valid block, announced by ENQ, however the bytes are cut: EOT, delivered exactly once, ACK *)
Theorem valid_block_received h data chunks : block_ok h data -> List.concat chunks = secsi_ENQ :: enc_block h data ->
  srx_chunks RIdle chunks = (RIdle, [SentEOT; Got {| sb_hdr := h; sb_data := data |}; SentACK]).
Proof.
  intros Hb Hc. rewrite chunking_irrelevant, Hc. destruct (enc_block_shape h data Hb) as (l & rest & E & L & _). rewrite E.
  rewrite (receive_frame l rest L). rewrite <- E. destruct Hb as (Hok & Hd & Hlen). unfold enc_block. rewrite (sblock_roundtrip h data Hok Hd Hlen). reflexivity.
Qed.

(* a block in which one byte behind the length byte was changed: EOT, NAK, nothing delivered *)
Theorem corrupted_block_refused h data pos old nb chunks : block_ok h data -> (0 < pos)%nat ->
  nth_error (enc_block h data) pos = Some old -> nb < 256 -> nb <> old ->
  List.concat chunks = secsi_ENQ :: replace_nth pos nb (enc_block h data) ->
  srx_chunks RIdle chunks = (RIdle, [SentEOT; SentNAK]).
Proof.
  intros Hb Hpos Hnth Hnb Hne Hc. rewrite chunking_irrelevant, Hc.
  destruct (enc_block_shape h data Hb) as (l & rest & E & L & Ll). rewrite E in *.
  destruct pos as [|p]; [lia|]. cbn [replace_nth].
  assert (L' : (length (replace_nth p nb rest) = N.to_nat l + 2)%nat) by (rewrite replace_nth_length; exact L).
  rewrite (receive_frame l _ L').
  destruct Hb as (Hok & Hd & Hlen).
  pose proof (corruption_detected h data (S p) old nb Hok Hd Hlen) as CD. unfold enc_block in E. rewrite E in CD. cbn [replace_nth] in CD.
  specialize (CD Hnth Hnb Hne).
  (* the length byte still fits, so decode does not raise: it can only be a checksum mismatch *)
  assert (Hbytes : Forall (fun b => b < 256) (l :: replace_nth p nb rest)).
  { assert (F : Forall (fun b => b < 256) (l :: rest)) by (rewrite <- E; apply e4_block_bytes; assumption).
    inversion F as [|? ? Fl Fr]; subst. constructor; [exact Fl|]. apply replace_nth_bytes; assumption. }
  destruct (exists_last2 (replace_nth p nb rest)) as (body & c1 & c0 & EB); [rewrite L'; lia|].
  rewrite EB in *. assert (Lb : (10 <= length body)%nat).
  { rewrite !app_length in L'. cbn [length] in L'. lia. }
  destruct (sblock_decode_frame l body c1 c0 Hbytes Lb) as (hh & _ & Dec). rewrite Dec in *.
  assert (Ll2 : (l =? N.of_nat (length body)) = true).
  { apply N.eqb_eq. rewrite !app_length in L'. cbn [length] in L'. lia. }
  rewrite Ll2 in *. destruct (sum body =? c1 * 256 + c0); [exfalso; eapply CD; reflexivity|reflexivity].
Qed.

(* ---------- the sending side and both sides together ---------- *)
Lemma after_enq_valid h data : block_ok h data ->
  srx_bytes RAwaitLen (enc_block h data) = (RIdle, [Got {| sb_hdr := h; sb_data := data |}; SentACK]).
Proof.
  intro Hb. pose proof (valid_block_received h data [secsi_ENQ :: enc_block h data] Hb) as V. cbn [List.concat] in V. rewrite app_nil_r in V.
  specialize (V eq_refl). cbn [srx_chunks] in V. change (secsi_ENQ :: enc_block h data) with ([secsi_ENQ] ++ enc_block h data) in V.
  rewrite srx_bytes_app in V. cbn [srx_bytes srx_byte app] in V.
  destruct (srx_bytes RAwaitLen (enc_block h data)) as [m o]. cbn [app] in V. rewrite app_nil_r in V. injection V as -> ->. reflexivity.
Qed.

Definition vblock := (shdr * list N)%type.
Definition venc (b : vblock) : list N := enc_block (fst b) (snd b).
Definition vok (b : vblock) : Prop := block_ok (fst b) (snd b).

(* a message of any number of valid blocks over the line: every block announced by ENQ, started after EOT, delivered
   once and in order, acknowledged; the sender's call succeeds *)
Theorem dialog_delivers blocks : Forall vok blocks ->
  dialog RIdle (map venc blocks) =
  (RIdle, flat_map (fun b => [SentEOT; Got {| sb_hdr := fst b; sb_data := snd b |}; SentACK]) blocks, true).
Proof.
  induction blocks as [|b r IH]; intro H; [reflexivity|]. inversion H as [|? ? Hb Hr]; subst.
  cbn [map dialog]. cbn [srx_bytes srx_byte app flat_map line_bytes].
  unfold venc at 1. rewrite (after_enq_valid (fst b) (snd b) Hb). cbn [flat_map line_bytes app].
  rewrite N.eqb_refl. rewrite (IH Hr). reflexivity.
Qed.

(* the sending side alone: ENQ, the block after the answer, success exactly when every block is acknowledged *)
Theorem sender_all_acknowledged blocks :
  stx blocks (flat_map (fun _ => [secsi_EOT; secsi_ACK]) blocks) = (flat_map (fun b => [[secsi_ENQ]; b]) blocks, Some true).
Proof.
  induction blocks as [|b r IH]; [reflexivity|]. cbn [flat_map app stx await_eot]. rewrite !N.eqb_refl. rewrite IH. reflexivity.
Qed.
Theorem sender_nak_fails done b rest answer more : answer <> secsi_ACK ->
  snd (stx (done ++ b :: rest) (flat_map (fun _ => [secsi_EOT; secsi_ACK]) done ++ secsi_EOT :: answer :: more)) = Some false.
Proof.
  intro H. induction done as [|d r IH]; cbn [flat_map app stx await_eot]; rewrite N.eqb_refl.
  - apply N.eqb_neq in H. rewrite H. reflexivity.
  - rewrite N.eqb_refl. destruct (stx (r ++ b :: rest) _) as [sent res] eqn:E. cbn [snd] in *. exact IH.
Qed.

(* a block is started only after EOT: as long as the peer has not sent EOT, whatever else it sends, nothing but ENQ goes out *)
Lemma await_no_eot answers : forallb (fun a => negb (a =? secsi_EOT)) answers = true ->
  await_eot answers = (repeat [secsi_ENQ] (length answers), None).
Proof.
  induction answers as [|a r IH]; intro H; [reflexivity|]. cbn [forallb] in H. apply andb_prop in H as [Ha Hr].
  cbn [await_eot length repeat]. apply negb_true_iff in Ha. rewrite Ha. rewrite (IH Hr). reflexivity.
Qed.
Theorem block_only_after_eot blocks answers : forallb (fun a => negb (a =? secsi_EOT)) answers = true ->
  forall chunk, In chunk (fst (stx blocks answers)) -> chunk = [secsi_ENQ].
Proof.
  intros H chunk Hin. destruct blocks as [|b r]; [contradiction Hin|]. cbn [stx] in Hin. rewrite (await_no_eot answers H) in Hin. cbn [fst] in Hin.
  destruct Hin as [<-|Hin]; [reflexivity|]. apply repeat_spec in Hin. exact Hin.
Qed.
(* and a byte that is not EOT is answered by announcing the block again; the block follows the EOT *)
Theorem block_follows_eot blk rest junk more : forallb (fun a => negb (a =? secsi_EOT)) junk = true ->
  exists sent res, stx (blk :: rest) (junk ++ secsi_EOT :: more) = (([secsi_ENQ] :: repeat [secsi_ENQ] (length junk)) ++ blk :: sent, res).
Proof.
  intro H. assert (A : await_eot (junk ++ secsi_EOT :: more) = (repeat [secsi_ENQ] (length junk), Some more)).
  { induction junk as [|a r IH]; [cbn [app await_eot length repeat]; rewrite N.eqb_refl; reflexivity|].
    cbn [forallb] in H. apply andb_prop in H as [Ha Hr]. apply negb_true_iff in Ha. cbn [app await_eot length repeat]. rewrite Ha, (IH Hr). reflexivity. }
  cbn [stx]. rewrite A. destruct more as [|r a2].
  - exists [], None. rewrite <- app_comm_cons. reflexivity.
  - destruct (r =? secsi_ACK).
    + destruct (stx rest a2) as [sent res]. exists sent, res. rewrite <- !app_comm_cons, <- app_assoc. reflexivity.
    + exists [], (Some false). rewrite <- app_comm_cons. reflexivity.
Qed.
