(* Proofs/Secs2Sim.v — C02: whatever the independent E5 reference decoder accepts, the model of the
   library's decoder decodes to the same item (simulation between the two decoders), and the
   resulting value re-encodes to the canonical E5 encoding. *)
From SG Require Import Base.Prelude Base.Kinds Base.Float Gen.VarConsts Gen.Jis8 Spec.E5 Model.Secs2 Model.Denote Model.Secs2Wf Model.Admits.
From SG Require Import Proofs.BytesProofs Proofs.FloatProofs Proofs.Secs2Enc Proofs.Secs2Dec.
From Coq Require Import Lia ZifyBool ZifyN ZifyNat.
Ltac Zify.zify_post_hook ::= Z.div_mod_to_equations.
Open Scope N_scope.

Definition bytes (l : list N) : Prop := Forall (fun b => b < 256) l.

Lemma bytes_app a b : bytes (a ++ b) <-> bytes a /\ bytes b.
Proof. apply Forall_app. Qed.
Lemma bytes_firstn n l : bytes l -> bytes (firstn n l).
Proof. intro H. rewrite <- (firstn_skipn n l) in H. apply bytes_app in H. tauto. Qed.
Lemma bytes_skipn n l : bytes l -> bytes (skipn n l).
Proof. intro H. rewrite <- (firstn_skipn n l) in H. apply bytes_app in H. tauto. Qed.

Lemma take_spec k r a b : take k r = Some (a, b) -> r = a ++ b /\ length a = k.
Proof.
  unfold take. destruct (Nat.leb_spec k (length r)); [|discriminate].
  intro E. injection E as <- <-. split; [symmetry; apply firstn_skipn|]. apply firstn_length_le. assumption.
Qed.

(* ---------- header ---------- *)
Lemma header_sim o fb lb rest :
  fb < 256 -> length lb = N.to_nat (fb mod 4) ->
  decode_item_header o (fb :: lb ++ rest) =
  match o with
  | Some c => if c =? fb / 4 then Ok (rest, fb / 4, be_val lb 0, N.of_nat (S (length lb))) else Err EValue
  | None => Ok (rest, fb / 4, be_val lb 0, N.of_nat (S (length lb)))
  end.
Proof.
  intros Hfb Hlen. cbn [decode_item_header]. destruct (fb_dec fb Hfb) as [D1 D2]. rewrite D1, D2, <- Hlen.
  rewrite shorter_spec.
  assert ((length (lb ++ rest) <? length lb)%nat = false) as -> by (apply Nat.ltb_ge; rewrite app_length; lia).
  rewrite firstn_len_app, skipn_len_app. reflexivity.
Qed.

(* ---------- chunks ---------- *)
Lemma read_chunks_chunks w n p rest :
  length p = (n * w)%nat -> read_chunks w n (p ++ rest) = Ok (chunks w n p, rest).
Proof.
  revert p; induction n as [|n IH]; intros p Hp; cbn [read_chunks chunks].
  - destruct p; [reflexivity|cbn in Hp; lia].
  - assert (Hf : length (firstn w p) = w) by (apply firstn_length_le; lia).
    assert (E1 : firstn w (p ++ rest) = firstn w p).
    { rewrite firstn_app. replace (w - length p)%nat with O by lia. rewrite firstn_O, app_nil_r. reflexivity. }
    rewrite E1, Hf, Nat.eqb_refl. cbn [negb].
    assert (E2 : skipn w (p ++ rest) = skipn w p ++ rest).
    { rewrite skipn_app. replace (w - length p)%nat with O by lia. reflexivity. }
    rewrite E2, IH by (rewrite skipn_length; lia). reflexivity.
Qed.

Lemma chunks_props w n p : bytes p -> length p = (n * w)%nat ->
  Forall (fun c => length c = w /\ bytes c) (chunks w n p).
Proof.
  revert p; induction n as [|n IH]; intros p Hb Hp; cbn [chunks]; constructor.
  - split; [apply firstn_length_le; lia|apply bytes_firstn; assumption].
  - apply IH; [apply bytes_skipn; assumption|rewrite skipn_length; lia].
Qed.
Lemma chunks_length w n p : length (chunks w n p) = n.
Proof. revert p; induction n as [|n IH]; intro p; cbn; [reflexivity|]. rewrite IH. reflexivity. Qed.

Lemma tc_dec_range w x : (0 < w)%nat -> x < 256 ^ N.of_nat w ->
  (- 2 ^ (8 * Z.of_nat w - 1) <= tc_dec w x < 2 ^ (8 * Z.of_nat w - 1))%Z.
Proof.
  intros Hw Hx. unfold tc_dec. pose proof (pow_8w w) as P.
  assert (Hm : (2 ^ (8 * Z.of_nat w) = 2 * 2 ^ (8 * Z.of_nat w - 1))%Z).
  { rewrite <- Z.pow_succ_r by lia. f_equal. lia. }
  assert (Hpos : (0 < 2 ^ (8 * Z.of_nat w - 1))%Z) by (apply Z.pow_pos_nonneg; lia).
  set (h := (2 ^ (8 * Z.of_nat w - 1))%Z) in *. set (m := (2 ^ (8 * Z.of_nat w))%Z) in *.
  assert (m / 2 = h)%Z as -> by (rewrite Hm, Z.mul_comm; apply Z.div_mul; lia).
  destruct (Z.ltb_spec (Z.of_N x) h); lia.
Qed.

(* ---------- inversion of the reference payload reader ---------- *)
Definition nums (w : nat) (p : list N) : list N := map (fun c => be_val c 0) (chunks w (length p / w) p).
Definition whole (w : nat) (p : list N) : bool := (length p mod w =? 0)%nat.

Inductive payload_case (code : N) (p : list N) : e5item -> Prop :=
| PC_B : code = code_B -> payload_case code p (EB p)
| PC_Bool : code = code_BOOL -> payload_case code p (EBool (map (fun b => negb (b =? 0)) p))
| PC_A : code = code_A -> payload_case code p (EA p)
| PC_J : code = code_J -> payload_case code p (EJ p)
| PC_F4 : code = code_F4 -> whole 4 p = true -> payload_case code p (EF4 (nums 4 p))
| PC_F8 : code = code_F8 -> whole 8 p = true -> payload_case code p (EF8 (nums 8 p))
| PC_I w : code = code_I w -> whole (wbytes w) p = true ->
    payload_case code p (EI w (map (tc_dec (wbytes w)) (nums (wbytes w) p)))
| PC_U w : code = code_U w -> whole (wbytes w) p = true ->
    payload_case code p (EU w (map Z.of_N (nums (wbytes w) p))).

Lemma payload_item_inv code p i : payload_item code p = Some i -> payload_case code p i.
Proof.
  unfold payload_item.
  destruct (N.eqb_spec code code_B) as [->|nB]; [intro H; injection H as <-; constructor; reflexivity|].
  destruct (N.eqb_spec code code_BOOL) as [->|nBo]; [intro H; injection H as <-; constructor; reflexivity|].
  destruct (N.eqb_spec code code_A) as [->|nA]; [intro H; injection H as <-; constructor; reflexivity|].
  destruct (N.eqb_spec code code_J) as [->|nJ]; [intro H; injection H as <-; constructor; reflexivity|].
  destruct (N.eqb_spec code code_F4) as [->|nF4].
  { destruct (length p mod 4 =? 0)%nat eqn:W; [|discriminate]. intro H; injection H as <-. apply PC_F4; [reflexivity|exact W]. }
  destruct (N.eqb_spec code code_F8) as [->|nF8].
  { destruct (length p mod 8 =? 0)%nat eqn:W; [|discriminate]. intro H; injection H as <-. apply PC_F8; [reflexivity|exact W]. }
  assert (T : forall w r,
    (if code =? code_I w
     then if (length p mod wbytes w =? 0)%nat
          then Some (EI w (map (tc_dec (wbytes w)) (map (fun c => be_val c 0) (chunks (wbytes w) (length p / wbytes w) p)))) else None
     else if code =? code_U w
          then if (length p mod wbytes w =? 0)%nat
               then Some (EU w (map Z.of_N (map (fun c => be_val c 0) (chunks (wbytes w) (length p / wbytes w) p)))) else None
          else None) = Some r -> payload_case code p r).
  { intros w r. destruct (N.eqb_spec code (code_I w)) as [E|_].
    - destruct (length p mod wbytes w =? 0)%nat eqn:W; [|discriminate]. intro H; injection H as <-. apply PC_I; assumption.
    - destruct (N.eqb_spec code (code_U w)) as [E|_]; [|discriminate].
      destruct (length p mod wbytes w =? 0)%nat eqn:W; [|discriminate]. intro H; injection H as <-. apply PC_U; assumption. }
  match goal with |- context [match ?a with Some _ => _ | None => _ end] => destruct a as [x|] eqn:E1 end.
  { intro H; injection H as <-. apply (T W1). exact E1. }
  match goal with |- context [match ?a with Some _ => _ | None => _ end] => destruct a as [x|] eqn:E2 end.
  { intro H; injection H as <-. apply (T W2). exact E2. }
  match goal with |- context [match ?a with Some _ => _ | None => _ end] => destruct a as [x|] eqn:E3 end.
  { intro H; injection H as <-. apply (T W4). exact E3. }
  intro H. apply (T W8). exact H.
Qed.

Lemma whole_len w p : (0 < w)%nat -> whole w p = true -> length p = (length p / w * w)%nat.
Proof.
  unfold whole. intros Hw H. apply Nat.eqb_eq in H.
  pose proof (Nat.div_mod (length p) w ltac:(lia)). lia.
Qed.

(* ---------- scalars: the two decoders agree ---------- *)
Lemma jis_decode_all l :
  forallb (fun b => match jis8_decode b with Some c => match jis8_encode c with Some b' => b' =? b | None => false end | None => false end) l = true ->
  text_decode true l = Ok (jis_cps l) /\ optM jis8_encode (jis_cps l) = Some l.
Proof.
  induction l as [|b l IH]; cbn [forallb]; intro H; [split; reflexivity|].
  apply andb_prop in H as [Hb Hl]. destruct (IH Hl) as [I1 I2]. unfold text_decode in *. cbn [mapM jis_cps map optM].
  destruct (jis8_decode b) as [c|] eqn:D; [|discriminate]. destruct (jis8_encode c) as [b'|] eqn:E; [|discriminate].
  apply N.eqb_eq in Hb. subst b'. cbn [bind]. rewrite I1. cbn [bind]. split; [reflexivity|].
  fold (jis_cps l). rewrite I2. reflexivity.
Qed.

Lemma scalar_admits_kind k c i : scalar_admits k c i = true -> kind_of_item i = Some k.
Proof.
  unfold scalar_admits. destruct (kind_of_item i) as [k'|]; [|discriminate]. intro H.
  apply andb_prop in H as [H _]. apply andb_prop in H as [H _].
  destruct k as [| | | |n], k' as [| | | |n']; try discriminate H; try reflexivity.
  destruct n, n'; try discriminate H; reflexivity.
Qed.

Lemma be_val_chunk_lt w c : length c = w -> bytes c -> be_val c 0 < 256 ^ N.of_nat w.
Proof. intros <- Hb. apply be_val_lt. exact Hb. Qed.

Lemma scal_sim k c fb lb p r2 i pos :
  fb < 256 -> bytes p -> length lb = N.to_nat (fb mod 4) -> be_val lb 0 = nlen p ->
  payload_item (fb / 4) p = Some i -> scalar_admits k c i = true ->
  decode_scal k c (fb :: lb ++ p ++ r2) pos = Ok (embed i (TScal k c), r2, pos + N.of_nat (S (length lb)) + nlen p).
Proof.
  intros Hfb Hbp Hlb Hn Hpay Had.
  pose proof (scalar_admits_kind _ _ _ Had) as Hkind.
  apply payload_item_inv in Hpay.
  unfold scalar_admits in Had. rewrite Hkind in Had.
  apply andb_prop in Had as [Had Hval]. apply andb_prop in Had as [_ Hcnt].
  assert (Hmin : N.to_nat (N.min (nlen p) (nlen (p ++ r2))) = length p) by (unfold nlen; rewrite app_length; lia).
  destruct Hpay as [Hc|Hc|Hc|Hc|Hc Hw|Hc Hw|w Hc Hw|w Hc Hw]; cbn [kind_of_item] in Hkind.
  - (* binary *)
    injection Hkind as <-. cbn [decode_scal]. rewrite header_sim by assumption. rewrite Hc, gen_fc_binary, N.eqb_refl. cbn [bind].
    rewrite Hn, Hmin, firstn_len_app, skipn_len_app. cbn [item_count] in Hcnt. apply cnt_false_Z in Hcnt.
    destruct (N.eqb_spec (nlen p) 0) as [E|E].
    + assert (p = []) as -> by (destruct p; [reflexivity|unfold nlen in E; cbn in E; lia]). reflexivity.
    + cbn [set_bin bind]. rewrite Hcnt. reflexivity.
  - (* boolean *)
    injection Hkind as <-. cbn [decode_scal]. rewrite header_sim by assumption. rewrite Hc, gen_fc_boolean, N.eqb_refl. cbn [bind].
    rewrite Hn. assert (nlen (p ++ r2) <? nlen p = false) as -> by (apply N.ltb_ge; unfold nlen; rewrite app_length; lia).
    replace (N.to_nat (nlen p)) with (length p) by (unfold nlen; lia). rewrite firstn_len_app, skipn_len_app.
    cbn [item_count] in Hcnt. apply cnt_false_Z in Hcnt. unfold zlen in Hcnt. rewrite map_length in Hcnt.
    unfold set_bool, zlen. rewrite map_length. rewrite Hcnt.
    rewrite (mapM_ok _ (fun q => match q with PBool b => b | _ => false end)).
    2:{ intros x Hx. apply in_map_iff in Hx as (b & <- & _). reflexivity. }
    cbn [bind embed]. rewrite map_map. reflexivity.
  - (* ASCII *)
    injection Hkind as <-. cbn [decode_scal]. rewrite header_sim by assumption. rewrite Hc, gen_fc_string, N.eqb_refl. cbn [bind].
    rewrite Hn, Hmin, firstn_len_app, skipn_len_app. cbn [item_count] in Hcnt. apply cnt_false_Z in Hcnt.
    unfold text_decode. cbn [bind]. unfold set_text. cbn [bind].
    rewrite text_encode_latin.
    2:{ unfold bytesb. apply forallb_forall. intros x Hx. unfold bytes in Hbp. rewrite Forall_forall in Hbp.
        apply N.ltb_lt. auto. }
    cbn [bind]. rewrite Hcnt. reflexivity.
  - (* JIS-8 *)
    injection Hkind as <-. cbn [decode_scal]. rewrite header_sim by assumption. rewrite Hc, gen_fc_jis8, N.eqb_refl. cbn [bind].
    rewrite Hn, Hmin, firstn_len_app, skipn_len_app. cbn [item_count] in Hcnt. apply cnt_false_Z in Hcnt.
    destruct (jis_decode_all p Hval) as [J1 J2]. rewrite J1. cbn [bind]. unfold set_text. cbn [bind].
    rewrite (text_encode_jis _ _ J2). cbn [bind].
    assert (zlen (jis_cps p) = zlen p) as -> by (unfold zlen, jis_cps; rewrite map_length; reflexivity).
    rewrite Hcnt. reflexivity.
  - (* F4 *)
    injection Hkind as <-. pose proof (gen_fc_num F4) as Hfc. pose proof (gen_nbytes F4) as Hnb. pose proof (gen_scode F4) as (_ & _ & Hf4 & _).
    pose proof gen_flt_bounds as (Bmax & Bmin & _). cbn [is_unsigned is_signed e5w wbytes] in *.
    pose proof (whole_len 4 p ltac:(lia) Hw) as Hlen.
    cbn [decode_scal]. rewrite header_sim by assumption. rewrite Hc, Hfc, N.eqb_refl. cbn [bind]. rewrite Hnb. cbn [Nat.eqb].
    rewrite Hn. set (n := (length p / 4)%nat) in *.
    assert (nlen p / N.of_nat 4 = N.of_nat n) as -> by (unfold nlen; rewrite Hlen; change (N.of_nat 4) with 4; lia).
    assert (nlen (p ++ r2) <? N.of_nat n * N.of_nat 4 = false) as -> by (apply N.ltb_ge; unfold nlen; rewrite app_length; lia).
    rewrite Nat2N.id, read_chunks_chunks by exact Hlen. cbn [bind fst snd].
    assert (num_base_is_float F4 = true) as -> by reflexivity.
    assert (num_scode F4 = SC_f_) as -> by (apply Hf4; reflexivity).
    pose proof (chunks_props 4 n p Hbp Hlen) as Hch. rewrite Forall_forall in Hch.
    cbn [item_count] in Hcnt. apply cnt_false_Z in Hcnt. unfold nums in Hcnt, Hval. fold n in Hcnt, Hval.
    rewrite forallb_forall in Hval.
    rewrite (mapM_ok _ (fun cs => widen32 (be_val cs 0))).
    2:{ intros cs Hcs. unfold unpack_flt. rewrite finite32_not_nan; [reflexivity|]. apply Hval. apply (in_map (fun c0 => be_val c0 0)). exact Hcs. }
    cbn [bind]. rewrite <- (map_map (fun cs => be_val cs 0) widen32).
    rewrite set_num_flts.
    + cbn [bind embed]. unfold nums. fold n. f_equal. f_equal. unfold nlen. lia.
    + reflexivity.
    + unfold zlen in *. rewrite !map_length in *. exact Hcnt.
    + intros b Hb. apply in_map_iff in Hb as (x & <- & Hx).
      assert (Hx32 : x < 2^32).
      { apply in_map_iff in Hx as (cs & <- & Hcs). destruct (Hch cs Hcs) as [L B]. apply (be_val_chunk_lt 4); assumption. }
      destruct (widen32_in_range x Hx32 (Hval x Hx)) as (Hn1 & H1 & H2).
      split; [exact Hn1|]. unfold flt_in_range. rewrite Bmax, Bmin, H1, H2. reflexivity.
  - (* F8 *)
    injection Hkind as <-. pose proof (gen_fc_num F8) as Hfc. pose proof (gen_nbytes F8) as Hnb. pose proof (gen_scode F8) as (_ & _ & _ & Hf8).
    pose proof gen_flt_bounds as (_ & _ & Bmax & Bmin). cbn [is_unsigned is_signed e5w wbytes] in *.
    pose proof (whole_len 8 p ltac:(lia) Hw) as Hlen.
    cbn [decode_scal]. rewrite header_sim by assumption. rewrite Hc, Hfc, N.eqb_refl. cbn [bind]. rewrite Hnb. cbn [Nat.eqb].
    rewrite Hn. set (n := (length p / 8)%nat) in *.
    assert (nlen p / N.of_nat 8 = N.of_nat n) as -> by (unfold nlen; rewrite Hlen; change (N.of_nat 8) with 8; lia).
    assert (nlen (p ++ r2) <? N.of_nat n * N.of_nat 8 = false) as -> by (apply N.ltb_ge; unfold nlen; rewrite app_length; lia).
    rewrite Nat2N.id, read_chunks_chunks by exact Hlen. cbn [bind fst snd].
    assert (num_base_is_float F8 = true) as -> by reflexivity.
    assert (num_scode F8 = SC_d_) as -> by (apply Hf8; reflexivity).
    pose proof (chunks_props 8 n p Hbp Hlen) as Hch. rewrite Forall_forall in Hch.
    cbn [item_count] in Hcnt. apply cnt_false_Z in Hcnt. unfold nums in Hcnt, Hval. fold n in Hcnt, Hval.
    rewrite forallb_forall in Hval.
    rewrite (mapM_ok _ (fun cs => be_val cs 0)).
    2:{ intros cs Hcs. unfold unpack_flt. rewrite finite_not_nan; [reflexivity|]. apply Hval. apply (in_map (fun c0 => be_val c0 0)). exact Hcs. }
    cbn [bind].
    rewrite set_num_flts.
    + cbn [bind embed]. unfold nums. fold n. f_equal. f_equal. unfold nlen. lia.
    + reflexivity.
    + unfold zlen in *. rewrite !map_length in *. exact Hcnt.
    + intros b Hb. split; [apply finite_not_nan; apply Hval; exact Hb|].
      assert (Hfin : finite64 b = true) by (apply Hval; exact Hb).
      assert (Hb64 : b < 2^64).
      { apply in_map_iff in Hb as (cs & <- & Hcs). destruct (Hch cs Hcs) as [L B]. apply (be_val_chunk_lt 8); assumption. }
      unfold flt_in_range. rewrite Bmax, Bmin. clear - Hfin Hb64.
      unfold flt_ltb. rewrite (finite_not_nan _ Hfin). change (nan64 (neg64 DBL_MAX64)) with false. change (nan64 DBL_MAX64) with false.
      change (key64 (neg64 DBL_MAX64)) with (- 9218868437227405311)%Z. change (key64 DBL_MAX64) with 9218868437227405311%Z.
      unfold finite64, exp64 in Hfin. unfold key64, sign64. rewrite pow2_63, pow2_52 in *. change (2^64) with 18446744073709551616 in Hb64.
      cbn [negb andb]. destruct (N.leb_spec 9223372036854775808 b); destruct (N.eqb_spec (b / 4503599627370496 mod 2048) 2047); try discriminate; lia.
  - (* signed integers *)
    pose proof (gen_fc_num) as Hfc. pose proof gen_nbytes as Hnb. pose proof gen_scode as Hsc. pose proof gen_sint_bounds as Hbd. pose proof gen_base_float as Hbf.
    assert (Hk : exists nk, k = KNum nk /\ is_signed nk = true /\ e5w nk = w).
    { destruct w; injection Hkind as <-; eexists; (split; [reflexivity|split; reflexivity]). }
    destruct Hk as (nk & -> & Hsg & Hw').
    assert (Hu : is_unsigned nk = false) by (destruct nk; try discriminate; reflexivity).
    specialize (Hfc nk). specialize (Hnb nk). destruct (Hsc nk) as (Hsb & Hss & Hf4 & Hf8). destruct (Hbd nk Hsg) as [Bmin Bmax]. specialize (Hbf nk).
    rewrite Hu, Hsg in *. rewrite Hw' in *. cbn [orb negb] in Hbf.
    pose proof (wbytes_pos w) as Hwp. set (W := wbytes w) in *.
    pose proof (whole_len W p Hwp Hw) as Hlen.
    cbn [decode_scal]. rewrite header_sim by assumption. rewrite Hc, Hfc, N.eqb_refl. cbn [bind]. rewrite Hnb.
    destruct (Nat.eqb_spec W 0) as [EW|_]; [lia|].
    rewrite Hn. set (n := (length p / W)%nat) in *.
    assert (nlen p / N.of_nat W = N.of_nat n) as ->.
    { unfold nlen. rewrite Hlen at 1. rewrite Nat2N.inj_mul, N.div_mul by lia. reflexivity. }
    assert (nlen (p ++ r2) <? N.of_nat n * N.of_nat W = false) as -> by (apply N.ltb_ge; unfold nlen; rewrite app_length; lia).
    rewrite Nat2N.id, read_chunks_chunks by exact Hlen. cbn [bind fst snd]. rewrite Hbf.
    pose proof (chunks_props W n p Hbp Hlen) as Hch. rewrite Forall_forall in Hch.
    cbn [item_count] in Hcnt. apply cnt_false_Z in Hcnt. unfold nums in Hcnt. fold W n in Hcnt.
    rewrite (mapM_ok _ (fun cs => tc_dec W (be_val cs 0))).
    2:{ intros cs Hcs. unfold unpack_int. rewrite Hss, Hsb. destruct (num_scode nk) eqn:E; try reflexivity.
        - exfalso. assert (nk = F4) by (apply Hf4; reflexivity). subst nk. discriminate.
        - exfalso. assert (nk = F8) by (apply Hf8; reflexivity). subst nk. discriminate. }
    cbn [bind]. rewrite <- (map_map (fun cs => be_val cs 0) (tc_dec W)).
    rewrite set_num_ints.
    + cbn [bind]. unfold nums. fold W n. f_equal. f_equal; [|unfold nlen; lia].
      destruct w; cbn in Hw'; destruct nk; try discriminate; reflexivity.
    + exact Hbf.
    + unfold zlen in *. rewrite !map_length in *. exact Hcnt.
    + apply forallb_forall. intros z Hz. apply in_map_iff in Hz as (x & <- & Hx). apply in_map_iff in Hx as (cs & <- & Hcs).
      destruct (Hch cs Hcs) as [L B]. pose proof (tc_dec_range W _ Hwp (be_val_chunk_lt W cs L B)) as R.
      unfold int_in_range. rewrite Bmin, Bmax. fold W. lia.
  - (* unsigned integers *)
    pose proof (gen_fc_num) as Hfc. pose proof gen_nbytes as Hnb. pose proof gen_scode as Hsc. pose proof gen_int_bounds as Hbd. pose proof gen_base_float as Hbf.
    assert (Hk : exists nk, k = KNum nk /\ is_unsigned nk = true /\ e5w nk = w).
    { destruct w; injection Hkind as <-; eexists; (split; [reflexivity|split; reflexivity]). }
    destruct Hk as (nk & -> & Hu & Hw').
    assert (Hsg : is_signed nk = false) by (destruct nk; try discriminate; reflexivity).
    specialize (Hfc nk). specialize (Hnb nk). destruct (Hsc nk) as (Hsb & Hss & Hf4 & Hf8). destruct (Hbd nk Hu) as [Bmin Bmax]. specialize (Hbf nk).
    rewrite Hu, Hsg in *. rewrite Hw' in *. cbn [orb negb] in Hbf.
    pose proof (wbytes_pos w) as Hwp. set (W := wbytes w) in *.
    pose proof (whole_len W p Hwp Hw) as Hlen.
    cbn [decode_scal]. rewrite header_sim by assumption. rewrite Hc, Hfc, N.eqb_refl. cbn [bind]. rewrite Hnb.
    destruct (Nat.eqb_spec W 0) as [EW|_]; [lia|].
    rewrite Hn. set (n := (length p / W)%nat) in *.
    assert (nlen p / N.of_nat W = N.of_nat n) as ->.
    { unfold nlen. rewrite Hlen at 1. rewrite Nat2N.inj_mul, N.div_mul by lia. reflexivity. }
    assert (nlen (p ++ r2) <? N.of_nat n * N.of_nat W = false) as -> by (apply N.ltb_ge; unfold nlen; rewrite app_length; lia).
    rewrite Nat2N.id, read_chunks_chunks by exact Hlen. cbn [bind fst snd]. rewrite Hbf.
    pose proof (chunks_props W n p Hbp Hlen) as Hch. rewrite Forall_forall in Hch.
    cbn [item_count] in Hcnt. apply cnt_false_Z in Hcnt. unfold nums in Hcnt. fold W n in Hcnt.
    rewrite (mapM_ok _ (fun cs => Z.of_N (be_val cs 0))).
    2:{ intros cs Hcs. unfold unpack_int. rewrite Hss. destruct (num_scode nk) eqn:E; try reflexivity.
        - exfalso. assert (nk = F4) by (apply Hf4; reflexivity). subst nk. discriminate.
        - exfalso. assert (nk = F8) by (apply Hf8; reflexivity). subst nk. discriminate. }
    cbn [bind]. rewrite <- (map_map (fun cs => be_val cs 0) Z.of_N).
    rewrite set_num_ints.
    + cbn [bind]. unfold nums. fold W n. f_equal. f_equal; [|unfold nlen; lia].
      destruct w; cbn in Hw'; destruct nk; try discriminate; reflexivity.
    + exact Hbf.
    + unfold zlen in *. rewrite !map_length in *. exact Hcnt.
    + apply forallb_forall. intros z Hz. apply in_map_iff in Hz as (x & <- & Hx). apply in_map_iff in Hx as (cs & <- & Hcs).
      destruct (Hch cs Hcs) as [L B]. pose proof (be_val_chunk_lt W cs L B) as R. pose proof (pow_8w W) as P.
      unfold int_in_range. rewrite Bmin, Bmax. fold W. lia.
Qed.

(* ---------- the reference decoder returns a suffix of its input ---------- *)
Lemma e5_items_suffix dec :
  (forall r i r', dec r = Some (i, r') -> exists pre, r = pre ++ r') ->
  forall cnt r acc i rest, e5_items dec cnt r acc = Some (i, rest) ->
  exists pre l, r = pre ++ rest /\ i = EL (rev acc ++ l) /\ length l = cnt.
Proof.
  intros Hdec. induction cnt as [|cnt IH]; intros r acc i rest H; cbn [e5_items] in H.
  - injection H as <- <-. exists [], []. rewrite app_nil_r. repeat split.
  - destruct (dec r) as [[x r']|] eqn:E; [|discriminate].
    destruct (Hdec _ _ _ E) as [p1 ->]. destruct (IH _ _ _ _ H) as (p2 & l & -> & -> & Hl).
    exists (p1 ++ p2), (x :: l). split; [rewrite app_assoc; reflexivity|]. split; [cbn [rev]; rewrite <- app_assoc; reflexivity|cbn; lia].
Qed.

Lemma e5_decode_suffix : forall F bs i rest, e5_decode F bs = Some (i, rest) -> exists pre, bs = pre ++ rest.
Proof.
  induction F as [|F IH]; intros bs i rest H; [discriminate|].
  cbn [e5_decode] in H. destruct bs as [|fb r]; [discriminate|].
  destruct (N.to_nat (fb mod 4) =? 0)%nat; [discriminate|].
  destruct (take (N.to_nat (fb mod 4)) r) as [[lb r1]|] eqn:T; [|discriminate].
  apply take_spec in T as [-> _].
  destruct (fb / 4 =? code_L).
  - destruct (N.of_nat (length r1) <? be_val lb 0); [discriminate|].
    destruct (e5_items_suffix _ IH _ _ _ _ _ H) as (pre & _ & -> & _).
    exists (fb :: lb ++ pre). cbn. rewrite <- app_assoc. reflexivity.
  - destruct (take _ r1) as [[p r2]|] eqn:T2; [|discriminate]. apply take_spec in T2 as [-> _].
    destruct (N.of_nat (length p) <? be_val lb 0); [discriminate|].
    destruct (payload_item (fb / 4) p); [|discriminate]. injection H as <- <-.
    exists (fb :: lb ++ p). cbn. rewrite <- app_assoc. reflexivity.
Qed.

Lemma embed_scalar i k t t' : kind_of_item i = Some k -> embed i t = embed i t'.
Proof. destruct i; try discriminate; reflexivity. Qed.

Lemma payload_case_code code p i k :
  payload_case code p i -> kind_of_item i = Some k -> code = fc_of (DScal k).
Proof.
  intros [Hc|Hc|Hc|Hc|Hc Hw|Hc Hw|w Hc Hw|w Hc Hw] Hk; cbn [kind_of_item] in Hk;
    try (injection Hk as <-; rewrite Hc; cbn [fc_of]).
  - symmetry; apply gen_fc_binary.
  - symmetry; apply gen_fc_boolean.
  - symmetry; apply gen_fc_string.
  - symmetry; apply gen_fc_jis8.
  - rewrite (gen_fc_num F4). reflexivity.
  - rewrite (gen_fc_num F8). reflexivity.
  - destruct w; injection Hk as <-; rewrite Hc; cbn [fc_of]; rewrite gen_fc_num; reflexivity.
  - destruct w; injection Hk as <-; rewrite Hc; cbn [fc_of]; rewrite gen_fc_num; reflexivity.
Qed.

Lemma nlen_suffix (pre rest : list N) : nlen (pre ++ rest) - nlen rest = nlen pre.
Proof. unfold nlen. rewrite app_length. lia. Qed.

(* ---------- the loops ---------- *)
Section simloops.
  Variable F : nat.
  Variable f : nat.
  Hypothesis IH : forall bs i rest, bytes bs -> e5_decode F bs = Some (i, rest) ->
    forall t pos, admits i t = true -> py_decode f t bs pos = Ok (embed i t, rest, pos + (nlen bs - nlen rest)).

  Lemma items_sim e : forall cnt r acc i rest, bytes r ->
    e5_items (e5_decode F) cnt r acc = Some (i, rest) ->
    forall l, i = EL (rev acc ++ l) -> forallb (fun x => admits x e) l = true ->
    forall pos accv,
      dec_items (py_decode f e) cnt r pos accv =
      Ok (VArr (rev accv ++ map (fun x => embed x e) l), rest, pos + (nlen r - nlen rest)).
  Proof.
    induction cnt as [|cnt IHc]; intros r acc i rest Hb H l Hi Hadm pos accv; cbn [e5_items] in H.
    - injection H as E1 E2. subst i rest. injection Hi as Hi. assert (l = []) as ->.
      { apply (f_equal (@length _)) in Hi. rewrite app_length in Hi. destruct l; [reflexivity|cbn in Hi; lia]. }
      cbn [dec_items map]. rewrite app_nil_r. f_equal. f_equal. lia.
    - destruct (e5_decode F r) as [[x r']|] eqn:E; [|discriminate].
      destruct (e5_decode_suffix _ _ _ _ E) as [p1 Hr]. subst r.
      destruct (e5_items_suffix _ (e5_decode_suffix F) _ _ _ _ _ H) as (p2 & l2 & Hr' & Hi2 & _). subst r'.
      rewrite Hi in Hi2. injection Hi2 as Hi2. cbn [rev] in Hi2. rewrite <- app_assoc in Hi2.
      apply app_inv_head in Hi2. cbn in Hi2. subst l.
      cbn [forallb] in Hadm. apply andb_prop in Hadm as [Hx Hl2].
      cbn [dec_items]. rewrite (IH _ _ _ Hb E e pos Hx). cbn [bind].
      apply bytes_app in Hb as [_ Hb2].
      rewrite (IHc _ _ _ _ Hb2 H l2); [|rewrite Hi; cbn [rev]; rewrite <- app_assoc; reflexivity|exact Hl2].
      cbn [rev map]. rewrite <- app_assoc. cbn [app]. f_equal. f_equal.
      unfold nlen. rewrite !app_length. lia.
  Qed.

  Lemma fields_sim : forall cnt r acc i rest, bytes r ->
    e5_items (e5_decode F) cnt r acc = Some (i, rest) ->
    forall l fs, i = EL (rev acc ++ l) -> admits (EL l) (TRec fs) = true ->
    forall pos accv,
      dec_fields (py_decode f) cnt fs r pos accv =
      Ok (VRec (rev accv ++ match embed (EL l) (TRec fs) with VRec x => x | _ => [] end), rest, pos + (nlen r - nlen rest)).
  Proof.
    induction cnt as [|cnt IHc]; intros r acc i rest Hb H l fs Hi Hadm pos accv; cbn [e5_items] in H.
    - injection H as E1 E2. subst i rest. injection Hi as Hi. assert (l = []) as ->.
      { apply (f_equal (@length _)) in Hi. rewrite app_length in Hi. destruct l; [reflexivity|cbn in Hi; lia]. }
      destruct fs; [|discriminate Hadm]. cbn. rewrite app_nil_r. f_equal. f_equal. lia.
    - destruct (e5_decode F r) as [[x r']|] eqn:E; [|discriminate].
      destruct (e5_decode_suffix _ _ _ _ E) as [p1 Hr]. subst r.
      destruct (e5_items_suffix _ (e5_decode_suffix F) _ _ _ _ _ H) as (p2 & l2 & Hr' & Hi2 & _). subst r'.
      rewrite Hi in Hi2. injection Hi2 as Hi2. cbn [rev] in Hi2. rewrite <- app_assoc in Hi2.
      apply app_inv_head in Hi2. cbn in Hi2. subst l.
      destruct fs as [|[fname ft] fs]; [discriminate Hadm|].
      cbn [admits snd] in Hadm. apply andb_prop in Hadm as [Hx Hl2].
      cbn [dec_fields]. rewrite (IH _ _ _ Hb E ft pos Hx). cbn [bind].
      apply bytes_app in Hb as [_ Hb2].
      rewrite (IHc _ _ _ _ Hb2 H l2 fs); [|rewrite Hi; cbn [rev]; rewrite <- app_assoc; reflexivity|exact Hl2].
      cbn [rev embed snd]. rewrite <- app_assoc. cbn [app]. f_equal. f_equal.
      unfold nlen. rewrite !app_length. lia.
  Qed.
End simloops.

Lemma admits_rec_length l fs : admits (EL l) (TRec fs) = true -> length l = length fs.
Proof.
  revert fs; induction l as [|x l IH]; intros [|f fs] H; try discriminate H; [reflexivity|].
  cbn [admits] in H. apply andb_prop in H as [_ H]. cbn [length]. f_equal. apply IH. exact H.
Qed.

(* ---------- C02: every encoding the reference decoder accepts is decoded to the item it denotes ---------- *)
Theorem decode_sim : forall F bs i rest, bytes bs -> e5_decode F bs = Some (i, rest) ->
  forall fuel t pos, (2 * F <= fuel)%nat -> admits i t = true ->
  py_decode fuel t bs pos = Ok (embed i t, rest, pos + (nlen bs - nlen rest)).
Proof.
  pose proof gen_fc_list as [fA fL].
  induction F as [|F IH]; intros bs i rest Hb H fuel t pos Hfuel Hadm; [discriminate|].
  destruct fuel as [|[|f]]; [lia|lia|].
  assert (IHf : forall bs i rest, bytes bs -> e5_decode F bs = Some (i, rest) ->
            forall t pos, admits i t = true -> py_decode f t bs pos = Ok (embed i t, rest, pos + (nlen bs - nlen rest))).
  { intros bs' i' rest' B' E' t' pos' A'. apply (IH bs' i' rest' B' E' f t' pos'); [lia|exact A']. }
  assert (IHf1 : forall bs i rest, bytes bs -> e5_decode F bs = Some (i, rest) ->
            forall t pos, admits i t = true -> py_decode (S f) t bs pos = Ok (embed i t, rest, pos + (nlen bs - nlen rest))).
  { intros bs' i' rest' B' E' t' pos' A'. apply (IH bs' i' rest' B' E' (S f) t' pos'); [lia|exact A']. }
  cbn [e5_decode] in H. destruct bs as [|fb r]; [discriminate|].
  inversion Hb as [|? ? Hfb Hbr]; subst.
  destruct (N.to_nat (fb mod 4) =? 0)%nat eqn:K0; [discriminate|].
  destruct (take (N.to_nat (fb mod 4)) r) as [[lb r1]|] eqn:T; [|discriminate].
  apply take_spec in T as [-> Hlb]. apply bytes_app in Hbr as [Hblb Hbr1].
  destruct (N.eqb_spec (fb / 4) code_L) as [HL|HnL].
  - (* a list *)
    destruct (N.of_nat (length r1) <? be_val lb 0) eqn:G; [discriminate|].
    destruct (e5_items_suffix _ (e5_decode_suffix F) _ _ _ _ _ H) as (pre & l & Hr1 & Hi & Hcnt).
    cbn [rev app] in Hi. subst i r1.
    assert (Hpos : pos + N.of_nat (S (length lb)) + (nlen (pre ++ rest) - nlen rest) =
                   pos + (nlen (fb :: lb ++ pre ++ rest) - nlen rest)).
    { unfold nlen. cbn [length]. rewrite !app_length. lia. }
    assert (Harr : forall g e c, forallb (fun x => admits x e) l = true ->
              (forall bs i rest, bytes bs -> e5_decode F bs = Some (i, rest) ->
                 forall t pos, admits i t = true -> py_decode g t bs pos = Ok (embed i t, rest, pos + (nlen bs - nlen rest))) ->
              py_decode (S g) (TArr e c) (fb :: lb ++ pre ++ rest) pos =
              Ok (VArr (map (fun x => embed x e) l), rest, pos + (nlen (fb :: lb ++ pre ++ rest) - nlen rest))).
    { intros g e c Hal IHg. cbn [py_decode]. rewrite header_sim by assumption. rewrite HL, fA, N.eqb_refl. cbn [bind].
      rewrite G. rewrite (items_sim F g IHg e _ _ _ _ _ Hbr1 H l eq_refl Hal). cbn [rev app].
      rewrite Hpos. reflexivity. }
    destruct t as [fs|e c|k c|a c]; try discriminate Hadm.
    + (* record *)
      pose proof (admits_rec_length _ _ Hadm) as Hlf.
      cbn [py_decode]. rewrite header_sim by assumption. rewrite HL, fL, N.eqb_refl. cbn [bind].
      assert (nlen fs <? be_val lb 0 = false) as ->.
      { apply N.ltb_ge. unfold nlen. rewrite <- Hlf, Hcnt. lia. }
      rewrite (fields_sim F (S f) IHf1 _ _ _ _ _ Hbr1 H l fs eq_refl Hadm). cbn [rev app].
      rewrite Hpos. cbn [embed]. reflexivity.
    + (* array *)
      cbn [embed]. apply (Harr (S f) e c); [exact Hadm|exact IHf1].
    + (* dynamic *)
      cbn [admits] in Hadm. apply andb_prop in Hadm as [Ha Hal].
      cbn [py_decode]. rewrite header_sim by assumption. cbn [bind]. rewrite HL.
      change code_L with (fc_of DArr). rewrite gen_dyn_table. rewrite Ha. cbn [negb embed].
      apply (Harr f TAny (-1)%Z); [exact Hal|exact IHf].
  - (* a scalar *)
    destruct (take _ r1) as [[p r2]|] eqn:T2; [|discriminate]. apply take_spec in T2 as [-> Hp].
    destruct (N.of_nat (length p) <? be_val lb 0) eqn:G; [discriminate|]. apply N.ltb_ge in G.
    destruct (payload_item (fb / 4) p) as [i'|] eqn:P; [|discriminate]. injection H as <- <-.
    apply bytes_app in Hbr1 as [Hbp _].
    assert (Hn : be_val lb 0 = nlen p).
    { unfold nlen. rewrite app_length in Hp. lia. }
    assert (Hpos : pos + N.of_nat (S (length lb)) + nlen p = pos + (nlen (fb :: lb ++ p ++ r2) - nlen r2)).
    { unfold nlen. cbn [length]. rewrite !app_length. lia. }
    pose proof (payload_item_inv _ _ _ P) as PC.
    destruct t as [fs|e c|k c|a c].
    + destruct PC; discriminate Hadm.
    + destruct PC; discriminate Hadm.
    + assert (Hsa : scalar_admits k c i' = true) by (destruct PC; exact Hadm).
      cbn [py_decode]. rewrite (scal_sim k c fb lb p r2 i' pos) by assumption. rewrite Hpos. reflexivity.
    + assert (Hk : exists k, kind_of_item i' = Some k /\ allowed_has a (DScal k) = true /\ scalar_admits k c i' = true).
      { destruct PC; cbn [admits] in Hadm;
        match type of Hadm with context [kind_of_item ?x] => destruct (kind_of_item x) as [k|] eqn:Ek; [|discriminate Hadm] end;
        apply andb_prop in Hadm as [H1 H3]; exists k;
        (split; [reflexivity|]); (split; [exact H1|exact H3]). }
      destruct Hk as (k & Ek & Ha & Hsa).
      cbn [py_decode]. rewrite header_sim by assumption. cbn [bind].
      rewrite (payload_case_code _ _ _ _ PC Ek). rewrite gen_dyn_table.
      rewrite Ha. cbn [negb]. rewrite (scal_sim k c fb lb p r2 i' pos) by assumption.
      rewrite Hpos, (embed_scalar i' k (TScal k c) (TDyn a c) Ek). reflexivity.
Qed.

(* ---------- the decoded item is well-formed, and its value re-encodes canonically ---------- *)
Section e5item_ind'.
  Variable P : e5item -> Prop.
  Hypothesis HL : forall l, Forall P l -> P (EL l).
  Hypothesis HB : forall l, P (EB l).
  Hypothesis HBool : forall l, P (EBool l).
  Hypothesis HA : forall l, P (EA l).
  Hypothesis HJ : forall l, P (EJ l).
  Hypothesis HI : forall w l, P (EI w l).
  Hypothesis HU : forall w l, P (EU w l).
  Hypothesis HF4 : forall l, P (EF4 l).
  Hypothesis HF8 : forall l, P (EF8 l).
  Fixpoint e5item_ind' (i : e5item) : P i :=
    let fix go (l : list e5item) : Forall P l :=
      match l with [] => Forall_nil P | x :: r => Forall_cons x (e5item_ind' x) (go r) end in
    match i with
    | EL l => HL l (go l) | EB l => HB l | EBool l => HBool l | EA l => HA l | EJ l => HJ l
    | EI w l => HI w l | EU w l => HU w l | EF4 l => HF4 l | EF8 l => HF8 l
    end.
End e5item_ind'.

Lemma bytesb_of l : bytes l -> bytesb l = true.
Proof.
  intro H. unfold bytesb. apply forallb_forall. intros x Hx. unfold bytes in H. rewrite Forall_forall in H.
  apply N.ltb_lt. auto.
Qed.

Lemma payload_wf code p i : bytes p -> nlen p <= MAXLEN -> payload_case code p i -> e5_wf i = true.
Proof.
  intros Hb Hlen PC.
  assert (Hnums : forall w, (0 < w)%nat -> whole w p = true ->
            N.of_nat w * len (nums w p) <= MAXLEN /\ Forall (fun x => x < 256 ^ N.of_nat w) (nums w p)).
  { intros w Hw Hwh. pose proof (whole_len w p Hw Hwh) as Hl. unfold nums. split.
    - unfold len. rewrite map_length, chunks_length. unfold nlen in Hlen. lia.
    - apply Forall_forall. intros x Hx. apply in_map_iff in Hx as (cs & <- & Hcs).
      pose proof (chunks_props w _ p Hb Hl) as Hch. rewrite Forall_forall in Hch. destruct (Hch cs Hcs).
      apply be_val_chunk_lt; assumption. }
  destruct PC as [Hc|Hc|Hc|Hc|Hc Hw|Hc Hw|w Hc Hw|w Hc Hw]; cbn [e5_wf].
  - apply andb_true_intro. split; [apply N.leb_le; exact Hlen|apply bytesb_of; exact Hb].
  - apply N.leb_le. unfold len. rewrite map_length. exact Hlen.
  - apply andb_true_intro. split; [apply N.leb_le; exact Hlen|apply bytesb_of; exact Hb].
  - apply andb_true_intro. split; [apply N.leb_le; exact Hlen|apply bytesb_of; exact Hb].
  - destruct (Hnums 4%nat ltac:(lia) Hw) as [H1 H2]. apply andb_true_intro. split; [apply N.leb_le; exact H1|].
    apply forallb_forall. intros x Hx. rewrite Forall_forall in H2. apply N.ltb_lt. apply (H2 x Hx).
  - destruct (Hnums 8%nat ltac:(lia) Hw) as [H1 H2]. apply andb_true_intro. split; [apply N.leb_le; exact H1|].
    apply forallb_forall. intros x Hx. rewrite Forall_forall in H2. apply N.ltb_lt. apply (H2 x Hx).
  - destruct (Hnums (wbytes w) (wbytes_pos w) Hw) as [H1 H2]. apply andb_true_intro. split.
    + apply N.leb_le. unfold len in *. rewrite map_length. exact H1.
    + apply forallb_forall. intros z Hz. apply in_map_iff in Hz as (x & <- & Hx). rewrite Forall_forall in H2.
      pose proof (tc_dec_range (wbytes w) x (wbytes_pos w) (H2 x Hx)) as R. unfold irange. cbv zeta. lia.
  - destruct (Hnums (wbytes w) (wbytes_pos w) Hw) as [H1 H2]. apply andb_true_intro. split.
    + apply N.leb_le. unfold len in *. rewrite map_length. exact H1.
    + apply forallb_forall. intros z Hz. apply in_map_iff in Hz as (x & <- & Hx). rewrite Forall_forall in H2.
      pose proof (H2 x Hx) as R. pose proof (pow_8w (wbytes w)) as P. unfold urange. lia.
Qed.

Lemma lb_bound lb : bytes lb -> (length lb <= 3)%nat -> be_val lb 0 <= MAXLEN.
Proof.
  intros Hb Hl. pose proof (be_val_lt lb Hb) as H. unfold MAXLEN.
  assert (256 ^ N.of_nat (length lb) <= 256 ^ 3) by (apply N.pow_le_mono_r; lia).
  change (256 ^ 3) with 16777216 in *. lia.
Qed.

Lemma e5_items_wf dec :
  (forall r i r', bytes r -> dec r = Some (i, r') -> e5_wf i = true /\ bytes r') ->
  forall cnt r acc i rest, bytes r -> forallb e5_wf acc = true -> e5_items dec cnt r acc = Some (i, rest) ->
  exists l, i = EL l /\ forallb e5_wf l = true /\ length l = (length acc + cnt)%nat.
Proof.
  intro Hdec. induction cnt as [|cnt IH]; intros r acc i rest Hb Hacc H; cbn [e5_items] in H.
  - injection H as <- <-. exists (rev acc). split; [reflexivity|]. split; [|rewrite rev_length; lia].
    apply forallb_forall. intros x Hx. apply in_rev in Hx. rewrite forallb_forall in Hacc. auto.
  - destruct (dec r) as [[x r']|] eqn:E; [|discriminate]. destruct (Hdec _ _ _ Hb E) as [Hx Hb'].
    destruct (IH r' (x :: acc) i rest Hb') as (l & -> & Hl & Hlen); [cbn [forallb]; rewrite Hx, Hacc; reflexivity|exact H|].
    exists l. split; [reflexivity|]. split; [exact Hl|]. cbn [length] in Hlen. lia.
Qed.

Lemma e5_decode_wf : forall F bs i rest, bytes bs -> e5_decode F bs = Some (i, rest) -> e5_wf i = true /\ bytes rest.
Proof.
  induction F as [|F IH]; intros bs i rest Hb H; [discriminate|].
  cbn [e5_decode] in H. destruct bs as [|fb r]; [discriminate|].
  inversion Hb as [|? ? Hfb Hbr]; subst.
  destruct (N.to_nat (fb mod 4) =? 0)%nat eqn:K0; [discriminate|].
  destruct (take (N.to_nat (fb mod 4)) r) as [[lb r1]|] eqn:T; [|discriminate].
  apply take_spec in T as [-> Hlb]. apply bytes_app in Hbr as [Hblb Hbr1].
  assert (Hk3 : (length lb <= 3)%nat) by lia.
  pose proof (lb_bound lb Hblb Hk3) as Hmax.
  destruct (fb / 4 =? code_L).
  - destruct (N.of_nat (length r1) <? be_val lb 0) eqn:G; [discriminate|].
    destruct (e5_items_suffix _ (e5_decode_suffix F) _ _ _ _ _ H) as (pre & _ & Hr1 & _ & _).
    destruct (e5_items_wf _ (fun r i r' B E => IH r i r' B E) _ r1 [] i rest Hbr1 eq_refl H) as (l & -> & Hl & Hlen).
    split.
    + cbn [e5_wf]. apply andb_true_intro. split; [|exact Hl]. apply N.leb_le. unfold len. cbn in Hlen. lia.
    + subst r1. apply bytes_app in Hbr1. tauto.
  - destruct (take _ r1) as [[p r2]|] eqn:T2; [|discriminate]. apply take_spec in T2 as [-> Hp].
    destruct (N.of_nat (length p) <? be_val lb 0) eqn:G; [discriminate|]. apply N.ltb_ge in G.
    destruct (payload_item (fb / 4) p) as [i'|] eqn:P; [|discriminate]. injection H as <- <-.
    apply bytes_app in Hbr1 as [Hbp Hb2]. split; [|exact Hb2].
    apply (payload_wf (fb / 4) p i' Hbp); [|apply payload_item_inv; exact P].
    unfold nlen. rewrite app_length in Hp. lia.
Qed.

Lemma denote_embed : forall i t, admits i t = true -> e5_wf i = true -> denote (embed i t) = Some i.
Proof.
  induction i as [l IH|l|l|l|l|w l|w l|l|l] using e5item_ind'; intros t Hadm Hwf.
  - (* lists: the three receiving types *)
    cbn [e5_wf] in Hwf. apply andb_prop in Hwf as [_ Hall].
    assert (Harr : forall e, forallb (fun x => admits x e) l = true ->
              denotes (map (fun x => embed x e) l) = Some l).
    { intros e Hal. clear Hadm. induction IH as [|x l Hx Hl IHl]; [reflexivity|].
      cbn [forallb] in Hal, Hall. apply andb_prop in Hal as [A1 A2]. apply andb_prop in Hall as [W1' W2'].
      cbn [map]. rewrite denotes_cons, (Hx e A1 W1'), (IHl W2' A2). reflexivity. }
    destruct t as [fs|e c|k c|a c]; try discriminate Hadm.
    + cbn [embed]. rewrite denote_rec.
      assert (G : denotes ((fix go (l : list e5item) (fs : list (string * ty)) {struct l} : list val :=
                 match l, fs with x :: l', f :: fs' => embed x (snd f) :: go l' fs' | _, _ => [] end) l fs) = Some l).
      { clear Harr. revert fs Hadm. induction IH as [|x l Hx Hl IHl]; intros fs Hadm; destruct fs as [|f fs]; try discriminate Hadm; [reflexivity|].
        cbn [admits] in Hadm. apply andb_prop in Hadm as [A1 A2]. cbn [forallb] in Hall. apply andb_prop in Hall as [W1' W2'].
        rewrite denotes_cons, (Hx (snd f) A1 W1'), (IHl W2' fs A2). reflexivity. }
      rewrite G. reflexivity.
    + cbn [embed]. rewrite denote_arr, (Harr e Hadm). reflexivity.
    + cbn [admits] in Hadm. apply andb_prop in Hadm as [_ Hal]. cbn [embed]. rewrite denote_arr, (Harr TAny Hal). reflexivity.
  - reflexivity.
  - reflexivity.
  - reflexivity.
  - (* JIS-8 *)
    assert (Hv : forallb (fun b => match jis8_decode b with Some c => match jis8_encode c with Some b' => b' =? b | None => false end | None => false end) l = true).
    { destruct t as [fs|e c|k c|a c]; try discriminate Hadm; cbn [admits kind_of_item] in Hadm.
      - unfold scalar_admits in Hadm. cbn [kind_of_item] in Hadm. apply andb_prop in Hadm as [_ H]. exact H.
      - apply andb_prop in Hadm as [_ H]. unfold scalar_admits in H. cbn [kind_of_item] in H. apply andb_prop in H as [_ H]. exact H. }
    cbn [embed denote]. destruct (jis_decode_all l Hv) as [_ ->]. reflexivity.
  - destruct w; reflexivity.
  - destruct w; reflexivity.
  - (* F4: rounding the widened value gives the binary32 pattern back *)
    assert (Hfin : forallb finite32 l = true).
    { destruct t as [fs|e c|k c|a c]; try discriminate Hadm; cbn [admits kind_of_item] in Hadm.
      - unfold scalar_admits in Hadm. cbn [kind_of_item] in Hadm. apply andb_prop in Hadm as [_ H]. exact H.
      - apply andb_prop in Hadm as [_ H]. unfold scalar_admits in H. cbn [kind_of_item] in H. apply andb_prop in H as [_ H]. exact H. }
    cbn [e5_wf] in Hwf. apply andb_prop in Hwf as [_ Hr]. cbn [embed denote].
    assert (optM r32 (map widen32 l) = Some l) as ->; [|reflexivity].
    clear Hadm. induction l as [|x l IHl]; [reflexivity|].
    cbn [forallb] in Hfin, Hr. apply andb_prop in Hfin as [F1 F2]. apply andb_prop in Hr as [R1 R2]. apply N.ltb_lt in R1.
    cbn [map optM]. unfold r32 at 1. rewrite (round_widen x R1 F1). rewrite (IHl R2 F2). reflexivity.
  - reflexivity.
Qed.

Theorem reencode_canonical : forall F bs i rest t, bytes bs -> e5_decode F bs = Some (i, rest) -> admits i t = true ->
  py_encode (embed i t) = Ok (e5_encode i).
Proof.
  intros F bs i rest t Hb H Hadm. destruct (e5_decode_wf F bs i rest Hb H) as [Hwf _].
  apply encode_exact; [apply denote_embed; assumption|exact Hwf].
Qed.
