(* Proofs/SecsDispatchProofs.v — what SecsHandler sends for one inbound message, as read from _handle_stream_function / _handle_unknown_functions
   (Gen/SecsDispatch.v), is Model/Dispatch.v's `dispatch` for every callback table, message and way the callback can finish. *)
From SG Require Import Base.Prelude Gen.Callbacks Gen.Catalogue Gen.SecsDispatch Model.Dispatch.
Local Open Scope Z_scope.

(* what the callback sends itself before it returns / fails, whether an exception escapes it, whether it returns None *)
Definition own_sends (o : outcome) : list reply :=
  match o with OReturn (KSentNone a b) | OReturn (KSentMayRaise a b) | OSentRaise a b => [RSec a b] | _ => [] end.
Definition raised (o : outcome) : bool := match o with ORaise | OSentRaise _ _ => true | _ => false end.
Definition result_none (o : outcome) : bool := match o with OReturn (KReply _ _) => false | _ => true end.
Definition act_reply (s : Z) (o : outcome) (a : disp_act) : reply :=
  match a with
  | DSendResult => match o with OReturn (KReply a b) => RSec a b | _ => RS9F5 end
  | DSendAbort => RAbort s
  | DSendS9F5 => RS9F5
  end.

Theorem dispatch_code_is_model tab s f w o :
  let registered := match lookup_cb tab s f with Some _ => true | None => false end in
  dispatch tab s f w o =
  ((if registered then own_sends o else []) ++ map (act_reply s o) (secs_dispatch registered (raised o) (result_none o) (has_abort s) w))%list.
Proof.
  cbv zeta. unfold dispatch, on_raise, secs_dispatch. destruct (lookup_cb tab s f) as [ks|].
  - destruct o as [[a b| |a b|a b]| |a b]; cbn [own_sends raised result_none negb app map act_reply];
      destruct (has_abort s); destruct w; reflexivity.
  - cbn [negb app]. destruct w; reflexivity.
Qed.
