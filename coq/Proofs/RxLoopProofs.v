(* Proofs/RxLoopProofs.v — the framing loop HsmsProtocol._process_received_data, as translated statement by statement from the source
   (Gen/RxLoop.v), is the `drain` of Model/HsmsRx.v: for every buffer it leaves the same bytes behind and treats the same frames in the same
   order the same way (handed over - by the receiver thread itself or through the dispatch queue - or dropped). *)
From Coq Require Import Lia ZifyBool ZifyN ZifyNat.
From SG Require Import Base.Prelude Base.Kinds Base.PyRt Gen.ProtoConsts Gen.RxLoop Model.Secs2 Model.Frames Model.HsmsRx.
Open Scope Z_scope.

Section Against.
Variable is_data : hhdr * list N -> bool.
Variable is_reply : hhdr * list N -> bool.
Variable selected : bool.

Definition frame := (hhdr * list N)%type.
Definition ev_out (e : rx_ev frame) : rx_out :=
  match e with
  | RxDirect _ (h, d) => Delivered h d
  | RxQueue _ (h, d) => Delivered h d
  | RxDrop _ => Dropped
  end.

Lemma rx_loop_is_drain fuel : forall buf tr,
  let '(b, _, outs, _) := drain fuel buf in
  let '(b', tr', _) := rx_loop frame hframe_decode is_data is_reply selected fuel buf tr in
  b' = b /\ map ev_out tr' = map ev_out tr ++ outs.
Proof.
  induction fuel as [|f IH]; intros buf tr.
  - cbn. split; [reflexivity|]. rewrite app_nil_r. reflexivity.
  - cbn [drain rx_loop].
    destruct (Nat.ltb_spec (length buf) 4) as [L|L]; destruct (Z.gtb_spec (Z.of_nat (length buf)) 3) as [G|G]; try lia.
    { split; [reflexivity|]. rewrite app_nil_r. reflexivity. }
    set (len_ := (be_val (firstn 4 buf) 0 + 4)%N).
    replace (Z.of_N (be_val (firstn 4 buf) 0) + 4) with (Z.of_N len_) by (unfold len_; lia).
    destruct (N.ltb_spec (N.of_nat (length buf)) len_) as [S|S]; destruct (Z.ltb_spec (Z.of_nat (length buf)) (Z.of_N len_)) as [T|T]; try lia.
    { split; [reflexivity|]. rewrite app_nil_r. reflexivity. }
    replace (Z.to_nat (Z.of_N len_)) with (N.to_nat len_) by lia.
    destruct (hframe_decode (firstn (N.to_nat len_) buf)) as [[h d]|e].
    + destruct (is_data (h, d) && selected && is_reply (h, d)).
      * specialize (IH (skipn (N.to_nat len_) buf) (tr ++ [RxDirect frame (h, d)])).
        destruct (drain f (skipn (N.to_nat len_) buf)) as [[[b blk] outs] ab].
        destruct (rx_loop frame hframe_decode is_data is_reply selected f (skipn (N.to_nat len_) buf) (tr ++ [RxDirect frame (h, d)])) as [[b' tr'] oof].
        destruct IH as [-> ->]. split; [reflexivity|]. rewrite map_app, <- app_assoc. reflexivity.
      * specialize (IH (skipn (N.to_nat len_) buf) (tr ++ [RxQueue frame (h, d)])).
        destruct (drain f (skipn (N.to_nat len_) buf)) as [[[b blk] outs] ab].
        destruct (rx_loop frame hframe_decode is_data is_reply selected f (skipn (N.to_nat len_) buf) (tr ++ [RxQueue frame (h, d)])) as [[b' tr'] oof].
        destruct IH as [-> ->]. split; [reflexivity|]. rewrite map_app, <- app_assoc. reflexivity.
    + specialize (IH (skipn (N.to_nat len_) buf) (tr ++ [RxDrop frame])).
      destruct (drain f (skipn (N.to_nat len_) buf)) as [[[b blk] outs] ab].
      destruct (rx_loop frame hframe_decode is_data is_reply selected f (skipn (N.to_nat len_) buf) (tr ++ [RxDrop frame])) as [[b' tr'] oof].
      destruct IH as [-> ->]. split; [reflexivity|]. rewrite map_app, <- app_assoc. reflexivity.
Qed.

(* one run of the receiver callback on a buffer = the model's rx_feed on that buffer *)
Theorem rx_process_is_drain buf :
  let '(b, _, outs, _) := drain (S (length buf)) buf in
  let '(b', tr', _) := rx_process frame hframe_decode is_data is_reply selected buf in
  b' = b /\ map ev_out tr' = outs.
Proof.
  unfold rx_process.
  destruct (Z.ltb_spec (Z.of_nat (length buf)) 4) as [L|L].
  - cbn [drain]. destruct (Nat.ltb_spec (length buf) 4) as [L'|L']; [|lia]. split; reflexivity.
  - pose proof (rx_loop_is_drain (S (length buf)) buf []) as H.
    destruct (drain (S (length buf)) buf) as [[[b blk] outs] ab].
    destruct (rx_loop frame hframe_decode is_data is_reply selected (S (length buf)) buf []) as [[b' tr'] oof].
    exact H.
Qed.

(* the loop never runs out of fuel: every round takes at least four bytes *)
Lemma rx_loop_fuel fuel : forall buf tr, (length buf < fuel)%nat ->
  snd (rx_loop frame hframe_decode is_data is_reply selected fuel buf tr) = false.
Proof.
  induction fuel as [|f IH]; intros buf tr Hf; [lia|]. cbn [rx_loop].
  destruct (Z.gtb_spec (Z.of_nat (length buf)) 3) as [G|G]; [|reflexivity].
  set (len_ := (be_val (firstn 4 buf) 0 + 4)%N).
  replace (Z.of_N (be_val (firstn 4 buf) 0) + 4) with (Z.of_N len_) by (unfold len_; lia).
  destruct (Z.ltb_spec (Z.of_nat (length buf)) (Z.of_N len_)) as [T|T]; [reflexivity|].
  assert (Hl : (length (skipn (Z.to_nat (Z.of_N len_)) buf) < f)%nat) by (rewrite skipn_length; unfold len_ in *; lia).
  destruct (hframe_decode _) as [[h d]|e]; [destruct (_ && _ && _)|]; apply IH; exact Hl.
Qed.
End Against.
