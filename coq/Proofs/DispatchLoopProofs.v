(* Proofs/DispatchLoopProofs.v — C06: with the trigger cleared before the queue is drained no schedule strands a block. *)
From SG Require Import Base.Prelude Model.DispatchLoop.
From Coq Require Import Lia.
Open Scope nat_scope.

Definition dinv (s : dstate) : Prop :=
  match d_pc s with
  | PWait => d_queue s = 0 \/ d_trigger s = true \/ 0 < d_pending_sets s
  | PClearAfter => False
  | _ => True
  end.

Lemma dinv_step s a : dinv s -> dinv (dstep_fn true s a).
Proof.
  unfold dinv. destruct s as [q t pc p dl]. destruct a; cbn [dstep_fn d_pc d_queue d_trigger d_pending_sets].
  - destruct pc; cbn; intros; try exact I; try assumption. right. right. lia.
  - destruct p as [|p']; cbn; [tauto|]. destruct pc; cbn; intros; try exact I; try assumption. right. left. reflexivity.
  - destruct pc; cbn.
    + destruct t; cbn; tauto.
    + intros; exact I.
    + destruct q; cbn; intros; [left; reflexivity|exact I].
    + tauto.
Qed.

Theorem no_lost_wakeup tr : stuck (drun true d0 tr) = false.
Proof.
  assert (H : dinv (drun true d0 tr)).
  { unfold drun. assert (G : forall s, dinv s -> dinv (fold_left (dstep_fn true) tr s)).
    { induction tr as [|a tr IH]; intros s Hs; [exact Hs|]. cbn [fold_left]. apply IH. apply dinv_step. exact Hs. }
    apply G. cbn. left. reflexivity. }
  unfold stuck. unfold dinv in H. destruct (d_pc (drun true d0 tr)); try reflexivity.
  destruct H as [H|[H|H]].
  - rewrite H. cbn. rewrite andb_false_r. reflexivity.
  - rewrite H. reflexivity.
  - destruct (d_pending_sets (drun true d0 tr)); [lia|]. cbn. rewrite andb_false_r. reflexivity.
Qed.

(* every block that was queued is either delivered or still accounted for: nothing is lost or duplicated *)
Theorem blocks_conserved clear_first tr :
  d_delivered (drun clear_first d0 tr) + d_queue (drun clear_first d0 tr) = length (filter (fun a => match a with SPut => true | _ => false end) tr).
Proof.
  assert (G : forall s, d_delivered (fold_left (dstep_fn clear_first) tr s) + d_queue (fold_left (dstep_fn clear_first) tr s)
                        = d_delivered s + d_queue s + length (filter (fun a => match a with SPut => true | _ => false end) tr)).
  { induction tr as [|a tr IH]; intro s; cbn [fold_left filter length]; [lia|]. rewrite IH.
    destruct a; cbn [length]; destruct s as [q t pc p dl]; cbn [dstep_fn d_delivered d_queue d_pc d_pending_sets d_trigger].
    - cbn. lia.
    - destruct p; cbn; lia.
    - destruct pc; cbn; try lia; [destruct t; cbn; lia|destruct q; cbn; lia]. }
  unfold drun. rewrite G. cbn. lia.
Qed.

(* clearing after the drain loop: a block queued between the last look at the queue and the clear is stranded *)
Theorem clear_after_drain_strands :
  stuck (drun false d0 [SPut; SSet; SDispatcher; SDispatcher; SDispatcher; SPut; SSet; SDispatcher]) = true.
Proof. reflexivity. Qed.

(* ---------- generations ---------- *)
Definition ginv (s : gstate) : bool :=
  negb (g_overlap s) &&
  match g_cb s, g_cur s with
  | CbNone, CIdle | CbNone, CWait | CbCur, CInCb | CbStale, CWait => true
  | _, _ => false
  end.
Definition all_gstates : list gstate :=
  flat_map (fun c => flat_map (fun u => map (fun o => {| g_cb := c; g_cur := u; g_overlap := o |}) [false; true]) [CIdle; CWait; CInCb]) [CbNone; CbCur; CbStale].
Lemma all_gstates_complete s : In s all_gstates.
Proof. destruct s as [[] [] []]; cbn; tauto. Qed.
Lemma ginv_step s a : ginv s = true -> ginv (gstep_fn true s a) = true.
Proof.
  intro H. assert (T : forallb (fun s0 => negb (ginv s0) || forallb (fun a0 => ginv (gstep_fn true s0 a0)) [GRestart; GCurrent; GStaleReturns]) all_gstates = true) by (vm_compute; reflexivity).
  rewrite forallb_forall in T. specialize (T s (all_gstates_complete s)). rewrite H in T. cbn [negb orb] in T.
  rewrite forallb_forall in T. apply T. destruct a; cbn; tauto.
Qed.
Theorem one_callback_at_a_time tr : g_overlap (grun true g0 tr) = false.
Proof.
  assert (I : ginv (grun true g0 tr) = true).
  { unfold grun. generalize g0 (eq_refl : ginv g0 = true). induction tr as [|a r IH]; intros s Hs; cbn [fold_left]; [exact Hs|]. apply IH. apply ginv_step. exact Hs. }
  unfold ginv in I. apply andb_prop in I as [I _]. apply negb_true_iff in I. exact I.
Qed.
(* without the wait: a callback of the new connection begins while the one that was left behind is still running *)
Theorem no_wait_overlaps : g_overlap (grun false g0 [GCurrent; GRestart; GCurrent]) = true.
Proof. reflexivity. Qed.

(* a block that was received completely but is still queued when the link is lost is never handed over *)
Theorem stop_discards_queued :
  let s := d_stop (drun true d0 [SPut; SSet; SDispatcher; SDispatcher; SDispatcher; SPut; SSet]) in
  d_delivered s = 1 /\ d_queue s = 0 /\ forall tr, Forall (fun a => a = SDispatcher) tr -> d_delivered (drun true s tr) = 1.
Proof.
  cbv zeta. split; [reflexivity|]. split; [reflexivity|]. intros tr H.
  assert (G : forall s0, d_queue s0 = 0 -> d_pending_sets s0 = 0 -> d_delivered (fold_left (dstep_fn true) tr s0) = d_delivered s0).
  { induction H as [|a r Ha Hr IH]; intros s0 Q P; [reflexivity|]. subst a. cbn [fold_left].
    assert (X : d_queue (dstep_fn true s0 SDispatcher) = 0 /\ d_pending_sets (dstep_fn true s0 SDispatcher) = 0 /\ d_delivered (dstep_fn true s0 SDispatcher) = d_delivered s0).
    { destruct s0 as [q t pc p dl]. cbn in Q, P. subst q p. destruct pc, t; cbn; auto. }
    destruct X as (X1 & X2 & X3). rewrite (IH _ X1 X2). exact X3. }
  unfold drun. rewrite G; reflexivity.
Qed.
