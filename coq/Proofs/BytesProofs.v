(* Proofs/BytesProofs.v — big-endian packing, masks and two's complement lemmas. *)
From SG Require Import Base.Prelude.
From Coq Require Import Lia ZifyBool ZifyN ZifyNat.
Ltac Zify.zify_post_hook ::= Z.div_mod_to_equations.
Open Scope N_scope.

Lemma shorter_spec {A} (l : list A) k : shorter l k = (length l <? k)%nat.
Proof.
  unfold shorter. rewrite firstn_length. destruct (Nat.ltb_spec (length l) k), (Nat.ltb_spec (Nat.min k (length l)) k); try reflexivity; lia.
Qed.

Lemma be_length n v : length (be n v) = n.
Proof. revert v; induction n as [|n IH]; intro v; cbn [be]; [reflexivity|]. rewrite app_length, IH; cbn; lia. Qed.

Lemma be_bytes n v : Forall (fun b => b < 256) (be n v).
Proof.
  revert v; induction n as [|n IH]; intro v; cbn [be]; [constructor|].
  apply Forall_app; split; [apply IH|]. constructor; [|constructor].
  apply N.mod_lt; lia.
Qed.

Lemma be_val_app a b acc : be_val (a ++ b) acc = be_val b (be_val a acc).
Proof. revert acc; induction a as [|x a IH]; intro acc; cbn [be_val app]; [reflexivity|apply IH]. Qed.

Lemma pow256_S n : 256 ^ N.of_nat (S n) = 256 * 256 ^ N.of_nat n.
Proof. rewrite Nat2N.inj_succ, N.pow_succ_r'; reflexivity. Qed.

Lemma be_val_be n : forall v acc, v < 256 ^ N.of_nat n -> be_val (be n v) acc = acc * 256 ^ N.of_nat n + v.
Proof.
  induction n as [|n IH]; intros v acc Hv.
  - cbn in *. lia.
  - cbn [be]. rewrite be_val_app. rewrite pow256_S in *.
    rewrite IH by (apply N.div_lt_upper_bound; lia).
    cbn [be_val]. pose proof (N.div_mod v 256). nia.
Qed.

Lemma be_val_be0 n v : v < 256 ^ N.of_nat n -> be_val (be n v) 0 = v.
Proof. intro H; rewrite be_val_be by assumption; lia. Qed.

(* be n (be_val l 0) = l  for byte lists of length n *)
Lemma be_val_bound l : Forall (fun b => b < 256) l ->
  forall acc k, acc < 256 ^ N.of_nat k -> be_val l acc < 256 ^ N.of_nat (length l + k).
Proof.
  intro H. induction H as [|x l Hx Hl IH]; intros acc k Hacc; cbn [be_val length].
  - exact Hacc.
  - replace (S (length l) + k)%nat with (length l + S k)%nat by lia. apply IH. rewrite pow256_S. nia.
Qed.
Lemma be_val_lt l : Forall (fun b => b < 256) l -> be_val l 0 < 256 ^ N.of_nat (length l).
Proof. intro H. pose proof (be_val_bound l H 0 0%nat) as G. rewrite Nat.add_0_r in G. apply G. cbn. lia. Qed.

Lemma be_be_val l : Forall (fun b => b < 256) l -> be (length l) (be_val l 0) = l.
Proof.
  intro H. induction l as [|x l IH] using rev_ind; [reflexivity|].
  apply Forall_app in H as [Hl Hx]. inversion Hx as [|? ? Hx' _]; subst.
  rewrite app_length, Nat.add_comm; cbn [length plus be]. rewrite be_val_app; cbn [be_val].
  replace ((be_val l 0 * 256 + x) / 256) with (be_val l 0) by (apply N.div_unique with x; lia).
  replace ((be_val l 0 * 256 + x) mod 256) with x by (apply N.mod_unique with (be_val l 0); lia).
  rewrite IH by assumption. reflexivity.
Qed.

(* ---- the masks of Base.encode_item_header ---- *)
Lemma land_shift_byte x k :
  N.shiftr (N.land x (N.shiftl (N.ones 8) (8 * k))) (8 * k) = (x / 2 ^ (8 * k)) mod 256.
Proof.
  apply N.bits_inj; intro n.
  rewrite N.shiftr_spec by lia. rewrite N.land_spec.
  change 256 with (2 ^ 8). rewrite <- N.shiftr_div_pow2, <- N.land_ones, N.land_spec, N.shiftr_spec by lia.
  rewrite N.shiftl_spec_high by lia. f_equal. f_equal. lia.
Qed.

Lemma mask_b2 x : N.shiftr (N.land x 0xFF0000) 16 = (x / 65536) mod 256.
Proof. exact (land_shift_byte x 2). Qed.
Lemma mask_b1 x : N.shiftr (N.land x 0x00FF00) 8 = (x / 256) mod 256.
Proof. exact (land_shift_byte x 1). Qed.
Lemma mask_b0 x : N.land x 0x0000FF = x mod 256.
Proof. change 0xFF with (N.ones 8). rewrite N.land_ones. reflexivity. Qed.

(* format byte: finite sweep over the 64 codes x 3 length-byte counts, and over all 256 format bytes *)
Definition fb_enc_ok : bool :=
  forallb (fun c => forallb (fun k => N.lor (N.shiftl c 2) k =? c * 4 + k) [1;2;3])
          (map N.of_nat (seq 0 64)).
Lemma fb_enc_sweep : fb_enc_ok = true. Proof. vm_compute. reflexivity. Qed.
Lemma fb_enc c k : c < 64 -> (k = 1 \/ k = 2 \/ k = 3) -> N.lor (N.shiftl c 2) k = c * 4 + k.
Proof.
  intros Hc Hk. pose proof fb_enc_sweep as S. unfold fb_enc_ok in S.
  rewrite forallb_forall in S. specialize (S c).
  assert (In c (map N.of_nat (seq 0 64))) as Hin.
  { apply in_map_iff. exists (N.to_nat c). split; [lia|]. apply in_seq. lia. }
  specialize (S Hin). rewrite forallb_forall in S.
  apply N.eqb_eq. apply S. cbn. intuition.
Qed.

Definition fb_dec_ok : bool :=
  forallb (fun fb => (N.shiftr (N.land fb 252) 2 =? fb / 4) && (N.land fb 3 =? fb mod 4))
          (map N.of_nat (seq 0 256)).
Lemma fb_dec_sweep : fb_dec_ok = true. Proof. vm_compute. reflexivity. Qed.
Lemma fb_dec fb : fb < 256 -> N.shiftr (N.land fb 252) 2 = fb / 4 /\ N.land fb 3 = fb mod 4.
Proof.
  intro H. pose proof fb_dec_sweep as S. unfold fb_dec_ok in S. rewrite forallb_forall in S.
  specialize (S fb). assert (In fb (map N.of_nat (seq 0 256))) as Hin.
  { apply in_map_iff. exists (N.to_nat fb). split; [lia|]. apply in_seq. lia. }
  specialize (S Hin). apply andb_prop in S as [A B]. split; apply N.eqb_eq; assumption.
Qed.

(* ---- two's complement ---- *)
Lemma tc_roundtrip w z :
  (0 < w)%nat ->
  (- 2 ^ (8 * Z.of_nat w - 1) <= z < 2 ^ (8 * Z.of_nat w - 1))%Z ->
  tc_dec w (tc_enc w z) = z.
Proof.
  intros Hw Hz. unfold tc_dec, tc_enc.
  set (m := (2 ^ (8 * Z.of_nat w))%Z).
  assert (Hm : (m = 2 * 2 ^ (8 * Z.of_nat w - 1))%Z).
  { unfold m. rewrite <- Z.pow_succ_r by lia. f_equal. lia. }
  assert (Hpos : (0 < 2 ^ (8 * Z.of_nat w - 1))%Z) by (apply Z.pow_pos_nonneg; lia).
  rewrite Z2N.id by (apply Z.mod_pos_bound; lia).
  assert (Hhalf : (m / 2 = 2 ^ (8 * Z.of_nat w - 1))%Z).
  { rewrite Hm. rewrite Z.mul_comm. apply Z.div_mul. lia. }
  rewrite Hhalf.
  destruct (Z.ltb_spec (z mod m) (2 ^ (8 * Z.of_nat w - 1))) as [H|H].
  - destruct (Z.lt_ge_cases z 0) as [Hn|Hn].
    + assert (z mod m = z + m)%Z.
      { symmetry. apply Z.mod_unique with (-1)%Z; lia. } lia.
    + apply Z.mod_small. lia.
  - destruct (Z.lt_ge_cases z 0) as [Hn|Hn].
    + assert (z mod m = z + m)%Z.
      { symmetry. apply Z.mod_unique with (-1)%Z; lia. } lia.
    + rewrite Z.mod_small in H by lia. lia.
Qed.

Lemma tc_enc_lt w z : tc_enc w z < 256 ^ N.of_nat w.
Proof.
  unfold tc_enc.
  assert (E : (Z.of_N (256 ^ N.of_nat w) = 2 ^ (8 * Z.of_nat w))%Z).
  { rewrite N2Z.inj_pow. change (Z.of_N 256) with (2 ^ 8)%Z. rewrite <- Z.pow_mul_r by lia. f_equal. lia. }
  assert (0 <= z mod 2 ^ (8 * Z.of_nat w) < 2 ^ (8 * Z.of_nat w))%Z.
  { apply Z.mod_pos_bound. apply Z.pow_pos_nonneg; lia. }
  lia.
Qed.

Lemma tc_enc_unsigned w z : (0 <= z < 2 ^ (8 * Z.of_nat w))%Z -> tc_enc w z = Z.to_N z.
Proof. intro H. unfold tc_enc. rewrite Z.mod_small by lia. reflexivity. Qed.
