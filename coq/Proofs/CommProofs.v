(* Proofs/CommProofs.v — C07: the model of the GEM communication handling refines the E30 reference.
   The model's state space (9 machine states x link x two timers) and the event alphabet (COMMACK only matters as
   zero / non-zero) are finite: the one-step refinement is decided by evaluation and lifted to histories by induction. *)
From SG Require Import Base.Prelude Spec.E30Comm Model.StateMachine Model.GemComm Gen.Machines.
From Coq Require Import Lia.
Open Scope Z_scope.

Definition bools := [true; false].
Definition all_gc : list gc :=
  flat_map (fun c => flat_map (fun l => flat_map (fun t => map (fun d => {| g_cur := c; g_link := l; g_t3 := t; g_delay := d |}) bools) bools) bools) (seq 0 9).
Definition all_ev : list yev :=
  [YEnable; YDisable; YLinkUp; YLinkDown; YInS1F13 true; YInS1F13 false; YInS1F13Unanswerable; YT3; YDelay] ++
  flat_map (fun c => map (YInS1F14 c) bools) [0; 1] ++ flat_map (fun r => map (YInOther r) bools) bools.

(* reachable shape: one of the five leaf states in use; a timer is armed exactly in its state *)
Definition good (s : gc) : bool :=
  existsb (Nat.eqb (g_cur s)) [communication_DISABLED; communication_NOT_COMMUNICATING; communication_WAIT_DELAY; communication_WAIT_CRA; communication_COMMUNICATING] &&
  Bool.eqb (g_t3 s) (g_cur s =? communication_WAIT_CRA)%nat && Bool.eqb (g_delay s) (g_cur s =? communication_WAIT_DELAY)%nat.

Definition abs (s : gc) : e30c := {| y_state := ystate_of (g_cur s); y_link := g_link s |}.
Definition e30c_eqb (a b : e30c) : bool := ystate_eqb (y_state a) (y_state b) && Bool.eqb (y_link a) (y_link b).
Definition admitted_c (s : gc) (e : yev) (s' : gc) (o : list yout) : bool :=
  existsb (fun alt => e30c_eqb (abs s') (fst alt) && list_eqb yout_eqb o (snd alt)) (e30c_step (abs s) e).
Definition step_check (s : gc) (e : yev) : bool :=
  negb (good s) || (let '(s', o) := gcomm_step s e in admitted_c s e s' o && good s').

Lemma step_table : forallb (fun s => forallb (step_check s) all_ev) all_gc = true.
Proof. vm_compute. reflexivity. Qed.

Lemma gc_in s : (g_cur s < 9)%nat -> In s all_gc.
Proof.
  destruct s as [c l t d]. cbn [g_cur]. intro H. unfold all_gc. apply in_flat_map. exists c. split; [apply in_seq; lia|].
  apply in_flat_map. exists l. split; [destruct l; cbn; auto|]. apply in_flat_map. exists t. split; [destruct t; cbn; auto|].
  destruct d; cbn; auto.
Qed.

Lemma good_lt s : good s = true -> (g_cur s < 9)%nat.
Proof.
  unfold good. rewrite !andb_true_iff. intros [[H _] _].
  destruct (g_cur s) as [|[|[|[|[|[|[|[|[|n]]]]]]]]]; try lia. cbn in H. discriminate H.
Qed.

(* COMMACK matters only as zero / non-zero *)
Definition norm (e : yev) : yev := match e with YInS1F14 c r => YInS1F14 (if c =? 0 then 0 else 1) r | x => x end.
Lemma norm_model s e : gcomm_step s (norm e) = gcomm_step s e.
Proof. destruct e as [| | | |ac| |c r|r w| |]; try reflexivity. cbn [norm gcomm_step]. destruct (c =? 0) eqn:E; [apply Z.eqb_eq in E; subst; reflexivity|reflexivity]. Qed.
Lemma norm_spec a e : e30c_step a (norm e) = e30c_step a e.
Proof. destruct e as [| | | |ac| |c r|r w| |]; try reflexivity. cbn [norm e30c_step]. destruct (c =? 0) eqn:E; [apply Z.eqb_eq in E; subst; reflexivity|reflexivity]. Qed.
Lemma norm_in e : In (norm e) all_ev.
Proof. destruct e as [| | | |ac| |c r|r w| |]; cbn [norm]; try (cbn; tauto). - destruct ac; cbn; tauto. - destruct (c =? 0), r; cbn; tauto. - destruct r, w; cbn; tauto. Qed.

Theorem step_refines s e : good s = true ->
  admitted_c s e (fst (gcomm_step s e)) (snd (gcomm_step s e)) = true /\ good (fst (gcomm_step s e)) = true.
Proof.
  intro Hg. pose proof step_table as T. rewrite forallb_forall in T. specialize (T s (gc_in s (good_lt s Hg))).
  rewrite forallb_forall in T. specialize (T (norm e) (norm_in e)). unfold step_check in T. rewrite Hg in T. cbn [negb orb] in T.
  rewrite norm_model in T. destruct (gcomm_step s e) as [s' o]. cbn [fst snd]. apply andb_true_iff in T as [A G]. split; [|exact G].
  unfold admitted_c in *. rewrite norm_spec in A. exact A.
Qed.

Lemma youts_eq a b : list_eqb yout_eqb a b = true -> a = b.
Proof.
  revert b. induction a as [|x a IH]; destruct b as [|y b]; cbn; try discriminate; [reflexivity|]. rewrite andb_true_iff. intros [E1 E2].
  f_equal; [|apply IH; exact E2]. destruct x, y; cbn in E1; try discriminate E1; try reflexivity. apply Z.eqb_eq in E1. subst. reflexivity.
Qed.

Lemma good0 : good gc0 = true. Proof. reflexivity. Qed.

Theorem run_good es : forall s, good s = true -> good (fst (gcomm_run s es)) = true.
Proof.
  induction es as [|e r IH]; intros s Hg; cbn [gcomm_run]; [exact Hg|].
  destruct (step_refines s e Hg) as [_ G]. destruct (gcomm_step s e) as [s1 o]. cbn [fst] in G.
  specialize (IH s1 G). destruct (gcomm_run s1 r) as [s2 os]. exact IH.
Qed.

(* histories: the spec followed with the admitted alternative chosen by the model's abstraction *)
Fixpoint follows (a : e30c) (es : list yev) (trace : list (e30c * list yout)) : bool :=
  match es, trace with
  | [], [] => true
  | e :: er, (a1, o) :: tr => existsb (fun alt => e30c_eqb a1 (fst alt) && list_eqb yout_eqb o (snd alt)) (e30c_step a e) && follows a1 er tr
  | _, _ => false
  end.
Fixpoint gtrace (s : gc) (es : list yev) : list (e30c * list yout) :=
  match es with [] => [] | e :: r => let '(s1, o) := gcomm_step s e in (abs s1, o) :: gtrace s1 r end.

Theorem history_refines es : forall s, good s = true -> follows (abs s) es (gtrace s es) = true.
Proof.
  induction es as [|e r IH]; intros s Hg; cbn [gtrace follows]; [reflexivity|].
  destruct (step_refines s e Hg) as [A G]. destruct (gcomm_step s e) as [s1 o]. cbn [fst snd follows] in *.
  unfold admitted_c in A. rewrite A. cbn [andb]. apply IH. exact G.
Qed.

(* established only after an exchange on the current link: ghost flag over the history *)
Definition exchange (s : gc) (e : yev) (flag : bool) : bool :=
  match e with
  | YLinkDown | YDisable => false            (* the current link ends *)
  | YInS1F14 c r => flag || (is s communication_WAIT_CRA && r && (c =? 0))
  | YInS1F13 accept => flag || ((is s communication_WAIT_CRA || is s communication_WAIT_DELAY) && accept)
  | _ => flag
  end.
Fixpoint run_flag (s : gc) (flag : bool) (es : list yev) : gc * bool :=
  match es with [] => (s, flag) | e :: r => run_flag (fst (gcomm_step s e)) (exchange s e flag) r end.
Definition comm_implies_flag (s : gc) (flag : bool) : bool := negb (is s communication_COMMUNICATING) || flag.

Lemma flag_table : forallb (fun s => forallb (fun e => forallb (fun f =>
    negb (good s && comm_implies_flag s f) || comm_implies_flag (fst (gcomm_step s e)) (exchange s e f)) bools) all_ev) all_gc = true.
Proof. vm_compute. reflexivity. Qed.

Lemma exchange_norm s e f : exchange s (norm e) f = exchange s e f.
Proof. destruct e as [| | | |ac| |c r|r w| |]; try reflexivity. cbn [norm exchange]. destruct (c =? 0) eqn:E; [apply Z.eqb_eq in E; subst; reflexivity|reflexivity]. Qed.

Theorem established_after_exchange es : forall s f, good s = true -> comm_implies_flag s f = true ->
  comm_implies_flag (fst (run_flag s f es)) (snd (run_flag s f es)) = true.
Proof.
  induction es as [|e r IH]; intros s f Hg Hc; cbn [run_flag fst snd]; [exact Hc|].
  apply IH; [apply step_refines; exact Hg|].
  pose proof flag_table as T. rewrite forallb_forall in T. specialize (T s (gc_in s (good_lt s Hg))). rewrite forallb_forall in T.
  specialize (T (norm e) (norm_in e)). rewrite forallb_forall in T. specialize (T f ltac:(destruct f; cbn; auto)).
  rewrite Hg, Hc in T. cbn [andb negb orb] in T. rewrite norm_model, exchange_norm in T. exact T.
Qed.

(* while communication is not established nothing is handed to the application *)
Theorem nothing_handled_unless_communicating s e : good s = true -> is s communication_COMMUNICATING = false ->
  existsb (yout_eqb YHandled) (snd (gcomm_step s e)) = false.
Proof.
  intros Hg Hn.
  assert (T : forallb (fun s0 => forallb (fun e0 => negb (good s0) || is s0 communication_COMMUNICATING || negb (existsb (yout_eqb YHandled) (snd (gcomm_step s0 e0)))) all_ev) all_gc = true)
    by (vm_compute; reflexivity).
  rewrite forallb_forall in T. specialize (T s (gc_in s (good_lt s Hg))). rewrite forallb_forall in T. specialize (T (norm e) (norm_in e)).
  rewrite Hg, Hn, norm_model in T. cbn [negb orb] in T. apply negb_true_iff in T. exact T.
Qed.
