(* Proofs/ChecksumProofs.v — Block.checksum as translated from the source (Gen/Checksum.v) is the sum Model/Frames.v uses. *)
From Coq Require Import Lia.
From SG Require Import Base.Prelude Base.Kinds Gen.ProtoConsts Gen.Checksum Model.Secs2 Model.Frames.
Local Open Scope Z_scope.

Lemma fold_sum l : forall acc, fold_left (fun a b => a + Z.of_N b) l acc = acc + nsum l.
Proof.
  unfold nsum. induction l as [|x l IH]; intro acc; cbn [fold_left fold_right]; [lia|]. rewrite IH. rewrite N2Z.inj_add. lia.
Qed.

Theorem checksum_code_is_model b hb :
  shdr_encode (sb_hdr b) = Ok hb -> sblock_checksum b = Ok (block_checksum true hb (sb_data b)).
Proof.
  intro H. unfold sblock_checksum. rewrite H. cbn [bind]. unfold block_checksum. cbn [negb]. rewrite fold_sum. f_equal.
Qed.

Lemma checksum_without_format hb d : block_checksum false hb d = 0.
Proof. reflexivity. Qed.
