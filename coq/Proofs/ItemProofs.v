(* Proofs/ItemProofs.v — C14: the Item API encodes/decodes exactly like the variables API (and hence like E5). *)
From SG Require Import Base.Prelude Base.Kinds Base.Float Gen.VarConsts Gen.ItemConsts Gen.Jis8 Spec.E5 Model.Secs2 Model.Denote Model.Secs2Wf Model.Admits Model.Item.
From SG Require Import Proofs.BytesProofs Proofs.FloatProofs Proofs.Secs2Enc Proofs.Secs2Dec Proofs.Secs2Sim.
From Coq Require Import Lia ZifyBool ZifyN ZifyNat.
Ltac Zify.zify_post_hook ::= Z.div_mod_to_equations.
Open Scope N_scope.

(* ---------- the two sets of class constants regenerated from the source coincide ---------- *)
Lemma gen_item_num k :
  item_fc k = num_fc k /\ item_nbytes k = num_nbytes k /\ item_scode k = num_scode k /\
  item_is_float k = num_base_is_float k /\ item_min_int k = num_min_int k /\ item_max_int k = num_max_int k /\
  item_min_flt k = num_min_flt k /\ item_max_flt k = num_max_flt k.
Proof. destruct k; repeat split; reflexivity. Qed.
Lemma gen_item_fc :
  item_fc_L = fc_Array /\ item_fc_B = fc_Binary /\ item_fc_BOOLEAN = fc_Boolean /\ item_fc_A = fc_String /\ item_fc_J = fc_JIS8.
Proof. repeat split; reflexivity. Qed.
Lemma gen_item_codings : item_coding_A = coding_String /\ item_coding_J = coding_JIS8.
Proof. split; reflexivity. Qed.
Lemma gen_item_byte_bounds :
  item_min_B = 0%Z /\ item_max_B = 255%Z /\ item_min_BOOLEAN = 0%Z /\ item_max_BOOLEAN = 1%Z.
Proof. repeat split; reflexivity. Qed.

Lemma item_header_eq fc n : item_header fc n = encode_item_header fc n.
Proof. reflexivity. Qed.

(* values the Item API can hold: no keyed records, no empty Dynamic *)
Fixpoint item_like (v : val) : bool :=
  match v with
  | VArr l => forallb item_like l
  | VRec _ | VNone => false
  | _ => true
  end.

Theorem item_encode_eq : forall v, item_like v = true -> item_encode v = py_encode v.
Proof.
  pose proof gen_item_fc as (fL & fB & fBo & fA & fJ).
  induction v as [l IH|l IH|l|l|j l|k l|k l|] using val_ind'; intro H; try discriminate H.
  - cbn [item_like] in H. cbn [item_encode py_encode]. rewrite item_header_eq, fL.
    assert (map item_encode l = map py_encode l) as ->; [|reflexivity].
    apply map_ext_in. intros x Hx. rewrite Forall_forall in IH. rewrite forallb_forall in H. apply IH; auto.
  - cbn [item_encode py_encode]. rewrite item_header_eq, fB. reflexivity.
  - cbn [item_encode py_encode]. rewrite item_header_eq, fBo. reflexivity.
  - cbn [item_encode py_encode]. rewrite item_header_eq, fA, fJ. reflexivity.
  - destruct (gen_item_num k) as (E1 & E2 & E3 & _). cbn [item_encode py_encode]. rewrite item_header_eq, E1, E2, E3. reflexivity.
  - destruct (gen_item_num k) as (E1 & E2 & E3 & _). cbn [item_encode py_encode]. rewrite item_header_eq, E1, E2, E3. reflexivity.
Qed.

Lemma denote_item_like v i : denote v = Some i -> forall (HnoRec : True), True.
Proof. trivial. Qed.

(* ---------- decode: Item.decode agrees with an ANYVALUE variable wherever the latter succeeds ---------- *)
Lemma header_same bs r code len_ hl :
  decode_item_header None bs = Ok (r, code, len_, hl) -> item_decode_header bs = Ok (r, code, len_).
Proof.
  unfold decode_item_header, item_decode_header. destruct bs as [|fb t]; [discriminate|]. cbv zeta.
  destruct (shorter t (N.to_nat (N.land fb 3))); [discriminate|]. intro H. injection H as <- <- <- _. reflexivity.
Qed.
Lemma header_some_none fc bs x : decode_item_header (Some fc) bs = Ok x ->
  decode_item_header None bs = Ok x /\ (let '(_, code, _, _) := x in code = fc).
Proof.
  unfold decode_item_header. destruct bs as [|fb t]; [discriminate|]. cbv zeta.
  destruct (shorter t (N.to_nat (N.land fb 3))); [discriminate|].
  destruct (fc =? N.shiftr (N.land fb 252) 2) eqn:E; [|discriminate]. apply N.eqb_eq in E.
  intro H. injection H as <-. split; [reflexivity|symmetry; exact E].
Qed.

Definition cls_of_kind (k : skind) : icls :=
  match k with KBin => CB | KBool => CBool | KStr => CA | KJis => CJ | KNum n => CNum n end.

Lemma cls_of_code_kind k : cls_of_code (fc_of (DScal k)) = Some (cls_of_kind k).
Proof. destruct k as [| | | |n]; try reflexivity. destruct n; reflexivity. Qed.
Lemma cls_of_code_list : cls_of_code fc_Array = Some CL. Proof. reflexivity. Qed.

Lemma mapM_conv_int_inv k l r : mapM (conv_int k) (map PInt l) = Ok r -> r = l /\ forallb (int_in_range k) l = true.
Proof.
  revert r; induction l as [|z l IH]; intros r H; cbn [map mapM] in H.
  - injection H as <-. split; reflexivity.
  - unfold conv_int in H at 1. cbn [to_int bind] in H. destruct (int_in_range k z) eqn:E; [|discriminate]. cbn [bind] in H.
    destruct (mapM (conv_int k) (map PInt l)) as [r'|] eqn:E2; [|discriminate]. injection H as <-.
    destruct (IH r' eq_refl) as [-> Hl]. split; [reflexivity|]. cbn [forallb]. rewrite E, Hl. reflexivity.
Qed.
Lemma mapM_conv_flt_inv k l r : mapM (conv_flt k) (map PFloat l) = Ok r ->
  r = l /\ forallb (fun b => negb (nan64 b) && flt_in_range k b) l = true.
Proof.
  revert r; induction l as [|z l IH]; intros r H; cbn [map mapM] in H.
  - injection H as <-. split; reflexivity.
  - unfold conv_flt in H at 1. cbn [to_flt] in H. destruct (nan64 z) eqn:En; [discriminate|]. cbn [bind] in H.
    destruct (flt_in_range k z) eqn:E; [|discriminate]. cbn [bind] in H.
    destruct (mapM (conv_flt k) (map PFloat l)) as [r'|] eqn:E2; [|discriminate]. injection H as <-.
    destruct (IH r' eq_refl) as [-> Hl]. split; [reflexivity|]. cbn [forallb]. rewrite En, E, Hl. reflexivity.
Qed.

Lemma validate_ints k l : item_is_float k = false ->
  forallb (int_in_range k) l = true -> validate_num k (PList (map PInt l)) = Ok (VNum k l).
Proof.
  intros Hf Hr. destruct (gen_item_num k) as (_ & _ & _ & _ & Emin & Emax & _).
  unfold validate_num. rewrite Hf. rewrite (mapM_ok _ (fun p => match p with PInt z => z | _ => 0%Z end)).
  - cbn [bind]. rewrite map_map, map_id. reflexivity.
  - intros x Hx. apply in_map_iff in Hx as (z & <- & Hz). rewrite forallb_forall in Hr. specialize (Hr z Hz).
    unfold num_elem_int. cbn [int_of_intlike]. unfold in_bounds. rewrite Emin, Emax. unfold int_in_range in Hr.
    destruct (Z.leb_spec (num_min_int k) z), (Z.leb_spec z (num_max_int k)); try reflexivity; lia.
Qed.
Lemma validate_flts k l : item_is_float k = true ->
  forallb (fun b => negb (nan64 b) && flt_in_range k b) l = true -> validate_num k (PList (map PFloat l)) = Ok (VFlt k l).
Proof.
  intros Hf Hr. destruct (gen_item_num k) as (_ & _ & _ & _ & _ & _ & Emin & Emax).
  unfold validate_num. rewrite Hf. rewrite (mapM_ok _ (fun p => match p with PFloat z => z | _ => 0 end)).
  - cbn [bind]. rewrite map_map, map_id. reflexivity.
  - intros x Hx. apply in_map_iff in Hx as (z & <- & Hz). rewrite forallb_forall in Hr. specialize (Hr z Hz).
    apply andb_prop in Hr as [Hn Hi]. unfold num_elem_flt, flt_bounds, flt_in_range in *. rewrite Emin, Emax.
    destruct (nan64 z); [discriminate|].
    destruct (flt_ltb z (num_min_flt k)), (flt_ltb (num_max_flt k) z); try discriminate. reflexivity.
Qed.

Lemma scal_agree k bs pos v rest pos' r code len_ hl :
  decode_item_header None bs = Ok (r, code, len_, hl) ->
  decode_scal k (-1) bs pos = Ok (v, rest, pos') ->
  code = fc_of (DScal k) /\ item_decode_scal (cls_of_kind k) r len_ = Ok (v, rest).
Proof.
  pose proof gen_item_fc as (fL & fB & fBo & fA & fJ).
  intros Hh H.
  assert (Hsome : forall fc x, decode_item_header (Some fc) bs = Ok x -> x = (r, code, len_, hl) /\ code = fc).
  { intros fc x Hx. destruct (header_some_none _ _ _ Hx) as [H1 H2]. rewrite Hh in H1. injection H1 as <-. split; [reflexivity|exact H2]. }
  destruct k as [| | | |n]; cbn [decode_scal] in H.
  - destruct (decode_item_header (Some fc_Binary) bs) as [x|] eqn:E; [|discriminate]. destruct (Hsome _ _ E) as [-> Hc]. cbn [bind] in H.
    split; [exact Hc|]. cbn [cls_of_kind item_decode_scal].
    destruct (len_ =? 0) eqn:E0.
    + apply N.eqb_eq in E0. subst len_. cbn [bind] in H. injection H as <- <- _.
      replace (N.to_nat (N.min 0 (nlen r))) with O by lia. reflexivity.
    + cbn [set_bin] in H. cbn [cnt_gt0_lt] in H. unfold cnt_gt0_lt in H. cbn [Z.ltb Z.compare andb bind] in H.
      injection H as <- <- _. reflexivity.
  - destruct (decode_item_header (Some fc_Boolean) bs) as [x|] eqn:E; [|discriminate]. destruct (Hsome _ _ E) as [-> Hc]. cbn [bind] in H.
    split; [exact Hc|]. cbn [cls_of_kind item_decode_scal].
    destruct (nlen r <? len_) eqn:G; [discriminate|]. apply N.ltb_ge in G.
    unfold set_bool in H. unfold cnt_ge0_lt in H. cbn [Z.leb Z.compare andb] in H.
    rewrite (mapM_ok _ (fun q => match q with PBool b => b | _ => false end)) in H.
    2:{ intros x Hx. apply in_map_iff in Hx as (b & <- & _). reflexivity. }
    cbn [bind] in H. injection H as <- <- _. rewrite map_map.
    replace (N.to_nat (N.min len_ (nlen r))) with (N.to_nat len_) by lia.
    f_equal. f_equal. f_equal. apply map_ext. intro b. destruct (N.eqb_spec b 0), (N.ltb_spec 0 b); try reflexivity; lia.
  - destruct (decode_item_header (Some fc_String) bs) as [x|] eqn:E; [|discriminate]. destruct (Hsome _ _ E) as [-> Hc]. cbn [bind] in H.
    split; [exact Hc|]. cbn [cls_of_kind item_decode_scal].
    unfold text_decode in H. cbn [bind] in H. unfold set_text in H. cbn [bind] in H.
    destruct (text_encode false (firstn (N.to_nat (N.min len_ (nlen r))) r)); [|discriminate]. cbn [bind] in H.
    unfold cnt_gt0_lt in H. cbn [Z.ltb Z.compare andb] in H. injection H as <- <- _. reflexivity.
  - destruct (decode_item_header (Some fc_JIS8) bs) as [x|] eqn:E; [|discriminate]. destruct (Hsome _ _ E) as [-> Hc]. cbn [bind] in H.
    split; [exact Hc|]. cbn [cls_of_kind item_decode_scal].
    destruct (text_decode true (firstn (N.to_nat (N.min len_ (nlen r))) r)) as [cps|]; [|discriminate]. cbn [bind] in H |- *.
    unfold set_text in H. cbn [bind] in H. destruct (text_encode true cps); [|discriminate]. cbn [bind] in H.
    unfold cnt_gt0_lt in H. cbn [Z.ltb Z.compare andb] in H. injection H as <- <- _. reflexivity.
  - destruct (gen_item_num n) as (E1 & E2 & E3 & E4 & _).
    destruct (decode_item_header (Some (num_fc n)) bs) as [x|] eqn:E; [|discriminate]. destruct (Hsome _ _ E) as [-> Hc]. cbn [bind] in H.
    split; [exact Hc|]. cbn [cls_of_kind item_decode_scal]. rewrite E2, E3, E4.
    destruct (num_nbytes n =? 0)%nat; [discriminate|].
    destruct (nlen r <? len_ / N.of_nat (num_nbytes n) * N.of_nat (num_nbytes n)); [discriminate|].
    destruct (read_chunks (num_nbytes n) (N.to_nat (len_ / N.of_nat (num_nbytes n))) r) as [[cs rest']|]; [|discriminate].
    cbn [bind] in H |- *. destruct (num_base_is_float n) eqn:Hf.
    + destruct (mapM (unpack_flt (num_scode n)) cs) as [fl|]; [|discriminate]. cbn [bind] in H |- *.
      unfold set_num in H. rewrite Hf in H. cbn [is_float_plain andb negb] in H.
      unfold cnt_ge0_lt in H. cbn [Z.leb Z.compare andb] in H.
      destruct (mapM (conv_flt n) (map PFloat fl)) as [r'|] eqn:M; [|discriminate]. cbn [bind] in H.
      destruct (mapM_conv_flt_inv _ _ _ M) as [-> Hr]. injection H as <- <- _.
      rewrite validate_flts; [reflexivity|exact E4|exact Hr].
    + destruct (mapM (unpack_int (num_scode n)) cs) as [il|]; [|discriminate]. cbn [bind] in H |- *.
      unfold set_num in H. rewrite Hf in H. cbn [is_float_plain andb negb] in H.
      unfold cnt_ge0_lt in H. cbn [Z.leb Z.compare andb] in H.
      destruct (mapM (conv_int n) (map PInt il)) as [r'|] eqn:M; [|discriminate]. cbn [bind] in H.
      destruct (mapM_conv_int_inv _ _ _ M) as [-> Hr]. injection H as <- <- _.
      rewrite validate_ints; [reflexivity|exact E4|exact Hr].
Qed.

Section item_loops.
  Variables (f itf : nat).
  Hypothesis IH : forall bs pos v rest pos', py_decode f TAny bs pos = Ok (v, rest, pos') -> item_decode itf bs = Ok (v, rest).
  Lemma items_agree : forall cnt r pos acc v rest pos',
    dec_items (py_decode f TAny) cnt r pos acc = Ok (v, rest, pos') ->
    item_items (item_decode itf) cnt r acc = Ok (v, rest).
  Proof.
    induction cnt as [|cnt IHc]; intros r pos acc v rest pos' H; cbn [dec_items item_items] in *.
    - injection H as <- <- _. reflexivity.
    - destruct (py_decode f TAny r pos) as [[[x r'] p']|] eqn:E; [|discriminate]. cbn [bind] in H.
      rewrite (IH _ _ _ _ _ E). cbn [bind]. apply (IHc _ _ _ _ _ _ H).
  Qed.
End item_loops.

Lemma item_decode_agrees_strong : forall n pf, (pf <= n)%nat -> forall bs pos v rest pos',
  py_decode pf TAny bs pos = Ok (v, rest, pos') -> forall itf, (pf <= itf)%nat -> item_decode itf bs = Ok (v, rest).
Proof.
  induction n as [|n IH]; intros pf Hn bs pos v rest pos' H itf Hle.
  { destruct pf; [discriminate|lia]. }
  destruct pf as [|f]; [discriminate|].
  destruct itf as [|g]; [lia|].
  unfold TAny in H. cbn [py_decode] in H. fold TAny in H.
  destruct (decode_item_header None bs) as [[[[r code] len_] hl]|] eqn:Hh; [|discriminate]. cbn [bind] in H.
  destruct (dkind_of_code code) as [d|] eqn:Hd; [|discriminate].
  destruct (negb (allowed_has anyvalue_types d)); [discriminate|].
  cbn [item_decode]. rewrite (header_same _ _ _ _ _ Hh). cbn [bind].
  destruct d as [|k].
  - (* a list: Array(ANYVALUE) one level down *)
    destruct f as [|f']; [discriminate|]. cbn [py_decode] in H.
    destruct (decode_item_header (Some fc_Array) bs) as [x|] eqn:E; [|discriminate].
    destruct (header_some_none _ _ _ E) as [E1 E2]. rewrite Hh in E1. injection E1 as <-. cbn [bind] in H. subst code.
    rewrite cls_of_code_list.
    destruct (N.of_nat (length r) <? len_) eqn:G; [discriminate|]. unfold nlen. rewrite G.
    apply (items_agree f' g) with (pos := pos + hl) (pos' := pos'); [|exact H].
    intros bs' p' v' r' p'' H'. apply (IH f' ltac:(lia) bs' p' v' r' p'' H'). lia.
  - destruct (scal_agree k bs pos v rest pos' r code len_ hl Hh H) as [Hc Hs]. subst code.
    rewrite cls_of_code_kind. destruct k; exact Hs.
Qed.

Theorem item_decode_agrees : forall pf bs pos v rest pos',
  py_decode pf TAny bs pos = Ok (v, rest, pos') -> forall itf, (pf <= itf)%nat -> item_decode itf bs = Ok (v, rest).
Proof. intros pf. apply (item_decode_agrees_strong pf pf). lia. Qed.

Lemma embed_item_like : forall i, item_like (embed i TAny) = true.
Proof.
  induction i as [l IH|l|l|l|l|w l|w l|l|l] using e5item_ind'; try reflexivity; try (destruct w; reflexivity).
  cbn [embed TAny]. unfold TAny. cbn [embed item_like]. fold TAny. rewrite forallb_forall. intros x Hx.
  apply in_map_iff in Hx as (y & <- & Hy). rewrite Forall_forall in IH. apply IH. exact Hy.
Qed.

(* C14: Item.decode of anything the reference decoder accepts (JIS-8 aside, finite floats) *)
Theorem item_decode_valid : forall F bs i rest, bytes bs -> e5_decode F bs = Some (i, rest) -> admits i TAny = true ->
  forall fuel, (2 * F <= fuel)%nat ->
  item_decode fuel bs = Ok (embed i TAny, rest) /\ item_encode (embed i TAny) = Ok (e5_encode i).
Proof.
  intros F bs i rest Hb H Ha fuel Hf. split.
  - apply (item_decode_agrees fuel bs 0 (embed i TAny) rest (0 + (nlen bs - nlen rest))); [|lia].
    apply (decode_sim F bs i rest Hb H fuel TAny 0 Hf Ha).
  - rewrite item_encode_eq by apply embed_item_like. apply (reencode_canonical F bs i rest TAny Hb H Ha).
Qed.

(* C14: both APIs give E5 bytes *)
Theorem item_encode_exact : forall v i, item_like v = true -> denote v = Some i -> e5_wf i = true ->
  item_encode v = Ok (e5_encode i) /\ py_encode v = Ok (e5_encode i).
Proof. intros v i Hl Hd Hw. rewrite item_encode_eq by exact Hl. split; apply encode_exact; assumption. Qed.

(* C14: from_value picks the narrowest standard integer type, unsigned for non-negative values *)
Definition kind_of_e5num (n : e5num) : num_kind :=
  match n with
  | NU W1 => U1 | NU W2 => U2 | NU W4 => U4 | NU W8 => U8
  | NI W1 => I1 | NI W2 => I2 | NI W4 => I4 | NI W8 => I8
  end.

Theorem from_value_narrowest : forall z,
  from_value (PInt z) = match e5_narrowest z with Some n => Ok (VNum (kind_of_e5num n) [z]) | None => Err EValue end.
Proof.
  intro z. unfold from_value, e5_narrowest, from_value_unsigned, from_value_signed.
  change (2^8)%Z with 256%Z. change (2^16)%Z with 65536%Z. change (2^32)%Z with 4294967296%Z.
  change (2^64)%Z with 18446744073709551616%Z. change (2^7)%Z with 128%Z. change (2^15)%Z with 32768%Z.
  change (2^31)%Z with 2147483648%Z. change (2^63)%Z with 9223372036854775808%Z.
  destruct (Z.leb_spec 0 z); cbn [first_int]; unfold in_bounds; cbn [item_min_int item_max_int];
    repeat match goal with
           | |- context [(?a <=? ?b)%Z] => destruct (Z.leb_spec a b); cbn [andb]
           | |- context [(?a <? ?b)%Z] => destruct (Z.ltb_spec a b)
           end; try lia; reflexivity.
Qed.
