(* Proofs/FramesProofs.v — C16 (SECS-I header/block/split/reassembly/corruption) and the frame part of C04 (HSMS). *)
From SG Require Import Base.Prelude Base.Kinds Gen.ProtoConsts Spec.E4E37Frames Model.Secs2 Model.Frames.
From SG Require Import Proofs.BytesProofs Proofs.Secs2Enc Proofs.Secs2Dec.
From Coq Require Import Lia ZifyBool ZifyN ZifyNat.
Ltac Zify.zify_post_hook ::= Z.div_mod_to_equations.
Open Scope N_scope.

(* ---------- generated constants ---------- *)
Lemma gen_secsi :
  secsi_header_format_enc = [SC_H; SC_B; SC_B; SC_H; SC_L] /\ secsi_header_format_dec = [SC_H; SC_B; SC_B; SC_H; SC_L] /\
  secsi_length_format = [SC_B] /\ secsi_checksum_format = [SC_H] /\ secsi_block_size = 244%Z /\ secsi_header_length = 10%nat.
Proof. repeat split; reflexivity. Qed.
Lemma gen_hsms :
  hsms_header_format_enc = [SC_H; SC_B; SC_B; SC_B; SC_B; SC_L] /\ hsms_header_format_dec = [SC_H; SC_B; SC_B; SC_B; SC_B; SC_L] /\
  hsms_length_format = [SC_L] /\ hsms_checksum_format = [] /\ hsms_block_size = (-1)%Z /\ hsms_header_length = 10%nat /\
  map snd hsms_stypes = [0;1;2;3;4;5;6;7;9].
Proof. repeat split; reflexivity. Qed.

(* ---------- bit operations on the flag bits ---------- *)
Lemma land_pow2_small n k : n < 2^k -> N.land n (2^k) = 0.
Proof.
  intro H. apply N.bits_inj. intro i. rewrite N.land_spec, N.pow2_bits_eqb, N.bits_0.
  destruct (N.eqb_spec k i) as [<-|_]; [|apply andb_false_r].
  rewrite andb_true_r. apply N.testbit_false. rewrite N.div_small by assumption. reflexivity.
Qed.
Lemma lor_pow2 n k : n < 2^k -> N.lor n (2^k) = n + 2^k.
Proof.
  intro H. pose proof (land_pow2_small n k H) as L.
  rewrite <- (N.lxor_lor _ _ L). symmetry. apply N.add_nocarry_lxor. exact L.
Qed.
Lemma flag_bit x k : N.shiftr (N.land x (2^k)) k = (x / 2^k) mod 2.
Proof.
  apply N.bits_inj; intro n.
  rewrite N.shiftr_spec by lia. rewrite N.land_spec, N.pow2_bits_eqb.
  change 2 with (2^1) at 2. rewrite <- N.shiftr_div_pow2, <- N.land_ones, N.land_spec, N.shiftr_spec by lia.
  change (N.ones 1) with (2^0). rewrite N.pow2_bits_eqb.
  destruct (N.eqb_spec k (n + k)), (N.eqb_spec 0 n); try lia; subst; rewrite ?andb_true_r, ?andb_false_r; try reflexivity.
Qed.
Lemma low_bits x k : N.land x (N.ones k) = x mod 2^k.
Proof. apply N.land_ones. Qed.

(* Z versions for non-negative values *)
Lemma inj_lor a b : Z.of_N (N.lor a b) = Z.lor (Z.of_N a) (Z.of_N b).
Proof. destruct a, b; reflexivity. Qed.
Lemma inj_land a b : Z.of_N (N.land a b) = Z.land (Z.of_N a) (Z.of_N b).
Proof. destruct a, b; reflexivity. Qed.
Lemma inj_shiftr a k : Z.of_N (N.shiftr a k) = Z.shiftr (Z.of_N a) (Z.of_N k).
Proof.
  rewrite Z.shiftr_div_pow2 by lia. rewrite N.shiftr_div_pow2, N2Z.inj_div, N2Z.inj_pow. reflexivity.
Qed.
Lemma zlor_flag (d : N) k : d < 2^k -> Z.lor (Z.of_N d) (Z.of_N (2^k)) = Z.of_N (d + 2^k).
Proof. intro H. rewrite <- inj_lor, lor_pow2 by assumption. reflexivity. Qed.
Lemma zland_low (r : N) k : Z.land (Z.of_N r) (Z.of_N (N.ones k)) = Z.of_N (r mod 2^k).
Proof. rewrite <- inj_land, low_bits. reflexivity. Qed.
Lemma zflag (r : N) (k : N) : Z.shiftr (Z.land (Z.of_N r) (Z.of_N (2^k))) (Z.of_N k) = Z.of_N ((r / 2^k) mod 2).
Proof. rewrite <- inj_land, <- inj_shiftr, flag_bit. reflexivity. Qed.

(* ---------- struct packing of the header words ---------- *)
Lemma pack_H z : (0 <= z < 65536)%Z -> pack_int SC_H z = Ok (be 2 (Z.to_N z)).
Proof. intro H. apply (pack_int_unsigned SC_H 2%nat z); try reflexivity; try discriminate. exact H. Qed.
Lemma pack_B z : (0 <= z < 256)%Z -> pack_int SC_B z = Ok (be 1 (Z.to_N z)).
Proof. intro H. apply (pack_int_unsigned SC_B 1%nat z); try reflexivity; try discriminate. exact H. Qed.
Lemma pack_L z : (0 <= z < 4294967296)%Z -> pack_int SC_L z = Ok (be 4 (Z.to_N z)).
Proof. intro H. apply (pack_int_unsigned SC_L 4%nat z); try reflexivity; try discriminate. exact H. Qed.

Lemma be2_flag (f : bool) d : d < 2^15 ->
  be 2 (d + (if f then 2^15 else 0)) = [bit f + d / 256; d mod 256].
Proof.
  intro H. rewrite be_2. change (2^15) with 32768 in *. unfold bit.
  assert (Hq : d / 256 < 128) by (apply N.div_lt_upper_bound; lia).
  destruct f.
  - change 32768 with (128 * 256). rewrite N.div_add by lia. rewrite N.mod_add by lia.
    rewrite N.mod_small by lia. f_equal. lia.
  - rewrite !N.add_0_r. rewrite (N.mod_small (d / 256)) by lia. reflexivity.
Qed.

Definition hdr_fields_ok (h : shdr) : Prop :=
  (0 <= s_device h < 32768)%Z /\ (0 <= s_stream h < 128)%Z /\ (0 <= s_function h < 256)%Z /\
  (0 <= s_block h < 32768)%Z /\ (0 <= s_system h < 4294967296)%Z.

(* reading the spec-side header of a model header *)
Definition to_e4 (h : shdr) : e4hdr :=
  {| e4_r := s_r h; e4_device := Z.to_N (s_device h); e4_w := s_w h; e4_stream := Z.to_N (s_stream h);
     e4_function := Z.to_N (s_function h); e4_e := s_e h; e4_blockno := Z.to_N (s_block h); e4_system := Z.to_N (s_system h) |}.

Theorem shdr_encode_exact h : hdr_fields_ok h -> shdr_encode h = Ok (e4_header_bytes (to_e4 h)).
Proof.
  intros (Hd & Hs & Hf & Hb & Hy). destruct gen_secsi as (Fe & _).
  unfold shdr_encode. rewrite Fe. cbn [pack_fields].
  assert (Ed : (if s_r h then Z.lor (s_device h) 32768 else s_device h) = Z.of_N (Z.to_N (s_device h) + (if s_r h then 2^15 else 0))).
  { destruct (s_r h); [|lia]. rewrite <- (Z2N.id (s_device h)) at 1 by lia. change 32768%Z with (Z.of_N (2^15)).
    rewrite zlor_flag; [reflexivity|]. change (2^15) with 32768. lia. }
  assert (Eb : (if s_e h then Z.lor (s_block h) 32768 else s_block h) = Z.of_N (Z.to_N (s_block h) + (if s_e h then 2^15 else 0))).
  { destruct (s_e h); [|lia]. rewrite <- (Z2N.id (s_block h)) at 1 by lia. change 32768%Z with (Z.of_N (2^15)).
    rewrite zlor_flag; [reflexivity|]. change (2^15) with 32768. lia. }
  assert (Es : (if s_w h then Z.lor (s_stream h) 128 else s_stream h) = Z.of_N (Z.to_N (s_stream h) + (if s_w h then 2^7 else 0))).
  { destruct (s_w h); [|lia]. rewrite <- (Z2N.id (s_stream h)) at 1 by lia. change 128%Z with (Z.of_N (2^7)).
    rewrite zlor_flag; [reflexivity|]. change (2^7) with 128. lia. }
  rewrite Ed, Eb, Es.
  rewrite pack_H by (change (2^15) with 32768; destruct (s_r h); lia). cbn [bind].
  rewrite pack_B by (change (2^7) with 128; destruct (s_w h); lia). cbn [bind].
  rewrite pack_B by lia. cbn [bind].
  rewrite pack_H by (change (2^15) with 32768; destruct (s_e h); lia). cbn [bind].
  rewrite pack_L by lia. cbn [bind].
  rewrite !N2Z.id. rewrite !be2_flag by (change (2^15) with 32768; lia).
  unfold e4_header_bytes, to_e4. cbn [e4_r e4_device e4_w e4_stream e4_function e4_e e4_blockno e4_system app].
  rewrite !be_1, app_nil_r. cbn [app].
  assert (Hs1 : (Z.to_N (s_stream h) + (if s_w h then 2^7 else 0)) mod 256 = bit (s_w h) + Z.to_N (s_stream h)).
  { unfold bit. change (2^7) with 128. destruct (s_w h); rewrite N.mod_small; lia. }
  rewrite Hs1. rewrite (N.mod_small (Z.to_N (s_function h))) by lia. reflexivity.
Qed.

(* ---------- decoding ten arbitrary header bytes ---------- *)
Definition flagb (x p : N) : bool := (Z.of_N ((x / p) mod 2) =? 1)%Z.

Lemma shdr_decode_10 b0 b1 b2 b3 b4 b5 b6 b7 b8 b9 :
  shdr_decode [b0;b1;b2;b3;b4;b5;b6;b7;b8;b9] =
  Ok {| s_system := Z.of_N (be_val [b6;b7;b8;b9] 0);
        s_device := Z.of_N ((b0 * 256 + b1) mod 32768); s_stream := Z.of_N (b2 mod 128); s_function := Z.of_N b3;
        s_block := Z.of_N ((b4 * 256 + b5) mod 32768);
        s_r := flagb (b0 * 256 + b1) 32768; s_w := flagb b2 128; s_e := flagb (b4 * 256 + b5) 32768 |}.
Proof.
  destruct gen_secsi as (_ & Fd & _). unfold shdr_decode. rewrite Fd.
  cbn [unpack_fields sc_bytes length Nat.ltb Nat.leb firstn skipn unpack_int sc_signed bind be_val].
  rewrite !N.mul_0_l, !N.add_0_l.
  change 32767%Z with (Z.of_N (N.ones 15)). change 127%Z with (Z.of_N (N.ones 7)).
  change 32768%Z with (Z.of_N (2^15)). change 128%Z with (Z.of_N (2^7)).
  change 15%Z with (Z.of_N 15). change 7%Z with (Z.of_N 7).
  rewrite !zland_low, !zflag. reflexivity.
Qed.

Lemma word_split b0 b1 : b0 < 256 -> b1 < 256 ->
  ((b0 * 256 + b1) mod 32768) / 256 = b0 mod 128 /\ ((b0 * 256 + b1) mod 32768) mod 256 = b1 /\
  ((b0 * 256 + b1) / 32768) mod 2 = b0 / 128.
Proof. intros H0 H1. repeat split; lia. Qed.

(* re-encoding a decoded header gives the same ten bytes back: the checksum covers the received bytes *)
Theorem shdr_reencode hb h : Forall (fun b => b < 256) hb -> length hb = 10%nat -> shdr_decode hb = Ok h -> shdr_encode h = Ok hb.
Proof.
  intros Hb Hl Hd.
  do 10 (destruct hb as [|? hb]; [discriminate Hl|]). destruct hb; [|discriminate Hl].
  repeat match goal with H : Forall _ (_ :: _) |- _ => inversion H; clear H; subst end.
  rewrite shdr_decode_10 in Hd. injection Hd as <-.
  match goal with |- shdr_encode ?h = _ => set (hh := h) end.
  destruct (word_split n n0) as (W1 & W2 & W3); try assumption.
  destruct (word_split n3 n4) as (V1 & V2 & V3); try assumption.
  assert (Hsys : be_val [n5; n6; n7; n8] 0 < 256 ^ N.of_nat 4).
  { apply (be_val_lt [n5; n6; n7; n8]). repeat constructor; assumption. }
  rewrite shdr_encode_exact.
  2:{ unfold hdr_fields_ok, hh. cbn [s_device s_stream s_function s_block s_system].
      change (256 ^ N.of_nat 4) with 4294967296 in Hsys. repeat split; lia. }
  f_equal. unfold e4_header_bytes, to_e4, hh.
  cbn [e4_r e4_device e4_w e4_stream e4_function e4_e e4_blockno e4_system s_r s_device s_w s_stream s_function s_e s_block s_system].
  rewrite !N2Z.id. rewrite W1, W2, V1, V2.
  assert (Ebe : be 4 (((n5 * 256 + n6) * 256 + n7) * 256 + n8) = [n5; n6; n7; n8]).
  { pose proof (be_be_val [n5; n6; n7; n8]) as B. cbn [length be_val] in B. rewrite !N.mul_0_l, !N.add_0_l in B.
    apply B. repeat constructor; assumption. }
  unfold flagb, bit. rewrite ?W3, ?V3.
  cbn [be_val] in *. rewrite ?N.mul_0_l, ?N.add_0_l. rewrite Ebe. cbn [app].
  assert (F : forall x, x < 256 -> (if (Z.of_N (x / 128) =? 1)%Z then 128 else 0) + x mod 128 = x).
  { intros x Hx. assert (x / 128 = 0 \/ x / 128 = 1) as [E|E] by lia; rewrite E; cbn [Z.of_N Z.eqb Pos.eqb]; lia. }
  assert (G : forall x, x < 256 -> (if (Z.of_N ((x / 128) mod 2) =? 1)%Z then 128 else 0) + x mod 128 = x).
  { intros x Hx. rewrite (N.mod_small (x / 128)) by lia. apply F. exact Hx. }
  rewrite !F, G by assumption. reflexivity.
Qed.

Lemma e4_header_bytes_props h : e4_hdr_ok h = true ->
  length (e4_header_bytes h) = 10%nat /\ Forall (fun b => b < 256) (e4_header_bytes h).
Proof.
  unfold e4_hdr_ok. change (2^15) with 32768. change (2^32) with 4294967296. intro H.
  split; [unfold e4_header_bytes; rewrite app_length, be_length; reflexivity|].
  unfold e4_header_bytes, bit. apply Forall_app. split; [|apply be_bytes].
  repeat constructor; destruct (e4_r h), (e4_w h), (e4_e h); lia.
Qed.

Theorem shdr_roundtrip h : hdr_fields_ok h -> shdr_decode (e4_header_bytes (to_e4 h)) = Ok h.
Proof.
  intros (Hd & Hs & Hf & Hb & Hy).
  unfold e4_header_bytes. cbn [app be]. rewrite shdr_decode_10.
  unfold to_e4. cbn [e4_r e4_device e4_w e4_stream e4_function e4_e e4_blockno e4_system].
  set (d := Z.to_N (s_device h)). set (st := Z.to_N (s_stream h)). set (bk := Z.to_N (s_block h)). set (sy := Z.to_N (s_system h)).
  assert (d < 32768 /\ st < 128 /\ bk < 32768 /\ sy < 4294967296) as (Rd & Rs & Rb & Ry) by (unfold d, st, bk, sy; lia).
  assert (Wd : (bit (s_r h) + d / 256) * 256 + d mod 256 = d + (if s_r h then 32768 else 0)) by (unfold bit; destruct (s_r h); lia).
  assert (Wb : (bit (s_e h) + bk / 256) * 256 + bk mod 256 = bk + (if s_e h then 32768 else 0)) by (unfold bit; destruct (s_e h); lia).
  rewrite Wd, Wb.
  assert (Esys : be_val [sy / 256 / 256 / 256 mod 256; sy / 256 / 256 mod 256; sy / 256 mod 256; sy mod 256] 0 = sy).
  { change [sy / 256 / 256 / 256 mod 256; sy / 256 / 256 mod 256; sy / 256 mod 256; sy mod 256] with (be 4 sy).
    apply be_val_be0. exact Ry. }
  rewrite Esys. destruct h as [sys dev str fn blk r w e]. cbn [s_system s_device s_stream s_function s_block s_r s_w s_e] in *.
  f_equal. unfold flagb, bit. f_equal.
  - unfold sy. lia.
  - destruct r; unfold d; lia.
  - destruct w; unfold st; lia.
  - lia.
  - destruct e; unfold bk; lia.
  - destruct r; [replace (((d + 32768) / 32768) mod 2) with 1 by lia|replace (((d + 0) / 32768) mod 2) with 0 by lia]; reflexivity.
  - destruct w; [replace (((128 + st) / 128) mod 2) with 1 by lia|replace (((0 + st) / 128) mod 2) with 0 by lia]; reflexivity.
  - destruct e; [replace (((bk + 32768) / 32768) mod 2) with 1 by lia|replace (((bk + 0) / 32768) mod 2) with 0 by lia]; reflexivity.
Qed.

(* ---------- SECS-I block ---------- *)
Lemma sum_app a b : sum (a ++ b) = sum a + sum b.
Proof. induction a as [|x a IH]; [reflexivity|]. change (sum ((x :: a) ++ b)) with (x + sum (a ++ b)). change (sum (x :: a)) with (x + sum a). lia. Qed.
Lemma Forall_firstn {A} (P : A -> Prop) n l : Forall P l -> Forall P (firstn n l).
Proof. intro H. rewrite <- (firstn_skipn n l) in H. apply Forall_app in H. tauto. Qed.
Lemma Forall_skipn {A} (P : A -> Prop) n l : Forall P l -> Forall P (skipn n l).
Proof. intro H. rewrite <- (firstn_skipn n l) in H. apply Forall_app in H. tauto. Qed.
Lemma sum_bound l : Forall (fun b => b < 256) l -> sum l <= 255 * N.of_nat (length l).
Proof. induction 1 as [|x l Hx Hl IH]; [cbn; lia|]. change (sum (x :: l)) with (x + sum l). cbn [length]. lia. Qed.
Lemma nsum_sum l : nsum l = Z.of_N (sum l). Proof. reflexivity. Qed.

Lemma shdr_decode_total hb : length hb = 10%nat -> exists h, shdr_decode hb = Ok h.
Proof.
  intro Hl. do 10 (destruct hb as [|? hb]; [discriminate Hl|]). destruct hb; [|discriminate Hl].
  rewrite shdr_decode_10. eexists; reflexivity.
Qed.

Lemma unpack_B1 l : unpack_fields [SC_B] [l] = Ok [Z.of_N l].
Proof. cbn. reflexivity. Qed.
Lemma unpack_H2 c1 c0 : unpack_fields [SC_H] [c1; c0] = Ok [Z.of_N (c1 * 256 + c0)].
Proof. cbn. reflexivity. Qed.

(* what Block.decode does with any frame  l :: body ++ [c1; c0]  whose body holds at least a header *)
Lemma sblock_decode_frame l body c1 c0 :
  Forall (fun b => b < 256) (l :: body ++ [c1; c0]) -> (10 <= length body)%nat ->
  exists h, shdr_decode (firstn 10 body) = Ok h /\
  sblock_decode (l :: body ++ [c1; c0]) =
    if l =? N.of_nat (length body) then
      (if sum body =? c1 * 256 + c0 then Ok (Some {| sb_hdr := h; sb_data := skipn 10 body |}) else Ok None)
    else Err EValue.
Proof.
  intros Hb Hlen. destruct gen_secsi as (_ & _ & Fl & Fc & _ & Fh).
  inversion Hb as [|? ? Hl Hrest]; subst. apply Forall_app in Hrest as [Hbody Hc].
  assert (Hf10 : length (firstn 10 body) = 10%nat) by (apply firstn_length_le; exact Hlen).
  destruct (shdr_decode_total _ Hf10) as [h Hh]. exists h. split; [exact Hh|].
  unfold sblock_decode. rewrite Fl, Fc, Fh. cbn [fmt_size fold_right sc_bytes Nat.add].
  change (firstn 1 (l :: body ++ [c1; c0])) with [l]. change (skipn 1 (l :: body ++ [c1; c0])) with (body ++ [c1; c0]).
  assert ((length (l :: body ++ [c1; c0]) <? 1)%nat = false) as -> by (apply Nat.ltb_ge; cbn [length]; lia).
  rewrite unpack_B1. cbn [bind].
  destruct (Z.ltb_spec (Z.of_N l - Z.of_nat 10) 0) as [Hneg|Hpos].
  { destruct (N.eqb_spec l (N.of_nat (length body))); [lia|reflexivity]. }
  cbn [length]. rewrite app_length. cbn [length].
  destruct (N.eqb_spec l (N.of_nat (length body))) as [El|El].
  2:{ match goal with |- (if negb ?c then _ else _) = _ => assert (c = false) as -> by lia end. reflexivity. }
  match goal with |- (if negb ?c then _ else _) = _ => assert (c = true) as -> by lia end. cbn [negb].
  replace (Z.to_nat (Z.of_N l - Z.of_nat 10)) with (length body - 10)%nat by lia.
  rewrite firstn_app. replace (10 - length body)%nat with O by lia. rewrite firstn_O, app_nil_r, Hh. cbn [bind].
  rewrite skipn_app. replace (10 - length body)%nat with O by lia. rewrite skipn_O.
  assert (Hsk : length (skipn 10 body) = (length body - 10)%nat) by apply skipn_length.
  rewrite <- Hsk. rewrite firstn_len_app, skipn_len_app.
  rewrite unpack_H2. cbn [bind].
  unfold sblock_checksum. cbn [sb_hdr sb_data].
  rewrite (shdr_reencode (firstn 10 body) h); [|apply Forall_firstn; exact Hbody|exact Hf10|exact Hh].
  cbn [bind]. rewrite firstn_skipn. rewrite nsum_sum.
  destruct (N.eqb_spec (sum body) (c1 * 256 + c0)) as [E|E].
  - assert ((Z.of_N (sum body) =? Z.of_N (c1 * 256 + c0))%Z = true) as -> by lia. reflexivity.
  - assert ((Z.of_N (sum body) =? Z.of_N (c1 * 256 + c0))%Z = false) as -> by lia. reflexivity.
Qed.

Theorem sblock_encode_exact h data :
  hdr_fields_ok h -> Forall (fun b => b < 256) data -> (length data <= 244)%nat ->
  sblock_encode {| sb_hdr := h; sb_data := data |} = Ok (e4_block (to_e4 h) data).
Proof.
  intros Hok Hd Hlen. destruct gen_secsi as (_ & _ & Fl & Fc & _ & Fh).
  assert (Hwf : e4_hdr_ok (to_e4 h) = true).
  { destruct Hok as (A & B & C & D & E). unfold e4_hdr_ok, to_e4. cbn [e4_device e4_stream e4_function e4_blockno e4_system].
    change (2^15) with 32768. change (2^32) with 4294967296. lia. }
  destruct (e4_header_bytes_props _ Hwf) as [Hl10 Hhb].
  unfold sblock_encode, sblock_checksum. cbn [sb_hdr sb_data]. rewrite shdr_encode_exact by exact Hok. cbn [bind].
  rewrite Fl, Fc, Fh. cbn [pack_fields].
  assert (Hs : sum (e4_header_bytes (to_e4 h) ++ data) <= 255 * 254).
  { pose proof (sum_bound (e4_header_bytes (to_e4 h) ++ data)) as B. rewrite app_length, Hl10 in B.
    assert (Forall (fun b => b < 256) (e4_header_bytes (to_e4 h) ++ data)) as F by (apply Forall_app; split; assumption).
    specialize (B F). lia. }
  rewrite pack_B by lia. cbn [bind]. rewrite nsum_sum. rewrite pack_H by lia. cbn [bind]. rewrite N2Z.id.
  rewrite firstn_app, Hl10, Nat.sub_diag, firstn_O, app_nil_r, firstn_all2 by lia.
  unfold e4_block. rewrite be_1. rewrite !app_nil_r. cbn [app]. f_equal. f_equal.
  rewrite N.mod_small by lia. lia.
Qed.

Lemma be2_word c : c < 65536 -> exists c1 c0, be 2 c = [c1; c0] /\ c1 < 256 /\ c0 < 256 /\ c1 * 256 + c0 = c.
Proof. intro H. exists ((c / 256) mod 256), (c mod 256). rewrite be_2. repeat split; lia. Qed.

Theorem sblock_roundtrip h data :
  hdr_fields_ok h -> Forall (fun b => b < 256) data -> (length data <= 244)%nat ->
  sblock_decode (e4_block (to_e4 h) data) = Ok (Some {| sb_hdr := h; sb_data := data |}).
Proof.
  intros Hok Hd Hlen.
  assert (Hwf : e4_hdr_ok (to_e4 h) = true).
  { destruct Hok as (A & B & C & D & E). unfold e4_hdr_ok, to_e4. cbn [e4_device e4_stream e4_function e4_blockno e4_system].
    change (2^15) with 32768. change (2^32) with 4294967296. lia. }
  destruct (e4_header_bytes_props _ Hwf) as [Hl10 Hhb].
  set (hb := e4_header_bytes (to_e4 h)) in *.
  assert (Hbody : Forall (fun b => b < 256) (hb ++ data)) by (apply Forall_app; split; assumption).
  assert (Hs : sum (hb ++ data) < 65536).
  { pose proof (sum_bound _ Hbody) as B. rewrite app_length, Hl10 in B. lia. }
  destruct (be2_word _ Hs) as (c1 & c0 & Ebe & H1 & H0 & Ec).
  unfold e4_block. fold hb. cbn zeta. rewrite Ebe. cbn [app].
  replace (hb ++ data ++ [c1; c0]) with ((hb ++ data) ++ [c1; c0]) by (rewrite app_assoc; reflexivity).
  destruct (sblock_decode_frame (10 + N.of_nat (length data)) (hb ++ data) c1 c0) as (h' & Hh' & ->).
  - constructor; [lia|]. apply Forall_app. split; [exact Hbody|repeat constructor; assumption].
  - rewrite app_length, Hl10. lia.
  - rewrite app_length, Hl10. assert (10 + N.of_nat (length data) =? N.of_nat (10 + length data) = true) as -> by lia.
    assert (sum (hb ++ data) =? c1 * 256 + c0 = true) as -> by lia.
    rewrite firstn_app, Hl10, Nat.sub_diag, firstn_O, app_nil_r, firstn_all2 in Hh' by lia.
    unfold hb in Hh'. rewrite shdr_roundtrip in Hh' by exact Hok. injection Hh' as <-.
    rewrite skipn_app, Hl10, Nat.sub_diag, skipn_O, skipn_all2 by lia. reflexivity.
Qed.

(* ---------- corruption: one altered byte is never accepted ---------- *)
Fixpoint replace_nth {A} (n : nat) (x : A) (l : list A) : list A :=
  match l, n with [], _ => [] | _ :: r, O => x :: r | y :: r, S k => y :: replace_nth k x r end.

Lemma replace_nth_length {A} n (x : A) l : length (replace_nth n x l) = length l.
Proof. revert n; induction l as [|y l IH]; intros [|n]; cbn; try reflexivity. rewrite IH. reflexivity. Qed.
Lemma replace_nth_app_l {A} n (x : A) a b : (n < length a)%nat -> replace_nth n x (a ++ b) = replace_nth n x a ++ b.
Proof. revert n; induction a as [|y a IH]; intros [|n] H; cbn in *; try lia; [reflexivity|]. rewrite IH by lia. reflexivity. Qed.
Lemma replace_nth_app_r {A} n (x : A) a b : (length a <= n)%nat -> replace_nth n x (a ++ b) = a ++ replace_nth (n - length a) x b.
Proof. revert n; induction a as [|y a IH]; intros n H; cbn in *; [rewrite Nat.sub_0_r; reflexivity|]. destruct n; [lia|]. cbn. rewrite IH by lia. reflexivity. Qed.
Lemma replace_nth_sum n x l old : nth_error l n = Some old -> sum (replace_nth n x l) + old = sum l + x.
Proof.
  revert n; induction l as [|y l IH]; intros [|n] H; cbn in H; try discriminate.
  - injection H as ->. cbn [replace_nth]. change (sum (x :: l)) with (x + sum l). change (sum (old :: l)) with (old + sum l). lia.
  - cbn [replace_nth]. change (sum (y :: replace_nth n x l)) with (y + sum (replace_nth n x l)). change (sum (y :: l)) with (y + sum l).
    specialize (IH n H). lia.
Qed.
Lemma replace_nth_bytes n x l : x < 256 -> Forall (fun b => b < 256) l -> Forall (fun b => b < 256) (replace_nth n x l).
Proof. intros Hx H. revert n; induction H as [|y l Hy Hl IH]; intros [|n]; cbn; constructor; auto. Qed.

Theorem corruption_detected h data pos old nb :
  hdr_fields_ok h -> Forall (fun b => b < 256) data -> (length data <= 244)%nat ->
  nth_error (e4_block (to_e4 h) data) pos = Some old -> nb < 256 -> nb <> old ->
  forall b, sblock_decode (replace_nth pos nb (e4_block (to_e4 h) data)) <> Ok (Some b).
Proof.
  intros Hok Hd Hlen Hnth Hnb Hne b.
  assert (Hwf : e4_hdr_ok (to_e4 h) = true).
  { destruct Hok as (A & B & C & D & E). unfold e4_hdr_ok, to_e4. cbn [e4_device e4_stream e4_function e4_blockno e4_system].
    change (2^15) with 32768. change (2^32) with 4294967296. lia. }
  destruct (e4_header_bytes_props _ Hwf) as [Hl10 Hhb].
  set (hb := e4_header_bytes (to_e4 h)) in *.
  assert (Hbody : Forall (fun b => b < 256) (hb ++ data)) by (apply Forall_app; split; assumption).
  assert (Hblen : length (hb ++ data) = (10 + length data)%nat) by (rewrite app_length, Hl10; reflexivity).
  assert (Hs : sum (hb ++ data) < 65536).
  { pose proof (sum_bound _ Hbody) as B. rewrite Hblen in B. lia. }
  destruct (be2_word _ Hs) as (c1 & c0 & Ebe & H1 & H0 & Ec).
  unfold e4_block in Hnth |- *. fold hb in Hnth |- *. cbn zeta in Hnth |- *. rewrite Ebe in Hnth |- *. cbn [app] in Hnth |- *.
  replace (hb ++ data ++ [c1; c0]) with ((hb ++ data) ++ [c1; c0]) in Hnth |- * by (rewrite app_assoc; reflexivity).
  set (body := hb ++ data) in *.
  destruct pos as [|pos]; cbn [replace_nth nth_error] in Hnth |- *.
  - (* the length byte *)
    assert (old = 10 + N.of_nat (length data)) as -> by congruence.
    destruct (sblock_decode_frame nb body c1 c0) as (h' & _ & ->).
    + constructor; [exact Hnb|]. apply Forall_app. split; [exact Hbody|repeat constructor; assumption].
    + lia.
    + destruct (N.eqb_spec nb (N.of_nat (length body))); [lia|discriminate].
  - destruct (Nat.lt_ge_cases pos (length body)) as [Hin|Hout].
    + (* a header or data byte *)
      rewrite nth_error_app1 in Hnth by exact Hin.
      rewrite replace_nth_app_l by exact Hin.
      pose proof (replace_nth_sum pos nb body old Hnth) as Hsum.
      destruct (sblock_decode_frame (10 + N.of_nat (length data)) (replace_nth pos nb body) c1 c0) as (h' & _ & ->).
      * constructor; [lia|]. apply Forall_app. split; [apply replace_nth_bytes; assumption|repeat constructor; assumption].
      * rewrite replace_nth_length. lia.
      * rewrite replace_nth_length.
        assert (Hold : old < 256). { apply nth_error_In in Hnth. unfold body in Hnth. rewrite Forall_forall in Hbody. auto. }
        destruct (10 + N.of_nat (length data) =? N.of_nat (length body)); [|discriminate].
        destruct (N.eqb_spec (sum (replace_nth pos nb body)) (c1 * 256 + c0)); [lia|discriminate].
    + (* a checksum byte *)
      rewrite nth_error_app2 in Hnth by exact Hout. rewrite replace_nth_app_r by exact Hout.
      remember (pos - length body)%nat as k eqn:Hk.
      destruct k as [|[|k]]; cbn [nth_error replace_nth] in Hnth |- *; try (destruct k; discriminate Hnth).
      * assert (old = c1) as -> by congruence.
        destruct (sblock_decode_frame (10 + N.of_nat (length data)) body nb c0) as (h' & _ & ->).
        -- constructor; [lia|]. apply Forall_app. split; [exact Hbody|repeat constructor; assumption].
        -- lia.
        -- destruct (10 + N.of_nat (length data) =? N.of_nat (length body)); [|discriminate].
           destruct (N.eqb_spec (sum body) (nb * 256 + c0)); [lia|discriminate].
      * assert (old = c0) as -> by congruence.
        destruct (sblock_decode_frame (10 + N.of_nat (length data)) body c1 nb) as (h' & _ & ->).
        -- constructor; [lia|]. apply Forall_app. split; [exact Hbody|repeat constructor; assumption].
        -- lia.
        -- destruct (10 + N.of_nat (length data) =? N.of_nat (length body)); [|discriminate].
           destruct (N.eqb_spec (sum body) (c1 * 256 + nb)); [lia|discriminate].
Qed.

(* ---------- Message._split_blocks ---------- *)
Lemma chunk_concat size : (0 < size)%nat -> forall fuel l, (length l <= fuel)%nat -> List.concat (chunk size fuel l) = l.
Proof.
  intro Hs. induction fuel as [|f IH]; intros l Hl.
  - destruct l; [reflexivity|cbn in Hl; lia].
  - cbn [chunk]. destruct l as [|x l]; [reflexivity|].
    cbn [List.concat]. rewrite IH.
    + apply firstn_skipn.
    + rewrite skipn_length. cbn [length] in *. lia.
Qed.
Lemma chunk_sizes size fuel l : Forall (fun c => (length c <= size)%nat) (chunk size fuel l).
Proof.
  revert l; induction fuel as [|f IH]; intro l; cbn [chunk]; [constructor|].
  destruct l as [|x l]; [constructor|]. constructor; [apply firstn_le_length|apply IH].
Qed.

Lemma number_blocks_data h c idx total cs : map sb_data (number_blocks h c idx total cs) = cs.
Proof. revert idx; induction cs as [|x cs IH]; intro idx; cbn; [reflexivity|]. rewrite IH. reflexivity. Qed.
Lemma number_blocks_length h c idx total cs : length (number_blocks h c idx total cs) = length cs.
Proof. rewrite <- (number_blocks_data h c idx total cs) at 2. rewrite map_length. reflexivity. Qed.
Lemma number_blocks_nth h idx total cs : forall i b, nth_error (number_blocks h true idx total cs) i = Some b ->
  sb_hdr b = with_block h (idx + Z.of_nat i + 1) (idx + Z.of_nat i + 1 =? total)%Z.
Proof.
  revert idx; induction cs as [|x cs IH]; intros idx i b H; [destruct i; discriminate H|].
  destruct i as [|i]; cbn [number_blocks nth_error] in H.
  - injection H as <-. cbn [sb_hdr]. replace (idx + Z.of_nat 0 + 1)%Z with (idx + 1)%Z by lia. reflexivity.
  - rewrite (IH _ _ _ H). f_equal; [lia|f_equal; lia].
Qed.

Theorem split_spec h data :
  let bl := split_blocks data h true in
  List.concat (map sb_data bl) = data /\ (1 <= length bl)%nat /\
  Forall (fun b => (length (sb_data b) <= 244)%nat) bl /\
  (forall i b, nth_error bl i = Some b ->
     sb_hdr b = with_block h (Z.of_nat i + 1) (Z.of_nat i + 1 =? Z.of_nat (length bl))%Z).
Proof.
  destruct gen_secsi as (_ & _ & _ & _ & Fs & _).
  cbv zeta. unfold split_blocks. rewrite Fs. cbn [Z.eqb]. change (Z.to_nat 244) with 244%nat.
  set (cs := match data with [] => [[]] | _ :: _ => chunk 244 (length data) data end).
  assert (Hcat : List.concat cs = data).
  { unfold cs. destruct data as [|x d]; [reflexivity|]. apply chunk_concat; lia. }
  assert (Hne : (1 <= length cs)%nat).
  { unfold cs. destruct data as [|x d]; [cbn; lia|]. cbn [length chunk]. lia. }
  assert (Hsz : Forall (fun c => (length c <= 244)%nat) cs).
  { unfold cs. destruct data as [|x d]; [repeat constructor; cbn; lia|]. apply chunk_sizes. }
  split; [rewrite number_blocks_data; exact Hcat|]. split; [rewrite number_blocks_length; exact Hne|]. split.
  - rewrite Forall_forall. intros b Hb. rewrite Forall_forall in Hsz. apply Hsz.
    rewrite <- (number_blocks_data h true 0 (Z.of_nat (length cs)) cs). apply in_map. exact Hb.
  - intros i b Hi. rewrite number_blocks_length. rewrite (number_blocks_nth _ _ _ _ _ _ Hi). f_equal.
Qed.

(* ---------- reassembly: what happens to one system id is independent of the others ---------- *)
Lemma lookup_set_same k v s : rs_lookup k (rs_set k v s) = Some v.
Proof. induction s as [|[k' v'] s IH]; cbn; [rewrite Z.eqb_refl; reflexivity|]. destruct (Z.eqb_spec k k'); cbn; [rewrite Z.eqb_refl; reflexivity|]. destruct (Z.eqb_spec k k'); [contradiction|exact IH]. Qed.
Lemma lookup_set_other k k' v s : k <> k' -> rs_lookup k (rs_set k' v s) = rs_lookup k s.
Proof.
  intro H. induction s as [|[k2 v2] s IH]; cbn.
  - destruct (Z.eqb_spec k k'); [contradiction|reflexivity].
  - destruct (Z.eqb_spec k' k2); cbn.
    + subst. destruct (Z.eqb_spec k k2); [contradiction|reflexivity].
    + destruct (Z.eqb_spec k k2); [reflexivity|exact IH].
Qed.
Lemma lookup_del_same k s : rs_lookup k (rs_del k s) = None.
Proof. induction s as [|[k' v'] s IH]; cbn; [reflexivity|]. destruct (Z.eqb_spec k k'); [exact IH|]. cbn. destruct (Z.eqb_spec k k'); [contradiction|exact IH]. Qed.
Lemma lookup_del_other k k' s : k <> k' -> rs_lookup k (rs_del k' s) = rs_lookup k s.
Proof.
  intro H. induction s as [|[k2 v2] s IH]; cbn; [reflexivity|].
  destruct (Z.eqb_spec k' k2).
  - subst. destruct (Z.eqb_spec k k2); [contradiction|exact IH].
  - cbn. destruct (Z.eqb_spec k k2); [reflexivity|exact IH].
Qed.

(* the step seen from one system id *)
Definition step_k (cur : option (list sblock)) (b : sblock) : option (list sblock) * option (shdr * list N) :=
  let bl := match cur with
            | None => split_blocks (sb_data b) (sb_hdr b) false
            | Some old => if starts_message b then split_blocks (sb_data b) (sb_hdr b) false else old ++ [b]
            end in
  match msg_header bl with
  | Some h => if s_e h then (None, Some (h, msg_data bl)) else (Some bl, None)
  | None => (Some bl, None)
  end.

Lemma add_block_local s b k :
  let '(s', out) := add_block s b in
  if (msg_key (sb_hdr b) =? k)%Z
  then rs_lookup k s' = fst (step_k (rs_lookup k s) b) /\ out = snd (step_k (rs_lookup k s) b)
  else rs_lookup k s' = rs_lookup k s.
Proof.
  unfold add_block, step_k. set (kb := msg_key (sb_hdr b)).
  set (bl := match rs_lookup kb s with
             | None => split_blocks (sb_data b) (sb_hdr b) false
             | Some old => if starts_message b then split_blocks (sb_data b) (sb_hdr b) false else old ++ [b]
             end).
  destruct (Z.eqb_spec kb k) as [<-|Hne].
  - fold bl. destruct (msg_header bl) as [h|]; [destruct (s_e h)|]; cbn [fst snd]; split; try reflexivity.
    + apply lookup_del_same.
    + apply lookup_set_same.
    + apply lookup_set_same.
  - destruct (msg_header bl) as [h|]; [destruct (s_e h)|].
    + rewrite lookup_del_other, lookup_set_other by congruence. reflexivity.
    + rewrite lookup_set_other by congruence. reflexivity.
    + rewrite lookup_set_other by congruence. reflexivity.
Qed.

(* feeding a trace of blocks *)
Fixpoint feed (s : rstate) (tr : list sblock) : rstate * list (option (shdr * list N)) :=
  match tr with
  | [] => (s, [])
  | b :: r => let '(s1, o) := add_block s b in let '(s2, os) := feed s1 r in (s2, o :: os)
  end.
Fixpoint feed_k (cur : option (list sblock)) (tr : list sblock) : option (list sblock) * list (option (shdr * list N)) :=
  match tr with
  | [] => (cur, [])
  | b :: r => let '(c1, o) := step_k cur b in let '(c2, os) := feed_k c1 r in (c2, o :: os)
  end.

(* outputs produced at the positions of blocks carrying system id k *)
Fixpoint outs_of (k : Z) (tr : list sblock) (os : list (option (shdr * list N))) : list (option (shdr * list N)) :=
  match tr, os with
  | b :: r, o :: os' => if (msg_key (sb_hdr b) =? k)%Z then o :: outs_of k r os' else outs_of k r os'
  | _, _ => []
  end.

Theorem reassembly_local k : forall tr s,
  let '(s', os) := feed s tr in
  let '(c', os_k) := feed_k (rs_lookup k s) (filter (fun b => (msg_key (sb_hdr b) =? k)%Z) tr) in
  rs_lookup k s' = c' /\ outs_of k tr os = os_k.
Proof.
  induction tr as [|b tr IH]; intro s; cbn [feed filter feed_k outs_of]; [split; reflexivity|].
  pose proof (add_block_local s b k) as L. destruct (add_block s b) as [s1 o].
  specialize (IH s1). destruct (feed s1 tr) as [s2 os].
  destruct (msg_key (sb_hdr b) =? k)%Z eqn:E.
  - destruct L as [L1 L2]. cbn [feed_k outs_of]. destruct (step_k (rs_lookup k s) b) as [c1 o1]. cbn [fst snd] in L1, L2.
    rewrite L1 in IH. destruct (feed_k c1 _) as [c2 osk]. destruct IH as [I1 I2].
    split; [exact I1|]. rewrite L2, I2. reflexivity.
  - rewrite L in IH. destruct (feed_k (rs_lookup k s) _) as [c2 osk]. exact IH.
Qed.

(* ---------- one message, seen from its own system id ---------- *)
Lemma msg_header_snoc acc b : msg_header (acc ++ [b]) = Some (sb_hdr b).
Proof. unfold msg_header, last_block_of. rewrite map_app. cbn [map]. rewrite last_last. reflexivity. Qed.

Lemma resplit_first d1 h1 : (length d1 <= 244)%nat ->
  split_blocks d1 h1 false = [{| sb_hdr := with_block h1 1 (s_e h1); sb_data := d1 |}].
Proof.
  intro Hl. destruct gen_secsi as (_ & _ & _ & _ & Fs & _). unfold split_blocks. rewrite Fs. cbn [Z.eqb]. change (Z.to_nat 244) with 244%nat.
  destruct d1 as [|x d]; [reflexivity|].
  cbn [length chunk]. rewrite firstn_all2 by exact Hl. rewrite skipn_all2 by exact Hl.
  assert (chunk 244 (length d) [] = []) as -> by (destruct (length d); reflexivity). reflexivity.
Qed.

Lemma feed_k_tail d : forall rest acc, rest <> [] ->
  (forall i b, nth_error rest i = Some b -> s_e (sb_hdr b) = Nat.eqb (S i) (length rest)) ->
  Forall (fun b => starts_message b = false) rest ->
  feed_k (Some acc) rest =
  (None, repeat None (length rest - 1) ++ [Some (sb_hdr (last rest d), msg_data (acc ++ rest))]).
Proof.
  induction rest as [|b r IH]; intros acc Hne He Hst; [congruence|].
  inversion Hst as [|? ? Hb0 Hr0]; subst.
  cbn [feed_k]. unfold step_k. rewrite Hb0. rewrite msg_header_snoc.
  pose proof (He 0%nat b eq_refl) as Hb. cbn [length] in Hb.
  destruct r as [|b2 r].
  - cbn in Hb. rewrite Hb. cbn [feed_k length Nat.sub repeat app last]. reflexivity.
  - cbn in Hb. rewrite Hb.
    rewrite (IH (acc ++ [b])); [|discriminate|intros i x Hx; rewrite (He (S i) x Hx); reflexivity|exact Hr0].
    cbn [length Nat.sub]. rewrite Nat.sub_0_r. cbn [repeat app]. rewrite <- app_assoc. reflexivity.
Qed.

Theorem reassembly_single h data :
  let bl := split_blocks data h true in
  feed_k None bl = (None, repeat None (length bl - 1) ++ [Some (with_block h (Z.of_nat (length bl)) true, data)]).
Proof.
  cbv zeta. destruct (split_spec h data) as (Hcat & Hne & Hsz & Hhdr). set (bl := split_blocks data h true) in *.
  destruct bl as [|b1 rest] eqn:Ebl; [cbn in Hne; lia|].
  pose proof (Hhdr 0%nat b1 eq_refl) as H1. cbn [Z.of_nat Z.add] in H1.
  assert (Hs1 : (length (sb_data b1) <= 244)%nat) by (inversion Hsz; assumption).
  cbn [feed_k]. unfold step_k at 1. rewrite resplit_first by exact Hs1.
  unfold msg_header, last_block_of. cbn [map last sb_hdr with_block s_e]. rewrite H1. cbn [s_e with_block].
  destruct rest as [|b2 r].
  - cbn [length Z.of_nat Z.eqb Pos.eqb feed_k Nat.sub repeat app]. unfold msg_data. cbn [map List.concat sb_data].
    cbn [map List.concat] in Hcat. rewrite app_nil_r in *. rewrite Hcat. reflexivity.
  - assert (E : (1 =? Z.of_nat (length (b1 :: b2 :: r)))%Z = false) by (cbn [length]; lia). rewrite E.
    rewrite (feed_k_tail b1 (b2 :: r)); [|discriminate|intros i x Hx|].
    + assert (A : sb_hdr (last (b2 :: r) b1) = with_block h (Z.of_nat (length (b1 :: b2 :: r))) true).
      { assert (Hl : nth_error (b1 :: b2 :: r) (length (b2 :: r)) = Some (last (b2 :: r) b1)).
        { clear. revert b2. induction r as [|x r IH]; intro b2; [reflexivity|].
          specialize (IH x). cbn [length nth_error] in *. exact IH. }
        rewrite (Hhdr _ _ Hl). cbn [length]. f_equal; [lia|].
        assert ((Z.of_nat (S (length r)) + 1 =? Z.of_nat (S (S (length r))))%Z = true) as -> by lia. reflexivity. }
      assert (B : msg_data ([{| sb_hdr := with_block (with_block h 1 false) 1 false; sb_data := sb_data b1 |}] ++ b2 :: r) = data).
      { unfold msg_data. cbn [map List.concat sb_data app]. cbn [map List.concat] in Hcat. exact Hcat. }
      rewrite A, B. cbn [length Nat.sub]. rewrite Nat.sub_0_r. reflexivity.
    + pose proof (Hhdr (S i) x Hx) as Hx'. rewrite Hx'. cbn [s_e with_block length].
      destruct (Nat.eqb_spec (S i) (S (length r))); lia.
    + (* the blocks after the first are numbered from 2: none of them starts a message *)
      apply Forall_forall. intros x Hin. apply In_nth_error in Hin as [i Hi]. pose proof (Hhdr (S i) x Hi) as Hx'.
      unfold starts_message. rewrite Hx'. cbn [s_block with_block].
      destruct (Z.eqb_spec (Z.of_nat (S i) + 1) 0); [lia|]. destruct (Z.eqb_spec (Z.of_nat (S i) + 1) 1); [lia|]. reflexivity.
Qed.

(* an attempt that was never completed does not disturb the next one: whatever blocks are still kept for the system bytes,
   the blocks of a complete message are reassembled to exactly that message *)
Theorem reassembly_after_abandoned h data old :
  let bl := split_blocks data h true in
  feed_k (Some old) bl = feed_k None bl.
Proof.
  cbv zeta. destruct (split_spec h data) as (_ & Hne & _ & Hhdr). destruct (split_blocks data h true) as [|b1 rest]; [cbn in Hne; lia|].
  pose proof (Hhdr 0%nat b1 eq_refl) as H1. cbn [feed_k]. unfold step_k. unfold starts_message. rewrite H1. cbn [s_block with_block Z.of_nat Z.add Z.eqb Pos.eqb orb].
  reflexivity.
Qed.

(* ---------- a failed attempt, then the sender's next attempt ---------- *)
Lemma feed_k_app cur a : forall b,
  feed_k cur (a ++ b) = let '(c1, o1) := feed_k cur a in let '(c2, o2) := feed_k c1 b in (c2, o1 ++ o2).
Proof.
  revert cur. induction a as [|x a IH]; intros cur b.
  - cbn [app feed_k]. destruct (feed_k cur b); reflexivity.
  - cbn [app feed_k]. destruct (step_k cur x) as [c1 o]. rewrite IH. destruct (feed_k c1 a) as [c2 os]. destruct (feed_k c2 b) as [c3 os']. reflexivity.
Qed.

(* blocks of a message before its last one are kept, nothing is handed out *)
Lemma feed_k_prefix h data j : (j < length (split_blocks data h true))%nat -> (0 < j)%nat ->
  exists acc, feed_k None (firstn j (split_blocks data h true)) = (Some acc, repeat None j).
Proof.
  destruct (split_spec h data) as (_ & _ & Hsz & Hhdr). set (bl := split_blocks data h true) in *. intros Hj H0.
  (* the general step: any block of the message that is not the last yields no output and keeps a partial message *)
  assert (Hstep : forall i b cur, nth_error bl i = Some b -> (S i < length bl)%nat ->
            (cur = None /\ i = 0%nat \/ (exists acc0, cur = Some acc0) /\ (0 < i)%nat) ->
            exists acc1, step_k cur b = (Some acc1, None)).
  { intros i b cur Hb Hi Hc. pose proof (Hhdr i b Hb) as Hh.
    assert (He : s_e (sb_hdr b) = false).
    { rewrite Hh. cbn [s_e with_block]. destruct (Z.eqb_spec (Z.of_nat i + 1) (Z.of_nat (length bl))); [lia|reflexivity]. }
    assert (Hl : (length (sb_data b) <= 244)%nat) by (rewrite Forall_forall in Hsz; apply Hsz; apply nth_error_In with i; exact Hb).
    destruct Hc as [[-> ->]|[[acc0 ->] Hi0]].
    - unfold step_k. rewrite resplit_first by exact Hl. unfold msg_header, last_block_of. cbn [map last sb_hdr with_block s_e]. rewrite He.
      eexists. reflexivity.
    - unfold step_k. assert (starts_message b = false) as ->.
      { unfold starts_message. rewrite Hh. cbn [s_block with_block].
        destruct (Z.eqb_spec (Z.of_nat i + 1) 0); [lia|]. destruct (Z.eqb_spec (Z.of_nat i + 1) 1); [lia|]. reflexivity. }
      rewrite msg_header_snoc, He. eexists. reflexivity. }
  (* induction over the prefix length, from the front *)
  assert (Hgen : forall n i cur, (i + n <= j)%nat ->
            (cur = None /\ i = 0%nat \/ (exists acc0, cur = Some acc0) /\ (0 < i)%nat) -> (0 < n)%nat ->
            exists acc, feed_k cur (firstn n (skipn i bl)) = (Some acc, repeat None n)).
  { induction n as [|n IHn]; intros i cur Hin Hc Hn; [lia|].
    destruct (nth_error bl i) as [b|] eqn:Eb; [|apply nth_error_None in Eb; lia].
    assert (Es : skipn i bl = b :: skipn (S i) bl).
    { clear -Eb. revert i Eb. induction bl as [|x l IHl]; intros i Eb; destruct i; cbn in *; try discriminate; [injection Eb as ->; reflexivity|apply IHl; exact Eb]. }
    rewrite Es. cbn [firstn feed_k]. destruct (Hstep i b cur Eb ltac:(lia) Hc) as [acc1 ->].
    destruct n as [|n'].
    - cbn [firstn feed_k repeat]. exists acc1. reflexivity.
    - destruct (IHn (S i) (Some acc1) ltac:(lia) ltac:(right; split; [exists acc1; reflexivity|lia]) ltac:(lia)) as [acc2 E2].
      rewrite E2. exists acc2. reflexivity. }
  destruct (Hgen j 0%nat None ltac:(lia) ltac:(left; split; reflexivity) H0) as [acc E]. cbn [skipn] in E. exists acc. exact E.
Qed.

(* the first j blocks of a message arrive, the attempt is abandoned (a later block was refused), the sender starts over:
   the message is handed out exactly once, complete, at the end of the second attempt *)
Theorem reassembly_retry h data j : (j < length (split_blocks data h true))%nat ->
  let bl := split_blocks data h true in
  feed_k None (firstn j bl ++ bl) = (None, repeat None (j + (length bl - 1)) ++ [Some (with_block h (Z.of_nat (length bl)) true, data)]).
Proof.
  intros Hj. cbv zeta. destruct j as [|j'].
  - cbn [firstn app Nat.add]. apply reassembly_single.
  - rewrite feed_k_app. destruct (feed_k_prefix h data (S j') Hj ltac:(lia)) as [acc ->].
    rewrite (reassembly_after_abandoned h data acc). pose proof (reassembly_single h data) as S. cbv zeta in S. rewrite S.
    rewrite app_assoc, <- repeat_app. reflexivity.
Qed.

(* =====================  HSMS (C04)  ===================== *)
Definition hhdr_fields_ok (h : hhdr) : Prop :=
  (0 <= h_session h < 65536)%Z /\ (0 <= h_stream h < 128)%Z /\ (0 <= h_function h < 256)%Z /\
  (0 <= h_ptype h < 256)%Z /\ stype_known (h_stype h) = true /\ (0 <= h_system h < 4294967296)%Z.

Definition to_e37 (h : hhdr) : e37hdr :=
  {| e37_session := Z.to_N (h_session h); e37_w := h_w h; e37_stream := Z.to_N (h_stream h); e37_function := Z.to_N (h_function h);
     e37_ptype := Z.to_N (h_ptype h); e37_stype := Z.to_N (h_stype h); e37_system := Z.to_N (h_system h) |}.

Lemma stype_known_range v : stype_known v = true -> (0 <= v < 256)%Z.
Proof.
  destruct gen_hsms as (_ & _ & _ & _ & _ & _ & Hst). unfold stype_known. intro H.
  apply existsb_exists in H as (p & Hin & Hp). apply (in_map snd) in Hin. rewrite Hst in Hin.
  cbn in Hin. repeat (destruct Hin as [Hin|Hin]; [rewrite <- Hin in Hp; lia|]). destruct Hin.
Qed.

Theorem hhdr_encode_exact h : hhdr_fields_ok h -> hhdr_encode h = Ok (e37_header_bytes (to_e37 h)).
Proof.
  intros (Hs & Hst & Hf & Hp & Hty & Hy). destruct gen_hsms as (Fe & _). pose proof (stype_known_range _ Hty) as Hty'.
  unfold hhdr_encode. rewrite Fe. cbn [pack_fields].
  assert (Es : (if h_w h then Z.lor (h_stream h) 128 else h_stream h) = Z.of_N (Z.to_N (h_stream h) + (if h_w h then 2^7 else 0))).
  { destruct (h_w h); [|lia]. rewrite <- (Z2N.id (h_stream h)) at 1 by lia. change 128%Z with (Z.of_N (2^7)).
    rewrite zlor_flag; [reflexivity|]. change (2^7) with 128. lia. }
  rewrite Es. rewrite pack_H by lia. cbn [bind].
  rewrite pack_B by (change (2^7) with 128; destruct (h_w h); lia). cbn [bind].
  rewrite !pack_B by lia. cbn [bind]. rewrite pack_L by lia. cbn [bind].
  rewrite N2Z.id. unfold e37_header_bytes, to_e37.
  cbn [e37_session e37_w e37_stream e37_function e37_ptype e37_stype e37_system]. rewrite !be_1, app_nil_r.
  f_equal. f_equal. cbn [app]. f_equal; [|f_equal; [|f_equal]].
  - unfold bit. change (2^7) with 128. destruct (h_w h); rewrite N.mod_small; lia.
  - apply N.mod_small. lia.
  - apply N.mod_small. lia.
  - f_equal. apply N.mod_small. lia.
Qed.

Lemma hhdr_decode_10 b0 b1 b2 b3 b4 b5 b6 b7 b8 b9 :
  hhdr_decode [b0;b1;b2;b3;b4;b5;b6;b7;b8;b9] =
  if negb (stype_known (Z.of_N b5)) then Err EValue else
  Ok {| h_system := Z.of_N (be_val [b6;b7;b8;b9] 0); h_session := Z.of_N (b0 * 256 + b1); h_stream := Z.of_N (b2 mod 128);
        h_function := Z.of_N b3; h_w := flagb b2 128; h_ptype := Z.of_N b4; h_stype := Z.of_N b5 |}.
Proof.
  destruct gen_hsms as (_ & Fd & _). unfold hhdr_decode. rewrite Fd.
  cbn [unpack_fields sc_bytes length Nat.ltb Nat.leb firstn skipn unpack_int sc_signed bind be_val].
  rewrite !N.mul_0_l, !N.add_0_l. destruct (negb (stype_known (Z.of_N b5))); [reflexivity|].
  change 127%Z with (Z.of_N (N.ones 7)). change 128%Z with (Z.of_N (2^7)). change 7%Z with (Z.of_N 7).
  rewrite zland_low, zflag. reflexivity.
Qed.

Theorem hhdr_roundtrip h : hhdr_fields_ok h -> hhdr_decode (e37_header_bytes (to_e37 h)) = Ok h.
Proof.
  intros (Hs & Hst & Hf & Hp & Hty & Hy). pose proof (stype_known_range _ Hty) as Hty'.
  unfold e37_header_bytes. cbn [app be]. rewrite hhdr_decode_10.
  unfold to_e37. cbn [e37_session e37_w e37_stream e37_function e37_ptype e37_stype e37_system].
  rewrite Z2N.id by lia. rewrite Hty. cbn [negb].
  set (ss := Z.to_N (h_session h)). set (st := Z.to_N (h_stream h)). set (sy := Z.to_N (h_system h)).
  assert (ss < 65536 /\ st < 128 /\ sy < 4294967296) as (Rs & Rt & Ry) by (unfold ss, st, sy; lia).
  assert (Esys : be_val [sy / 256 / 256 / 256 mod 256; sy / 256 / 256 mod 256; sy / 256 mod 256; sy mod 256] 0 = sy).
  { change [sy / 256 / 256 / 256 mod 256; sy / 256 / 256 mod 256; sy / 256 mod 256; sy mod 256] with (be 4 sy).
    apply be_val_be0. exact Ry. }
  rewrite Esys. destruct h as [sys ses str fn w pt sty]. cbn [h_system h_session h_stream h_function h_w h_ptype h_stype] in *.
  f_equal. unfold flagb, bit. f_equal; try (unfold ss, st, sy; lia).
  - destruct w; unfold st; lia.
  - destruct w; [replace (((128 + st) / 128) mod 2) with 1 by lia|replace (((0 + st) / 128) mod 2) with 0 by lia]; reflexivity.
Qed.

Lemma e37_header_bytes_props h : length (e37_header_bytes h) = 10%nat.
Proof. unfold e37_header_bytes. rewrite !app_length, !be_length. reflexivity. Qed.

Lemma unpack_L4 a b c d : unpack_fields [SC_L] [a; b; c; d] = Ok [Z.of_N (be_val [a; b; c; d] 0)].
Proof. cbn. reflexivity. Qed.

Theorem hframe_encode_exact h data :
  hhdr_fields_ok h -> (Z.of_nat (length data) + 10 < 4294967296)%Z ->
  hframe_encode h data = Ok (e37_frame (to_e37 h) data).
Proof.
  intros Hok Hlen. destruct gen_hsms as (_ & _ & Fl & Fc & _ & Fh & _).
  unfold hframe_encode. rewrite hhdr_encode_exact by exact Hok. cbn [bind]. rewrite Fl, Fc, Fh. cbn [pack_fields].
  rewrite pack_L by lia. cbn [bind].
  rewrite firstn_app, e37_header_bytes_props, Nat.sub_diag, firstn_O, app_nil_r.
  rewrite firstn_all2 by (rewrite e37_header_bytes_props; lia).
  unfold e37_frame. rewrite !app_nil_r. f_equal. f_equal. f_equal. lia.
Qed.

Theorem hframe_roundtrip h data :
  hhdr_fields_ok h -> (Z.of_nat (length data) + 10 < 4294967296)%Z ->
  hframe_decode (e37_frame (to_e37 h) data) = Ok (h, data).
Proof.
  intros Hok Hlen. destruct gen_hsms as (_ & _ & Fl & Fc & _ & Fh & _).
  unfold hframe_decode, e37_frame. rewrite Fl, Fc, Fh. cbn [fmt_size fold_right sc_bytes Nat.add].
  set (n := 10 + N.of_nat (length data)). set (hb := e37_header_bytes (to_e37 h)).
  assert (Hl4 : length (be 4 n) = 4%nat) by apply be_length.
  assert (Hhb : length hb = 10%nat) by apply e37_header_bytes_props.
  assert (Hlt : (length (be 4 n ++ hb ++ data) <? 4)%nat = false) by (apply Nat.ltb_ge; rewrite app_length; lia).
  rewrite Hlt. rewrite firstn_app, Hl4, Nat.sub_diag, firstn_O, app_nil_r, firstn_all2 by lia.
  assert (Hbe : exists a b c d, be 4 n = [a; b; c; d]).
  { destruct (be 4 n) as [|a [|b [|c [|d [|e l]]]]] eqn:E; try discriminate Hl4. eauto. }
  destruct Hbe as (a & b & c & d & Ebe). rewrite Ebe at 1. rewrite unpack_L4. cbn [bind]. rewrite <- Ebe.
  rewrite be_val_be0 by (unfold n; change (256 ^ N.of_nat 4) with 4294967296; lia).
  assert (Hn : (Z.of_N n - Z.of_nat 10 = Z.of_nat (length data))%Z) by (unfold n; lia).
  rewrite Hn. destruct (Z.ltb_spec (Z.of_nat (length data)) 0); [lia|].
  rewrite !app_length, Hl4, Hhb.
  match goal with |- (if negb ?c then _ else _) = _ => assert (c = true) as -> by lia end. cbn [negb].
  rewrite Nat2Z.id. rewrite skipn_app, Hl4, Nat.sub_diag, skipn_O, skipn_all2 by lia. cbn [app].
  rewrite firstn_app, Hhb, Nat.sub_diag, firstn_O, app_nil_r, firstn_all2 by lia.
  unfold hb. rewrite hhdr_roundtrip by exact Hok. cbn [bind].
  rewrite skipn_app, e37_header_bytes_props, Nat.sub_diag, skipn_O, skipn_all2 by (rewrite e37_header_bytes_props; lia).
  cbn [app]. rewrite firstn_all. reflexivity.
Qed.
