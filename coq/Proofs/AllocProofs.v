(* Proofs/AllocProofs.v — C06: distinct system bytes under every schedule (locked body), the race without the lock,
   and routing of replies by system bytes. *)
From SG Require Import Base.Prelude Model.AllocLang Model.Alloc Gen.Alloc.
From Coq Require Import Lia.
Open Scope Z_scope.

Definition MAXSYS := 4294967295.
Definition nxt (c : Z) : Z := if c + 1 >? MAXSYS then 0 else c + 1.

(* the regenerated program, run alone, is "next" *)
Definition expected_prog : list mop := [OLoad; OAddAcc 1; OStoreAcc; OLoad; OIfGtSkip MAXSYS 2; OSetAcc 0; OStoreAcc; OLoad; ORet].
Lemma prog_is_expected : alloc_prog = expected_prog. Proof. reflexivity. Qed.

Lemma solo c : run_alone expected_prog (length expected_prog) c thr0 = (nxt c, {| t_pc := 9; t_acc := nxt c; t_res := Some (nxt c) |}).
Proof.
  unfold nxt, expected_prog. cbn [length run_alone finished Nat.leb t_pc thr0 step_thr nth_error exec_op t_acc t_res].
  destruct (c + 1 >? MAXSYS) eqn:E; cbn [Nat.add run_alone finished Nat.leb t_pc step_thr nth_error exec_op t_acc t_res length]; rewrite ?E; reflexivity.
Qed.

Lemma solo_done c t : finished expected_prog t = true -> run_alone expected_prog (length expected_prog) c t = (c, t).
Proof. intro H. change (length expected_prog) with 9%nat. cbn [run_alone]. rewrite H. reflexivity. Qed.

(* state after some schedule: k threads have run; the counter is next^k c0; finished threads hold next^i c0 for distinct i *)
Fixpoint iter_nxt (k : nat) (c : Z) : Z := match k with O => c | S j => nxt (iter_nxt j c) end.

Lemma nxt_range c : 0 <= c <= MAXSYS -> 0 <= nxt c <= MAXSYS.
Proof. unfold nxt, MAXSYS. intro H. destruct (c + 1 >? 4294967295) eqn:E; lia. Qed.
Lemma iter_range k c : 0 <= c <= MAXSYS -> 0 <= iter_nxt k c <= MAXSYS.
Proof. induction k as [|j IH]; intro H; cbn; [exact H|]. apply nxt_range. apply IH. exact H. Qed.

Lemma nxt_mod c : 0 <= c <= MAXSYS -> nxt c = (c + 1) mod (MAXSYS + 1).
Proof.
  unfold nxt, MAXSYS. intro H. destruct (c + 1 >? 4294967295) eqn:E.
  - assert (c = 4294967295) by lia. subst. reflexivity.
  - rewrite Z.mod_small; lia.
Qed.
Lemma iter_mod k c : 0 <= c <= MAXSYS -> iter_nxt k c = (c + Z.of_nat k) mod (MAXSYS + 1).
Proof.
  intro H. induction k as [|j IH]; cbn [iter_nxt].
  - rewrite Z.add_0_r, Z.mod_small; unfold MAXSYS in *; lia.
  - rewrite nxt_mod by (apply iter_range; exact H). rewrite IH. rewrite Zplus_mod_idemp_l. f_equal. lia.
Qed.

Lemma iter_inj c i j : 0 <= c <= MAXSYS -> (i < j)%nat -> Z.of_nat j - Z.of_nat i <= MAXSYS -> iter_nxt i c <> iter_nxt j c.
Proof.
  intros H Hij Hb E. rewrite !iter_mod in E by exact H.
  assert (D : (Z.of_nat j - Z.of_nat i) mod (MAXSYS + 1) = 0).
  { replace (Z.of_nat j - Z.of_nat i) with ((c + Z.of_nat j) - (c + Z.of_nat i)) by lia. rewrite Zminus_mod, E, Z.sub_diag. reflexivity. }
  rewrite Z.mod_small in D; unfold MAXSYS in *; lia.
Qed.

(* invariant of the locked allocator under any schedule *)
Definition ranked (c0 : Z) (k : nat) (ts : list thr) (ranks : list nat) : Prop :=
  length ranks = length ts /\
  (forall i t r, nth_error ts i = Some t -> nth_error ranks i = Some r ->
     (r = O /\ t = thr0) \/ ((0 < r <= k)%nat /\ finished expected_prog t = true /\ t_res t = Some (iter_nxt r c0))) /\
  (forall i j r, i <> j -> nth_error ranks i = Some r -> nth_error ranks j = Some r -> r = O).

Lemma upd_nth {A} i (x : A) l : (i < length l)%nat -> nth_error (upd i x l) i = Some x.
Proof. revert i. induction l as [|y l IH]; intros [|i] H; cbn in *; try lia; [reflexivity|]. apply IH. lia. Qed.
Lemma upd_other {A} i j (x : A) l : i <> j -> nth_error (upd i x l) j = nth_error l j.
Proof. revert i j. induction l as [|y l IH]; intros [|i] [|j] H; cbn; try reflexivity; try congruence. apply IH. congruence. Qed.
Lemma upd_length {A} i (x : A) l : length (upd i x l) = length l.
Proof. revert i. induction l as [|y l IH]; intros [|i]; cbn; try reflexivity. rewrite IH. reflexivity. Qed.

Theorem locked_invariant c0 sched : forall n, 0 <= c0 <= MAXSYS ->
  let s := run_sched true expected_prog (start n c0) sched in
  exists k ranks, s_ctr s = iter_nxt k c0 /\ ranked c0 k (s_thr s) ranks /\ (k <= length sched)%nat.
Proof.
  intros n Hc. cbv zeta.
  assert (G : forall sched s k ranks, s_ctr s = iter_nxt k c0 -> ranked c0 k (s_thr s) ranks ->
            exists k' ranks', s_ctr (run_sched true expected_prog s sched) = iter_nxt k' c0 /\ ranked c0 k' (s_thr (run_sched true expected_prog s sched)) ranks' /\ (k' <= k + length sched)%nat).
  { clear sched. induction sched as [|i r IH]; intros s k ranks Hs Hr; cbn [run_sched fold_left].
    - exists k, ranks. split; [exact Hs|]. split; [exact Hr|]. cbn [length]. lia.
    - fold (run_sched true expected_prog (sched_step true expected_prog s i) r).
      unfold sched_step. destruct (nth_error (s_thr s) i) as [t|] eqn:Ti.
      + destruct Hr as (Hl & Hv & Hu).
        assert (Hi : (i < length (s_thr s))%nat) by (apply nth_error_Some; congruence).
        destruct (nth_error ranks i) as [ri|] eqn:Ri; [|apply nth_error_None in Ri; lia].
        destruct (Hv i t ri Ti Ri) as [[-> ->]|(Hpos & Hfin & Hres)].
        * (* a fresh thread runs its whole body *)
          rewrite solo, Hs. 
          destruct (IH {| s_ctr := nxt (iter_nxt k c0); s_thr := upd i {| t_pc := 9; t_acc := nxt (iter_nxt k c0); t_res := Some (nxt (iter_nxt k c0)) |} (s_thr s) |}
                       (S k) (upd i (S k) ranks)) as (k' & ranks' & A & B & C).
          -- reflexivity.
          -- cbn [s_thr]. split; [rewrite !upd_length; exact Hl|]. split.
             ++ intros j t' r' Tj Rj. destruct (Nat.eq_dec i j) as [<-|N].
                ** rewrite upd_nth in Tj by exact Hi. rewrite upd_nth in Rj by lia. injection Tj as <-. injection Rj as <-.
                   right. split; [lia|]. split; reflexivity.
                ** rewrite upd_other in Tj by exact N. rewrite upd_other in Rj by exact N.
                   destruct (Hv j t' r' Tj Rj) as [X|(X1 & X2 & X3)]; [left; exact X|right; split; [lia|split; assumption]].
             ++ intros a b r' Nab Ra Rb. destruct (Nat.eq_dec i a) as [<-|Na]; destruct (Nat.eq_dec i b) as [<-|Nb]; try congruence.
                ** rewrite upd_nth in Ra by lia. injection Ra as <-. rewrite upd_other in Rb by exact Nb.
                   destruct (nth_error (s_thr s) b) as [tb|] eqn:Tb; [|apply nth_error_None in Tb; assert (b < length ranks)%nat by (apply nth_error_Some; congruence); lia].
                   destruct (Hv b tb (S k) Tb Rb) as [[X _]|(X & _)]; lia.
                ** rewrite upd_nth in Rb by lia. injection Rb as <-. rewrite upd_other in Ra by exact Na.
                   destruct (nth_error (s_thr s) a) as [ta|] eqn:Ta; [|apply nth_error_None in Ta; assert (a < length ranks)%nat by (apply nth_error_Some; congruence); lia].
                   destruct (Hv a ta (S k) Ta Ra) as [[X _]|(X & _)]; lia.
                ** rewrite upd_other in Ra by exact Na. rewrite upd_other in Rb by exact Nb. exact (Hu a b r' Nab Ra Rb).
          -- exists k', ranks'. split; [exact A|]. split; [exact B|]. cbn [length]. lia.
        * (* a finished thread does nothing *)
          rewrite (solo_done _ _ Hfin).
          assert (E : upd i t (s_thr s) = s_thr s).
          { clear -Ti. revert i Ti. induction (s_thr s) as [|y l IHl]; intros [|i] Ti; cbn in *; try discriminate; [injection Ti as ->; reflexivity|]. rewrite IHl by exact Ti. reflexivity. }
          rewrite E. destruct s as [c ts]. cbn [s_ctr s_thr] in *.
          destruct (IH {| s_ctr := c; s_thr := ts |} k ranks Hs (conj Hl (conj Hv Hu))) as (k' & ranks' & A & B & C).
          exists k', ranks'. split; [exact A|]. split; [exact B|]. cbn [length]. lia.
      + destruct (IH s k ranks Hs Hr) as (k' & ranks' & A & B & C). exists k', ranks'. split; [exact A|]. split; [exact B|]. cbn [length]. lia. }
  destruct (G sched (start n c0) O (repeat O n)) as (k & ranks & A & B & C).
  - reflexivity.
  - cbn [start s_thr]. split; [rewrite !repeat_length; reflexivity|]. split.
    + intros i t r Ti Ri. left. apply nth_error_In in Ti, Ri. apply repeat_spec in Ti, Ri. auto.
    + intros i j r _ Ri _. apply nth_error_In in Ri. apply repeat_spec in Ri. exact Ri.
  - exists k, ranks. split; [exact A|]. split; [exact B|]. lia.
Qed.

(* any two threads that have their system bytes hold different ones (fewer than 2^32 allocations in flight) *)
Theorem locked_distinct c0 sched n i j ti tj ri rj : 0 <= c0 <= MAXSYS -> Z.of_nat (length sched) <= MAXSYS ->
  let s := run_sched true expected_prog (start n c0) sched in
  i <> j -> nth_error (s_thr s) i = Some ti -> nth_error (s_thr s) j = Some tj -> t_res ti = Some ri -> t_res tj = Some rj -> ri <> rj.
Proof.
  intros Hc Hb s Nij Ti Tj Ri Rj. destruct (locked_invariant c0 sched n Hc) as (k & ranks & _ & (Hl & Hv & Hu) & Hk). fold s in Hl, Hv, Hu.
  assert (Li : (i < length ranks)%nat) by (rewrite Hl; apply nth_error_Some; congruence).
  assert (Lj : (j < length ranks)%nat) by (rewrite Hl; apply nth_error_Some; congruence).
  destruct (nth_error ranks i) as [a|] eqn:Ai; [|apply nth_error_None in Ai; lia].
  destruct (nth_error ranks j) as [b|] eqn:Bj; [|apply nth_error_None in Bj; lia].
  destruct (Hv i ti a Ti Ai) as [[_ ->]|(Pa & _ & Qa)]; [discriminate Ri|].
  destruct (Hv j tj b Tj Bj) as [[_ ->]|(Pb & _ & Qb)]; [discriminate Rj|].
  rewrite Ri in Qa. rewrite Rj in Qb. injection Qa as ->. injection Qb as ->.
  assert (a <> b) by (intro E; subst b; specialize (Hu i j a Nij Ai Bj); lia).
  destruct (Nat.lt_total a b) as [L|[E|L]]; [|congruence|].
  - apply iter_inj; [exact Hc|exact L|lia].
  - intro E. symmetry in E. revert E. apply iter_inj; [exact Hc|exact L|lia].
Qed.

(* without the lock two threads can get the same system bytes: a schedule of the same operations *)
Theorem unlocked_race : exists sched ti tj r,
  let s := run_sched false expected_prog (start 2 100) sched in
  nth_error (s_thr s) 0 = Some ti /\ nth_error (s_thr s) 1 = Some tj /\ t_res ti = Some r /\ t_res tj = Some r.
Proof.
  exists [0; 0; 0; 1; 1; 1; 0; 0; 1; 1; 0; 0; 1; 1]%nat. eexists. eexists. eexists. cbv zeta. vm_compute. repeat split.
Qed.

(* ---------- routing ---------- *)
Lemma put_other sysb payload w w1 k : put sysb payload w = Some w1 -> k <> sysb -> answer_of w1 k = answer_of w k.
Proof.
  revert w1. induction w as [|[k0 q] r IH]; intros w1 H N; cbn in H; [discriminate H|].
  destruct (k0 =? sysb) eqn:E.
  - injection H as <-. apply Z.eqb_eq in E. subst k0. unfold answer_of. cbn [find fst]. destruct (sysb =? k) eqn:E2; [apply Z.eqb_eq in E2; congruence|reflexivity].
  - destruct (put sysb payload r) as [r1|] eqn:P; [|discriminate H]. injection H as <-. unfold answer_of in *. cbn [find fst].
    destruct (k0 =? k); [reflexivity|]. apply IH; [reflexivity|exact N].
Qed.

Lemma put_first sysb payload w w1 : put sysb payload w = Some w1 ->
  answer_of w1 sysb = match answer_of w sysb with Some x => Some x | None => Some payload end.
Proof.
  revert w1. induction w as [|[k0 q] r IH]; intros w1 H; cbn in H; [discriminate H|].
  destruct (k0 =? sysb) eqn:E.
  - injection H as <-. unfold answer_of. cbn [find fst]. rewrite E. destruct q; reflexivity.
  - destruct (put sysb payload r) as [r1|] eqn:P; [|discriminate H]. injection H as <-. unfold answer_of in *. cbn [find fst]. rewrite E. apply IH. reflexivity.
Qed.

Lemma put_none sysb payload w : put sysb payload w = None <-> find (fun e => fst e =? sysb) w = None.
Proof.
  induction w as [|[k0 q] r IH]; cbn; [tauto|]. destruct (k0 =? sysb); [split; discriminate|].
  destruct (put sysb payload r); cbn; split; intro H; try discriminate; try (apply IH; exact H). destruct IH as [_ IH]. specialize (IH H). discriminate IH.
Qed.

(* a requester with an empty queue receives exactly the first arrival without W-bit that carries its system bytes - never another one *)
Definition is_reply_for (k : Z) (a : Z * Z * bool) : bool := (fst (fst a) =? k) && negb (snd a).
Theorem reply_to_requester arrivals : forall w k, answer_of w k = None -> find (fun e => fst e =? k) w <> None ->
  answer_of (fst (route w arrivals)) k = option_map (fun a => snd (fst a)) (find (is_reply_for k) arrivals).
Proof.
  induction arrivals as [|[[sysb payload] wbit] r IH]; intros w k Hq Hw; cbn [route find fst snd option_map]; [exact Hq|].
  unfold is_reply_for at 1. cbn [fst snd].
  destruct wbit; cbn [negb].
  { rewrite andb_false_r. destruct (route w r) as [w2 app] eqn:R. cbn [fst]. specialize (IH w k Hq Hw). rewrite R in IH. exact IH. }
  rewrite andb_true_r.
  destruct (put sysb payload w) as [w1|] eqn:P.
  - destruct (sysb =? k) eqn:E.
    + apply Z.eqb_eq in E. subst sysb. cbn [snd fst option_map].
      assert (A : answer_of w1 k = Some payload) by (rewrite (put_first _ _ _ _ P), Hq; reflexivity).
      clear IH Hq Hw P. revert w1 A. induction r as [|[[s2 p2] b2] r IHr]; intros w1 A; cbn [route fst]; [exact A|].
      destruct b2; [destruct (route w1 r) eqn:R; cbn [fst]; specialize (IHr w1 A); rewrite R in IHr; exact IHr|].
      destruct (put s2 p2 w1) as [w2|] eqn:P2; [|destruct (route w1 r) eqn:R; cbn [fst]; specialize (IHr w1 A); rewrite R in IHr; exact IHr].
      apply IHr. destruct (Z.eq_dec k s2) as [<-|N]; [rewrite (put_first _ _ _ _ P2), A; reflexivity|rewrite (put_other _ _ _ _ _ P2 N); exact A].
    + apply Z.eqb_neq in E. apply IH.
      * rewrite (put_other _ _ _ _ _ P); [exact Hq|congruence].
      * clear -P Hw E. revert w1 P. induction w as [|[k0 q] w IHw]; intros w1 P; cbn in *; [discriminate P|].
        destruct (k0 =? sysb) eqn:E0; [injection P as <-; cbn [find fst]; apply Z.eqb_eq in E0; subst k0; destruct (sysb =? k) eqn:E1; [apply Z.eqb_eq in E1; congruence|exact Hw]|].
        destruct (put sysb payload w) as [w2|]; [|discriminate P]. injection P as <-. cbn [find fst]. destruct (k0 =? k); [discriminate|]. apply IHw; [exact Hw|reflexivity].
  - assert (N : sysb <> k).
    { intro X. subst sysb. apply put_none in P. contradiction. }
    destruct (route w r) as [w2 app] eqn:R. cbn [fst]. apply Z.eqb_neq in N. rewrite N. specialize (IH w k Hq Hw). rewrite R in IH. exact IH.
Qed.

(* everything that is not a reply to a waiting requester - every message with W-bit, and every message whose system bytes nobody waits
   for - reaches the application exactly once, in arrival order *)
Definition for_app (w : waiters) (a : Z * Z * bool) : bool :=
  snd a || match find (fun e => fst e =? fst (fst a)) w with None => true | Some _ => false end.
Theorem others_in_order arrivals w : (forall e, In e w -> True) ->
  snd (route w arrivals) = map fst (filter (for_app w) arrivals).
Proof.
  intros _. revert w. induction arrivals as [|[[sysb payload] wbit] r IH]; intro w; cbn [route filter fst snd map]; [reflexivity|].
  unfold for_app at 1. cbn [fst snd].
  destruct wbit; cbn [orb].
  { destruct (route w r) as [w2 app] eqn:R. cbn [snd map fst]. f_equal. specialize (IH w). rewrite R in IH. exact IH. }
  destruct (put sysb payload w) as [w1|] eqn:P.
  - assert (F : find (fun e => fst e =? sysb) w <> None) by (intro X; apply put_none with (payload := payload) in X; congruence).
    destruct (find (fun e => fst e =? sysb) w); [|contradiction F; reflexivity]. rewrite IH. f_equal.
    apply filter_ext_in. intros [[s2 p2] b2] _. unfold for_app. cbn [fst snd]. f_equal.
    assert (K : forall k, match find (fun e => fst e =? k) w1 with None => true | Some _ => false end = match find (fun e => fst e =? k) w with None => true | Some _ => false end).
    { clear -P. intro k. revert w1 P. induction w as [|[k0 q] w IHw]; intros w1 P; cbn in P; [discriminate P|].
      destruct (k0 =? sysb) eqn:E0; [injection P as <-; cbn [find fst]; destruct (k0 =? k); reflexivity|].
      destruct (put sysb payload w) as [w2|]; [|discriminate P]. injection P as <-. cbn [find fst]. destruct (k0 =? k); [reflexivity|]. apply IHw. reflexivity. }
    apply K.
  - apply put_none in P. rewrite P. destruct (route w r) as [w2 app] eqn:R. cbn [snd map fst]. f_equal. specialize (IH w). rewrite R in IH. exact IH.
Qed.
