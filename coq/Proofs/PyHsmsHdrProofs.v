(* Proofs/PyHsmsHdrProofs.v - HsmsHeader.encode / decode as translated from the source (Gen/PyHsmsHdr.v) are the functions of Model/Frames.v *)
From Coq Require Import Lia ZifyBool ZifyN ZifyNat.
From SG Require Import Base.Prelude Base.Kinds Base.PyRt Gen.ProtoConsts Gen.PyHsmsHdr Model.Secs2 Model.Frames.
Open Scope Z_scope.

Definition hh_of (h : hhdr) : hh_args :=
  hh_mk (h_system h) (h_session h) (h_stream h) (h_function h) (h_w h) (h_ptype h) (h_stype h).
Definition hhdr_of (a : hh_args) : hhdr :=
  {| h_system := hh_system a; h_session := hh_device_id a; h_stream := hh_stream a; h_function := hh_function a;
     h_w := hh_requires_response a; h_ptype := hh_p_type a; h_stype := hh_s_type a |}.

Lemma hh_encode_is_model h :
  (do fs <- hh_encode (hh_of h); pack_fields hsms_header_format_enc fs) = hhdr_encode h.
Proof. destruct h as [sy se st fu w pt sty]; destruct w; reflexivity. Qed.

Lemma hh_decode_is_model bs :
  hhdr_decode bs =
  do r <- unpack_fields hsms_header_format_dec bs;
  match r with
  | [r0; r1; r2; r3; r4; r5] => do a <- hh_decode r0 r1 r2 r3 r4 r5; Ok (hhdr_of a)
  | _ => Err EValue
  end.
Proof.
  unfold hhdr_decode. destruct (unpack_fields hsms_header_format_dec bs) as [r|e]; [|reflexivity].
  cbn [bind]. do 7 (destruct r as [|? r]; try reflexivity).
  unfold hh_decode, enum_of, stype_known. destruct (existsb _ hsms_stypes); reflexivity.
Qed.

