(* Proofs/HsmsCtrlProofs.v — what the endpoint does with an inbound control message: HsmsProtocol.__handle_hsms_requests and its handlers, as
   translated statement by statement from the source (Gen/HsmsCtrl.v), carried out, are Model/HsmsSession.v's step for every control message in
   every state. *)
From SG Require Import Base.Prelude Spec.E37Session Model.StateMachine Gen.Machines Gen.HsmsCtrl Model.HsmsSession.
Local Open Scope Z_scope.
Local Open Scope string_scope.

(* carrying the listed actions out: a response / reject goes out with the message's system bytes, a transition is a request to the connection
   state machine, resolving hands the message to the requester that waits under these system bytes (its entry disappears) *)
Fixpoint run_ctl (s : hs) (system : Z) (acts : list ctl_act) : hs * list sout :=
  match acts with
  | [] => (s, [])
  | CSend t :: r => let '(s1, o) := run_ctl s system r in (s1, OutCtrl t system :: o)
  | CReject n :: r => let '(s1, o) := run_ctl s system r in (s1, OutReject system n :: o)
  | CTransition n :: r => run_ctl (fst (request s n)) system r
  | CResolve :: r => let '(s1, o) := run_ctl (unqueue s system) system r in (s1, OutResolve system :: o)
  end.

Ltac fin :=
  repeat first
    [ progress cbn [run_ctl app negb andb orb fst snd]
    | match goal with |- context [if ?c then _ else _] => destruct c end
    | match goal with |- context [request ?s ?n] => destruct (request s n) as [? ?] end ];
  try reflexivity.

Theorem control_code_is_model s stype system status :
  hs_step s (EvCtrl stype system status) =
  run_ctl s system (hsms_on_control stype status (cur (h_sm s)) (h_closing s) (queued_as s system) (queued s system)).
Proof.
  unfold hs_step, hsms_on_control, ST_SELECT_REQ, ST_SELECT_RSP, ST_DESELECT_REQ, ST_DESELECT_RSP, ST_LINKTEST_REQ, ST_LINKTEST_RSP, ST_REJECT.
  rewrite !app_nil_r.
  destruct (stype =? 1)%Z; [fin|]. destruct (stype =? 2)%Z; [fin|]. destruct (stype =? 3)%Z; [fin|]. destruct (stype =? 4)%Z; [fin|].
  destruct (stype =? 5)%Z; [fin|]. destruct (stype =? 6)%Z; [fin|]. destruct (stype =? 7)%Z; fin.
Qed.
