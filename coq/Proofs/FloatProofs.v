(* Proofs/FloatProofs.v — facts about the integer IEEE layer used by the codec theorems. *)
From SG Require Import Base.Prelude Base.Float.
From Coq Require Import Lia ZifyBool ZifyN ZifyNat.
Ltac Zify.zify_post_hook ::= Z.div_mod_to_equations.
Open Scope N_scope.

Lemma pow2_63 : 2^63 = 9223372036854775808. Proof. reflexivity. Qed.
Lemma pow2_52 : 2^52 = 4503599627370496. Proof. reflexivity. Qed.
Lemma pow2_31 : 2^31 = 2147483648. Proof. reflexivity. Qed.
Lemma pow2_23 : 2^23 = 8388608. Proof. reflexivity. Qed.

Lemma rne_le sig shift : rne sig shift <= sig / 2 ^ shift + 1.
Proof.
  unfold rne. destruct (shift =? 0); [lia|].
  destruct ((2 ^ (shift - 1) <? sig mod 2 ^ shift) || ((sig mod 2 ^ shift =? 2 ^ (shift - 1)) && N.odd (sig / 2 ^ shift))); lia.
Qed.

(* a finite double that rounds without overflow gives a finite single below 2^32 *)
Lemma round32_finite b r : b < 2^64 -> finite64 b = true -> round32 b = Ok r -> finite32 r = true /\ r < 2^32.
Proof.
  intros Hb Hfin H. unfold round32 in H. cbv zeta in H. unfold finite64 in Hfin.
  destruct (exp64 b =? 2047) eqn:E1; [discriminate|].
  assert (Hs : forall mag, mag < 255 * 2^23 ->
            finite32 ((if sign64 b then 2^31 else 0) + mag) = true /\ (if sign64 b then 2^31 else 0) + mag < 2^32).
  { intros mag Hm. unfold finite32, exp32. rewrite pow2_31, pow2_23 in *. change (2^32) with 4294967296.
    destruct (sign64 b); split; lia. }
  destruct (exp64 b =? 0) eqn:E0.
  - injection H as <-. specialize (Hs 0). rewrite N.add_0_r in Hs. apply Hs. reflexivity.
  - destruct (897 <=? exp64 b) eqn:E2.
    + remember (rne (2^52 + man64 b) 29) as q eqn:Hq.
      destruct (255 * 2^23 <=? (exp64 b - 897) * 2^23 + q) eqn:E3; [discriminate|].
      injection H as <-. apply Hs. apply N.leb_gt in E3. exact E3.
    + remember (rne (2^52 + man64 b) (29 + (897 - exp64 b))) as q eqn:Hq.
      assert (r = (if sign64 b then 2 ^ 31 else 0) + q) as -> by congruence. apply Hs. subst q.
      pose proof (rne_le (2^52 + man64 b) (29 + (897 - exp64 b))) as Hr.
      remember (rne (2^52 + man64 b) (29 + (897 - exp64 b))) as q eqn:Hq.
      assert (Hm : man64 b < 2^52) by (unfold man64; apply N.mod_lt; discriminate).
      assert (Hd : (2^52 + man64 b) / 2 ^ (29 + (897 - exp64 b)) <= (2^52 + man64 b) / 2^30).
      { apply N.div_le_compat_l. split; [reflexivity|]. apply N.pow_le_mono_r; [discriminate|lia]. }
      assert (Hd2 : (2^52 + man64 b) / 2^30 < 2^23).
      { apply N.div_lt_upper_bound; [discriminate|]. rewrite pow2_52 in *. change (2^30 * 2^23) with 9007199254740992. lia. }
      remember ((2^52 + man64 b) / 2 ^ (29 + (897 - exp64 b))) as d1.
      remember ((2^52 + man64 b) / 2^30) as d2.
      rewrite pow2_23 in *. lia.
Qed.

Lemma finite32_not_nan r : finite32 r = true -> nan32 r = false.
Proof. unfold finite32, nan32. destruct (exp32 r =? 255); [discriminate|reflexivity]. Qed.

Lemma size_bounds m : 0 < m -> m < 2^23 -> 1 <= N.size m <= 23 /\ 2^(N.size m - 1) <= m < 2^(N.size m).
Proof.
  intros H0 H. rewrite N.size_log2 by lia.
  pose proof (N.log2_spec m H0) as [L1 L2].
  assert (N.log2 m < 23) by (apply N.log2_lt_pow2; assumption).
  replace (N.succ (N.log2 m) - 1) with (N.log2 m) by lia. repeat split; try lia; assumption.
Qed.

(* magnitude of a widened finite single: at most FLT_MAX (as a double), exponent below 2047 *)
Lemma widen32_mag r :
  r < 2^32 -> finite32 r = true ->
  exists mag, widen32 r = (if sign32 r then 2^63 else 0) + mag /\ mag <= FLT_MAX64.
Proof.
  intros Hr Hfin. unfold finite32 in Hfin. unfold widen32.
  destruct (exp32 r =? 255) eqn:E1; [discriminate|].
  assert (He : exp32 r < 255).
  { assert (exp32 r < 256) by (unfold exp32; apply N.mod_lt; discriminate). lia. }
  assert (Hm : man32 r < 2^23) by (unfold man32; apply N.mod_lt; rewrite pow2_23; discriminate).
  destruct (exp32 r =? 0) eqn:E0.
  - destruct (man32 r =? 0) eqn:M0.
    + exists 0. split; [lia|]. unfold FLT_MAX64. lia.
    + destruct (size_bounds (man32 r)) as [[K1 K2] [K3 K4]]; [lia|assumption|].
      set (k := N.size (man32 r)) in *.
      exists ((k + 873) * 2^52 + (man32 r * 2^(53 - k) - 2^52)). split; [lia|].
      assert (man32 r * 2^(53 - k) < 2^53).
      { replace (2^53) with (2^k * 2^(53 - k)) by (rewrite <- N.pow_add_r; f_equal; lia).
        apply N.mul_lt_mono_pos_r; [|assumption]. apply N.neq_0_lt_0. apply N.pow_nonzero. discriminate. }
      unfold FLT_MAX64. rewrite pow2_52 in *. change (2^53) with 9007199254740992 in *. lia.
  - exists ((exp32 r + 896) * 2^52 + man32 r * 2^29). split; [lia|].
    unfold FLT_MAX64. rewrite pow2_52, pow2_23 in *. change (2^29) with 536870912. lia.
Qed.

Lemma key64_sm (s : bool) mag : mag < 2^63 ->
  key64 ((if s then 2^63 else 0) + mag) = (if s then - Z.of_N mag else Z.of_N mag)%Z /\
  exp64 ((if s then 2^63 else 0) + mag) = mag / 2^52.
Proof.
  intro H. unfold key64, sign64, exp64. rewrite pow2_63, pow2_52 in *. destruct s.
  - destruct (N.leb_spec 9223372036854775808 (9223372036854775808 + mag)); [|lia]. split; [|lia].
    f_equal. f_equal. lia.
  - destruct (N.leb_spec 9223372036854775808 (0 + mag)); [lia|]. split; [|lia]. f_equal. lia.
Qed.

(* a widened finite single is finite, not NaN, and within [-FLT_MAX, FLT_MAX] *)
Lemma widen32_in_range r :
  r < 2^32 -> finite32 r = true ->
  nan64 (widen32 r) = false /\
  flt_ltb (widen32 r) (neg64 FLT_MAX64) = false /\ flt_ltb FLT_MAX64 (widen32 r) = false.
Proof.
  intros Hr Hfin. destruct (widen32_mag r Hr Hfin) as (mag & -> & Hmag).
  assert (Hlt : mag < 2^63) by (unfold FLT_MAX64 in Hmag; rewrite pow2_63; lia).
  destruct (key64_sm (sign32 r) mag Hlt) as [Hk He].
  assert (Hnan : nan64 ((if sign32 r then 2^63 else 0) + mag) = false).
  { unfold nan64. rewrite He.
    assert (mag / 2^52 < 2047).
    { apply N.div_lt_upper_bound; [discriminate|]. unfold FLT_MAX64 in Hmag. rewrite pow2_52. lia. }
    destruct (N.eqb_spec (mag / 2^52) 2047); [lia|reflexivity]. }
  split; [exact Hnan|]. unfold flt_ltb. rewrite Hnan, Hk.
  change (nan64 (neg64 FLT_MAX64)) with false. change (nan64 FLT_MAX64) with false.
  change (key64 (neg64 FLT_MAX64)) with (- 5183643170566569984)%Z.
  change (key64 FLT_MAX64) with 5183643170566569984%Z.
  unfold FLT_MAX64 in Hmag. cbn [negb andb]. destruct (sign32 r); split; lia.
Qed.

(* ---------- round32 (widen32 r) = r : widening is exact, so rounding back is the identity ---------- *)
Lemma fields64 (s : bool) E M : E < 2048 -> M < 2^52 ->
  let b := (if s then 2^63 else 0) + E * 2^52 + M in
  sign64 b = s /\ exp64 b = E /\ man64 b = M.
Proof.
  intros HE HM b. subst b. unfold sign64, exp64, man64. rewrite pow2_63, pow2_52 in *.
  destruct s; repeat split; lia.
Qed.

Lemma rne_exact q shift : 0 < shift -> rne (q * 2^shift) shift = q.
Proof.
  intro Hs. unfold rne.
  assert (Hp : 2^shift <> 0) by (apply N.pow_nonzero; discriminate).
  rewrite N.div_mul by assumption. rewrite N.mod_mul by assumption.
  destruct (N.eqb_spec shift 0); [lia|].
  assert (0 < 2^(shift - 1)) by (apply N.neq_0_lt_0; apply N.pow_nonzero; discriminate).
  destruct (N.ltb_spec (2^(shift-1)) 0); [lia|]. destruct (N.eqb_spec 0 (2^(shift-1))); [lia|]. reflexivity.
Qed.

Lemma round_widen r : r < 2^32 -> finite32 r = true -> round32 (widen32 r) = Ok r.
Proof.
  intros Hr Hfin. unfold finite32 in Hfin.
  assert (He : exp32 r < 255).
  { assert (exp32 r < 256) by (unfold exp32; apply N.mod_lt; discriminate).
    destruct (N.eqb_spec (exp32 r) 255); [discriminate|lia]. }
  assert (Hm : man32 r < 2^23) by (unfold man32; apply N.mod_lt; discriminate).
  assert (Hdec : r = (if sign32 r then 2^31 else 0) + exp32 r * 2^23 + man32 r).
  { unfold sign32, exp32, man32 in *. rewrite pow2_31, pow2_23 in *. change (2^32) with 4294967296 in Hr.
    destruct (N.leb_spec 2147483648 r); lia. }
  unfold widen32.
  destruct (N.eqb_spec (exp32 r) 255) as [E|_]; [lia|].
  destruct (N.eqb_spec (exp32 r) 0) as [E0|E0].
  - destruct (N.eqb_spec (man32 r) 0) as [M0|M0].
    + (* zero *)
      destruct (fields64 (sign32 r) 0 0) as (S1 & S2 & S3); [reflexivity|reflexivity|].
      replace ((if sign32 r then 2 ^ 63 else 0) + 0 * 2 ^ 52 + 0) with (if sign32 r then 2^63 else 0) in * by lia.
      unfold round32. rewrite S1, S2. cbn [N.eqb]. f_equal. symmetry. etransitivity; [exact Hdec|]. rewrite E0, M0. lia.
    + (* subnormal single *)
      destruct (size_bounds (man32 r)) as [[K1 K2] [K3 K4]]; [lia|assumption|].
      set (k := N.size (man32 r)) in *.
      assert (Hpow : 2^52 = 2^(k-1) * 2^(53-k)) by (rewrite <- N.pow_add_r; f_equal; lia).
      assert (Hpos : 0 < 2^(53-k)) by (apply N.neq_0_lt_0; apply N.pow_nonzero; discriminate).
      assert (Hge : 2^52 <= man32 r * 2^(53-k)) by (rewrite Hpow; apply N.mul_le_mono_r; assumption).
      assert (Hlt : man32 r * 2^(53-k) < 2 * 2^52).
      { replace (2 * 2^52) with (2^k * 2^(53-k)).
        - apply N.mul_lt_mono_pos_r; assumption.
        - rewrite <- N.pow_add_r. replace (k + (53 - k)) with 53 by lia. reflexivity. }
      destruct (fields64 (sign32 r) (k + 873) (man32 r * 2^(53-k) - 2^52)) as (S1 & S2 & S3); [lia|lia|].
      cbv zeta in S1, S2, S3.
      unfold round32. rewrite S1, S2, S3.
      destruct (N.eqb_spec (k + 873) 2047); [lia|]. destruct (N.eqb_spec (k + 873) 0); [lia|].
      destruct (N.leb_spec 897 (k + 873)); [lia|].
      replace (2^52 + (man32 r * 2^(53-k) - 2^52)) with (man32 r * 2^(53-k)) by lia.
      replace (29 + (897 - (k + 873))) with (53 - k) by lia.
      rewrite rne_exact by lia. f_equal. symmetry. etransitivity; [exact Hdec|]. rewrite E0. lia.
  - (* normal single *)
    assert (HM : man32 r * 2^29 < 2^52).
    { change (2^52) with (2^23 * 2^29). apply N.mul_lt_mono_pos_r; [reflexivity|assumption]. }
    destruct (fields64 (sign32 r) (exp32 r + 896) (man32 r * 2^29)) as (S1 & S2 & S3); [lia|assumption|].
    cbv zeta in S1, S2, S3.
    unfold round32. rewrite S1, S2, S3.
    destruct (N.eqb_spec (exp32 r + 896) 2047); [lia|]. destruct (N.eqb_spec (exp32 r + 896) 0); [lia|].
    destruct (N.leb_spec 897 (exp32 r + 896)); [|lia].
    replace (2^52 + man32 r * 2^29) with ((2^23 + man32 r) * 2^29) by (change (2^52) with (2^23 * 2^29); lia).
    rewrite rne_exact by lia.
    replace ((exp32 r + 896 - 897) * 2^23 + (2^23 + man32 r)) with (exp32 r * 2^23 + man32 r) by lia.
    destruct (N.leb_spec (255 * 2^23) (exp32 r * 2^23 + man32 r)) as [H9|H9].
    + rewrite pow2_23 in *. lia.
    + f_equal. symmetry. etransitivity; [exact Hdec|]. lia.
Qed.
