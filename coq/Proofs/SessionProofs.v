(* Proofs/SessionProofs.v — C05: the model of the HSMS session refines the E37 reference, step by step,
   from every state the model can be in. *)
From SG Require Import Base.Prelude Spec.E37Session Model.StateMachine Model.HsmsSession Gen.Machines.
From Coq Require Import Lia.
Open Scope Z_scope.
Open Scope string_scope.

(* ---------- the engine without handlers: only the current state matters ---------- *)
Lemma leave_chain_plain m pf : forall fuel st s dst,
  snd (leave_chain m no_handlers never_one_shot pf fuel st s dst) = false /\
  cur (fst (leave_chain m no_handlers never_one_shot pf fuel st s dst)) = cur st.
Proof.
  induction fuel as [|f IH]; intros st s dst; cbn [leave_chain fire no_handlers never_one_shot run_requests].
  - split; reflexivity.
  - destruct (parent_of m s) as [p|]; [|split; reflexivity].
    destruct (is_within m dst p); [split; reflexivity|].
    match goal with |- context [leave_chain _ _ _ _ f ?x p dst] => destruct (IH x p dst) as [A B] end.
    split; [exact A|rewrite B; reflexivity].
Qed.
Lemma enter_chain_plain m pf : forall fuel st s src,
  snd (enter_chain m no_handlers never_one_shot pf fuel st s src) = false /\
  cur (fst (enter_chain m no_handlers never_one_shot pf fuel st s src)) = cur st.
Proof.
  induction fuel as [|f IH]; intros st s src; cbn [enter_chain fire no_handlers never_one_shot run_requests].
  - split; reflexivity.
  - destruct (parent_of m s) as [p|]; [|split; reflexivity].
    match goal with |- context [if ?c then _ else _] => destruct c end; [split; reflexivity|].
    match goal with |- context [enter_chain _ _ _ _ f ?x p src] => destruct (IH x p src) as [A B] end.
    split; [exact A|rewrite B; reflexivity].
Qed.

Lemma perform_plain m fuel st name :
  perform m no_handlers never_one_shot (S fuel) st name =
  match find_trans m name with
  | Some (srcs, dst) =>
    if existsb (Nat.eqb (cur st)) srcs
    then (fst (perform m no_handlers never_one_shot (S fuel) st name), false)
    else (st, true)
  | None => (st, true)
  end /\
  (forall srcs dst, find_trans m name = Some (srcs, dst) -> existsb (Nat.eqb (cur st)) srcs = true ->
     cur (fst (perform m no_handlers never_one_shot (S fuel) st name)) = dst).
Proof.
  cbn [perform]. destruct (find_trans m name) as [[srcs dst]|]; [|split; [reflexivity|discriminate]].
  destruct (existsb (Nat.eqb (cur st)) srcs) eqn:E; cbn [negb]; [|split; [reflexivity|intros srcs' dst' H1 H2; injection H1 as <- <-; rewrite E in H2; discriminate H2]].
  destruct (leave_chain_plain m (perform m no_handlers never_one_shot fuel) (nstates m) st (cur st) dst) as [L1 L2].
  destruct (leave_chain m no_handlers never_one_shot (perform m no_handlers never_one_shot fuel) (nstates m) st (cur st) dst) as [st1 r1].
  cbn [fst snd] in L1, L2. subst r1.
  destruct (enter_chain_plain m (perform m no_handlers never_one_shot fuel) (nstates m) (with_cur st1 dst) dst (cur st1)) as [E1 E2].
  destruct (enter_chain m no_handlers never_one_shot (perform m no_handlers never_one_shot fuel) (nstates m) (with_cur st1 dst) dst (cur st1)) as [st3 r3].
  cbn [fst snd] in E1, E2. subst r3. cbn [fire no_handlers never_one_shot run_requests fst snd].
  split; [reflexivity|]. intros srcs' dst' H _. injection H as <- <-. exact E2.
Qed.

(* the connection machine's table, as regenerated *)
Lemma gen_connection_table :
  find_trans connection_machine "connect" = Some ([connection_NOT_CONNECTED], connection_CONNECTED_NOT_SELECTED) /\
  find_trans connection_machine "disconnect" = Some ([connection_CONNECTED_NOT_SELECTED; connection_CONNECTED_SELECTED], connection_NOT_CONNECTED) /\
  find_trans connection_machine "select" = Some ([connection_CONNECTED_NOT_SELECTED], connection_CONNECTED_SELECTED) /\
  find_trans connection_machine "deselect" = Some ([connection_CONNECTED_SELECTED], connection_CONNECTED_NOT_SELECTED) /\
  connection_NOT_CONNECTED = 0%nat /\ connection_CONNECTED_NOT_SELECTED = 2%nat /\ connection_CONNECTED_SELECTED = 3%nat.
Proof. repeat split; reflexivity. Qed.

(* what a transition request does to the session, by current state *)
Lemma request_spec s name srcs dst :
  find_trans connection_machine name = Some (srcs, dst) ->
  let '(s1, raised) := request s name in
  h_queues s1 = h_queues s /\ h_closing s1 = h_closing s /\
  (if existsb (Nat.eqb (cur (h_sm s))) srcs then raised = false /\ cur (h_sm s1) = dst else raised = true /\ h_sm s1 = h_sm s).
Proof.
  intro Hf. unfold request. destruct (perform_plain connection_machine 3 (h_sm s) name) as [P1 P2]. rewrite Hf in P1.
  destruct (perform connection_machine no_handlers never_one_shot 4 (h_sm s) name) as [m raised] eqn:E.
  cbn [h_queues h_closing h_sm]. split; [reflexivity|]. split; [reflexivity|].
  destruct (existsb (Nat.eqb (cur (h_sm s))) srcs) eqn:Ex.
  - apply (f_equal snd) in P1. cbn [snd] in P1. subst raised. split; [reflexivity|]. exact (P2 srcs dst Hf Ex).
  - assert (m = h_sm s) as -> by congruence. assert (raised = true) as -> by congruence. split; reflexivity.
Qed.

Definition abs (s : hs) : sess := {| st := abs_state s; waiting := h_queues s; closing := h_closing s |}.
(* reachable shape: one of the three leaf states; the closing flag only while connected *)
Definition inv (s : hs) : Prop :=
  (cur (h_sm s) = 0 \/ cur (h_sm s) = 2 \/ cur (h_sm s) = 3)%nat /\ (cur (h_sm s) = 0%nat -> h_closing s = false).

Lemma inv0 : inv hs0. Proof. split; [left; reflexivity|reflexivity]. Qed.

Lemma abs_state_cases s :
  (cur (h_sm s) = 0%nat /\ abs_state s = NotConnected) \/ (cur (h_sm s) = 2%nat /\ abs_state s = NotSelected) \/
  (cur (h_sm s) = 3%nat /\ abs_state s = Selected) \/ (cur (h_sm s) <> 0 /\ cur (h_sm s) <> 2 /\ cur (h_sm s) <> 3)%nat.
Proof.
  unfold abs_state. change connection_CONNECTED_SELECTED with 3%nat. change connection_CONNECTED_NOT_SELECTED with 2%nat.
  destruct (Nat.eqb_spec (cur (h_sm s)) 3) as [->|N3]; [right; right; left; split; reflexivity|].
  destruct (Nat.eqb_spec (cur (h_sm s)) 2) as [->|N2]; [right; left; split; reflexivity|].
  destruct (Nat.eq_dec (cur (h_sm s)) 0) as [->|N0]; [left; split; reflexivity|]. right; right; right. auto.
Qed.

Ltac req name :=
  match goal with |- context [request ?s name] =>
    let R := fresh "R" in
    destruct gen_connection_table as (T1 & T2 & T3 & T4 & _);
    first [ pose proof (request_spec s name _ _ T1) as R | pose proof (request_spec s name _ _ T2) as R
          | pose proof (request_spec s name _ _ T3) as R | pose proof (request_spec s name _ _ T4) as R ];
    clear T1 T2 T3 T4;
    destruct (request s name) as [?s1 ?raised]
  end.

Lemma abs_of s1 (c : nat) q cl :
  cur (h_sm s1) = c -> h_queues s1 = q -> h_closing s1 = cl ->
  abs s1 = {| st := (if (c =? 3)%nat then Selected else if (c =? 2)%nat then NotSelected else NotConnected); waiting := q; closing := cl |}.
Proof. intros <- <- <-. reflexivity. Qed.

Lemma finish s1 (o : list sout) (c : nat) q cl s' outs :
  cur (h_sm s1) = c -> h_queues s1 = q -> h_closing s1 = cl -> (c = 2 \/ c = 3)%nat -> o = outs ->
  {| st := (if (c =? 3)%nat then Selected else if (c =? 2)%nat then NotSelected else NotConnected); waiting := q; closing := cl |} = s' ->
  snd (s1, o) = outs /\ abs (fst (s1, o)) = s' /\ inv (fst (s1, o)).
Proof.
  intros Hc Hq Hl Hcc -> <-. cbn [fst snd]. split; [reflexivity|]. split; [apply abs_of; assumption|].
  unfold inv. split; [rewrite Hc; auto|]. rewrite Hc. intro Z. destruct Hcc as [->| ->]; discriminate Z.
Qed.

Lemma finish_same s (o outs : list sout) : inv s -> o = outs -> snd (s, o) = outs /\ abs (fst (s, o)) = abs s /\ inv (fst (s, o)).
Proof. intros I ->. cbn [fst snd]. auto. Qed.

Ltac fin_req C Q L D CL :=
  first [ eapply finish; [exact D|exact Q|exact L|auto|reflexivity|rewrite ?CL; reflexivity]
        | eapply finish; [rewrite D; exact C|exact Q|exact L|auto|reflexivity|rewrite ?CL; reflexivity] ].

Ltac fin_unq C Q L D :=
  eapply finish;
  [ cbn [unqueue h_sm]; first [exact D | exact C | rewrite D; exact C]
  | cbn [unqueue h_queues]; rewrite ?Q; reflexivity
  | cbn [unqueue h_closing]; first [exact L | reflexivity]
  | auto | reflexivity | reflexivity ].

(* the step simulation: whenever the E37 reference prescribes the reaction (and the event is not a Separate.req —
   known finding C05-separate-ignored), the model does exactly that *)
Definition not_separate (e : sevent) : Prop := match e with EvCtrl t _ _ => t <> ST_SEPARATE | _ => True end.

Theorem step_refines s e s' outs :
  inv s -> not_separate e -> e37_step (abs s) e = Some (s', outs) ->
  snd (hs_step s e) = outs /\ abs (fst (hs_step s e)) = s' /\ inv (fst (hs_step s e)).
Proof.
  intros Hinv Hns H. pose proof Hinv as [Hc Hcl].
  assert (Hst : (cur (h_sm s) = 0%nat /\ abs_state s = NotConnected) \/ (cur (h_sm s) = 2%nat /\ abs_state s = NotSelected) \/
                (cur (h_sm s) = 3%nat /\ abs_state s = Selected)).
  { destruct (abs_state_cases s) as [A|[A|[A|A]]]; auto. exfalso. destruct A as (A0 & A2 & A3). destruct Hc as [C|[C|C]]; auto. }
  clear Hc.
  destruct e as [| | |stype system status|system w wf|stype system|system]; cbn [e37_step abs st waiting closing] in H.
  - (* connected *)
    destruct Hst as [[C A]|[[C A]|[C A]]]; rewrite A in H; try discriminate H. injection H as <- <-.
    cbn [hs_step]. req "connect". rewrite C in R. cbn in R. destruct R as (Q & L & _ & D).
    cbn [fst snd]. split; [reflexivity|]. split.
    + rewrite (abs_of s1 _ _ _ D Q L). cbn. rewrite (Hcl C). reflexivity.
    + split; [right; left; exact D|]. intro Z. rewrite D in Z. discriminate Z.
  - (* closing *)
    cbn [hs_step]. unfold is_connected. change connection_NOT_CONNECTED with 0%nat.
    destruct Hst as [[C A]|[[C A]|[C A]]]; rewrite A in H; try discriminate H; injection H as <- <-; rewrite C; cbn [Nat.eqb negb fst snd];
      (split; [reflexivity|]; split; [unfold abs, abs_state; cbn [h_sm h_queues h_closing]; rewrite C; reflexivity|];
       split; [cbn [h_sm]; auto|cbn [h_sm]; rewrite C; discriminate]).
  - (* closed *)
    cbn [hs_step]. req "disconnect".
    destruct Hst as [[C A]|[[C A]|[C A]]]; rewrite A in H; try discriminate H; injection H as <- <-; rewrite C in R; cbn in R;
      destruct R as (Q & L & _ & D); cbn [fst snd]; (split; [reflexivity|]); (split; [|split; [cbn [h_sm]; auto|reflexivity]]);
      unfold abs, abs_state; cbn [h_sm h_queues h_closing]; rewrite D; reflexivity.
  - (* control message *)
    cbn [not_separate] in Hns. clear Hcl.
    assert (Hq : forall x, any_waiting (abs s) x = queued s x) by reflexivity.
    assert (Hw : forall x t, is_waiting (abs s) x t = true -> queued s x = true).
    { intros x t. unfold is_waiting, queued, abs; cbn [waiting]. rewrite !existsb_exists. intros [p [I E]]. exists p. split; [exact I|].
      apply andb_prop in E. apply E. }
    unfold ST_SELECT_REQ, ST_DESELECT_REQ, ST_LINKTEST_REQ, ST_SELECT_RSP, ST_DESELECT_RSP, ST_LINKTEST_RSP, ST_SEPARATE, ST_REJECT, REASON_NOT_SELECTED in *.
    cbn [hs_step]. unfold ST_SELECT_REQ, ST_DESELECT_REQ, ST_LINKTEST_REQ, ST_SELECT_RSP, ST_DESELECT_RSP, ST_LINKTEST_RSP.
    change connection_CONNECTED_SELECTED with 3%nat. change connection_CONNECTED_NOT_SELECTED with 2%nat.
    destruct Hst as [[C A]|[[C A]|[C A]]]; rewrite A in H; [discriminate H| |];
    (destruct (Z.eqb_spec stype 1) as [->|N1];
     [ cbn [Z.eqb Pos.eqb orb andb] in H; destruct (h_closing s) eqn:CL;
       [ injection H as <- <-; apply finish_same; [exact Hinv|reflexivity]
       | injection H as <- <-; req "select"; rewrite C in R; cbn in R; destruct R as (Q & L & _ & D); cbn [Z.eqb Pos.eqb]; fin_req C Q L D CL ]
     | ]);
    (destruct (Z.eqb_spec stype 3) as [->|N3];
     [ cbn [Z.eqb Pos.eqb orb andb] in H; destruct (h_closing s) eqn:CL;
       [ injection H as <- <-; apply finish_same; [exact Hinv|reflexivity]
       | injection H as <- <-; req "deselect"; rewrite C in R; cbn in R; destruct R as (Q & L & _ & D); cbn [Z.eqb Pos.eqb]; fin_req C Q L D CL ]
     | ]);
    (destruct (Z.eqb_spec stype 5) as [->|N5];
     [ cbn [Z.eqb Pos.eqb orb andb] in H; destruct (h_closing s) eqn:CL;
       injection H as <- <-; (apply finish_same; [exact Hinv|reflexivity])
     | ]);
    cbn [orb andb] in H;
    (destruct (Z.eqb_spec stype 9) as [->|N9]; [exfalso; apply Hns; reflexivity|]).
    all: assert (Hqa : forall x t, is_waiting (abs s) x t = queued_as s x t) by reflexivity.
    all: rewrite ?Hq, ?Hqa in H.
    all: destruct (Z.eqb_spec stype 2) as [->|N2];
      [ destruct (queued_as s system 1) eqn:QD; cbn [negb];
        [ injection H as <- <-; rewrite C; cbn [Nat.eqb andb sstate_eqb]; destruct (status =? 0)%Z; cbn [andb];
          try (req "select"; rewrite C in R; cbn in R; destruct R as (Q & L & _ & D); cbn [fst]); fin_unq C Q L D
        | injection H as <- <-; apply finish_same; [exact Hinv|reflexivity] ]
      | ].
    all: destruct (Z.eqb_spec stype 4) as [->|N4];
      [ destruct (queued_as s system 3) eqn:QD; cbn [negb];
        [ injection H as <- <-; rewrite C; cbn [Nat.eqb andb sstate_eqb]; destruct (status =? 0)%Z; cbn [andb];
          try (req "deselect"; rewrite C in R; cbn in R; destruct R as (Q & L & _ & D); cbn [fst]); fin_unq C Q L D
        | injection H as <- <-; apply finish_same; [exact Hinv|reflexivity] ]
      | ].
    all: destruct (Z.eqb_spec stype 6) as [->|N6];
      [ destruct (queued_as s system 5) eqn:QD; injection H as <- <-; [fin_unq C C C C | apply finish_same; [exact Hinv|reflexivity]] | ].
    all: destruct (Z.eqb_spec stype 7) as [->|N7]; [|discriminate H].
    all: destruct (queued s system) eqn:QD; injection H as <- <-; [fin_unq C C C C | apply finish_same; [exact Hinv|reflexivity]].
  - (* data message *)
    cbn [hs_step]. unfold is_selected. change connection_CONNECTED_SELECTED with 3%nat.
    assert (Hq : forall x t, is_waiting (abs s) x t = queued_as s x t) by reflexivity.
    destruct Hst as [[C A]|[[C A]|[C A]]]; rewrite A in H; [discriminate H| |]; rewrite C; cbn [Nat.eqb negb].
    + injection H as <- <-. apply finish_same; [exact Hinv|reflexivity].
    + destruct wf; [|discriminate H]. rewrite Hq in H.
      destruct (queued_as s system ST_DATA && negb w) eqn:QD; injection H as <- <-; [fin_unq C C C C|].
      apply finish_same; [exact Hinv|reflexivity].
  - (* own request opened *)
    injection H as <- <-. cbn [hs_step].
    destruct Hst as [[C A]|[[C A]|[C A]]].
    + cbn [fst snd]. split; [reflexivity|]. split; [unfold abs, abs_state; cbn [h_sm h_queues h_closing]; reflexivity|]. exact Hinv.
    + cbn [fst snd]. split; [reflexivity|]. split; [unfold abs, abs_state; cbn [h_sm h_queues h_closing]; reflexivity|]. exact Hinv.
    + cbn [fst snd]. split; [reflexivity|]. split; [unfold abs, abs_state; cbn [h_sm h_queues h_closing]; reflexivity|]. exact Hinv.
  - (* requester gives up *)
    injection H as <- <-. cbn [hs_step fst snd]. split; [reflexivity|]. split; [reflexivity|exact Hinv].
Qed.

(* ---------- every step keeps the reachable shape, whether or not E37 prescribes the reaction ---------- *)
Lemma request_shape s name :
  In name ["connect"; "disconnect"; "select"; "deselect"] -> inv s ->
  let s1 := fst (request s name) in
  h_queues s1 = h_queues s /\ h_closing s1 = h_closing s /\
  ((cur (h_sm s1) = 2 \/ cur (h_sm s1) = 3)%nat \/ (cur (h_sm s1) = 0%nat /\ (cur (h_sm s) = 0%nat \/ name = "disconnect"))).
Proof.
  intros Hn [Hc Hcl]. destruct gen_connection_table as (T1 & T2 & T3 & T4 & _).
  assert (Hs : exists srcs dst, find_trans connection_machine name = Some (srcs, dst) /\
               forall c, (c = 0 \/ c = 2 \/ c = 3)%nat ->
                 (if existsb (Nat.eqb c) srcs then (dst = 2 \/ dst = 3)%nat \/ (dst = 0%nat /\ name = "disconnect") else True)).
  { destruct Hn as [<-|[<-|[<-|[<-|[]]]]]; eexists; eexists; (split; [eassumption|]); intros c [->|[->| ->]]; cbn; auto. }
  destruct Hs as (srcs & dst & Hf & Hd). pose proof (request_spec s name srcs dst Hf) as R.
  destruct (request s name) as [s1 raised]. cbn [fst]. destruct R as (Q & L & R). split; [exact Q|]. split; [exact L|].
  specialize (Hd _ Hc). destruct (existsb (Nat.eqb (cur (h_sm s))) srcs).
  - destruct R as [_ D]. rewrite D. destruct Hd as [Hd|[Hd1 Hd2]]; [left; exact Hd|right; auto].
  - destruct R as [_ D]. rewrite D. destruct Hc as [C|[C|C]]; [right; auto|left; auto|left; auto].
Qed.

Lemma inv_of s1 s : h_closing s1 = h_closing s -> inv s ->
  ((cur (h_sm s1) = 2 \/ cur (h_sm s1) = 3)%nat \/ (cur (h_sm s1) = 0%nat /\ cur (h_sm s) = 0%nat)) -> inv s1.
Proof.
  intros L [Hc Hcl] [[D|D]|[D1 D2]]; split; try rewrite D; auto; try (intro Z; discriminate Z). rewrite L. intros _. exact (Hcl D2).
Qed.

Lemma unqueue_inv s x : inv s -> inv (unqueue s x). Proof. intro H; exact H. Qed.

Lemma step_inv s e : inv s -> inv (fst (hs_step s e)).
Proof.
  intro Hinv. destruct e as [| | |stype system status|system w wf|stype system|system]; cbn [hs_step].
  - pose proof (request_shape s "connect" ltac:(cbn; auto) Hinv) as (Q & L & D). destruct (request s "connect") as [s1 r]. cbn [fst] in *.
    apply (inv_of s1 s L Hinv). destruct D as [D|[D1 [D2|D2]]]; [left; exact D|right; auto|discriminate D2].
  - unfold is_connected. change connection_NOT_CONNECTED with 0%nat. destruct (Nat.eqb_spec (cur (h_sm s)) 0) as [E|E]; cbn [negb fst]; [exact Hinv|].
    destruct Hinv as [Hc Hcl]. split; [exact Hc|]. cbn [h_sm]. intro Z. contradiction.
  - pose proof (request_shape s "disconnect" ltac:(cbn; auto) Hinv) as (Q & L & D). destruct (request s "disconnect") as [s1 r]. cbn [fst] in *.
    split; cbn [h_sm h_closing]; [|reflexivity]. destruct D as [[D|D]|[D _]]; auto.
  - assert (Hsel : inv (fst (request s "select"))).
    { pose proof (request_shape s "select" ltac:(cbn; auto) Hinv) as (Q & L & D). apply (inv_of _ s L Hinv).
      destruct D as [D|[D1 [D2|D2]]]; [left; exact D|right; auto|discriminate D2]. }
    assert (Hdes : inv (fst (request s "deselect"))).
    { pose proof (request_shape s "deselect" ltac:(cbn; auto) Hinv) as (Q & L & D). apply (inv_of _ s L Hinv).
      destruct D as [D|[D1 [D2|D2]]]; [left; exact D|right; auto|discriminate D2]. }
    repeat match goal with
           | |- context [if ?b then _ else _] => destruct b
           | |- context [let '(_, _) := request s ?n in _] => destruct (request s n)
           end; cbn [fst] in *; try apply unqueue_inv; assumption.
  - repeat match goal with |- context [if ?b then _ else _] => destruct b end; cbn [fst]; try apply unqueue_inv; exact Hinv.
  - cbn [fst]. exact Hinv.
  - cbn [fst]. exact Hinv.
Qed.

Theorem reachable_inv es : inv (fst (hs_run hs0 es)).
Proof.
  assert (G : forall es s, inv s -> inv (fst (hs_run s es))).
  { induction es0 as [|e r IH]; intros s Hs; cbn [hs_run]; [exact Hs|].
    pose proof (step_inv s e Hs) as H1. destruct (hs_step s e) as [s1 o]. cbn [fst] in H1.
    specialize (IH s1 H1). destruct (hs_run s1 r) as [s2 os]. exact IH. }
  apply G. exact inv0.
Qed.

(* ---------- whole histories ---------- *)
Fixpoint e37_run (a : sess) (es : list sevent) : option (sess * list (list sout)) :=
  match es with
  | [] => Some (a, [])
  | e :: r => match e37_step a e with
              | None => None
              | Some (a1, o) => match e37_run a1 r with None => None | Some (a2, os) => Some (a2, o :: os) end
              end
  end.

Theorem history_refines es : forall s a' outs,
  inv s -> Forall not_separate es -> e37_run (abs s) es = Some (a', outs) ->
  snd (hs_run s es) = outs /\ abs (fst (hs_run s es)) = a'.
Proof.
  induction es as [|e r IH]; intros s a' outs Hs Hns H; cbn [e37_run hs_run] in *.
  - injection H as <- <-. split; reflexivity.
  - inversion Hns as [|? ? Hn1 Hn2]; subst. destruct (e37_step (abs s) e) as [[a1 o]|] eqn:E; [|discriminate H].
    destruct (step_refines s e a1 o Hs Hn1 E) as (S1 & S2 & S3). destruct (hs_step s e) as [s1 o1]. cbn [fst snd] in *. subst o1 a1.
    destruct (e37_run (abs s1) r) as [[a2 os]|] eqn:E2; [|discriminate H]. injection H as <- <-.
    destruct (IH s1 a2 os S3 Hn2 E2) as [I1 I2]. destruct (hs_run s1 r) as [s2 os2]. cbn [fst snd] in *. subst. split; reflexivity.
Qed.

(* ---------- the statements of C05, for every state a history can lead to ---------- *)
Definition reachable (s : hs) : Prop := exists es, s = fst (hs_run hs0 es).

Lemma reachable_is_inv s : reachable s -> inv s.
Proof. intros [es ->]. apply reachable_inv. Qed.

Definition response_type (stype : Z) : Z := stype + 1.

Theorem requests_answered s stype system status :
  reachable s -> abs_state s <> NotConnected -> In stype [ST_SELECT_REQ; ST_DESELECT_REQ; ST_LINKTEST_REQ] ->
  snd (hs_step s (EvCtrl stype system status)) =
    (if h_closing s then [OutReject system REASON_NOT_SELECTED] else [OutCtrl (response_type stype) system]).
Proof.
  intros Hr Hc Hin. pose proof (reachable_is_inv s Hr) as Hinv.
  assert (E : exists a', e37_step (abs s) (EvCtrl stype system status) =
              Some (a', if h_closing s then [OutReject system REASON_NOT_SELECTED] else [OutCtrl (response_type stype) system])).
  { cbn [e37_step abs st closing]. destruct (abs_state s); [contradiction Hc; reflexivity| |];
      destruct Hin as [<-|[<-|[<-|[]]]]; destruct (h_closing s); cbn; eexists; reflexivity. }
  destruct E as [a' E]. apply (step_refines s _ a' _ Hinv) in E; [apply E|].
  cbn. destruct Hin as [<-|[<-|[<-|[]]]]; discriminate.
Qed.

Theorem data_gate s system w wf :
  reachable s -> abs_state s <> Selected ->
  snd (hs_step s (EvData system w wf)) = [OutReject system REASON_NOT_SELECTED] /\ fst (hs_step s (EvData system w wf)) = s.
Proof.
  intros _ Hn. cbn [hs_step]. unfold is_selected. unfold abs_state in Hn.
  destruct (cur (h_sm s) =? connection_CONNECTED_SELECTED)%nat; [contradiction Hn; reflexivity|]. split; reflexivity.
Qed.

Theorem data_delivered s system w :
  reachable s -> abs_state s = Selected ->
  snd (hs_step s (EvData system w true)) = [if queued_as s system ST_DATA && negb w then OutResolve system else OutDeliver system] /\
  abs_state (fst (hs_step s (EvData system w true))) = Selected.
Proof.
  intros _ Hn. cbn [hs_step]. unfold is_selected. unfold abs_state in *.
  destruct (cur (h_sm s) =? connection_CONNECTED_SELECTED)%nat eqn:E; [|destruct (cur (h_sm s) =? connection_CONNECTED_NOT_SELECTED)%nat; discriminate Hn].
  cbn [negb]. destruct (queued_as s system ST_DATA && negb w); cbn [fst snd unqueue h_sm]; rewrite E; split; reflexivity.
Qed.

(* the state after any history on which E37 prescribes every step (no Separate.req among them) *)
Theorem state_follows_e37 es a' outs :
  Forall not_separate es -> e37_run sess0 es = Some (a', outs) ->
  abs_state (fst (hs_run hs0 es)) = st a' /\ snd (hs_run hs0 es) = outs.
Proof.
  intros Hns H. destruct (history_refines es hs0 a' outs inv0 Hns H) as [A B]. split; [|exact A]. rewrite <- B. reflexivity.
Qed.

(* Separate.req: E37 ends the session, the model (= the library, by correspondence) stays where it is *)
Definition separate_witness : list sevent := [EvConnected; EvCtrl ST_SELECT_REQ 8 0; EvCtrl ST_SEPARATE 9 0].
Theorem separate_refuted :
  exists es a' outs, e37_run sess0 es = Some (a', outs) /\ st a' = NotConnected /\ abs_state (fst (hs_run hs0 es)) = Selected.
Proof. exists separate_witness. eexists. eexists. split; [vm_compute; reflexivity|]. split; vm_compute; reflexivity. Qed.

Definition sample_history : list sevent :=
  [EvConnected; EvData 5 true true; EvCtrl 1 8 0; EvData 6 true true; EvOpen 5 77; EvData 77 true true; EvData 77 false true; EvCtrl 3 9 0; EvData 7 false true;
   EvOpen 1 78; EvCtrl 1 10 0; EvCtrl 2 78 0; EvClosing; EvCtrl 5 11 0; EvClosed; EvConnected; EvCtrl 5 12 0].

(* a control response that answers no open request of ITS type has no effect: the state stays, nobody is resolved - also when a request
   of another type is open under the same system bytes (D74) *)
Theorem foreign_response_no_effect s system status :
  (queued_as s system ST_SELECT_REQ = false -> hs_step s (EvCtrl ST_SELECT_RSP system status) = (s, [])) /\
  (queued_as s system ST_DESELECT_REQ = false -> hs_step s (EvCtrl ST_DESELECT_RSP system status) = (s, [])) /\
  (queued_as s system ST_LINKTEST_REQ = false -> hs_step s (EvCtrl ST_LINKTEST_RSP system status) = (s, [])).
Proof.
  unfold ST_SELECT_REQ, ST_DESELECT_REQ, ST_LINKTEST_REQ, ST_SELECT_RSP, ST_DESELECT_RSP, ST_LINKTEST_RSP.
  repeat split; intro Q; cbn [hs_step]; unfold ST_SELECT_REQ, ST_DESELECT_REQ, ST_LINKTEST_REQ, ST_SELECT_RSP, ST_DESELECT_RSP, ST_LINKTEST_RSP, ST_REJECT;
    cbn [Z.eqb Pos.eqb]; rewrite Q; reflexivity.
Qed.
