(* Proofs/ControlProofs.v — C11: the model of the control state handling refines the E30 reference.
   The stable part of the model's state space is finite (4 states x 2 switch positions x events on/off x 4 configured
   defaults) and so is the set of operations; the one-step refinement is decided by evaluation over that product and
   lifted to every history by induction. *)
From SG Require Import Base.Prelude Spec.E30Control Model.StateMachine Model.ControlLang Model.GemControl Gen.Machines Gen.ControlLogic.
Open Scope Z_scope.
Open Scope string_scope.

Definition inits : list string := ["EQUIPMENT_OFFLINE"; "ATTEMPT_ONLINE"; "HOST_OFFLINE"; "ONLINE"].
Definition subs : list string := ["LOCAL"; "REMOTE"].
Definition stable_curs : list nat := [control_EQUIPMENT_OFFLINE; control_HOST_OFFLINE; control_ONLINE_LOCAL; control_ONLINE_REMOTE].
Definition probes : list probe := [PNotCommunicating; PNoReply; PAbort; PAnswer].
Definition all_ops : list xop := map XOnline probes ++ [XOffline; XLocal; XRemote; XS1F15; XS1F17; XEnable true; XEnable false].
Definition all_states : list cst :=
  flat_map (fun c => flat_map (fun i => flat_map (fun s => map (fun e => {| c_cur := c; c_init := i; c_sub := s; c_enabled := e |}) [true; false]) subs) inits) stable_curs.

Definition stable (st : cst) : Prop := In (c_cur st) stable_curs /\ In (c_init st) inits /\ In (c_sub st) subs.
Definition stableb (st : cst) : bool :=
  existsb (Nat.eqb (c_cur st)) stable_curs && existsb (String.eqb (c_init st)) inits && existsb (String.eqb (c_sub st)) subs.

Lemma stableb_stable st : stableb st = true -> stable st.
Proof.
  unfold stableb, stable. rewrite !andb_true_iff, !existsb_exists. intros [[[c [Hc Ec]] [i [Hi Ei]]] [s [Hs Es]]].
  apply Nat.eqb_eq in Ec. apply String.eqb_eq in Ei. apply String.eqb_eq in Es. subst. auto.
Qed.

Lemma stable_in st : stable st -> In st all_states.
Proof.
  destruct st as [c i s e]. unfold stable; cbn [c_cur c_init c_sub]. intros (Hc & Hi & Hs).
  unfold all_states. apply in_flat_map. exists c. split; [exact Hc|].
  apply in_flat_map. exists i. split; [exact Hi|]. apply in_flat_map. exists s. split; [exact Hs|].
  destruct e; [left|right; left]; reflexivity.
Qed.

Lemma op_in o : In o all_ops.
Proof. destruct o as [p| | | | | |b]; [destruct p|..|destruct b]; cbn; auto 12. Qed.

Lemma forall_stable (P : cst -> bool) : forallb P all_states = true -> forall st, stable st -> P st = true.
Proof. intros H st Hs. rewrite forallb_forall in H. apply H. apply stable_in. exact Hs. Qed.

(* abstraction *)
Definition xstate_of (c : nat) : xstate :=
  if (c =? control_ONLINE_REMOTE)%nat then OnlineRemote else if (c =? control_ONLINE_LOCAL)%nat then OnlineLocal
  else if (c =? control_HOST_OFFLINE)%nat then HostOffline else EqOffline.
Definition abs (st : cst) : e30 := {| x_state := xstate_of (c_cur st); x_remote := String.eqb (c_sub st) "REMOTE"; x_events := c_enabled st |}.
Definition e30_eqb (a b : e30) : bool := xstate_eqb (x_state a) (x_state b) && Bool.eqb (x_remote a) (x_remote b) && Bool.eqb (x_events a) (x_events b).
Lemma e30_eqb_eq a b : e30_eqb a b = true -> a = b.
Proof.
  destruct a as [s r e], b as [s' r' e']. unfold e30_eqb; cbn. rewrite !andb_true_iff. intros [[H1 H2] H3].
  apply Bool.eqb_prop in H2, H3. subst. destruct s, s'; try discriminate H1; reflexivity.
Qed.

Definition count_x (o : xout) (l : list xout) : nat := length (filter (xout_eqb o) l).
Definition same_outs (a b : list xout) : bool := (length a =? length b)%nat && forallb (fun o => (count_x o a =? count_x o b)%nat) a.

(* one step: same new state, an admitted set of messages/events, the status variable, and the shape is kept *)
Definition step_check (st : cst) (o : xop) : bool :=
  let '(st1, outs) := gc_step st o in
  let '(a1, alts) := e30_step (abs st) o in
  e30_eqb (abs st1) a1 && existsb (same_outs outs) alts && stableb st1 && (gc_sv st1 =? e30_sv a1)%Z && String.eqb (c_init st1) (c_init st).

Lemma step_table : forallb (fun st => forallb (step_check st) all_ops) all_states = true.
Proof. vm_compute. reflexivity. Qed.

Theorem step_refines st o : stable st -> step_check st o = true.
Proof.
  intro Hs. pose proof (forall_stable _ step_table st Hs) as H. rewrite forallb_forall in H. apply H. apply op_in.
Qed.

(* histories *)
Fixpoint e30_follows (a : e30) (ops : list xop) (outs : list (list xout)) : option e30 :=
  match ops, outs with
  | [], [] => Some a
  | o :: opr, out :: outr => let '(a1, alts) := e30_step a o in if existsb (same_outs out) alts then e30_follows a1 opr outr else None
  | _, _ => None
  end.

Theorem history_refines : forall ops st, stable st ->
  e30_follows (abs st) ops (snd (gc_run st ops)) = Some (abs (fst (gc_run st ops))) /\ stable (fst (gc_run st ops)) /\
  gc_sv (fst (gc_run st ops)) = e30_sv (abs (fst (gc_run st ops))).
Proof.
  induction ops as [|o r IH]; intros st Hs; cbn [gc_run].
  - cbn. split; [reflexivity|]. split; [exact Hs|].
    assert (H : forallb (fun s => (gc_sv s =? e30_sv (abs s))%Z) all_states = true) by (vm_compute; reflexivity).
    apply Z.eqb_eq. exact (forall_stable _ H st Hs).
  - pose proof (step_refines st o Hs) as C. unfold step_check in C.
    destruct (gc_step st o) as [st1 out]. destruct (e30_step (abs st) o) as [a1 alts] eqn:E.
    rewrite !andb_true_iff in C. destruct C as [[[[C1 C2] C3] _] _]. apply e30_eqb_eq in C1. apply stableb_stable in C3.
    specialize (IH st1 C3). destruct (gc_run st1 r) as [s2 outs]. cbn [fst snd e30_follows] in *. rewrite E, C2. subst a1. exact IH.
Qed.

(* construction *)
Definition xinit_of (s : string) : xinit :=
  if String.eqb s "EQUIPMENT_OFFLINE" then IEqOffline else if String.eqb s "ATTEMPT_ONLINE" then IAttemptOnline
  else if String.eqb s "HOST_OFFLINE" then IHostOffline else IOnline.

Lemma init_ok init sub : In init inits -> In sub subs ->
  stable (gc_init init sub) /\ abs (gc_init init sub) = e30_init (xinit_of init) (String.eqb sub "REMOTE").
Proof.
  intros Hi Hs. assert (H : forallb (fun i => forallb (fun s => stableb (gc_init i s) && e30_eqb (abs (gc_init i s)) (e30_init (xinit_of i) (String.eqb s "REMOTE"))) subs) inits = true)
    by (vm_compute; reflexivity).
  rewrite forallb_forall in H. specialize (H init Hi). rewrite forallb_forall in H. specialize (H sub Hs).
  apply andb_true_iff in H as [H1 H2]. split; [apply stableb_stable; exact H1|apply e30_eqb_eq; exact H2].
Qed.

Theorem control_follows_e30 init sub ops : In init inits -> In sub subs ->
  let '(st, outs) := gc_run (gc_init init sub) ops in
  e30_follows (e30_init (xinit_of init) (String.eqb sub "REMOTE")) ops outs = Some (abs st) /\ gc_sv st = e30_sv (abs st).
Proof.
  intros Hi Hs. destruct (init_ok init sub Hi Hs) as [S A]. destruct (history_refines ops _ S) as (H1 & _ & H3).
  destruct (gc_run (gc_init init sub) ops) as [st outs]. cbn [fst snd] in *. rewrite <- A. split; assumption.
Qed.

(* acknowledge codes, read off the model directly *)
Definition onlack_of (s : xstate) : Z := match s with HostOffline => 0 | EqOffline => 1 | _ => 2 end.
Definition acks (l : list xout) : list xout := filter (fun o => match o with XAck _ _ | XAbortReply => true | _ => false end) l.

Theorem ack_codes st : stable st ->
  acks (snd (gc_step st XS1F17)) = [XAck 18 (onlack_of (x_state (abs st)))] /\ acks (snd (gc_step st XS1F15)) = [XAck 16 0].
Proof.
  intro Hs.
  assert (H : forallb (fun s => list_eqb xout_eqb (acks (snd (gc_step s XS1F17))) [XAck 18 (onlack_of (x_state (abs s)))] &&
                                list_eqb xout_eqb (acks (snd (gc_step s XS1F15))) [XAck 16 0]) all_states = true) by (vm_compute; reflexivity).
  pose proof (forall_stable _ H st Hs) as C. apply andb_true_iff in C as [C1 C2].
  assert (L : forall a b, list_eqb xout_eqb a b = true -> a = b).
  { induction a as [|x a IH]; destruct b as [|y b]; cbn; try discriminate; [reflexivity|]. rewrite andb_true_iff. intros [E1 E2]. f_equal; [|apply IH; exact E2].
    destruct x, y; cbn in E1; try discriminate E1; try reflexivity.
    - apply Z.eqb_eq in E1. subst; reflexivity.
    - apply andb_true_iff in E1 as [F1 F2]. apply Z.eqb_eq in F1, F2. subst; reflexivity. }
  split; apply L; assumption.
Qed.

(* a refused operator request changes nothing *)
Theorem refused_changes_nothing st o : stable st -> In XRefused (snd (gc_step st o)) -> fst (gc_step st o) = st.
Proof.
  intros Hs Hin.
  assert (H : forallb (fun s => forallb (fun op => negb (existsb (xout_eqb XRefused) (snd (gc_step s op))) ||
             (let s1 := fst (gc_step s op) in (c_cur s1 =? c_cur s)%nat && String.eqb (c_sub s1) (c_sub s) && String.eqb (c_init s1) (c_init s) && Bool.eqb (c_enabled s1) (c_enabled s))) all_ops) all_states = true)
    by (vm_compute; reflexivity).
  pose proof (forall_stable _ H st Hs) as C. rewrite forallb_forall in C. specialize (C o (op_in o)).
  apply orb_true_iff in C as [C|C].
  - exfalso. apply negb_true_iff in C. assert (existsb (xout_eqb XRefused) (snd (gc_step st o)) = true); [|congruence].
    apply existsb_exists. exists XRefused. split; [exact Hin|reflexivity].
  - rewrite !andb_true_iff in C. destruct C as [[[C1 C2] C3] C4]. apply Nat.eqb_eq in C1. apply String.eqb_eq in C2, C3. apply Bool.eqb_prop in C4.
    clear Hin Hs H. destruct (fst (gc_step st o)) as [c i s e], st as [c' i' s' e']. cbn [c_cur c_sub c_init c_enabled] in *. subst. reflexivity.
Qed.
