(* Base/Float.v — IEEE-754 binary32/binary64 on bit patterns, integer arithmetic only.
   Python floats are binary64 values; the model carries them as their 64-bit
   pattern (an N below 2^64), which is what float.hex()/struct.pack('>d') show.
   round32 models CPython's PyFloat_Pack4  ((float)x, round-to-nearest-even, and
   OverflowError when a finite double rounds to infinity); widen32 models
   struct.unpack('>f') (exact conversion float -> double). *)
From SG Require Import Base.Prelude.
Open Scope N_scope.

(* ---- fields ---- *)
Definition sign64 (b : N) : bool := 2^63 <=? b.
Definition exp64 (b : N) : N := (b / 2^52) mod 2048.
Definition man64 (b : N) : N := b mod 2^52.
Definition sign32 (b : N) : bool := 2^31 <=? b.
Definition exp32 (b : N) : N := (b / 2^23) mod 256.
Definition man32 (b : N) : N := b mod 2^23.

Definition nan64 (b : N) : bool := (exp64 b =? 2047) && negb (man64 b =? 0).
Definition inf64 (b : N) : bool := (exp64 b =? 2047) && (man64 b =? 0).
Definition finite64 (b : N) : bool := negb (exp64 b =? 2047).
Definition finite32 (b : N) : bool := negb (exp32 b =? 255).
Definition nan32 (b : N) : bool := (exp32 b =? 255) && negb (man32 b =? 0).

(* ---- ordering of non-NaN doubles (Python's < and > ; -0.0 == 0.0) ---- *)
Definition key64 (b : N) : Z :=
  let mag := Z.of_N (b mod 2^63) in if sign64 b then (- mag)%Z else mag.
Definition flt_ltb (a b : N) : bool :=
  negb (nan64 a) && negb (nan64 b) && (key64 a <? key64 b)%Z.
Definition flt_eqb (a b : N) : bool :=
  negb (nan64 a) && negb (nan64 b) && (key64 a =? key64 b)%Z.

(* ---- exact dyadic value  (mantissa, exponent):  mantissa * 2^exponent ---- *)
Definition sgn (s : bool) (m : N) : Z := if s then (- Z.of_N m)%Z else Z.of_N m.
Definition dy64 (b : N) : Z * Z :=
  if exp64 b =? 0 then (sgn (sign64 b) (man64 b), -1074)%Z
  else (sgn (sign64 b) (2^52 + man64 b), Z.of_N (exp64 b) - 1075)%Z.
Definition dy32 (b : N) : Z * Z :=
  if exp32 b =? 0 then (sgn (sign32 b) (man32 b), -149)%Z
  else (sgn (sign32 b) (2^23 + man32 b), Z.of_N (exp32 b) - 150)%Z.
Definition dy_eq (a b : Z * Z) : Prop :=
  let e := Z.min (snd a) (snd b) in
  (fst a * 2 ^ (snd a - e) = fst b * 2 ^ (snd b - e))%Z.

(* ---- float -> double (exact) ---- *)
Definition widen32 (b : N) : N :=
  let s := if sign32 b then 2^63 else 0 in
  let e := exp32 b in
  let m := man32 b in
  if e =? 255 then s + 2047 * 2^52 + m * 2^29
  else if e =? 0 then
    if m =? 0 then s
    else let k := N.size m in                 (* 1..23 *)
         s + (k + 873) * 2^52 + (m * 2^(53 - k) - 2^52)
  else s + (e + 896) * 2^52 + m * 2^29.

(* ---- double -> float, round to nearest even; Err = OverflowError ---- *)
Definition rne (sig shift : N) : N :=
  let q := sig / 2^shift in
  let r := sig mod 2^shift in
  let half := 2^(shift - 1) in
  if shift =? 0 then q
  else if (half <? r) || ((r =? half) && N.odd q) then q + 1 else q.

Definition round32 (b : N) : res N :=
  let s := if sign64 b then 2^31 else 0 in
  let e := exp64 b in
  let m := man64 b in
  if e =? 2047 then Ok (s + 255 * 2^23 + (if m =? 0 then 0 else 2^22 + m / 2^29))  (* inf / quiet nan *)
  else if e =? 0 then Ok s
  else
    let sig := 2^52 + m in
    if 897 <=? e then                       (* unbiased exponent >= -126 : normal single *)
      let mag := (e - 897) * 2^23 + rne sig 29 in
      if 255 * 2^23 <=? mag then Err EValue else Ok (s + mag)
    else                                    (* subnormal single or zero *)
      let shift := 29 + (897 - e) in
      Ok (s + rne sig shift).

(* FLT_MAX / DBL_MAX as doubles *)
Definition FLT_MAX64 : N := 0x47efffffe0000000.
Definition DBL_MAX64 : N := 0x7fefffffffffffff.
Definition neg64 (b : N) : N := if sign64 b then b - 2^63 else b + 2^63.
