(* Base/Kinds.v — names of the variable classes (shared by Gen/, Spec-free). *)
From SG Require Import Base.Prelude.

Inductive num_kind := U1 | U2 | U4 | U8 | I1 | I2 | I4 | I8 | F4 | F8.
Inductive skind := KBin | KBool | KStr | KJis | KNum (k : num_kind).
Inductive dkind := DArr | DScal (k : skind).
(* struct format characters (with '>' prefix): unsigned B H L Q, signed b h l q, float f d *)
Inductive struct_code := SC_B | SC_b_ | SC_H | SC_h_ | SC_L | SC_l_ | SC_Q | SC_q_ | SC_f_ | SC_d_.

Definition num_kind_eqb (a b : num_kind) : bool :=
  match a, b with
  | U1,U1 | U2,U2 | U4,U4 | U8,U8 | I1,I1 | I2,I2 | I4,I4 | I8,I8 | F4,F4 | F8,F8 => true
  | _, _ => false
  end.
Definition skind_eqb (a b : skind) : bool :=
  match a, b with
  | KBin,KBin | KBool,KBool | KStr,KStr | KJis,KJis => true
  | KNum x, KNum y => num_kind_eqb x y
  | _, _ => false
  end.
Definition dkind_eqb (a b : dkind) : bool :=
  match a, b with
  | DArr, DArr => true
  | DScal x, DScal y => skind_eqb x y
  | _, _ => false
  end.
Definition all_num_kinds : list num_kind := [U1;U2;U4;U8;I1;I2;I4;I8;F4;F8].
