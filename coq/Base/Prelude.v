(* Base/Prelude.v — shared vocabulary: result type, bytes, big-endian packing.
   Definitions only (executable); lemmas live in Proofs/. *)
From Coq Require Export NArith ZArith List Bool String.
Export ListNotations.
(* String exports its own length/concat/...: keep the list ones as the default *)
Notation length := List.length (only parsing).
Notation concat := List.concat (only parsing).
Notation app := List.app (only parsing).
Open Scope N_scope.

(* Exceptions of the implementation are a small enum; correspondence compares
   only Ok-vs-Err (DESIGN 11), the kind is kept for diagnostics. *)
Inductive err :=
| EValue        (* ValueError / struct.error / OverflowError *)
| EType         (* TypeError *)
| EIndex        (* IndexError / KeyError *)
| EUnicode      (* UnicodeEncodeError / UnicodeDecodeError *)
| EOutOfFuel    (* model artefact: excluded by every theorem *)
| EUnmodelled.  (* input form the model does not cover: harness skips it *)

Inductive res (A : Type) := Ok (a : A) | Err (e : err).
Arguments Ok {A} a.
Arguments Err {A} e.

Definition bind {A B} (r : res A) (f : A -> res B) : res B :=
  match r with Ok a => f a | Err e => Err e end.
Notation "'do' x <- r ; k" := (bind r (fun x => k))
  (at level 200, x pattern, r at level 100, k at level 200, right associativity).

Definition is_ok {A} (r : res A) : bool := match r with Ok _ => true | Err _ => false end.

Fixpoint mapM {A B} (f : A -> res B) (l : list A) : res (list B) :=
  match l with
  | [] => Ok []
  | x :: xs => do y <- f x; do ys <- mapM f xs; Ok (y :: ys)
  end.

(* ---- bytes ---- *)
Definition byteb (b : N) : bool := b <? 256.
Definition bytesb (l : list N) : bool := forallb byteb l.

(* big-endian, n bytes, value taken modulo 256^n *)
Fixpoint be (n : nat) (v : N) : list N :=
  match n with
  | O => []
  | S k => be k (v / 256) ++ [v mod 256]
  end.

Fixpoint be_val (l : list N) (acc : N) : N :=
  match l with
  | [] => acc
  | b :: r => be_val r (acc * 256 + b)
  end.

(* Python slicing data[a:a+n] (truncating) and indexing data[a] (raising) *)
(* len(l) < k, looking at no more than k elements (the decoders run on long lists) *)
Definition shorter {A} (l : list A) (k : nat) : bool := (length (firstn k l) <? k)%nat.

Definition slice (l : list N) (a n : nat) : list N := firstn n (skipn a l).
Definition index (l : list N) (a : nat) : res N :=
  match nth_error l a with Some b => Ok b | None => Err EIndex end.

(* two's complement of width w bytes *)
Definition tc_enc (w : nat) (z : Z) : N := Z.to_N (z mod 2 ^ (8 * Z.of_nat w)).
Definition tc_dec (w : nat) (n : N) : Z :=
  let m := (2 ^ (8 * Z.of_nat w))%Z in
  if (Z.of_N n <? m / 2)%Z then Z.of_N n else (Z.of_N n - m)%Z.

(* list equality helpers for the Run/ comparison functions *)
Fixpoint list_eqb {A} (eqb : A -> A -> bool) (a b : list A) : bool :=
  match a, b with
  | [], [] => true
  | x :: xs, y :: ys => eqb x y && list_eqb eqb xs ys
  | _, _ => false
  end.

(* run-length literal helper so that harness-written case files stay small *)
Definition rep (n : N) (b : N) : list N := repeat b (N.to_nat n).
Definition cyc {A} (k : N) (pat : list A) : list A := List.concat (repeat pat (N.to_nat k)).
