(* Base/PyRt.v — the handful of Python run-time operations that the statement-level translator
   (harness/gen_pyfuns.py -> Gen/PyFuns.v) refers to.  Definitions only.  Python ints are Z, byte strings are list N. *)
From SG Require Import Base.Prelude.
Open Scope Z_scope.

(* data[i] for a bytes / bytearray object: a negative index counts from the end, outside the object IndexError *)
Definition zidx (data : list N) (i : Z) : res Z :=
  let n := Z.of_nat (length data) in
  let j := if i <? 0 then i + n else i in
  if (j <? 0) || (n <=? j) then Err EIndex
  else match nth_error data (Z.to_nat j) with Some b => Ok (Z.of_N b) | None => Err EIndex end.

(* PacketData.get_one(): result = self._data[0]; self._data = self._data[1:] *)
Definition get_one (data : list N) : res (Z * list N) :=
  match data with [] => Err EIndex | b :: r => Ok (Z.of_N b, r) end.

(* bytes(bytearray((a, b, ...))): ValueError unless every element is in range(256) *)
Definition bytes_of (l : list Z) : res (list N) :=
  if forallb (fun x => (0 <=? x) && (x <? 256)) l then Ok (map Z.to_N l) else Err EValue.

(* for _ in range(n): body   (range of a negative number is empty) *)
Fixpoint iterM {S} (n : nat) (body : S -> res S) (s : S) : res S :=
  match n with
  | O => Ok s
  | S k => do s' <- body s; iterM k body s'
  end.
Definition for_range {S} (n : Z) (body : S -> res S) (s : S) : res S := iterM (Z.to_nat n) body s.

(* EnumClass(value): ValueError unless a member has that value *)
Definition enum_of (members : list (string * N)) (v : Z) : res Z :=
  if existsb (fun p => Z.of_N (snd p) =? v) members then Ok v else Err EValue.

(* what happens to a received data message at the point where it is handed over (Gen/HandOver.v: Protocol._deliver_message) *)
Inductive handover_action := ToRequester | ToQueue | ToApp.
