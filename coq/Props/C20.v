(* Props/C20.v — C20: a secsgem host and equipment always reach communication (establishment part).
   Theorems only.  Model: Model/Pair.v (the session model of C05 and the communication model of C07 on both ends of two
   FIFO channels). *)
From SG Require Import Base.Prelude Model.GemComm Model.Pair Proofs.PairProofs.
Open Scope Z_scope.

(* after ANY history of enabling and disabling either side, connecting, and deliveries in any order - in particular both
   enable orders and every disable/enable cycle: as soon as both sides are enabled, every order of the remaining deliveries
   ends, within 16 steps, with both sides SELECTED and COMMUNICATING *)
Theorem C20_both_reach_communicating : forall es,
  let p := prun pair0 es in enabled (pa p) = true -> enabled (pp p) = true -> settles 16 p = true.
Proof. exact both_reach_communicating. Qed.
Print Assumptions C20_both_reach_communicating.

(* the enumeration the theorem rests on contains every reachable state *)
Theorem C20_reachable_complete : forall es, In (prun pair0 es) reachable.
Proof. intro es. apply all_reachable. exact pair0_reachable. Qed.
Print Assumptions C20_reachable_complete.

(* communication is never reported on a side whose session is not SELECTED *)
Theorem C20_communicating_implies_selected : forall es,
  let p := prun pair0 es in (communicating (pa p) = true -> selected (pa p) = true) /\ (communicating (pp p) = true -> selected (pp p) = true).
Proof. exact communicating_implies_selected. Qed.
Print Assumptions C20_communicating_implies_selected.

Example C20_example :
  goal (prun pair0 [EnP; EnA; Conn; DelA2P; DelP2A; DelP2A; DelA2P; DelA2P; DelP2A; DelP2A]) = true /\
  goal (prun pair0 [EnA; EnP; Conn; DelA2P; DisP; EnP; Conn; DelA2P; DelP2A; DelA2P; DelP2A; DelP2A; DelA2P; DelA2P]) = true /\ length reachable = 25%nat.
Proof. repeat split; vm_compute; reflexivity. Qed.
