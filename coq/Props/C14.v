(* Props/C14.v — property C14: the Item API agrees with SEMI E5 and with the variables API on every value. *)
From SG Require Import Base.Prelude Base.Kinds Base.Float Gen.VarConsts Gen.ItemConsts Spec.E5 Model.Secs2 Model.Denote Model.Admits Model.Item.
From SG Require Import Proofs.Secs2Sim Proofs.ItemProofs Base.PyRt Gen.PyVarHdr Gen.PyItemHdr Proofs.PyVarHdrProofs Proofs.PyItemHdrProofs.
Open Scope N_scope.

(* Both item APIs produce identical bytes for the same typed value (any nesting, any length) ... *)
Theorem C14_apis_agree : forall v, item_like v = true -> item_encode v = py_encode v.
Proof. exact item_encode_eq. Qed.
Print Assumptions C14_apis_agree.

(* ... and those bytes are the SEMI E5 encoding of the value. *)
Theorem C14_encode_exact : forall v i, item_like v = true -> denote v = Some i -> e5_wf i = true ->
  item_encode v = Ok (e5_encode i) /\ py_encode v = Ok (e5_encode i).
Proof. exact item_encode_exact. Qed.
Print Assumptions C14_encode_exact.

(* Item.decode of any encoding the reference decoder accepts (finite floats; J through the variables
   API only) returns the item's value, and that item re-encodes to the canonical bytes. *)
Theorem C14_decode_reencode_canonical : forall F bs i rest, bytes bs -> e5_decode F bs = Some (i, rest) ->
  admits i TAny = true -> forall fuel, (2 * F <= fuel)%nat ->
  item_decode fuel bs = Ok (embed i TAny, rest) /\ item_encode (embed i TAny) = Ok (e5_encode i).
Proof. exact item_decode_valid. Qed.
Print Assumptions C14_decode_reencode_canonical.

(* Building an item from a plain int chooses the narrowest unsigned (non-negative) or signed width that
   holds it, keeps the value, and refuses exactly the integers no standard width holds. *)
Theorem C14_from_value_narrowest : forall z,
  from_value (PInt z) = match e5_narrowest z with Some n => Ok (VNum (kind_of_e5num n) [z]) | None => Err EValue end.
Proof. exact from_value_narrowest. Qed.
Print Assumptions C14_from_value_narrowest.

(* The two sets of class constants (variables API, Item API), both regenerated from the source, coincide. *)
Theorem C14_constants_coincide :
  (forall k, item_fc k = num_fc k /\ item_nbytes k = num_nbytes k /\ item_scode k = num_scode k /\
             item_is_float k = num_base_is_float k /\ item_min_int k = num_min_int k /\ item_max_int k = num_max_int k /\
             item_min_flt k = num_min_flt k /\ item_max_flt k = num_max_flt k) /\
  (item_fc_L = fc_Array /\ item_fc_B = fc_Binary /\ item_fc_BOOLEAN = fc_Boolean /\ item_fc_A = fc_String /\ item_fc_J = fc_JIS8) /\
  (item_coding_A = coding_String /\ item_coding_J = coding_JIS8) /\
  (item_min_B = 0%Z /\ item_max_B = 255%Z /\ item_min_BOOLEAN = 0%Z /\ item_max_BOOLEAN = 1%Z).
Proof. exact (conj gen_item_num (conj gen_item_fc (conj gen_item_codings gen_item_byte_bounds))). Qed.
Print Assumptions C14_constants_coincide.

Example C14_sample_in_domain :
  let v := VArr [VNum U2 [65535%Z]; VText false [72; 105]; VArr [VFlt F4 [0x3ff8000000000000]; VBin [0; 255]; VBool [true]]] in
  item_like v = true /\ (exists i, denote v = Some i /\ e5_wf i = true) /\
  from_value (PList [PInt 65535; PStr [72; 105]; PList [PFloat 0x3ff8000000000000; PBytes [0; 255]; PBool true]]) = Ok v.
Proof.
  cbv zeta. split; [reflexivity|]. split; [|vm_compute; reflexivity].
  eexists. split; [vm_compute; reflexivity|vm_compute; reflexivity].
Qed.

(* both APIs write and read item headers with code of their own (variables/base.py and item.py).  Both pairs of functions, translated from
   the source on every run, are the model's functions - and so each other's - for every format code, length and byte string *)
Theorem C14_header_code_is_model :
  (forall fc len, (fc < 64)%N -> item_encode_item_header (Z.of_N fc) (Z.of_N len) = item_header fc len) /\
  (forall data, item_decode_item_header data = do (rest, code, len) <- item_decode_header data; Ok (Z.of_N code, Z.of_N len, rest)) /\
  (forall fc len, (fc < 64)%N -> item_encode_item_header (Z.of_N fc) (Z.of_N len) = base_encode_item_header (Z.of_N fc) (Z.of_N len)).
Proof.
  split; [exact item_encode_item_header_is_model|]. split; [exact item_decode_item_header_is_model|].
  intros fc len H. rewrite item_encode_item_header_is_model, base_encode_item_header_is_model by exact H. reflexivity.
Qed.
Print Assumptions C14_header_code_is_model.
Example C14_header_code_in_domain :
  Forall (fun c => (c < 64)%N) ([item_fc_L; item_fc_B; item_fc_BOOLEAN; item_fc_A; item_fc_J] ++ map item_fc all_num_kinds) /\
  item_encode_item_header 8 256 = Ok [34; 1; 0] /\ item_decode_item_header [34; 1; 0; 5] = Ok (8%Z, 256%Z, [5]).
Proof. split; [repeat constructor|split]; vm_compute; reflexivity. Qed.
