(* Props/C04.v — property C04: HSMS frames are bit-exact and reassembled independently of TCP segmentation. *)
From SG Require Import Base.Prelude Base.Kinds Gen.ProtoConsts Spec.E4E37Frames Model.Secs2 Model.Frames Model.HsmsRx.
From SG Require Import Proofs.FramesProofs Proofs.RxProofs Base.PyRt Gen.PyHsmsHdr Proofs.PyHsmsHdrProofs Base.PyRt Gen.RxLoop Proofs.RxLoopProofs Gen.Dispatcher Model.DispatchLoop Proofs.DispatchLoopProofs.
From Coq Require Import Lia.
Open Scope N_scope.

(* a message encodes to exactly the E37 frame: 4-byte length, session id, W-bit|stream, function, PType, SType, system bytes, body *)
Theorem C04_frame_exact : forall h data,
  hhdr_fields_ok h -> (Z.of_nat (length data) + 10 < 4294967296)%Z ->
  hframe_encode h data = Ok (e37_frame (to_e37 h) data).
Proof. exact hframe_encode_exact. Qed.
Print Assumptions C04_frame_exact.

(* ... and decodes back to identical fields and body *)
Theorem C04_frame_roundtrip : forall h data,
  hhdr_fields_ok h -> (Z.of_nat (length data) + 10 < 4294967296)%Z ->
  hframe_decode (e37_frame (to_e37 h) data) = Ok (h, data).
Proof. exact hframe_roundtrip. Qed.
Print Assumptions C04_frame_roundtrip.

(* However the byte stream of any sequence of valid frames is cut into segments - single bytes, several
   frames per segment, cuts inside the length or the header - the receiver delivers exactly those
   messages, in order, none lost, duplicated or merged, and ends with an empty buffer, not parked. *)
Theorem C04_reassembly_segmentation_independent : forall ms segs,
  Forall frame_ok ms -> List.concat segs = List.concat (map enc_frame ms) ->
  rx_run rx_init segs = (rx_init, map (fun m => Delivered (fst m) (snd m)) ms).
Proof. exact reassembly_segmentation_independent. Qed.
Print Assumptions C04_reassembly_segmentation_independent.

(* More generally (also for streams that stop in the middle of a frame): feeding segment by segment is
   the same as draining the concatenated stream once. *)
Theorem C04_incremental_equals_whole : forall segs s b blk out,
  stable s -> drainF (rx_buf s ++ List.concat segs) = (b, blk, out, false) ->
  rx_run s segs = ({| rx_buf := b; rx_blocked := blk |}, out).
Proof. exact rx_run_stream. Qed.
Print Assumptions C04_incremental_equals_whole.

(* a frame that is not an HSMS message (too short for a header, an undefined SType) is dropped; the complete frames behind it are
   delivered all the same, without waiting for more data (D68) *)
Theorem C04_bad_frame_does_not_stall : forall bad ms e,
  (4 <= length bad)%nat -> (be_val (firstn 4 bad) 0 + 4 = N.of_nat (length bad))%N -> hframe_decode bad = Err e -> Forall frame_ok ms ->
  drainF (bad ++ List.concat (map enc_frame ms)) = ([], false, Dropped :: map (fun m => Delivered (fst m) (snd m)) ms, false).
Proof. exact bad_frame_does_not_stall. Qed.
Print Assumptions C04_bad_frame_does_not_stall.

Theorem C04_constants :
  hsms_header_format_enc = [SC_H; SC_B; SC_B; SC_B; SC_B; SC_L] /\ hsms_header_format_dec = [SC_H; SC_B; SC_B; SC_B; SC_B; SC_L] /\
  hsms_length_format = [SC_L] /\ hsms_checksum_format = [] /\ hsms_block_size = (-1)%Z /\ hsms_header_length = 10%nat /\
  map snd hsms_stypes = [0;1;2;3;4;5;6;7;9].
Proof. exact gen_hsms. Qed.
Print Assumptions C04_constants.

Definition sample_m : hhdr * list N :=
  ({| h_system := 0xffffffff; h_session := 65535; h_stream := 127; h_function := 255; h_w := true; h_ptype := 0; h_stype := 0 |}, [1; 2; 3]).
Example C04_sample_in_domain :
  frame_ok sample_m /\ List.concat [[0;0]; [0;13;255]; [255; 255; 255; 0; 0; 255; 255; 255; 255; 1; 2]; [3]] = List.concat (map enc_frame [sample_m]).
Proof. split; [unfold frame_ok, hhdr_fields_ok, sample_m; cbn; repeat split; try lia; reflexivity|vm_compute; reflexivity]. Qed.

(* The header functions are tied to the source by a theorem: HsmsHeader.encode and HsmsHeader.decode are translated statement by statement on
   every run (harness/pyfuns.py -> Gen/PyHsmsHdr.v), with every `self.x` followed through its property and the __init__ chain to the
   constructor argument it holds; as functions of the constructor's arguments they are the model's header functions, whose exactness and
   round trip are the theorems above. *)
Theorem C04_header_code_is_model :
  (forall h, (do fs <- hh_encode (hh_of h); pack_fields hsms_header_format_enc fs) = hhdr_encode h) /\
  (forall bs, hhdr_decode bs = do r <- unpack_fields hsms_header_format_dec bs;
                               match r with
                               | [r0; r1; r2; r3; r4; r5] => do a <- hh_decode r0 r1 r2 r3 r4 r5; Ok (hhdr_of a)
                               | _ => Err EValue
                               end).
Proof. exact (conj hh_encode_is_model hh_decode_is_model). Qed.
Print Assumptions C04_header_code_is_model.
Example C04_header_code_sample :
  hh_encode (hh_of (fst sample_m)) = Ok [65535; 255; 255; 0; 0; 4294967295]%Z /\
  hh_decode 65535 255 255 0 0 4294967295 = Ok (hh_of (fst sample_m)) /\ hh_decode 0 0 0 0 8 0 = Err EValue.
Proof. repeat split; vm_compute; reflexivity. Qed.

(* The framing loop is tied to the source by a theorem: HsmsProtocol._process_received_data is translated statement by statement on every run
   (harness/gen_rxloop.py -> Gen/RxLoop.v: the guard, the while loop, peek / unpack / pop, the try around HsmsBlock.decode, the direct hand-over
   of replies and queue_block; the ByteQueue methods are checked to be plain slices of one bytearray; any other state of the protocol object read
   or written in the loop stops the translator).  For every buffer, whatever the session state and whoever waits for a reply, one run of it
   leaves the bytes the model's `drain` leaves and treats the same frames in the same order the same way. *)
Theorem C04_receive_loop_code_is_model : forall is_data is_reply selected buf,
  let '(b, _, outs, _) := drain (S (length buf)) buf in
  let '(b', tr', _) := rx_process frame hframe_decode is_data is_reply selected buf in
  b' = b /\ map ev_out tr' = outs.
Proof. exact rx_process_is_drain. Qed.
Print Assumptions C04_receive_loop_code_is_model.
Example C04_receive_loop_sample :
  let f := [0;0;0;10; 0;0;0x81;1;0;0; 0;0;0;7]%N in
  map ev_out (snd (fst (rx_process frame hframe_decode (fun _ => true) (fun _ => false) true (f ++ [0;0;0;3;9;9;9] ++ f ++ [0;0]))))
  = [Delivered {| h_system := 7; h_session := 0; h_stream := 1; h_function := 1; h_w := true; h_ptype := 0; h_stype := 0 |} []; Dropped;
     Delivered {| h_system := 7; h_session := 0; h_stream := 1; h_function := 1; h_w := true; h_ptype := 0; h_stype := 0 |} []]%Z.
Proof. vm_compute. reflexivity. Qed.

(* "none lost" behind the framing: a frame that was cut out of the stream is queued for the dispatcher thread (put, then set the trigger).
   With the dispatcher loop as the source writes it (Gen/Dispatcher.v, regenerated: the trigger is cleared BEFORE the queue is drained) no
   interleaving of queueing and dispatcher steps leaves a frame in the queue with the dispatcher asleep and nobody about to wake it, and
   every queued frame is delivered or still queued (the same theorems as C06's, over the same regenerated flag). *)
Theorem C04_queued_frames_are_dispatched : forall tr,
  stuck (drun dispatcher_clears_before_drain d0 tr) = false.
Proof. exact no_lost_wakeup. Qed.
Print Assumptions C04_queued_frames_are_dispatched.
