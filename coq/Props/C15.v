(* Props/C15.v — property C15: the SML text of any item parses back to the same item; the parser terminates. *)
From SG Require Import Base.Prelude Base.Kinds Model.Secs2 Model.Item Model.Sfdl Model.Sml.
From SG Require Import Proofs.SmlProofs.
Open Scope N_scope.

(* On ANY token list the reader stops within a recursion depth bounded by the number of tokens (the fuel
   S (length ts) is never exhausted), with an item or an error ... *)
Theorem C15_reader_terminates : forall src, from_sml src <> Err EOutOfFuel.
Proof. exact from_sml_terminates. Qed.
Print Assumptions C15_reader_terminates.

(* ... and every item it returns consumed tokens (no item is produced out of nothing) *)
Theorem C15_reader_consumes : forall fuel ts, (length ts < fuel)%nat ->
  match read_item fuel ts with Ok (_, rest) => (length rest < length ts)%nat | Err e => e <> EOutOfFuel end.
Proof. exact read_item_ok. Qed.
Print Assumptions C15_reader_consumes.

(* the values of a scalar item are only accepted up to a closing '>' : without it there is no item *)
Theorem C15_scalar_needs_closing_bracket : forall (A : Type) (conv : text -> res A) fuel ts xs rest,
  read_values conv fuel ts = Ok (xs, rest) -> exists pre, ts = pre ++ [c_gt] :: rest.
Proof. exact (@read_values_closed). Qed.
Print Assumptions C15_scalar_needs_closing_bracket.

(* every integer - any size, any sign - printed by to_sml is read back as the same integer *)
Theorem C15_integers_roundtrip : forall z, parse_int10 (print_Z z) = Ok z.
Proof. exact int_print_parse. Qed.
Print Assumptions C15_integers_roundtrip.

(* instances of the full round trip, incl. quotes, control characters, JIS-8 and nesting (the general
   statement is decided by the correspondence check on generated items) *)
Definition sample_item : val :=
  VArr [VText false [115; 97; 121; 32; 34; 104; 105; 34; 0; 255]; VText true [65; 0xff71; 0xa5];
        VNum I8 [(-9223372036854775808)%Z; 0%Z]; VBin [0; 255]; VBool [true; false]; VArr []; VNum U1 []].
Theorem C15_roundtrip_sample :
  match to_sml 0 sample_item with Ok t => from_sml t = Ok sample_item | Err _ => False end.
Proof. vm_compute. reflexivity. Qed.
Print Assumptions C15_roundtrip_sample.

Theorem C15_rejection_examples :
  (forall v, from_sml (text_of_string "< L [1] < U1 5 > ") <> Ok v) /\
  (forall v, from_sml (text_of_string "< U3 5 >") <> Ok v) /\
  (forall v, from_sml (text_of_string "< L < U1 1 > . ") <> Ok v).
Proof. repeat split; intro v; vm_compute; discriminate. Qed.
Print Assumptions C15_rejection_examples.
