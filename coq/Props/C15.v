(* Props/C15.v — property C15: the SML text of any item parses back to the same item; the parser terminates. *)
From SG Require Import Base.Prelude Base.Kinds Model.Secs2 Model.Item Model.Sfdl Model.Sml.
From SG Require Import Proofs.SmlProofs Proofs.SmlLex Proofs.SmlRead.
Open Scope N_scope.

(* On ANY token list the reader stops within a recursion depth bounded by the number of tokens (the fuel
   S (length ts) is never exhausted), with an item or an error ... *)
Theorem C15_reader_terminates : forall src, from_sml src <> Err EOutOfFuel.
Proof. exact from_sml_terminates. Qed.
Print Assumptions C15_reader_terminates.

(* ... and every item it returns consumed tokens (no item is produced out of nothing) *)
Theorem C15_reader_consumes : forall fuel ts, (length ts < fuel)%nat ->
  match read_item fuel ts with Ok (_, rest) => (length rest < length ts)%nat | Err e => e <> EOutOfFuel end.
Proof. exact read_item_ok. Qed.
Print Assumptions C15_reader_consumes.

(* the values of a scalar item are only accepted up to a closing '>' : without it there is no item *)
Theorem C15_scalar_needs_closing_bracket : forall (A : Type) (conv : text -> res A) fuel ts xs rest,
  read_values conv fuel ts = Ok (xs, rest) -> exists pre, ts = pre ++ [c_gt] :: rest.
Proof. exact (@read_values_closed). Qed.
Print Assumptions C15_scalar_needs_closing_bracket.

(* every integer - any size, any sign - printed by to_sml is read back as the same integer *)
Theorem C15_integers_roundtrip : forall z, parse_int10 (print_Z z) = Ok z.
Proof. exact int_print_parse. Qed.
Print Assumptions C15_integers_roundtrip.

(* THE ROUND TRIP, for every item of the modelled domain - any nesting depth, any list length, empty items, text with
   quotes / control characters / blanks / brackets / non-ASCII (A: Latin-1, J: JIS-8), every integer class at any value
   in range, binary and boolean arrays of any length: the text to_sml prints (at any indentation) is tokenized and read
   back by from_sml as exactly that item.  sml_dom (Proofs/SmlLex.v) is the domain:
     lists of items of the domain | bytes < 256 | booleans | text that the item's codec can encode |
     integers within the bounds of their class | empty F4/F8 items.
   Non-empty F4/F8 items are outside (float formatting / float() are not modelled): those are checked by correspondence only. *)
Theorem C15_roundtrip : forall v, sml_dom v = true -> forall ind, exists t, to_sml ind v = Ok t /\ from_sml t = Ok v.
Proof. exact sml_roundtrip. Qed.
Print Assumptions C15_roundtrip.

(* the two halves it is made of: the tokenizer turns the printed text into the printed tokens (whatever follows), and
   the reader turns those tokens back into the item (whatever follows, for any sufficient recursion budget) *)
Theorem C15_tokens_of_printed_text : forall v, sml_dom v = true -> forall ind, exists t, to_sml ind v = Ok t /\
  forall acc rest, sml_lex (t ++ rest) [] 0 acc = sml_lex rest [] 0 (rev (ptoks v) ++ acc).
Proof. exact lex_item. Qed.
Print Assumptions C15_tokens_of_printed_text.
Theorem C15_reader_inverts_printer : forall v, sml_dom v = true -> forall fuel rest,
  (length (ptoks v ++ rest) < fuel)%nat -> read_item fuel (ptoks v ++ rest) = Ok (v, rest).
Proof. exact read_ptoks. Qed.
Print Assumptions C15_reader_inverts_printer.

(* non-vacuity: the sample below (quotes, NUL, 0xff, JIS-8 katakana and yen, extreme integers, empty items, nesting) is in the domain *)
Example C15_domain_inhabited : sml_dom (VArr [VText false [115; 97; 121; 32; 34; 104; 105; 34; 0; 255; 62; 60; 10]; VText true [65; 0xff71; 0xa5];
        VNum I8 [(-9223372036854775808)%Z; 0%Z]; VBin [0; 255]; VBool [true; false]; VArr []; VNum U1 []; VFlt F8 []; VArr [VArr [VArr []]]]) = true.
Proof. vm_compute. reflexivity. Qed.

(* REJECTION: on ANY token list, an item is only returned if the tokens start with '<' and a known type name, and the
   tokens taken for the item end with the closing '>' (a text whose brackets are not closed yields no item) *)
Theorem C15_accepts_only_closed_known : forall fuel ts v rest, read_item fuel ts = Ok (v, rest) ->
  (exists ty r u c, ts = [c_lt] :: ty :: r /\ upper ty = Ok u /\ class_of_name u = Some c) /\
  (exists pre, ts = (pre ++ [c_gt] :: rest)%list).
Proof. exact read_item_accepts_only. Qed.
Print Assumptions C15_accepts_only_closed_known.

(* ... and for the text as a whole (after the D53 repair): an item is returned only if ALL tokens of the text are that one item - the
   text starts with '<' and a known type name and its last token is the closing '>'; text behind the first item (an item that is not
   closed, an unknown type name, a literal left open) is refused *)
Theorem C15_whole_text_is_one_item : forall src v, from_sml src = Ok v ->
  (exists ty r u c, sml_tokens src = [c_lt] :: ty :: r /\ upper ty = Ok u /\ class_of_name u = Some c) /\
  (exists pre, sml_tokens src = (pre ++ [[c_gt]])%list).
Proof. exact from_sml_whole_text. Qed.
Print Assumptions C15_whole_text_is_one_item.

(* instances of the full round trip, incl. quotes, control characters, JIS-8 and nesting (evaluated instances of C15_roundtrip) *)
Definition sample_item : val :=
  VArr [VText false [115; 97; 121; 32; 34; 104; 105; 34; 0; 255]; VText true [65; 0xff71; 0xa5];
        VNum I8 [(-9223372036854775808)%Z; 0%Z]; VBin [0; 255]; VBool [true; false]; VArr []; VNum U1 []].
Theorem C15_roundtrip_sample :
  match to_sml 0 sample_item with Ok t => from_sml t = Ok sample_item | Err _ => False end.
Proof. vm_compute. reflexivity. Qed.
Print Assumptions C15_roundtrip_sample.

Theorem C15_rejection_examples :
  (forall v, from_sml (text_of_string "< L [1] < U1 5 > ") <> Ok v) /\
  (forall v, from_sml (text_of_string "< U3 5 >") <> Ok v) /\
  (forall v, from_sml (text_of_string "< L < U1 1 > . ") <> Ok v) /\
  (forall v, from_sml (text_of_string "< U1 5 > <") <> Ok v) /\
  (forall v, from_sml (text_of_string "< U1 5 > < FOO 1 >") <> Ok v) /\
  (forall v, from_sml (text_of_string "< U1 5 > 'never closed < A") <> Ok v).
Proof. repeat split; intro v; vm_compute; discriminate. Qed.
Print Assumptions C15_rejection_examples.
