(* Props/C10.v — C10: the TCP transport delivers every accepted byte exactly once and in order.
   Theorems only.  Model: Model/TcpSend.v with the loop shape regenerated into Gen/Send.v. *)
From SG Require Import Base.Prelude Model.TcpSend Gen.Send Proofs.SendProofs.
Open Scope nat_scope.

(* the send loop, as translated, advances by what send() reports *)
Theorem C10_send_loop_as_translated : send_advances = true.
Proof. reflexivity. Qed.
Print Assumptions C10_send_loop_as_translated.

(* for every message and however the socket takes it (any sequence of partial sends, would-block and errors): when
   success is reported the socket has taken exactly the message - complete, in order, nothing twice *)
Theorem C10_success_means_complete : forall oracle data t rest, send_data send_advances oracle data = (t, Some true, rest) -> t = data.
Proof. change send_advances with true. exact send_success_complete. Qed.
Print Assumptions C10_success_means_complete.

(* otherwise failure is reported (or the call is still waiting) and what was taken is a prefix of the message *)
Theorem C10_otherwise_prefix : forall oracle data t res rest, send_data send_advances oracle data = (t, res, rest) -> exists k, t = firstn k data.
Proof. change send_advances with true. exact send_otherwise_prefix. Qed.
Print Assumptions C10_otherwise_prefix.

(* a block cut into packets (any packet size): success means the whole block *)
Theorem C10_block_success_complete : forall psize oracle data t, send_block send_advances psize oracle data = (t, Some true) -> t = data.
Proof. change send_advances with true. exact block_success_complete. Qed.
Print Assumptions C10_block_success_complete.

(* a loop that takes one accepted send() call for the whole message reports success for a partial send *)
Theorem C10_oneshot_refuted : exists oracle data t rest, send_data false oracle data = (t, Some true, rest) /\ t <> data.
Proof. exact oneshot_refuted. Qed.
Print Assumptions C10_oneshot_refuted.

Example C10_example :
  send_data true [RWouldBlock; RTake 2; RWouldBlock; RTake 100] [1; 2; 3; 4; 5]%N = ([1; 2; 3; 4; 5]%N, Some true, []) /\
  send_data true [RTake 2; RError; RTake 9] [1; 2; 3; 4; 5]%N = ([1; 2]%N, Some false, [RTake 9]).
Proof. split; reflexivity. Qed.

(* One message, one connection (D79).  The socket is looked up once per message (Gen/Send.v, regenerated: `send_on_one_socket`).  For every
   message, however the socket takes it and whenever the connection ends and the next one is established in between: the connection that
   follows gets no byte of the message, the one it was started on has taken a prefix, and a reported success means it has taken all of it. *)
Theorem C10_message_stays_on_its_connection : forall oracle data a b res,
  send_data2 send_on_one_socket oracle data = (a, b, res) -> b = [] /\ (exists k, a = firstn k data) /\ (res = Some true -> a = data).
Proof. change send_on_one_socket with true. exact send_stays_on_its_connection. Qed.
Print Assumptions C10_message_stays_on_its_connection.

(* looking the socket up again for every part, as the code did before: success, two bytes on the first connection, two on the second *)
Theorem C10_send_across_connections_refuted :
  send_data2 false [R2 (RTake 2); RReplaced; R2 (RTake 5)] [1; 2; 3; 4]%N = ([1; 2]%N, [3; 4]%N, Some true).
Proof. exact send_across_connections_refuted. Qed.
Print Assumptions C10_send_across_connections_refuted.
