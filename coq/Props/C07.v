(* Props/C07.v — C07: the GEM communication state follows the E30 establish-communications model.
   Theorems only.  Model: Model/GemComm.v over the regenerated communication machine; reference: Spec/E30Comm.v. *)
From SG Require Import Base.Prelude Spec.E30Comm Model.StateMachine Model.GemComm Gen.Machines Proofs.CommProofs Gen.GemGate Proofs.GemGateProofs.
Open Scope Z_scope.

(* every history of enable/disable, link selected/lost, S1F13, S1F14 (any COMMACK, readable or not), other messages and
   timer expiries: each step of the model is one the E30 reference admits (state and what is sent / handled) *)
Theorem C07_history_refines_e30 : forall es, follows (abs gc0) es (gtrace gc0 es) = true.
Proof. intro es. apply history_refines. exact good0. Qed.
Print Assumptions C07_history_refines_e30.

Theorem C07_step_refines_e30 : forall s e, good s = true ->
  admitted_c s e (fst (gcomm_step s e)) (snd (gcomm_step s e)) = true /\ good (fst (gcomm_step s e)) = true.
Proof. exact step_refines. Qed.
Print Assumptions C07_step_refines_e30.

(* COMMUNICATING is reported only when, since the current link came up, an S1F14 with COMMACK 0 answered our request in
   WAIT CRA or a request of the peer was accepted *)
Theorem C07_established_only_after_exchange : forall es,
  comm_implies_flag (fst (run_flag gc0 false es)) (snd (run_flag gc0 false es)) = true.
Proof. intro es. apply established_after_exchange; reflexivity. Qed.
Print Assumptions C07_established_only_after_exchange.

(* loss of the link and disabling leave the established state *)
Theorem C07_link_loss_leaves_communicating : forall s, good s = true ->
  is (fst (gcomm_step s YLinkDown)) communication_COMMUNICATING = false /\ is (fst (gcomm_step s YDisable)) communication_COMMUNICATING = false.
Proof.
  intros s Hg.
  assert (T : forallb (fun s0 => negb (good s0) || (negb (is (fst (gcomm_step s0 YLinkDown)) communication_COMMUNICATING) && negb (is (fst (gcomm_step s0 YDisable)) communication_COMMUNICATING))) all_gc = true)
    by (vm_compute; reflexivity).
  rewrite forallb_forall in T. specialize (T s (gc_in s (good_lt s Hg))). rewrite Hg in T. cbn [negb orb] in T.
  apply andb_true_iff in T as [A B]. apply negb_true_iff in A, B. split; assumption.
Qed.
Print Assumptions C07_link_loss_leaves_communicating.

(* an unanswered or refused attempt is retried: T3 expiry / COMMACK <> 0 / an unreadable S1F14 lead to WAIT DELAY, its expiry
   to WAIT CRA with a new S1F13 *)
Theorem C07_attempt_retried : forall s c r, good s = true -> is s communication_WAIT_CRA = true -> g_link s = true -> (c =? 0) && r = false ->
  is (fst (gcomm_step s YT3)) communication_WAIT_DELAY = true /\ is (fst (gcomm_step s (YInS1F14 c r))) communication_WAIT_DELAY = true /\
  snd (gcomm_step (fst (gcomm_step s YT3)) YDelay) = [YSendS1F13] /\ is (fst (gcomm_step (fst (gcomm_step s YT3)) YDelay)) communication_WAIT_CRA = true.
Proof.
  intros s c r Hg Hw Hl Hc.
  assert (E : gcomm_step s (YInS1F14 c r) = gcomm_step s (YInS1F14 1 true)).
  { cbn [gcomm_step]. rewrite Hw. rewrite andb_comm in Hc. rewrite Hc. reflexivity. }
  rewrite E. clear E Hc c r.
  assert (T : forallb (fun s0 => negb (good s0 && is s0 communication_WAIT_CRA && g_link s0) ||
              (is (fst (gcomm_step s0 YT3)) communication_WAIT_DELAY && is (fst (gcomm_step s0 (YInS1F14 1 true))) communication_WAIT_DELAY &&
               list_eqb yout_eqb (snd (gcomm_step (fst (gcomm_step s0 YT3)) YDelay)) [YSendS1F13] &&
               is (fst (gcomm_step (fst (gcomm_step s0 YT3)) YDelay)) communication_WAIT_CRA)) all_gc = true)
    by (vm_compute; reflexivity).
  rewrite forallb_forall in T. specialize (T s (gc_in s (good_lt s Hg))). rewrite Hg, Hw, Hl in T. cbn [andb negb orb] in T.
  rewrite !andb_true_iff in T. destruct T as [[[T1 T2] T3] T4]. repeat split; try assumption.
  apply youts_eq. exact T3.
Qed.
Print Assumptions C07_attempt_retried.

(* while communication is not established nothing is handed to the application layer *)
Theorem C07_nothing_handled_unless_communicating : forall s e, good s = true -> is s communication_COMMUNICATING = false ->
  existsb (yout_eqb YHandled) (snd (gcomm_step s e)) = false.
Proof. exact nothing_handled_unless_communicating. Qed.
Print Assumptions C07_nothing_handled_unless_communicating.

(* a request that the application denies (on_commack_requested() = 1) is answered with COMMACK 1 and changes nothing (D41) *)
Theorem C07_denied_request_does_not_establish : forall s,
  gcomm_step s (YInS1F13 false) = (s, if is s communication_WAIT_CRA || is s communication_WAIT_DELAY || is s communication_COMMUNICATING then [YSendS1F14 1] else []).
Proof. intro s. cbn [gcomm_step]. destruct (is s communication_WAIT_CRA); [reflexivity|]. destruct (is s communication_WAIT_DELAY); [reflexivity|]. destruct (is s communication_COMMUNICATING); reflexivity. Qed.
Print Assumptions C07_denied_request_does_not_establish.

(* a request of the peer is answered - and, accepted, establishes communication - also while this side waits for its retry delay to
   expire (E30; D66: two sides that ignored each other's S1F13 in WAIT DELAY could miss each other forever) *)
Theorem C07_request_answered_in_wait_delay : forall s, good s = true -> is s communication_WAIT_DELAY = true ->
  is (fst (gcomm_step s (YInS1F13 true))) communication_COMMUNICATING = true /\ snd (gcomm_step s (YInS1F13 true)) = [YSendS1F14 0].
Proof.
  intros s Hg Hw.
  assert (T : forallb (fun s0 => negb (good s0 && is s0 communication_WAIT_DELAY) ||
              (is (fst (gcomm_step s0 (YInS1F13 true))) communication_COMMUNICATING && list_eqb yout_eqb (snd (gcomm_step s0 (YInS1F13 true))) [YSendS1F14 0])) all_gc = true)
    by (vm_compute; reflexivity).
  rewrite forallb_forall in T. specialize (T s (gc_in s (good_lt s Hg))). rewrite Hg, Hw in T. cbn [andb negb orb] in T.
  apply andb_true_iff in T as [A B]. split; [exact A|]. apply youts_eq. exact B.
Qed.
Print Assumptions C07_request_answered_in_wait_delay.

(* ... and neither does a request whose S1F14 cannot be sent (the write is refused: the link is just going down) - no exchange was completed (D63) *)
Theorem C07_unanswerable_request_does_not_establish : forall s, gcomm_step s YInS1F13Unanswerable = (s, []).
Proof. intro s. reflexivity. Qed.
Print Assumptions C07_unanswerable_request_does_not_establish.

Example C07_example :
  snd (gcomm_run gc0 [YEnable; YLinkUp; YT3; YInOther true true; YDelay; YInS1F14 1 true; YDelay; YInS1F14 0 true; YInOther true true; YLinkDown; YLinkUp; YInS1F13 true]) =
  [[]; [YSendS1F13]; []; []; [YSendS1F13]; []; [YSendS1F13]; []; [YHandled]; []; [YSendS1F13]; [YSendS1F14 0]].
Proof. vm_compute. reflexivity. Qed.

(* The gate in front of every received message is tied to the source by a theorem: GemHandler._on_message_received is translated statement by
   statement on every run (harness/gen_gemgate.py -> Gen/GemGate.v) into the list of things the handler does - answer S1F13 with the
   application's COMMACK, request a transition of the communication state machine, hand the message to the stream/function dispatch - as a
   function of the communication state, the message's stream and function, the application's decision, whether the answer could be sent and
   whether an S1F14 accepts.  In every state the model treats an inbound S1F13 (accepted, denied, unanswerable), an inbound S1F14 (any COMMACK,
   readable or not) and every other message exactly as that function says. *)
Theorem C07_gate_code_is_model :
  (forall (s : gc) (accept acc : bool), let a := (if accept then 0 else 1)%Z in
     gcomm_step s (YInS1F13 accept) = run_acts true [YSendS1F14 a] s (gem_on_message (g_cur s) 1 13 a true acc)) /\
  (forall s acc, gcomm_step s YInS1F13Unanswerable = run_acts false [] s (gem_on_message (g_cur s) 1 13 0 false acc)) /\
  (forall s c readable cm sent,
     gcomm_step s (YInS1F14 c readable) = run_acts sent [] s (gem_on_message (g_cur s) 1 14 cm sent (readable && (c =? 0)%Z))) /\
  (forall s registered w st fn cm sent acc, (st, fn) <> (1, 13)%Z -> (st, fn) <> (1, 14)%Z ->
     gcomm_step s (YInOther registered w) = run_acts sent (if registered || w then [YHandled] else []) s (gem_on_message (g_cur s) st fn cm sent acc)).
Proof. exact (conj gate_s1f13 (conj gate_s1f13_unanswerable (conj gate_s1f14 gate_other))). Qed.
Print Assumptions C07_gate_code_is_model.
Example C07_gate_sample :
  gem_on_message communication_WAIT_DELAY 1 13 0 true false = [GSendS1F14 0; GTransition "s1f13received"%string] /\
  gem_on_message communication_WAIT_CRA 1 14 0 true false = [GTransition "communicationreqfail"%string] /\
  gem_on_message communication_COMMUNICATING 6 11 0 true false = [GHandle] /\ gem_on_message communication_NOT_COMMUNICATING 1 13 0 true true = [].
Proof. repeat split; reflexivity. Qed.
