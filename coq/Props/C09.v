(* Props/C09.v — C09: no peer behaviour wedges the endpoint; link loss ends in a clean, reusable state.
   Theorems only.  Model: Model/Endpoint.v (receive path + session handling). *)
From SG Require Import Base.Prelude Base.Kinds Spec.E37Session Model.StateMachine Model.Secs2 Model.Frames Model.HsmsRx Model.HsmsSession Model.Endpoint
  Gen.Machines Proofs.RxProofs Proofs.SessionProofs Proofs.EndpointProofs Gen.SendQueue Model.SendQueue Proofs.SendQueueProofs Base.PyRt Gen.RxLoop Proofs.RxLoopProofs Gen.Lifecycle Proofs.LifecycleProofs.
Open Scope Z_scope.

(* whatever has arrived - any bytes, cut anywhere - closing the connection in any connected session state leaves the
   session NOT CONNECTED with an empty receive buffer and the closing flag cleared *)
Theorem C09_close_cleans : forall e, inv (e_hs e) -> is_connected (e_hs e) = true ->
  clean (fst (ep_step e LClose)) /\ inv (e_hs (fst (ep_step e LClose))).
Proof. exact close_cleans. Qed.
Print Assumptions C09_close_cleans.

(* ... and from such a state the next connection selects: the Select.req is the first thing parsed (no stale bytes)
   and is answered *)
Theorem C09_reusable_after_close : forall e system, inv (e_hs e) -> clean e -> 0 <= system < 4294967296 ->
  let '(e2, outs) := ep_run e [LConnect; LFeed (enc_frame (select_req system))] in
  outs = [[]; [OutCtrl ST_SELECT_RSP system]] /\ abs_state (e_hs e2) = Selected /\ e_rx e2 = rx_init.
Proof. exact reusable_after_close. Qed.
Print Assumptions C09_reusable_after_close.

(* a valid stream cut at ANY byte offset delivers exactly the messages that arrived completely; the partial one is
   neither delivered nor dropped with an error *)
Theorem C09_prefix_delivers_whole : forall ms, Forall frame_ok ms -> forall cut,
  exists b blk, drainF (firstn cut (List.concat (map enc_frame ms))) = (b, blk, map (fun m => Delivered (fst m) (snd m)) (whole cut ms), false).
Proof. exact prefix_delivers_whole. Qed.
Print Assumptions C09_prefix_delivers_whole.

(* the disconnect handling sends its Separate.req through the send queue: one run of _process_send_queue - as the source is
   written now (Gen/SendQueue.v, regenerated) - resolves EVERY queued block, however many blocks of however many packets wait
   there and whichever writes fail, so nothing (and nobody waiting for its block) is left behind a failed one *)
Theorem C09_send_queue_drained : forall blocks ws, (total blocks <= length ws)%nat ->
  Forall (fun r => r <> None) (process_queue send_queue_after_failure blocks ws).
Proof. exact continue_resolves_all. Qed.
Print Assumptions C09_send_queue_drained.
(* (returning after the first failed block - the code before D32 - strands the blocks behind it) *)
Theorem C09_send_queue_return_strands : process_queue QReturn [1; 1; 1]%nat [false; false; false] = [Some false; None; None].
Proof. exact return_strands. Qed.
Print Assumptions C09_send_queue_return_strands.

Example C09_example :
  let m1 := select_req 7 in
  let m2 := ({| h_system := 9; h_session := 0; h_stream := 1; h_function := 1; h_w := true; h_ptype := 0; h_stype := 0 |}, [1%N; 2%N; 3%N]) in
  map (fun cut => length (whole cut [m1; m2])) [0; 13; 14; 15; 30; 31; 40]%nat = [0; 0; 1; 1; 1; 2; 2]%nat.
Proof. vm_compute. reflexivity. Qed.

(* The framing loop is tied to the source by a theorem: HsmsProtocol._process_received_data is translated statement by statement on every run
   (harness/gen_rxloop.py -> Gen/RxLoop.v: the guard, the while loop, peek / unpack / pop, the try around HsmsBlock.decode, the direct hand-over
   of replies and queue_block; the ByteQueue methods are checked to be plain slices of one bytearray; any other state of the protocol object read
   or written in the loop stops the translator).  For every buffer, whatever the session state and whoever waits for a reply, one run of it
   leaves the bytes the model's `drain` leaves and treats the same frames in the same order the same way. *)
Theorem C09_receive_loop_code_is_model : forall is_data is_reply selected buf,
  let '(b, _, outs, _) := drain (S (length buf)) buf in
  let '(b', tr', _) := rx_process frame hframe_decode is_data is_reply selected buf in
  b' = b /\ map ev_out tr' = outs.
Proof. exact rx_process_is_drain. Qed.
Print Assumptions C09_receive_loop_code_is_model.
Example C09_receive_loop_sample :
  let f := [0;0;0;10; 0;0;0x81;1;0;0; 0;0;0;7]%N in
  map ev_out (snd (fst (rx_process frame hframe_decode (fun _ => true) (fun _ => false) true (f ++ [0;0;0;3;9;9;9]%N ++ f ++ [0;0]%N))))
  = [Delivered {| h_system := 7; h_session := 0; h_stream := 1; h_function := 1; h_w := true; h_ptype := 0; h_stype := 0 |} []; Dropped;
     Delivered {| h_system := 7; h_session := 0; h_stream := 1; h_function := 1; h_w := true; h_ptype := 0; h_stype := 0 |} []]%Z.
Proof. vm_compute. reflexivity. Qed.

(* Coming up and going down, as the code has it.  HsmsProtocol._on_connected, _on_disconnecting and _on_disconnected are read statement by
   statement on every run (harness/gen_lifecycle.py -> Gen/Lifecycle.v; _cancel_open_transactions and _cancel_send_queue are checked to release
   every waiter and resolve every queued block).  Carried out on the model's state, the regenerated sequences ARE the model's connect and close
   steps - the theorems above about closing in any state, with anything in the buffer, are about this clean-up - and the orders the repairs
   established are orders of these sequences: the session leaves NOT CONNECTED before the threads run (D8); when "disconnected" is announced the
   threads are stopped, the send queue is resolved, nobody waits for a reply any more and the receive buffer is empty (D24, D44, D62). *)
Theorem C09_lifecycle_code_is_model :
  (forall e, ep_step e LConnect = run_life e hsms_on_connected_ops) /\
  (forall e, is_connected (e_hs e) = true -> ep_step e LClose = run_life e (hsms_on_disconnecting_ops ++ hsms_on_disconnected_ops)).
Proof. exact (conj connect_is_the_code close_is_the_code). Qed.
Print Assumptions C09_lifecycle_code_is_model.

Theorem C09_lifecycle_orders :
  before (is_transition "connect") (fun o => match o with LStartThreads => true | _ => false end) hsms_on_connected_ops = true /\
  before (is_transition "disconnect") (is_fire "disconnected") hsms_on_disconnected_ops = true /\
  before (fun o => match o with LStopThreads => true | _ => false end) (is_fire "disconnected") hsms_on_disconnected_ops = true /\
  before (fun o => match o with LCancelSendQueue => true | _ => false end) (is_fire "disconnected") hsms_on_disconnected_ops = true /\
  before (fun o => match o with LCancelOpenTransactions => true | _ => false end) (is_fire "disconnected") hsms_on_disconnected_ops = true /\
  before (fun o => match o with LClearReceiveBuffer => true | _ => false end) (is_fire "disconnected") hsms_on_disconnected_ops = true.
Proof. exact lifecycle_orders. Qed.
Print Assumptions C09_lifecycle_orders.
