(* Props/C13.v — C13: status variables, constants and alarms answer as a reference model predicts.
   Theorems only.  Model: Model/EquipData.v; reference: Spec/E5Data.v. *)
From SG Require Import Base.Prelude Spec.E5Reports Spec.E5Data Model.EquipData Proofs.DataProofs.
From SG Require Import Gen.Alarms Proofs.AlarmsProofs.
Open Scope Z_scope.

(* every request and equipment-side change, from any table with unique ids: the reply (requested items in request order,
   all in table order for an empty request, the empty item for an unknown id), the acknowledge code, the S5F1 report and
   the new table are what E5 prescribes *)
Theorem C13_replies_as_reference : forall t o, wf t -> admitted13 t o (fst (ed_step t o)) (snd (ed_step t o)).
Proof. exact step_refines13. Qed.
Print Assumptions C13_replies_as_reference.

(* S2F15 applies nothing when it answers with a non-zero EAC *)
Theorem C13_s2f15_all_or_nothing : forall t data k, snd (m_set_ec t data) = DAck k -> k <> 0 -> fst (m_set_ec t data) = t.
Proof. exact set_refused_changes_nothing. Qed.
Print Assumptions C13_s2f15_all_or_nothing.

(* EAC 0 exactly when every id is known and every value is within its declared range (a NaN is not) *)
Theorem C13_s2f15_accepts_iff_valid : forall t data, ec_check t data = 0 <-> ex_unknown t data || ex_outside t data = false.
Proof. intros t data. apply ec_check_ok. Qed.
Print Assumptions C13_s2f15_accepts_iff_valid.

(* after any history no constant is outside its declared min/max *)
Theorem C13_ec_in_range : forall t ops, wf t -> ecs_in_range t = true -> ecs_in_range (fst (ed_run t ops)) = true.
Proof. intros t ops W R. apply run_keeps; assumption. Qed.
Print Assumptions C13_ec_in_range.

(* S5F5 is never aborted: one row per requested ALID in request order — the current ALCD (bit 8 = set) and ALTX of an alarm that
   exists, the zero-length ALCD/ALTX of E5 for one that does not *)
Theorem C13_s5f5_lists_requested : forall t ids, ids <> [] ->
  exists rows, snd (ed_step t (DListAlarms ids)) = DAlarms rows /\ map (fun r => fst (fst r)) rows = ids /\
    forall k, In k ids -> In (match rlookup k (alarms t) with Some a => (k, alcd a, al_text a) | None => (k, NO_ALCD, ""%string) end) rows.
Proof. exact list_alarms_rows. Qed.
Print Assumptions C13_s5f5_lists_requested.

(* the library's status variables AlarmsEnabled and AlarmsSet report exactly the alarms that are enabled / set at that moment *)
Theorem C13_alarm_status_variables : forall t,
  snd (ed_step t DReqAlarmSVs) = DAlarmLists (map fst (filter (fun p => al_enabled (snd p)) (alarms t))) (map fst (filter (fun p => al_set (snd p)) (alarms t))).
Proof. exact alarm_svs_current. Qed.
Print Assumptions C13_alarm_status_variables.

(* non-vacuity *)
Definition tab1 : dtab :=
  {| svs := [(IdN 10, {| sv_name := "a"; sv_unit := "mm"; sv_value := 5 |}); (IdS "sx", {| sv_name := "b"; sv_unit := ""; sv_value := 7 |})];
     ecs := [(IdN 10, {| ec_name := "e"; ec_unit := ""; ec_min := Some (NInt 0); ec_max := Some (NInt 100); ec_def := NInt 50; ec_value := NInt 50 |});
             (IdS "ex", {| ec_name := "f"; ec_unit := ""; ec_min := Some (NInt (-5)); ec_max := Some (NInt 5); ec_def := NInt 0; ec_value := NInt 1 |})];
     alarms := [(IdN 1, {| al_code := 1; al_text := "t"; al_enabled := false; al_set := false |})] |}.
Example C13_example :
  wf tab1 /\ ecs_in_range tab1 = true /\
  snd (ed_run tab1 [DReqSV [IdS "sx"; IdN 99; IdN 10]; DSetEC [(IdN 10, NInt 20); (IdS "ex", NNaN)]; DSetEC [(IdN 10, NInt 100); (IdS "ex", NInt (-5))]; DReqEC [];
                    DSetAlarm (IdN 1); DAlarmEnable (IdN 1) true; DClearAlarm (IdN 1); DListEnabled]) =
  [DValues [Some 7; None; Some 5]; DAck 3; DAck 0; DConsts [Some (NInt 100); Some (NInt (-5))]; DNone; DAck 0; DReport 1 (IdN 1); DAlarms [(IdN 1, 1, "t"%string)]].
Proof. split; [repeat split|]. split; vm_compute; reflexivity. Qed.

(* set_alarm / clear_alarm as the code has them: the two methods are read statement by statement on every run (harness/gen_alarms.py ->
   Gen/Alarms.v: unknown id raises; nothing to do when the alarm is in that state already; the flag is changed; THEN the S5F1 goes out if the
   alarm is enabled - with the set bit or without; the collection event).  Carried out on the model's alarm table these sequences are the
   model's steps (alarm codes without bit 8, as the library documents them) - in particular the order of D63: the state first, then the report. *)
Theorem C13_alarm_code_is_model : forall t k,
  (forall a, rlookup k (alarms t) = Some a -> (0 <= al_code a < 128)%Z) ->
  ed_step t (DSetAlarm k) = run_alarm set_alarm_ops t k /\ ed_step t (DClearAlarm k) = run_alarm clear_alarm_ops t k.
Proof. exact set_alarm_code_is_model. Qed.
Print Assumptions C13_alarm_code_is_model.
