(* Props/C01.v — property C01: SECS-II values round-trip and are encoded exactly as SEMI E5 prescribes.
   Theorems only; proofs are in Proofs/. *)
From SG Require Import Base.Prelude Base.Kinds Base.Float Gen.VarConsts Spec.E5 Model.Secs2 Model.Denote Model.Secs2Wf.
From SG Require Import Proofs.Secs2Enc Proofs.Secs2Dec Base.PyRt Gen.PyVarHdr Proofs.PyVarHdrProofs.
From Coq Require Import Lia.
Open Scope N_scope.

(* The item header the code builds with masks and shifts is the E5 header, for every
   format code and every length up to 16 777 215 (all three length-byte boundaries). *)
Theorem C01_header_bits : forall fc n,
  fc < 64 -> n <= MAXLEN -> encode_item_header fc n = Ok (e5_header fc n).
Proof. exact header_exact. Qed.
Print Assumptions C01_header_bits.

(* Every value a variable can hold whose E5 item exists is encoded to exactly e5_encode of it:
   any type, any nesting depth, any length. *)
Theorem C01_encode_exact : forall v i,
  denote v = Some i -> e5_wf i = true -> py_encode v = Ok (e5_encode i).
Proof. exact encode_exact. Qed.
Print Assumptions C01_encode_exact.

(* Decoding those bytes (followed by anything) with a fresh variable of the type gives the
   value back and consumes exactly the encoding. *)
Theorem C01_roundtrip : forall fuel v, (2 * vdepth v <= fuel)%nat ->
  forall t i, wf v t = true -> denote v = Some i -> e5_wf i = true ->
  forall tail pos, py_decode fuel t (e5_encode i ++ tail) pos = Ok (canon v, tail, pos + nlen (e5_encode i)).
Proof. exact roundtrip. Qed.
Print Assumptions C01_roundtrip.

(* ... and that value is the very same one unless an F4 holds a double that is not a binary32 value
   (then it is that double rounded to binary32, as E5's 4-byte float demands). *)
Theorem C01_equal_value : forall v, exact32 v = true -> canon v = v.
Proof. exact canon_exact. Qed.
Print Assumptions C01_equal_value.

(* The class constants regenerated from the source are the E5 ones. *)
Theorem C01_constants_are_E5 :
  (fc_Array = code_L /\ fc_List = code_L) /\ fc_Binary = code_B /\ fc_Boolean = code_BOOL /\
  fc_String = code_A /\ fc_JIS8 = code_J /\ (coding_String = "latin-1"%string /\ coding_JIS8 = "jis_8"%string) /\
  (forall k, num_fc k = (if is_unsigned k then code_U (e5w k) else if is_signed k then code_I (e5w k)
                         else match k with F4 => code_F4 | _ => code_F8 end)) /\
  (forall k, num_nbytes k = wbytes (e5w k)) /\
  (num_max_flt F4 = FLT_MAX64 /\ num_min_flt F4 = neg64 FLT_MAX64 /\
   num_max_flt F8 = DBL_MAX64 /\ num_min_flt F8 = neg64 DBL_MAX64).
Proof.
  exact (conj gen_fc_list (conj gen_fc_binary (conj gen_fc_boolean (conj gen_fc_string (conj gen_fc_jis8 (conj gen_codings
        (conj gen_fc_num (conj gen_nbytes gen_flt_bounds)))))))).
Qed.
Print Assumptions C01_constants_are_E5.

(* Non-vacuity: a nested value using every class, at a length-byte boundary, meets all hypotheses. *)
Definition sample_ty : ty :=
  TRec [("A", TArr (TScal (KNum U2) (-1)) (-1)); ("B", TScal KStr 5); ("C", TDyn [] (-1));
        ("D", TRec [("X", TScal (KNum F4) (-1)); ("Y", TScal KBin (-1)); ("Z", TAny)])]%string.
Definition sample_val : val :=
  VRec [VArr (repeat (VNum U2 [65535; 0]%Z) 300); VText false [72; 105]; VNum I8 [(-9223372036854775808)%Z];
        VRec [VFlt F4 [0x3ff8000000000000; 0x47efffffe0000000]; VBin (repeat 255 256);
              VArr [VBool [true; false]; VArr [VText false []]]]].
Example C01_sample_in_domain :
  wf sample_val sample_ty = true /\
  (exists i, denote sample_val = Some i /\ e5_wf i = true) /\ exact32 sample_val = true /\
  (2 * vdepth sample_val <= 10)%nat.
Proof.
  split; [vm_compute; reflexivity|]. split; [|split; [vm_compute; reflexivity|]].
  - exists (match denote sample_val with Some i => i | None => EL [] end). split; vm_compute; reflexivity.
  - vm_compute. lia.
Qed.

(* The tie for the item header is a theorem, not a sample: Base.encode_item_header and Base.decode_item_header, translated statement by
   statement from secsgem/secs/variables/base.py on every run (harness/pyfuns.py -> Gen/PyVarHdr.v; Python ints are Z, exceptions are
   Err), compute what the model computes - for every format code below 64, every length, every byte string and every position. *)
Theorem C01_header_code_is_model :
  (forall fc len, (fc < 64)%N -> base_encode_item_header (Z.of_N fc) (Z.of_N len) = encode_item_header fc len) /\
  (forall fc data p, same_ok (base_decode_item_header (fc_z fc) data (Z.of_nat p))
                             (do (rest, code, len, hl) <- decode_item_header fc (skipn p data);
                              Ok (Z.of_nat p + Z.of_N hl, Z.of_N code, Z.of_N len)%Z)).
Proof. exact (conj base_encode_item_header_is_model base_decode_item_header_is_model). Qed.
Print Assumptions C01_header_code_is_model.

(* the premise fc < 64 holds for every class of the regenerated table, and a negative or too large length is refused by the code as read *)
Example C01_header_code_in_domain :
  Forall (fun c => (c < 64)%N) ([fc_Array; fc_List; fc_Binary; fc_Boolean; fc_String; fc_JIS8] ++ map num_fc all_num_kinds) /\
  base_encode_item_header 16 65536 = Ok [67; 1; 0; 0] /\ base_encode_item_header 16 (-1) = Err EValue /\
  base_encode_item_header 16 16777216 = Err EValue /\ base_decode_item_header (-1) [0; 0; 0xB2; 1; 2; 9] 2 = Ok (5, 44, 258)%Z.
Proof. split; [repeat constructor|repeat split]; vm_compute; reflexivity. Qed.
