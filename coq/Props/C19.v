(* Props/C19.v — property C19: function structure definitions (SFDL) are read exactly as documented. *)
From SG Require Import Base.Prelude Base.Kinds Spec.SfdlDoc Model.Secs2 Model.Sfdl Gen.DataItems.
From SG Require Import Proofs.SfdlProofs.
Open Scope N_scope.

(* Any layout of the same tokens - any amount of whitespace, any comments, anywhere, including none between
   a bracket and a word - is split into exactly those tokens. *)
Theorem C19_layout_irrelevant : forall items lead,
  layout_ok items = true -> forallb gapel_ok lead = true ->
  elements_of (gap_text lead ++ render items) = map (fun p => tok_text (fst p)) items.
Proof. exact elements_layout_irrelevant. Qed.
Print Assumptions C19_layout_irrelevant.

Open Scope string_scope.
(* helpers to write definitions as token lists *)
Definition tk (s : string) : tok * list gapel :=
  let t := text_of_string s in
  match t with [c] => if is_op c then (TOp c, [GWs 32]) else (TWord t, [GWs 32]) | _ => (TWord t, [GWs 32]) end.
Definition def (l : list string) : text := render (map tk l).

Fixpoint shape_of (s : sty) : shape :=
  match s with
  | SLeaf n _ => ShItem n
  | SArr e => ShArray (shape_of e)
  | SRec fs => ShRecord (map (fun p => (fst p, shape_of (snd p))) fs)
  end.
Definition reads_as (l : list string) (a : sast) : Prop :=
  match sfdl_structure (def l) with Ok s => shape_of s = doc_shape a | Err _ => False end.

(* the documentation's own examples are read as the documentation says (S5F1, S1F3, S1F22, S2F23 twice, S2F33, S6F8) *)
Theorem C19_documented_examples :
  reads_as ["<";"L";"<";"ALCD";">";"<";"ALID";">";"<";"ALTX";">";">"]%string
           (AList None [AItem "ALCD"; AItem "ALID"; AItem "ALTX"]) /\
  reads_as ["<";"L";"<";"SVID";">";">"]%string (AList None [AItem "SVID"]) /\
  reads_as ["<";"L";"<";"L";"<";"VID";">";"<";"DVVALNAME";">";"<";"UNITS";">";">";">"]%string
           (AList None [AList None [AItem "VID"; AItem "DVVALNAME"; AItem "UNITS"]]) /\
  reads_as ["<";"L";"<";"TRID";">";"<";"DSPER";">";"<";"TOTSMP";">";"<";"REPGSZ";">";"<";"L";"<";"SVID";">";">";">"]%string
           (AList None [AItem "TRID"; AItem "DSPER"; AItem "TOTSMP"; AItem "REPGSZ"; AList None [AItem "SVID"]]) /\
  reads_as ["<";"L";"<";"TRID";">";"<";"DSPER";">";"<";"TOTSMP";">";"<";"REPGSZ";">";"<";"L";"SVIDS";"<";"SVID";">";">";">"]%string
           (AList None [AItem "TRID"; AItem "DSPER"; AItem "TOTSMP"; AItem "REPGSZ"; AList (Some "SVIDS") [AItem "SVID"]]) /\
  reads_as ["<";"L";"<";"DATAID";">";"<";"L";"REPORTS";"<";"L";"<";"RPTID";">";"<";"L";"<";"VID";">";">";">";">";">"]%string
           (AList None [AItem "DATAID"; AList (Some "REPORTS") [AList None [AItem "RPTID"; AList None [AItem "VID"]]]]) /\
  reads_as ["<";"L";"<";"DATAID";">";"<";"CEID";">";"<";"L";"DS";"<";"L";"<";"DSID";">";"<";"L";"DV";"<";"L";"<";"DVNAME";">";"<";"DVVAL";">";">";">";">";">";">"]%string
           (AList None [AItem "DATAID"; AItem "CEID"; AList (Some "DS") [AList None [AItem "DSID"; AList (Some "DV") [AList None [AItem "DVNAME"; AItem "DVVAL"]]]]]).
Proof. repeat split; vm_compute; reflexivity. Qed.
Print Assumptions C19_documented_examples.

(* a missing closing bracket and an unknown data item are rejected (instances; the general statement is
   covered by the correspondence check's bracket/name mutations) *)
Theorem C19_rejection_examples :
  (forall s, sfdl_structure (def ["<";"L";"<";"SVID";">"]%string) <> Ok s) /\
  (forall s, sfdl_structure (def ["<";"L";"<";"SVID";">";"<";"NOSUCHITEM";">";">"]%string) <> Ok s) /\
  (forall s, sfdl_structure (def ["<";"SVID"]%string) <> Ok s).
Proof. repeat split; intros s; vm_compute; discriminate. Qed.
Print Assumptions C19_rejection_examples.

(* KNOWN FINDING C19-name-handdown: a name handed down to member lists displaces the documented keys *)
Theorem C19_name_handdown_refuted :
  let l := ["<";"L";"<";"L";"DS";"<";"CEED";">";"<";"L";"<";"ECV";">";"<";"V";">";">";">";"<";"COLCT";">";">"]%string in
  let a := AList None [AList (Some "DS") [AItem "CEED"; AList None [AItem "ECV"; AItem "V"]]; AItem "COLCT"] in
  match sfdl_structure (def l) with
  | Ok s => shape_of s <> doc_shape a /\ naming_supported a = false /\ keys_distinct a = true
  | Err _ => False
  end.
Proof. vm_compute. repeat split; discriminate. Qed.
Print Assumptions C19_name_handdown_refuted.

Example C19_layout_sample_in_domain :
  layout_ok [(TOp 60, []); (TWord [76], [GComment [32; 60; 62] 10]); (TWord [88], [GWs 9; GWs 10]); (TOp 62, [])] = true.
Proof. vm_compute. reflexivity. Qed.
