(* Props/C19.v — property C19: function structure definitions (SFDL) are read exactly as documented. *)
From SG Require Import Base.Prelude Base.Kinds Spec.SfdlDoc Model.Secs2 Model.Sfdl Gen.DataItems.
From SG Require Import Proofs.SfdlProofs Proofs.SfdlShape.
Open Scope N_scope.

(* Any layout of the same tokens - any amount of whitespace, any comments, anywhere, including none between
   a bracket and a word - is split into exactly those tokens. *)
Theorem C19_layout_irrelevant : forall items lead,
  layout_ok items = true -> forallb gapel_ok lead = true ->
  elements_of (gap_text lead ++ render items) = map (fun p => tok_text (fst p)) items.
Proof. exact elements_layout_irrelevant. Qed.
Print Assumptions C19_layout_irrelevant.

(* THE DOCUMENTED SHAPE, for every definition of the documented grammar - any nesting depth, any number of members,
   fixed and open lists, optional list names - written in ANY layout (whitespace, comments):
   the text is accepted and the structure generated from it is the documented one: a list with one member is an open
   array of that member, any other list a record whose keys are the documented keys (Spec/SfdlDoc.v: doc_shape, doc_key).
   sfdl_dom (Proofs/SfdlShape.v) is the domain:
     ast_ok            data item names are catalogue names as the catalogue writes them, list names are words, every list has a member;
     keys_distinct     the documented keys of every record are pairwise distinct (the documentation does not say what a clash means);
     naming_supported  the definitions whose keys the documentation determines AND the reader honours
                       (outside: the known finding C19-name-handdown, and unnamed open lists of a named list, for which the
                        documentation names no key). *)
Theorem C19_documented_shape : forall a items lead, sfdl_dom a = true ->
  layout_ok items = true -> forallb gapel_ok lead = true -> map (fun p => tok_text (fst p)) items = atoks a ->
  exists s, sfdl_structure (gap_text lead ++ render items) = Ok s /\ shape_of s = doc_shape a.
Proof. exact documented_shape. Qed.
Print Assumptions C19_documented_shape.

(* the three stages it is made of, each for every nesting: the validation accepts the tokens of a definition and consumes exactly them, ... *)
Theorem C19_validation_accepts : forall a, ast_ok a = true -> forall f rest,
  (length (atoks a ++ rest) < f)%nat -> validate f (atoks a ++ rest) = Ok rest.
Proof. exact validate_ok. Qed.
Print Assumptions C19_validation_accepts.
(* ... the format generator reads them as the nesting they denote (with the list name handed to the members, fmt_of), ... *)
Theorem C19_format_of_tokens : forall a, ast_ok a = true -> forall f rest tn,
  (length (atoks a ++ rest) < f)%nat -> gen_sfdl f (atoks a ++ rest) tn = Ok (fmt_of a tn, rest).
Proof. exact gen_ok. Qed.
Print Assumptions C19_format_of_tokens.
(* ... and generate() turns that format into the documented shape, whatever name is handed down from outside *)
Theorem C19_shape_of_format : forall a, ast_ok a = true -> keys_distinct a = true -> naming_supported a = true ->
  forall tn, exists s, build (fmt_of a tn) = Ok (s, bname a tn) /\ shape_of s = doc_shape a.
Proof. exact build_ok. Qed.
Print Assumptions C19_shape_of_format.


(* REJECTION: on ANY element list the validation only accepts what starts with '<' and the list tag or a known data item name,
   and what it consumes ends with the closing '>'; no structure is generated from a text that is not such a definition *)
Theorem C19_accepts_only_closed_known : forall f els rest, validate f els = Ok rest ->
  (exists item r, els = [cp_lt] :: item :: r /\ (item = T_L \/ attr_exists item = true)) /\
  (exists pre, els = (pre ++ [cp_gt] :: rest)%list).
Proof. exact validate_accepts_only. Qed.
Print Assumptions C19_accepts_only_closed_known.
Theorem C19_structure_only_of_closed : forall src s, sfdl_structure src = Ok s ->
  exists item r pre rest, elements_of src = [cp_lt] :: item :: r /\ (item = T_L \/ attr_exists item = true) /\
                          elements_of src = (pre ++ [cp_gt] :: rest)%list.
Proof. exact structure_only_of_closed. Qed.
Print Assumptions C19_structure_only_of_closed.

(* the whole text is the definition (D56): nothing may follow the closing '>' - no second element, no bracket that is not closed, no
   unknown name *)
Theorem C19_structure_only_of_whole_text : forall src s, sfdl_structure src = Ok s ->
  exists item r pre, elements_of src = [cp_lt] :: item :: r /\ (item = T_L \/ attr_exists item = true) /\
                     elements_of src = (pre ++ [[cp_gt]])%list.
Proof. exact structure_only_of_whole_text. Qed.
Print Assumptions C19_structure_only_of_whole_text.

Open Scope string_scope.
(* non-vacuity: the documentation's S6F8 example (named open lists of unnamed records, four levels) is in the domain *)
Example C19_domain_inhabited :
  sfdl_dom (AList None [AItem "DATAID"; AItem "CEID"; AList (Some "DS") [AList None [AItem "DSID"; AList (Some "DV") [AList None [AItem "DVNAME"; AItem "DVVAL"]]]]]) = true.
Proof. vm_compute. reflexivity. Qed.

(* helpers to write definitions as token lists *)
Definition tk (s : string) : tok * list gapel :=
  let t := text_of_string s in
  match t with [c] => if is_op c then (TOp c, [GWs 32]) else (TWord t, [GWs 32]) | _ => (TWord t, [GWs 32]) end.
Definition def (l : list string) : text := render (map tk l).

Definition reads_as (l : list string) (a : sast) : Prop :=
  match sfdl_structure (def l) with Ok s => shape_of s = doc_shape a | Err _ => False end.

(* the documentation's own examples are read as the documentation says (S5F1, S1F3, S1F22, S2F23 twice, S2F33, S6F8) *)
Theorem C19_documented_examples :
  reads_as ["<";"L";"<";"ALCD";">";"<";"ALID";">";"<";"ALTX";">";">"]%string
           (AList None [AItem "ALCD"; AItem "ALID"; AItem "ALTX"]) /\
  reads_as ["<";"L";"<";"SVID";">";">"]%string (AList None [AItem "SVID"]) /\
  reads_as ["<";"L";"<";"L";"<";"VID";">";"<";"DVVALNAME";">";"<";"UNITS";">";">";">"]%string
           (AList None [AList None [AItem "VID"; AItem "DVVALNAME"; AItem "UNITS"]]) /\
  reads_as ["<";"L";"<";"TRID";">";"<";"DSPER";">";"<";"TOTSMP";">";"<";"REPGSZ";">";"<";"L";"<";"SVID";">";">";">"]%string
           (AList None [AItem "TRID"; AItem "DSPER"; AItem "TOTSMP"; AItem "REPGSZ"; AList None [AItem "SVID"]]) /\
  reads_as ["<";"L";"<";"TRID";">";"<";"DSPER";">";"<";"TOTSMP";">";"<";"REPGSZ";">";"<";"L";"SVIDS";"<";"SVID";">";">";">"]%string
           (AList None [AItem "TRID"; AItem "DSPER"; AItem "TOTSMP"; AItem "REPGSZ"; AList (Some "SVIDS") [AItem "SVID"]]) /\
  reads_as ["<";"L";"<";"DATAID";">";"<";"L";"REPORTS";"<";"L";"<";"RPTID";">";"<";"L";"<";"VID";">";">";">";">";">"]%string
           (AList None [AItem "DATAID"; AList (Some "REPORTS") [AList None [AItem "RPTID"; AList None [AItem "VID"]]]]) /\
  reads_as ["<";"L";"<";"DATAID";">";"<";"CEID";">";"<";"L";"DS";"<";"L";"<";"DSID";">";"<";"L";"DV";"<";"L";"<";"DVNAME";">";"<";"DVVAL";">";">";">";">";">";">"]%string
           (AList None [AItem "DATAID"; AItem "CEID"; AList (Some "DS") [AList None [AItem "DSID"; AList (Some "DV") [AList None [AItem "DVNAME"; AItem "DVVAL"]]]]]).
Proof. repeat split; vm_compute; reflexivity. Qed.
Print Assumptions C19_documented_examples.

(* a missing closing bracket and an unknown data item are rejected: evaluated instances (nested positions are covered by the
   correspondence check's bracket/name mutations) *)
Theorem C19_rejection_examples :
  (forall s, sfdl_structure (def ["<";"L";"<";"SVID";">"]%string) <> Ok s) /\
  (forall s, sfdl_structure (def ["<";"L";"<";"SVID";">";"<";"NOSUCHITEM";">";">"]%string) <> Ok s) /\
  (forall s, sfdl_structure (def ["<";"SVID"]%string) <> Ok s).
Proof. repeat split; intros s; vm_compute; discriminate. Qed.
Print Assumptions C19_rejection_examples.

(* KNOWN FINDING C19-name-handdown: a name handed down to member lists displaces the documented keys *)
Theorem C19_name_handdown_refuted :
  let l := ["<";"L";"<";"L";"DS";"<";"CEED";">";"<";"L";"<";"ECV";">";"<";"V";">";">";">";"<";"COLCT";">";">"]%string in
  let a := AList None [AList (Some "DS") [AItem "CEED"; AList None [AItem "ECV"; AItem "V"]]; AItem "COLCT"] in
  match sfdl_structure (def l) with
  | Ok s => shape_of s <> doc_shape a /\ naming_supported a = false /\ keys_distinct a = true
  | Err _ => False
  end.
Proof. vm_compute. repeat split; discriminate. Qed.
Print Assumptions C19_name_handdown_refuted.

(* KNOWN FINDING C19-duplicate-keys: two members whose keys are equal: the record keeps one of them, a member of the definition is lost *)
Theorem C19_duplicate_keys_refuted :
  let l := ["<";"L";"<";"MDLN";">";"<";"SOFTREV";">";"<";"MDLN";">";">"]%string in
  let a := AList None [AItem "MDLN"; AItem "SOFTREV"; AItem "MDLN"] in
  match sfdl_structure (def l) with
  | Ok (SRec fields) => length fields = 2%nat /\ keys_distinct a = false
  | _ => False
  end.
Proof. vm_compute. repeat split. Qed.
Print Assumptions C19_duplicate_keys_refuted.

Example C19_layout_sample_in_domain :
  layout_ok [(TOp 60, []); (TWord [76], [GComment [32; 60; 62] 10]); (TWord [88], [GWs 9; GWs 10]); (TOp 62, [])] = true.
Proof. vm_compute. reflexivity. Qed.
