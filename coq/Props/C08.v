(* Props/C08.v — C08: every primary expecting a reply is answered exactly once, with the same system bytes.
   Theorems only.  Model: Model/Dispatch.v over the callback tables regenerated into Gen/Callbacks.v. *)
From SG Require Import Base.Prelude Gen.Callbacks Model.Dispatch Proofs.DispatchProofs.
From SG Require Import Gen.SecsDispatch Proofs.SecsDispatchProofs.
Open Scope Z_scope.

(* what the regenerated tables say about the shipped callbacks: each way of returning is the secondary (same stream,
   function + 1), possibly sent by the callback itself with everything after that guarded; none returns None unanswered *)
Theorem C08_shipped_callbacks : table_ok equipment_callbacks = true /\ table_ok host_callbacks = true.
Proof. exact tables_ok. Qed.
Print Assumptions C08_shipped_callbacks.

(* W-bit set, any stream and function (catalogued or not, registered or not), any way the callback can finish including
   an exception: exactly one reply - the secondary, SxF0, or S9F5 *)
Theorem C08_answered_exactly_once : forall s f o,
  (possible equipment_callbacks s f o = true -> answered_once s f (dispatch equipment_callbacks s f true o) = true) /\
  (possible host_callbacks s f o = true -> answered_once s f (dispatch host_callbacks s f true o) = true).
Proof. intros s f o. split; intro H; apply w_answered_once; try exact H; apply tables_ok. Qed.
Print Assumptions C08_answered_exactly_once.

(* ... and so for ANY table of registered callbacks - also callbacks the user registers for streams outside the shipped catalogue,
   where no abort function SxF0 exists (then S9F5 answers a failing callback) - as long as each way of returning is the secondary *)
Theorem C08_any_registered_callbacks : forall tab s f o, table_ok tab = true -> possible tab s f o = true ->
  answered_once s f (dispatch tab s f true o) = true.
Proof. exact w_answered_once. Qed.
Print Assumptions C08_any_registered_callbacks.

(* no W-bit: silence exactly when nothing is registered for the message *)
Theorem C08_no_wbit_silent_iff : forall tab s f k, dispatch tab s f false (OReturn k) = [] <-> (lookup_cb tab s f = None \/ k = KNone).
Proof. exact now_silent_iff. Qed.
Print Assumptions C08_no_wbit_silent_iff.

(* the statement's last sentence is false of the faithful model (known finding C08-reply-without-wbit) *)
Theorem C08_reply_without_wbit_refuted :
  exists s f k, possible equipment_callbacks s f (OReturn k) = true /\ c08_ok s f false (OReturn k) (dispatch equipment_callbacks s f false (OReturn k)) = false.
Proof. exact reply_without_wbit_refuted. Qed.
Print Assumptions C08_reply_without_wbit_refuted.

Example C08_examples :
  dispatch equipment_callbacks 1 3 true (OReturn (KReply 1 4)) = [RSec 1 4] /\ dispatch equipment_callbacks 1 3 true ORaise = [RAbort 1] /\
  dispatch equipment_callbacks 99 1 true ORaise = [RS9F5] /\ dispatch host_callbacks 6 11 true (OReturn (KReply 6 12)) = [RSec 6 12] /\
  possible equipment_callbacks 2 41 (OReturn (KSentNone 2 42)) = true /\
  dispatch (((99, 1), [KReply 99 2]) :: equipment_callbacks) 99 1 true ORaise = [RS9F5] /\ dispatch (((1, 65), [KReply 1 66]) :: equipment_callbacks) 1 65 true ORaise = [RAbort 1].
Proof. repeat split. Qed.

(* The dispatch itself is tied to the source by a theorem: SecsHandler._handle_stream_function and _handle_unknown_functions are read statement by
   statement on every run (harness/gen_dispatch.py -> Gen/SecsDispatch.v; recognised: no callback -> the unknown-function answer; call the callback
   and send a result that is not None; on an exception send SxF0, or the unknown-function answer when the catalogue has none; S9F5 with the header
   only for a W-bit; every response with the message's system bytes).  For every callback table, every message and every way the callback can
   finish, the replies of the model's `dispatch` are what the callback sent itself followed by the regenerated decision carried out. *)
Theorem C08_dispatch_code_is_model : forall tab s f w o,
  let registered := match lookup_cb tab s f with Some _ => true | None => false end in
  dispatch tab s f w o =
  ((if registered then own_sends o else []) ++ map (act_reply s o) (secs_dispatch registered (raised o) (result_none o) (has_abort s) w))%list.
Proof. exact dispatch_code_is_model. Qed.
Print Assumptions C08_dispatch_code_is_model.
