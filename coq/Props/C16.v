(* Props/C16.v — property C16: SECS-I blocks split, checksum and reassemble any message body without loss. *)
From SG Require Import Base.Prelude Base.Kinds Gen.ProtoConsts Spec.E4E37Frames Model.Secs2 Model.Frames.
From SG Require Import Proofs.FramesProofs Base.PyRt Gen.PySecsIHdr Proofs.PySecsIHdrProofs Gen.Reasm Proofs.ReasmProofs Gen.Checksum Proofs.ChecksumProofs.
From Coq Require Import Lia.
Open Scope N_scope.

(* header: in-range fields are packed exactly as SEMI E4 lays them out, and read back unchanged *)
Theorem C16_header_exact : forall h, hdr_fields_ok h ->
  shdr_encode h = Ok (e4_header_bytes (to_e4 h)) /\ shdr_decode (e4_header_bytes (to_e4 h)) = Ok h.
Proof. intros h H. split; [apply shdr_encode_exact|apply shdr_roundtrip]; exact H. Qed.
Print Assumptions C16_header_exact.

(* block: length byte, header, data, checksum (sum of header and data bytes) exactly as E4; decodes back *)
Theorem C16_block_exact : forall h data,
  hdr_fields_ok h -> Forall (fun b => b < 256) data -> (length data <= 244)%nat ->
  sblock_encode {| sb_hdr := h; sb_data := data |} = Ok (e4_block (to_e4 h) data) /\
  sblock_decode (e4_block (to_e4 h) data) = Ok (Some {| sb_hdr := h; sb_data := data |}).
Proof. intros h d H1 H2 H3. split; [apply sblock_encode_exact|apply sblock_roundtrip]; assumption. Qed.
Print Assumptions C16_block_exact.

(* split: any body becomes blocks of at most 244 data bytes, numbered 1..n, end bit exactly on the last,
   every other header field preserved, and the data concatenates back to the body *)
Theorem C16_split : forall h data,
  let bl := split_blocks data h true in
  List.concat (map sb_data bl) = data /\ (1 <= length bl)%nat /\
  Forall (fun b => (length (sb_data b) <= 244)%nat) bl /\
  (forall i b, nth_error bl i = Some b ->
     sb_hdr b = with_block h (Z.of_nat i + 1) (Z.of_nat i + 1 =? Z.of_nat (length bl))%Z).
Proof. exact split_spec. Qed.
Print Assumptions C16_split.

(* reassembly: in ANY trace of received blocks — blocks of other messages with other system bytes
   interleaved anywhere — if the blocks carrying system bytes k are those of one message in order, the
   receiver hands out, at the position of its last block, the original body under that block's header
   (all header fields of the message, block number n, end bit), nothing before, and forgets the message *)
Theorem C16_reassembly_interleaved : forall h data tr s,
  let k := s_system h in
  rs_lookup k s = None ->
  filter (fun b => (msg_key (sb_hdr b) =? k)%Z) tr = split_blocks data h true ->
  let n := length (split_blocks data h true) in
  outs_of k tr (snd (feed s tr)) = repeat None (n - 1) ++ [Some (with_block h (Z.of_nat n) true, data)] /\
  rs_lookup k (fst (feed s tr)) = None.
Proof.
  intros h data tr s k Hs Hf n.
  pose proof (reassembly_local k tr s) as L. destruct (feed s tr) as [s' os]. rewrite Hs, Hf in L.
  pose proof (reassembly_single h data) as S. cbv zeta in S. rewrite S in L. destruct L as [L1 L2].
  cbn [fst snd]. split; [exact L2|exact L1].
Qed.
Print Assumptions C16_reassembly_interleaved.

(* ... and this does not depend on the state being clean: blocks still kept for these system bytes from an attempt that was
   never completed (a later block was refused, the sender starts over) are dropped when the first block of the message arrives *)
Theorem C16_reassembly_after_abandoned_attempt : forall h data tr s,
  let k := s_system h in
  filter (fun b => (msg_key (sb_hdr b) =? k)%Z) tr = split_blocks data h true ->
  let n := length (split_blocks data h true) in
  outs_of k tr (snd (feed s tr)) = repeat None (n - 1) ++ [Some (with_block h (Z.of_nat n) true, data)] /\
  rs_lookup k (fst (feed s tr)) = None.
Proof.
  intros h data tr s k Hf n.
  pose proof (reassembly_local k tr s) as L. destruct (feed s tr) as [s' os]. rewrite Hf in L.
  pose proof (reassembly_single h data) as S. cbv zeta in S.
  destruct (rs_lookup k s) as [old|]; [rewrite (reassembly_after_abandoned h data old) in L|]; rewrite S in L; destruct L as [L1 L2];
    cbn [fst snd]; (split; [exact L2|exact L1]).
Qed.
Print Assumptions C16_reassembly_after_abandoned_attempt.

(* the history behind D33, from the receiver's point of view: the first j blocks of a message arrive, the attempt is given up (a later
   block was refused on the line), the sender starts over with the same system bytes - the message is handed out exactly once,
   complete, at the end of the second attempt, and nothing is kept *)
Theorem C16_retry_after_failed_attempt : forall h data j, (j < length (split_blocks data h true))%nat ->
  let bl := split_blocks data h true in
  feed_k None (firstn j bl ++ bl) = (None, repeat None (j + (length bl - 1)) ++ [Some (with_block h (Z.of_nat (length bl)) true, data)]).
Proof. exact reassembly_retry. Qed.
Print Assumptions C16_retry_after_failed_attempt.

(* corruption: a block with any single byte altered (length, header, data or checksum) is never accepted *)
Theorem C16_corruption_detected : forall h data pos old nb,
  hdr_fields_ok h -> Forall (fun b => b < 256) data -> (length data <= 244)%nat ->
  nth_error (e4_block (to_e4 h) data) pos = Some old -> nb < 256 -> nb <> old ->
  forall b, sblock_decode (replace_nth pos nb (e4_block (to_e4 h) data)) <> Ok (Some b).
Proof. exact corruption_detected. Qed.
Print Assumptions C16_corruption_detected.

Theorem C16_constants :
  secsi_header_format_enc = [SC_H; SC_B; SC_B; SC_H; SC_L] /\ secsi_header_format_dec = [SC_H; SC_B; SC_B; SC_H; SC_L] /\
  secsi_length_format = [SC_B] /\ secsi_checksum_format = [SC_H] /\ secsi_block_size = 244%Z /\ secsi_header_length = 10%nat.
Proof. exact gen_secsi. Qed.
Print Assumptions C16_constants.

Definition sample_h : shdr := {| s_system := 0xfffffffe; s_device := 32767; s_stream := 127; s_function := 255; s_block := 0;
                                 s_r := true; s_w := true; s_e := false |}.
Example C16_sample_in_domain :
  hdr_fields_ok sample_h /\ length (split_blocks (repeat 7 489) sample_h true) = 3%nat /\
  filter (fun b => (msg_key (sb_hdr b) =? msg_key sample_h)%Z) (split_blocks (repeat 7 489) sample_h true) = split_blocks (repeat 7 489) sample_h true.
Proof. split; [unfold hdr_fields_ok, sample_h; cbn; lia|]. split; vm_compute; reflexivity. Qed.

(* SecsIHeader.encode / decode, translated statement by statement from secsgem/secsi/header.py on every run (harness/pyfuns.py ->
   Gen/PySecsIHdr.v; `self.x` followed to the constructor argument), are the model's header functions for every header and byte string *)
Theorem C16_header_code_is_model :
  (forall h, (do fs <- sh_encode (sh_of h); pack_fields secsi_header_format_enc fs) = shdr_encode h) /\
  (forall bs, shdr_decode bs = do r <- unpack_fields secsi_header_format_dec bs;
                               match r with
                               | [r0; r1; r2; r3; r4] => do a <- sh_decode r0 r1 r2 r3 r4; Ok (shdr_of a)
                               | _ => Err EValue
                               end).
Proof. exact (conj sh_encode_is_model sh_decode_is_model). Qed.
Print Assumptions C16_header_code_is_model.
Example C16_header_code_sample :
  sh_encode (sh_of sample_h) = Ok [65535; 255; 255; 0; 4294967294]%Z /\ sh_decode 65535 255 255 0 4294967294 = Ok (sh_of sample_h).
Proof. split; vm_compute; reflexivity. Qed.

(* Reassembly as the code has it.  Protocol._add_message_block is read statement by statement on every run (harness/gen_reasm.py -> Gen/Reasm.v):
   start-or-append under a key tuple of header fields, complete-and-forget, and nothing else (no eviction, no limit, no other entry touched).
   The key the model uses (one number, `msg_key`) tells two in-range headers apart exactly when the code's key tuple - the regenerated field
   list - does, and the model's start rule is the regenerated list of block numbers: the theorems above are about the code's keying. *)
Theorem C16_reassembly_as_translated :
  reasm_plain = true /\
  (forall h1 h2, hdr_fields_ok h1 -> hdr_fields_ok h2 ->
     (msg_key h1 = msg_key h2 <-> key_tuple reasm_key_fields h1 = key_tuple reasm_key_fields h2)) /\
  (forall b, starts_message b = existsb (fun v => (s_block (sb_hdr b) =? v)%Z) reasm_start_blocks).
Proof. split; [reflexivity|]. split; [exact msg_key_is_the_code_key|exact starts_message_is_the_code_rule]. Qed.
Print Assumptions C16_reassembly_as_translated.
Example C16_reassembly_key_sample :
  key_tuple reasm_key_fields sample_h = [Some 0xfffffffe; Some 127; Some 255; Some 1]%Z /\ Forall (fun o => o <> None) (key_tuple reasm_key_fields sample_h).
Proof. split; [reflexivity|]. repeat constructor; discriminate. Qed.

(* Block.checksum, translated statement by statement on every run (harness/gen_checksum.py -> Gen/Checksum.v: a left fold over the encoded header
   followed by the data, 0 for a block type without checksum), is the sum the model - and with it the corruption theorem above - uses. *)
Theorem C16_checksum_code_is_model : forall b hb,
  shdr_encode (sb_hdr b) = Ok hb -> sblock_checksum b = Ok (block_checksum true hb (sb_data b)).
Proof. exact checksum_code_is_model. Qed.
Print Assumptions C16_checksum_code_is_model.
