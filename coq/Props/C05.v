(* Props/C05.v — C05: the HSMS session follows the E37 connect/select state model for every history.
   Theorems only; the model is Model/HsmsSession.v (over the regenerated connection machine), the reference Spec/E37Session.v. *)
From SG Require Import Base.Prelude Spec.E37Session Model.StateMachine Model.HsmsSession Gen.Machines Proofs.SessionProofs Gen.HsmsCtrl Proofs.HsmsCtrlProofs.
Open Scope Z_scope.

(* state: after every history on which E37 prescribes each step, the session is in the prescribed state and has
   sent / delivered exactly the prescribed messages (Separate.req excluded: known finding C05-separate-ignored) *)
Theorem C05_state_follows_e37 : forall es a' outs,
  Forall not_separate es -> e37_run sess0 es = Some (a', outs) ->
  abs_state (fst (hs_run hs0 es)) = st a' /\ snd (hs_run hs0 es) = outs.
Proof. exact state_follows_e37. Qed.
Print Assumptions C05_state_follows_e37.

(* one step, from any state any history leads to *)
Theorem C05_step_refines_e37 : forall es e a' outs,
  let s := fst (hs_run hs0 es) in
  not_separate e -> e37_step (abs s) e = Some (a', outs) ->
  snd (hs_step s e) = outs /\ abs (fst (hs_step s e)) = a'.
Proof. intros es e a' outs s Hn H. destruct (step_refines s e a' outs (reachable_inv es) Hn H) as (A & B & _). split; assumption. Qed.
Print Assumptions C05_step_refines_e37.

(* every Select/Deselect/Linktest request is answered by exactly one message: the matching response with the
   request's system bytes, or a Reject while the endpoint is closing *)
Theorem C05_requests_answered : forall s stype system status,
  reachable s -> abs_state s <> NotConnected -> In stype [ST_SELECT_REQ; ST_DESELECT_REQ; ST_LINKTEST_REQ] ->
  snd (hs_step s (EvCtrl stype system status)) =
    (if h_closing s then [OutReject system REASON_NOT_SELECTED] else [OutCtrl (response_type stype) system]).
Proof. exact requests_answered. Qed.
Print Assumptions C05_requests_answered.

(* data while not SELECTED: one Reject (entity not selected) with its system bytes, nothing delivered, nothing changed *)
Theorem C05_data_gate : forall s system w wf,
  reachable s -> abs_state s <> Selected ->
  snd (hs_step s (EvData system w wf)) = [OutReject system REASON_NOT_SELECTED] /\ fst (hs_step s (EvData system w wf)) = s.
Proof. exact data_gate. Qed.
Print Assumptions C05_data_gate.

(* data while SELECTED: delivered — to the requester of the open DATA transaction with these system bytes if the message can be a reply
   (no W-bit), else to the application; a primary of the peer (W-bit) always reaches the application, whatever its system bytes (D49),
   and so does a secondary that carries the system bytes of an open Select / Deselect / Linktest request (D77) *)
Theorem C05_data_delivered : forall s system w,
  reachable s -> abs_state s = Selected ->
  snd (hs_step s (EvData system w true)) = [if queued_as s system ST_DATA && negb w then OutResolve system else OutDeliver system] /\
  abs_state (fst (hs_step s (EvData system w true))) = Selected.
Proof. exact data_delivered. Qed.
Print Assumptions C05_data_delivered.

(* a control response that answers no open request of its own type changes nothing - also when a request of ANOTHER type is open under
   the same system bytes: a Select.rsp carrying the system bytes of an open Linktest.req does not select the session (D74) *)
Theorem C05_foreign_response_no_effect : forall s system status,
  (queued_as s system ST_SELECT_REQ = false -> hs_step s (EvCtrl ST_SELECT_RSP system status) = (s, [])) /\
  (queued_as s system ST_DESELECT_REQ = false -> hs_step s (EvCtrl ST_DESELECT_RSP system status) = (s, [])) /\
  (queued_as s system ST_LINKTEST_REQ = false -> hs_step s (EvCtrl ST_LINKTEST_RSP system status) = (s, [])).
Proof. exact foreign_response_no_effect. Qed.
Print Assumptions C05_foreign_response_no_effect.

(* the session state is always one of the three E37 states *)
Theorem C05_three_states : forall es, inv (fst (hs_run hs0 es)).
Proof. exact reachable_inv. Qed.
Print Assumptions C05_three_states.

(* the full statement includes Separate.req; it is false of the faithful model *)
Theorem C05_separate_refuted :
  exists es a' outs, e37_run sess0 es = Some (a', outs) /\ st a' = NotConnected /\ abs_state (fst (hs_run hs0 es)) = Selected.
Proof. exact separate_refuted. Qed.
Print Assumptions C05_separate_refuted.

(* non-vacuity: E37 prescribes every step of a 17-event history (with a primary of the peer that carries the system bytes of an open transaction) through all three states, and the theorem's premises hold *)
Example C05_history_prescribed :
  Forall not_separate sample_history /\
  (exists a' outs, e37_run sess0 sample_history = Some (a', outs) /\ st a' = NotSelected /\ length (concat outs) = 14%nat).
Proof. split; [repeat constructor; cbn; discriminate|]. eexists; eexists. split; [vm_compute; reflexivity|]. split; reflexivity. Qed.

Example C05_reachable_selected : reachable (fst (hs_run hs0 [EvConnected; EvCtrl 1 8 0])) /\ abs_state (fst (hs_run hs0 [EvConnected; EvCtrl 1 8 0])) = Selected.
Proof. split; [eexists; reflexivity|vm_compute; reflexivity]. Qed.

(* The control-message handlers are tied to the source by a theorem: HsmsProtocol.__handle_hsms_requests and the five handlers it calls are
   translated statement by statement on every run (harness/gen_hsmsctrl.py -> Gen/HsmsCtrl.v) into the list of things the endpoint does with an
   inbound control message - send the response of the matching type, reject, request a transition of the connection state machine, hand the
   message to the requester - as a function of the message's SType and status byte, the connection state, whether the endpoint is closing and
   what is open under the message's system bytes.  For every control message, in every state, the model's step is that list carried out; the
   refinement theorems above are therefore about the handlers as the code has them now. *)
Theorem C05_control_code_is_model : forall s stype system status,
  hs_step s (EvCtrl stype system status) =
  run_ctl s system (hsms_on_control stype status (cur (h_sm s)) (h_closing s) (queued_as s system) (queued s system)).
Proof. exact control_code_is_model. Qed.
Print Assumptions C05_control_code_is_model.
Example C05_control_code_sample :
  hsms_on_control 1 0 connection_CONNECTED_NOT_SELECTED false (fun _ => false) false = [CSend 2; CTransition "select"%string] /\
  hsms_on_control 2 0 connection_CONNECTED_NOT_SELECTED false (fun t => t =? 1) true = [CTransition "select"%string; CResolve] /\
  hsms_on_control 2 0 connection_CONNECTED_NOT_SELECTED false (fun t => t =? 5) true = [] /\
  hsms_on_control 5 0 connection_CONNECTED_SELECTED true (fun _ => false) false = [CReject 4] /\ hsms_on_control 9 0 connection_CONNECTED_SELECTED false (fun _ => false) false = [].
Proof. repeat split; reflexivity. Qed.
