(* Props/C17.v — C17: the SECS-I line protocol delivers accepted messages intact, once; NAKs bad blocks.
   Theorems only.  Model: Model/SecsILine.v over the block codec of Model/Frames.v (C16) and the line characters
   regenerated into Gen/ProtoConsts.v. *)
From SG Require Import Base.Prelude Base.Kinds Gen.ProtoConsts Spec.E4E37Frames Model.Secs2 Model.Frames Model.SecsILine Proofs.FramesProofs Proofs.LineProofs.
From Coq Require Import Lia.
From SG Require Import Gen.SecsILine.
Open Scope N_scope.

(* however the line byte stream is chunked, the receiving side does the same *)
Theorem C17_chunking_irrelevant : forall chunks m, srx_chunks m chunks = srx_bytes m (List.concat chunks).
Proof. exact chunking_irrelevant. Qed.
Print Assumptions C17_chunking_irrelevant.

(* every valid block (any header, any data up to 244 bytes), announced by ENQ, in any chunking: EOT, delivered exactly
   once with identical header and data, ACK *)
Theorem C17_valid_block_received : forall h data chunks, block_ok h data -> List.concat chunks = secsi_ENQ :: enc_block h data ->
  srx_chunks RIdle chunks = (RIdle, [SentEOT; Got {| sb_hdr := h; sb_data := data |}; SentACK]).
Proof. exact valid_block_received. Qed.
Print Assumptions C17_valid_block_received.

(* one changed byte anywhere behind the length byte: NAK, nothing delivered *)
Theorem C17_corrupted_block_refused : forall h data pos old nb chunks, block_ok h data -> (0 < pos)%nat ->
  nth_error (enc_block h data) pos = Some old -> nb < 256 -> nb <> old ->
  List.concat chunks = secsi_ENQ :: replace_nth pos nb (enc_block h data) ->
  srx_chunks RIdle chunks = (RIdle, [SentEOT; SentNAK]).
Proof. exact corrupted_block_refused. Qed.
Print Assumptions C17_corrupted_block_refused.

(* sender and receiver on one line, a message of any number of blocks: ENQ/EOT/block/ACK per block, all delivered once
   and in order, the send call succeeds *)
Theorem C17_dialog_delivers : forall blocks, Forall vok blocks ->
  dialog RIdle (map venc blocks) = (RIdle, flat_map (fun b => [SentEOT; Got {| sb_hdr := fst b; sb_data := snd b |}; SentACK]) blocks, true).
Proof. exact dialog_delivers. Qed.
Print Assumptions C17_dialog_delivers.

(* the sending side: success exactly when every block is acknowledged; the first NAK (or anything but ACK) fails the call *)
Theorem C17_sender : forall blocks, stx blocks (flat_map (fun _ => [secsi_EOT; secsi_ACK]) blocks) = (flat_map (fun b => [[secsi_ENQ]; b]) blocks, Some true).
Proof. exact sender_all_acknowledged. Qed.
Print Assumptions C17_sender.
Theorem C17_sender_nak_fails : forall done b rest answer more, answer <> secsi_ACK ->
  snd (stx (done ++ b :: rest) (flat_map (fun _ => [secsi_EOT; secsi_ACK]) done ++ secsi_EOT :: answer :: more)) = Some false.
Proof. exact sender_nak_fails. Qed.
Print Assumptions C17_sender_nak_fails.

(* "started only after EOT" (D50): whatever the peer sends instead of EOT - NAK, its own ENQ, noise - nothing but ENQ goes out;
   each such byte is answered by announcing the block again, and the block follows the EOT *)
Theorem C17_block_only_after_eot : forall blocks answers, forallb (fun a => negb (a =? secsi_EOT)) answers = true ->
  forall chunk, In chunk (fst (stx blocks answers)) -> chunk = [secsi_ENQ].
Proof. exact block_only_after_eot. Qed.
Print Assumptions C17_block_only_after_eot.
Theorem C17_block_follows_eot : forall blk rest junk more, forallb (fun a => negb (a =? secsi_EOT)) junk = true ->
  exists sent res, stx (blk :: rest) (junk ++ secsi_EOT :: more) = (([secsi_ENQ] :: repeat [secsi_ENQ] (length junk)) ++ blk :: sent, res).
Proof. exact block_follows_eot. Qed.
Print Assumptions C17_block_follows_eot.

(* KNOWN FINDING C17-length-byte: the statement's "all positions of a corrupted byte" includes the length byte.  A length byte
   that was RAISED in transit makes the receiver wait for bytes that are not coming: it answers EOT and then nothing - no NAK
   (the library has no T1/T2 timers); whatever the sender transmits next is swallowed into the pending block. *)
Theorem C17_length_byte_refuted :
  let h := {| s_system := 7; s_device := 1; s_stream := 1; s_function := 1; s_block := 1; s_r := false; s_w := true; s_e := true |} in
  block_ok h [1; 2; 3] /\
  exists need acc, srx_bytes RIdle (secsi_ENQ :: replace_nth 0 18 (enc_block h [1; 2; 3])) = (RCollect need acc, [SentEOT]) /\ (0 < need)%nat.
Proof.
  split; [repeat split; cbn; try lia; repeat constructor|].
  eexists. eexists. split; [vm_compute; reflexivity|]. cbn. lia.
Qed.
Print Assumptions C17_length_byte_refuted.

Example C17_example :
  let h := {| s_system := 7; s_device := 1; s_stream := 1; s_function := 1; s_block := 1; s_r := false; s_w := true; s_e := true |} in
  block_ok h [1; 2; 3] /\ length (enc_block h [1; 2; 3]) = 16%nat.
Proof. split; [|reflexivity]. repeat split; cbn; try lia. repeat constructor. Qed.

(* The line protocol's rounds as the code has them.  One round of SecsIProtocol._process_send_queue and of _process_received_data is read statement
   by statement on every run (harness/gen_secsiline.py -> Gen/SecsILine.v) and emitted as the sequence of steps it is.  The byte machine of
   Model/SecsILine.v is written for exactly these sequences, and the orders that matter are orders of the regenerated lists: a block is taken from
   the queue and put on the line only behind the EOT test (D50: `await_eot`), it is resolved by comparing the answer with ACK; the receiver answers
   the announcement with EOT, takes length + 3 bytes, answers a block that does not decode with NAK and hands nothing over, and sends ACK only
   after the block was handed over.  (This is an obligation on the shape of the two rounds, not an equality with the byte machine: the
   machine itself is tied to the code by the correspondence run.) *)
Theorem C17_line_rounds_as_translated :
  line_send_ops = [SSendENQ; SPeekAnswer; SYieldToPeerIfHost; STakeAnswer; SAgainUnlessEOT; STakeBlock; SSendBlock; SWaitResult; SResolveByACK] /\
  line_recv_ops = [RTakeByte; RSendEOT; RPeekLength; RTakeBlock 3; RDecode; RNakAndStopIfBad; RHandOver; RSendACK].
Proof. split; reflexivity. Qed.
Print Assumptions C17_line_rounds_as_translated.
