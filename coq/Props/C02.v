(* Props/C02.v — property C02: every valid SEMI E5 item encoding is decoded to the value it denotes.
   The reference decoder e5_decode (Spec/E5.v) accepts 1..3 length bytes whatever the magnitude,
   every format code and arbitrary nesting; it shares nothing with the model of the library. *)
From SG Require Import Base.Prelude Base.Kinds Base.Float Gen.VarConsts Spec.E5 Model.Secs2 Model.Denote Model.Admits.
From SG Require Import Proofs.FloatProofs Proofs.Secs2Sim Base.PyRt Gen.PyVarHdr Proofs.PyVarHdrProofs.
From Coq Require Import Lia.
Open Scope N_scope.

(* Whatever byte string the reference decoder accepts, a variable whose type admits the item
   decodes it to exactly that item's value, consuming exactly the bytes the reference consumed. *)
Theorem C02_decode_valid : forall F bs i rest, bytes bs -> e5_decode F bs = Some (i, rest) ->
  forall fuel t pos, (2 * F <= fuel)%nat -> admits i t = true ->
  py_decode fuel t bs pos = Ok (embed i t, rest, pos + (nlen bs - nlen rest)).
Proof. exact decode_sim. Qed.
Print Assumptions C02_decode_valid.

(* The decoded value denotes the item (nothing was lost or altered) ... *)
Theorem C02_value_denotes_item : forall F bs i rest t, bytes bs -> e5_decode F bs = Some (i, rest) ->
  admits i t = true -> denote (embed i t) = Some i.
Proof.
  intros F bs i rest t Hb H Ha. destruct (e5_decode_wf F bs i rest Hb H) as [Hwf _].
  apply denote_embed; assumption.
Qed.
Print Assumptions C02_value_denotes_item.

(* ... and re-encoding it yields the canonical (minimal length bytes) E5 encoding of the same item. *)
Theorem C02_reencode_canonical : forall F bs i rest t, bytes bs -> e5_decode F bs = Some (i, rest) ->
  admits i t = true -> py_encode (embed i t) = Ok (e5_encode i).
Proof. exact reencode_canonical. Qed.
Print Assumptions C02_reencode_canonical.

(* Every finite IEEE-754 single survives: widening to the Python float is exact enough that
   rounding back returns the same 32 bits, and the widened value is inside the F4 bounds. *)
Theorem C02_every_finite_float32 : forall r, r < 2^32 -> finite32 r = true ->
  round32 (widen32 r) = Ok r /\ flt_in_range F4 (widen32 r) = true.
Proof.
  intros r Hr Hf. split; [apply round_widen; assumption|].
  destruct (widen32_in_range r Hr Hf) as (_ & H1 & H2).
  destruct Secs2Enc.gen_flt_bounds as (Bmax & Bmin & _).
  unfold flt_in_range. rewrite Bmax, Bmin, H1, H2. reflexivity.
Qed.
Print Assumptions C02_every_finite_float32.

(* Non-vacuity: an encoding with non-minimal length bytes, nested lists, FLT_MAX and a subnormal. *)
Definition sample_bytes : list N :=
  [0x02; 0x00; 0x03;                       (* L, two length bytes, 3 items *)
   0x91; 0x08; 0x7f; 0x7f; 0xff; 0xff; 0x00; 0x00; 0x00; 0x01;   (* F4 FLT_MAX, smallest subnormal *)
   0xab; 0x00; 0x00; 0x02; 0x12; 0x34;     (* U2 with three length bytes *)
   0x01; 0x01; 0x41; 0x00].                (* L [ A "" ] *)
Example C02_sample_in_domain :
  exists i, e5_decode 3 sample_bytes = Some (i, []) /\ admits i TAny = true /\ bytes sample_bytes.
Proof.
  exists (EL [EF4 [0x7f7fffff; 1]; EU W2 [0x1234%Z]; EL [EA []]]).
  split; [vm_compute; reflexivity|]. split; [vm_compute; reflexivity|].
  unfold bytes, sample_bytes. repeat constructor.
Qed.

(* the catch-all type takes every kind of item: ANYVALUE's type list, regenerated from the source, names the list type and every scalar
   class of E5 (JIS-8 included, D58) *)
Theorem C02_anyvalue_takes_every_kind : allowed_has anyvalue_types DArr = true /\ forall k, allowed_has anyvalue_types (DScal k) = true.
Proof. split; [vm_compute; reflexivity|]. intros [| | | |[| | | | | | | | |]]; vm_compute; reflexivity. Qed.
Print Assumptions C02_anyvalue_takes_every_kind.

(* the header reader of the decoder, translated from the source on every run, is the model's: for every byte string, every position and
   every expected format code (None = a Dynamic) - in particular for encodings with more length bytes than necessary *)
Theorem C02_header_reader_is_model : forall fc data p,
  same_ok (base_decode_item_header (fc_z fc) data (Z.of_nat p))
          (do (rest, code, len, hl) <- decode_item_header fc (skipn p data); Ok (Z.of_nat p + Z.of_N hl, Z.of_N code, Z.of_N len)%Z).
Proof. exact base_decode_item_header_is_model. Qed.
Print Assumptions C02_header_reader_is_model.
Example C02_header_reader_sample : base_decode_item_header 44 [0xB3; 0; 0; 2; 7; 7] 0 = Ok (4, 44, 2)%Z /\ base_decode_item_header 44 [0xB3; 0; 0] 0 = Err EIndex.
Proof. split; vm_compute; reflexivity. Qed.
