(* Props/C03.v — property C03: every catalogued stream/function round-trips and is found by its S/F numbers. *)
From SG Require Import Base.Prelude Base.Kinds Spec.E5 Model.Secs2 Model.Denote Model.Secs2Wf Model.Sfdl Model.Functions Gen.DataItems Gen.Catalogue.
From SG Require Import Proofs.CatalogueProofs Proofs.CatalogueFacts.
Open Scope N_scope.

(* The catalogue regenerated from the source: 134 functions; no two share stream and function; every
   structure definition is accepted; classes and functions.yaml agree on direction, reply flags, multi-block
   and structure tokens; every function declaring a reply is an odd primary whose secondary F+1 is
   catalogued, expects no reply and travels the other way; reply-required implies has-reply; every even
   non-zero function has a primary that declares a reply. *)
Theorem C03_catalogue_consistent :
  unique_sf catalogue = true /\ all_parse catalogue = true /\ classes_eq_yaml = true /\ pairing_ok catalogue = true /\
  length catalogue = 134%nat.
Proof. exact catalogue_facts. Qed.
Print Assumptions C03_catalogue_consistent.

(* For every function of such a table and EVERY value that conforms to its structure (open lists of any
   length, any allowed alternative type, any nesting): the body is the E5 encoding of the value, and decoding
   it by the header's stream and function numbers alone yields the same function carrying the value. *)
Theorem C03_roundtrip : forall tbl e s v i,
  unique_sf tbl = true -> In e tbl -> fn_structure e = Ok (Some s) ->
  wf v (erase s) = true -> denote v = Some i -> e5_wf i = true ->
  py_encode v = Ok (e5_encode i) /\
  decode_by_sf tbl (f_stream e) (f_function e) (e5_encode i) = Ok (e, Some (erase s, canon v)).
Proof. exact fn_roundtrip. Qed.
Print Assumptions C03_roundtrip.

Theorem C03_header_only : forall tbl e body,
  unique_sf tbl = true -> In e tbl -> f_sfdl e = None ->
  decode_by_sf tbl (f_stream e) (f_function e) body = Ok (e, None) /\ fn_encode None = Ok [].
Proof. exact fn_header_only. Qed.
Print Assumptions C03_header_only.

(* non-vacuity: S6F11 (event report) with a nested value *)
Definition dummy_entry : fentry := {| f_name := ""; f_stream := 0; f_function := 0; f_sfdl := None; f_to_host := false;
  f_to_equipment := false; f_has_reply := false; f_reply_required := false; f_multi_block := false |}.
Definition s6f11 : fentry := match find (same_sf 6 11) catalogue with Some x => x | None => dummy_entry end.
Example C03_sample_in_domain :
  find (same_sf 6 11) catalogue = Some s6f11 /\
  match fn_structure s6f11 with
  | Ok (Some s) => wf (VRec [VNum U4 [1%Z]; VNum U2 [10%Z]; VArr [VRec [VText false [82]; VArr [VNum I8 [(-1)%Z]; VText false []]]]]) (erase s) = true
  | _ => False
  end.
Proof. split; vm_compute; reflexivity. Qed.
