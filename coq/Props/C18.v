(* Props/C18.v — property C18: the state-machine engine keeps one consistent current state. *)
From SG Require Import Base.Prelude Spec.StateChart Model.StateMachine Gen.Machines.
From SG Require Import Proofs.SmProofs Proofs.SmHier Gen.Engine Proofs.EngineProofs.
From Coq Require Import Lia.
Open Scope nat_scope.

(* any machine, any handlers, any state: a request that is unknown or not allowed in the current state
   raises and changes nothing *)
Theorem C18_disallowed_raises_unchanged : forall m h os fuel st name,
  (find_trans m name = None \/ exists srcs dst, find_trans m name = Some (srcs, dst) /\ existsb (Nat.eqb (cur st)) srcs = false) ->
  perform m h os (S fuel) st name = (st, true).
Proof. exact disallowed_unchanged. Qed.
Print Assumptions C18_disallowed_raises_unchanged.

(* any flat machine (any number of states and transitions), any programs of nested requests issued from
   enter and called handlers (repeating or one-shot) to any depth: whenever the outermost request returns normally, exactly the
   current state reports itself active *)
Theorem C18_flat_nested_consistent : forall m h os, flat m -> trans_in_range m -> quiet_leave h ->
  forall fuel st name, inv m st -> snd (perform m h os fuel st name) = false -> inv m (fst (perform m h os fuel st name)).
Proof. exact flat_nested_consistent. Qed.
Print Assumptions C18_flat_nested_consistent.

(* any HIERARCHICAL machine (any forest in which parents are declared before their children, any depth), callbacks that
   request nothing: every allowed request succeeds, reaches its destination, and afterwards exactly the destination and
   its ancestors are active - for every state that had exactly the current state and its ancestors active *)
Theorem C18_hierarchical_consistent : forall m h os, wfp (m_parent m) -> (forall e, h e = []) ->
  forall fuel st name srcs dst,
  find_trans m name = Some (srcs, dst) -> existsb (Nat.eqb (cur st)) srcs = true -> dst < nstates m -> act_ok m st ->
  exists st', perform m h os (S fuel) st name = (st', false) /\ cur st' = dst /\ act_ok m st'.
Proof. intros m h os W Hq fuel st name srcs dst. exact (hierarchical_consistent m W h os Hq fuel st name srcs dst). Qed.
Print Assumptions C18_hierarchical_consistent.

(* the shipped hierarchical machines are in its domain *)
Example C18_hierarchical_in_domain :
  wfp (m_parent communication_machine) /\ wfp (m_parent connection_machine) /\
  act_ok communication_machine (start_state communication_machine communication_initial).
Proof.
  split; [apply forest_ok_wfp; reflexivity|]. split; [apply forest_ok_wfp; reflexivity|].
  split; [vm_compute; lia|]. split; [reflexivity|]. intros i Hi.
  do 9 (destruct i as [|i]; [reflexivity|]). vm_compute in Hi. lia.
Qed.

(* the three shipped machines (regenerated from the source on every run): in every state, every request -
   each transition of the table and an unknown one - gets the reference verdict, reaches exactly the
   destination, leaves exactly the destination and its ancestors active, and fires the leave events of the
   states exited, the enter events of the states entered and its called event, each once *)
Theorem C18_shipped_machines_conform :
  machine_conforms connection_machine = true /\ machine_conforms communication_machine = true /\ machine_conforms control_machine = true.
Proof. exact shipped_machines_conform. Qed.
Print Assumptions C18_shipped_machines_conform.

Theorem C18_conformance_means : forall m, machine_conforms m = true ->
  forall s name, s < nstates m -> (name = "no such transition"%string \/ In name (map (fun t => fst (fst t)) (m_trans m))) ->
  step_conforms m s name = true.
Proof. exact machine_conforms_spec. Qed.
Print Assumptions C18_conformance_means.

(* KNOWN FINDING C18-nested-hierarchical: in a hierarchical machine a request made from an enter handler can
   leave a state active that is neither current nor an ancestor of the current state *)
Theorem C18_nested_hierarchical_refuted :
  let '(st, raised) := perform cex_machine cex_handlers never_one_shot 8 (start_state cex_machine 0) "go"%string in
  raised = false /\ cur st = 0 /\ active st = [true; true; false] /\ active_after (m_parent cex_machine) 0 = [true; false; false].
Proof. exact nested_hierarchical_refuted. Qed.
Print Assumptions C18_nested_hierarchical_refuted.

(* KNOWN FINDING C18-nested-from-leave: a request made from a LEAVE handler - allowed, the machine is still in the state it is leaving -
   is performed inside the outer transition, which then goes on: the state fires leave twice and two states end up active (flat machine
   A, B, C; ab: A->B, ac: A->C; A's leave handler requests ac once; request ab) *)
Theorem C18_nested_from_leave_refuted :
  let '(st, raised) := perform leave_machine leave_handlers leave_once 8 (start_state leave_machine 0) "ab"%string in
  raised = false /\ cur st = 1 /\ active st = [false; true; true] /\ count (Leave 0) (log st) = 2.
Proof. exact nested_from_leave_refuted. Qed.
Print Assumptions C18_nested_from_leave_refuted.

(* requests made concurrently from several threads: the engine performs one transition at a time - source check, leave, the assignment
   of the current state, enter and the called event are under one reentrant lock (Gen/Machines.v, regenerated from
   StateMachine._perform_transition; that a `with lock:` body is atomic with respect to other threads is trusted, as for C06's
   allocator).  Every concurrent execution is therefore a sequence of whole transitions, to which the theorems above apply. *)
Theorem C18_transitions_are_locked : engine_transition_locked = true.
Proof. reflexivity. Qed.
Print Assumptions C18_transitions_are_locked.

(* why the lock is needed (D75, formerly the open finding C18-concurrent): the same steps WITHOUT it - two threads can both be allowed from
   the same state, the state fires its leave event twice and two states end up active *)
Theorem C18_concurrent_refuted :
  let t name := {| t_pc := PCheck; t_name := name; t_dst := 0; t_old := 0 |} in
  let '(st, a, b) := crun two_machine (start_state two_machine 0) (t "x"%string) (t "y"%string)
                          [true; false; true; false; true; false; true; false; true; false] in
  t_pc a = PDone /\ t_pc b = PDone /\ cur st = 2 /\ active st = [false; true; true] /\ count (Leave 0) (log st) = 2.
Proof. exact concurrent_refuted. Qed.
Print Assumptions C18_concurrent_refuted.

(* non-vacuity: the control machine is flat, in range, and its real handler programs only use enter events *)
Example C18_control_machine_in_domain :
  forallb (fun p => match p with None => true | Some _ => false end) (m_parent control_machine) = true /\
  forallb (fun t => snd t <? nstates control_machine) (m_trans control_machine) = true /\
  inv control_machine (start_state control_machine control_initial).
Proof.
  split; [vm_compute; reflexivity|]. split; [vm_compute; reflexivity|]. split; vm_compute; [repeat constructor|reflexivity].
Qed.

(* The engine as the code has it.  State.enter, State.leave and StateMachine._perform_transition are read statement by statement on every run
   (harness/gen_engine.py -> Gen/Engine.v) and emitted as the sequences of steps they are, in the order the source has them (the conditions on the
   way up to the parent by name).  Proofs/EngineProofs.v interprets these regenerated sequences - one level of enter / leave, the walk up the
   parents, the steps of a transition with the remembered state - and proves that the hand-written chains of Model/StateMachine.v ARE these
   interpreters: for every machine, every table of handlers (nested requests included: they go through the same function), every state.
   A change of order in the source (the flag after the event, the assignment after the enter, a dropped clause on the way up, "called" before
   the enter ...) changes the lists and these equalities fail; the engine rig then supplies the machine and the requests that behave differently. *)
Theorem C18_engine_code_is_model :
  (forall m h os prf fuel st s src, enter_chain m h os prf fuel st s src = chain_ops m h os prf state_enter_ops fuel st s src) /\
  (forall m h os prf fuel st s dst, leave_chain m h os prf fuel st s dst = chain_ops m h os prf state_leave_ops fuel st s dst) /\
  (forall m h os f st name,
     perform m h os (S f) st name =
     match find_trans m name with
     | None => (st, true)
     | Some (srcs, dst) => run_perform_ops m h os (perform m h os f) perform_ops name srcs dst st 0
     end).
Proof.
  split; [intros; apply enter_chain_is_ops|]. split; [intros; apply leave_chain_is_ops|]. intros; apply perform_is_ops.
Qed.
Print Assumptions C18_engine_code_is_model.
