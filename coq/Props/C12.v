(* Props/C12.v — C12: event-report configuration stays consistent and transactional under any history.
   Theorems only.  Model: Model/EventReports.v; reference: Spec/E5Reports.v. *)
From SG Require Import Base.Prelude Spec.E5Reports Model.EventReports Proofs.ReportsProofs.
Open Scope Z_scope.

(* after any sequence of S2F33 / S2F35 / S2F37 / S6F15 / triggers, every linked report exists (and reports name only
   known variables, no event is linked to nothing) *)
Theorem C12_integrity : forall env ops, inv env (fst (er_run env cfg0 ops)).
Proof. intros env ops. apply run_inv. apply inv0. Qed.
Print Assumptions C12_integrity.

(* a refused define or link request changes nothing *)
Theorem C12_refused_changes_nothing : forall env c o k,
  (exists data, o = RDefine data \/ o = RLink data) -> snd (er_step env c o) = RAck k -> k <> 0 -> fst (er_step env c o) = c.
Proof. exact refused_changes_nothing. Qed.
Print Assumptions C12_refused_changes_nothing.

(* every define / link / enable-all / request / trigger step is one E5 admits: the acknowledge code, the new
   configuration (delete-one and delete-all forms included) and the report *)
Theorem C12_accepted_effect : forall env c o, inv env c -> covered o ->
  admitted env c o (fst (er_step env c o)) (snd (er_step env c o)).
Proof. exact step_refines. Qed.
Print Assumptions C12_accepted_effect.

(* the report of a linked, enabled event: never an abort; exactly the linked reports in link order with the current
   values of their variables in VID order; S6F15 and the triggered S6F11 carry the same *)
Theorem C12_report_wellformed : forall env c ce rs, inv env c -> rlookup ce (links c) = Some (rs, true) ->
  m_request env c ce = m_trigger env c ce /\
  exists vss, map Some vss = map (fun r => rlookup r (reports c)) rs /\
              m_request env c ce = RReport ce (combine rs (map (map (value_of env)) vss)).
Proof. exact report_wellformed. Qed.
Print Assumptions C12_report_wellformed.

(* S6F15 never aborts in a reachable configuration *)
Theorem C12_request_never_aborts : forall env ops ce, m_request env (fst (er_run env cfg0 ops)) ce <> RAbort.
Proof.
  intros env ops ce. pose proof (run_inv env ops cfg0 (inv0 env)) as Hi. set (c := fst (er_run env cfg0 ops)) in *.
  pose proof (step_refines env c (RRequest ce) Hi I) as (alt & Hin & _ & Hout). cbn [er_step snd e5_step] in *.
  destruct (event_report env c ce); [|contradiction Hin]. intro A. rewrite A in Hout.
  destruct (enabled c ce); cbn in Hin; destruct Hin as [<-|[]]; cbn in Hout; intuition discriminate.
Qed.
Print Assumptions C12_request_never_aborts.

(* non-vacuity *)
Definition env1 : renv := {| vids := [IdN 10; IdS "sx"; IdN 20]; ceids := [IdN 1; IdN 2; IdS "ce"]; value_of := fun v => match v with IdN n => n * 7 | IdS _ => 5 end |}.
Example C12_example :
  snd (er_run env1 cfg0 [RDefine [(IdN 1, [IdN 10; IdN 20]); (IdS "r", [IdS "sx"])]; RLink [(IdN 2, [IdN 1; IdN 1; IdS "r"])]; REnable true [];
                        RRequest (IdN 2); RDefine [(IdN 1, [])]; RRequest (IdN 2); RDefine [(IdS "r", [IdN 99])]; RLink [(IdN 7, [IdS "r"])]]) =
  [RAck 0; RAck 0; RAck 0; RReport (IdN 2) [(IdN 1, [70; 140]); (IdN 1, [70; 140]); (IdS "r", [5])]; RAck 0; RReport (IdN 2) [(IdS "r", [5])]; RAck 3; RAck 4].
Proof. vm_compute. reflexivity. Qed.
