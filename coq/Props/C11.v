(* Props/C11.v — C11: the GEM control state follows the E30 control model for every operator/host history.
   Theorems only.  Model: Model/GemControl.v interpreting the programs regenerated into Gen/ControlLogic.v over the
   regenerated control machine; reference: Spec/E30Control.v. *)
From SG Require Import Base.Prelude Spec.E30Control Model.ControlLang Model.GemControl Gen.Machines Gen.ControlLogic Proofs.ControlProofs.
Open Scope Z_scope.
Open Scope string_scope.

(* every configured default, every history of operator switches and host requests: the state is E30's, what is sent
   (probe, acknowledge, collection events when enabled) is among what E30 admits, and the status variable is the state *)
Theorem C11_state_refines_e30 : forall init sub ops, In init inits -> In sub subs ->
  let '(st, outs) := gc_run (gc_init init sub) ops in
  e30_follows (e30_init (xinit_of init) (String.eqb sub "REMOTE")) ops outs = Some (abs st) /\ gc_sv st = e30_sv (abs st).
Proof. exact control_follows_e30. Qed.
Print Assumptions C11_state_refines_e30.

(* one step from any stable state *)
Theorem C11_step_refines_e30 : forall st o, stable st -> step_check st o = true.
Proof. exact step_refines. Qed.
Print Assumptions C11_step_refines_e30.

(* S1F18 carries ONLACK 0 / 1 / 2 by the state in which S1F17 arrived; S1F16 carries OFLACK 0; exactly one reply each *)
Theorem C11_ack_codes : forall st, stable st ->
  acks (snd (gc_step st XS1F17)) = [XAck 18 (onlack_of (x_state (abs st)))] /\ acks (snd (gc_step st XS1F15)) = [XAck 16 0].
Proof. exact ack_codes. Qed.
Print Assumptions C11_ack_codes.

Theorem C11_refused_changes_nothing : forall st o, stable st -> In XRefused (snd (gc_step st o)) -> fst (gc_step st o) = st.
Proof. exact refused_changes_nothing. Qed.
Print Assumptions C11_refused_changes_nothing.

(* non-vacuity: a history through all four states with events enabled *)
Example C11_history_example :
  In "ATTEMPT_ONLINE" inits /\ In "REMOTE" subs /\
  snd (gc_run (gc_init "ATTEMPT_ONLINE" "REMOTE") [XEnable true; XS1F17; XLocal; XS1F15; XOffline; XOnline PAnswer; XOffline; XOnline PNoReply]) =
  [[]; [XEvent 3; XAck 18 0]; [XEvent 2]; [XEvent 1; XAck 16 0]; [XEvent 1]; [XProbe; XEvent 2]; [XEvent 1]; [XProbe]].
Proof. split; [cbn; auto|]. split; [cbn; auto|]. vm_compute. reflexivity. Qed.
