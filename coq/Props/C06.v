(* Props/C06.v — C06: replies reach exactly their requester; other messages are delivered once, in order.
   Theorems only.  Model: Model/Alloc.v with the allocator program regenerated into Gen/Alloc.v. *)
From SG Require Import Base.Prelude Model.AllocLang Model.Alloc Gen.Alloc Proofs.AllocProofs Gen.Dispatcher Model.DispatchLoop Proofs.DispatchLoopProofs.
From Coq Require Import Sorting.Sorted Sorting.Permutation.
From SG Require Import Base.PyRt Gen.HandOver Model.HandOver Proofs.HandOverProofs Gen.Request Model.Request Proofs.RequestProofs.
Open Scope Z_scope.

(* the regenerated allocator: the expected micro-operations, inside the lock *)
Theorem C06_allocator_as_translated : alloc_locked = true /\ alloc_prog = expected_prog.
Proof. split; reflexivity. Qed.
Print Assumptions C06_allocator_as_translated.

(* any number of threads, any schedule (fewer than 2^32 allocations): two threads that obtained system bytes hold
   different ones *)
Theorem C06_system_bytes_distinct : forall c0 sched n i j ti tj ri rj, 0 <= c0 <= MAXSYS -> Z.of_nat (length sched) <= MAXSYS ->
  let s := run_sched alloc_locked alloc_prog (start n c0) sched in
  i <> j -> nth_error (s_thr s) i = Some ti -> nth_error (s_thr s) j = Some tj -> t_res ti = Some ri -> t_res tj = Some rj -> ri <> rj.
Proof. change alloc_locked with true. rewrite prog_is_expected. exact locked_distinct. Qed.
Print Assumptions C06_system_bytes_distinct.

(* why the lock is needed: the same operations without it *)
Theorem C06_unlocked_race : exists sched ti tj r,
  let s := run_sched false expected_prog (start 2 100) sched in
  nth_error (s_thr s) 0 = Some ti /\ nth_error (s_thr s) 1 = Some tj /\ t_res ti = Some r /\ t_res tj = Some r.
Proof. exact unlocked_race. Qed.
Print Assumptions C06_unlocked_race.

(* a waiting requester receives exactly the first arrival that can be its reply (its system bytes; a secondary or an S9 report, not a primary - with or without W-bit), whatever else arrives
   in whatever order - also primaries of the peer that happen to carry the same system bytes (D49) *)
Theorem C06_reply_to_requester : forall arrivals w k, answer_of w k = None -> find (fun e => fst e =? k) w <> None ->
  answer_of (fst (route w arrivals)) k = option_map (fun a => snd (fst a)) (find (is_reply_for k) arrivals).
Proof. exact reply_to_requester. Qed.
Print Assumptions C06_reply_to_requester.

(* every other inbound message reaches the application exactly once, in arrival order *)
Theorem C06_others_in_order : forall arrivals w,
  snd (route w arrivals) = map fst (filter (for_app w) arrivals).
Proof. intros arrivals w. apply others_in_order. auto. Qed.
Print Assumptions C06_others_in_order.

Example C06_example :
  let w := [(7, []); (9, []); (8, [])] in
  let '(w1, app) := route w [(5, 50, false); (9, 89, true); (9, 90, false); (7, 70, false); (5, 51, true); (9, 91, false); (8, 80, true); (3, 30, false)] in
  (answer_of w1 7, answer_of w1 8, answer_of w1 9, app) = (Some 70, None, Some 90, [(5, 50); (9, 89); (5, 51); (8, 80); (3, 30)]).
Proof. reflexivity. Qed.

(* "handed to the application exactly once": the hand-over between the thread that queues received blocks and the dispatcher thread.
   With the loop as the source writes it (Gen/Dispatcher.v, regenerated: the trigger is cleared BEFORE the queue is drained), under
   EVERY interleaving of queueing (put, then set the trigger - two steps) and dispatcher steps, no block is ever left in the queue
   with the dispatcher asleep and nobody about to wake it ... *)
Theorem C06_dispatcher_no_lost_wakeup : forall tr, stuck (drun dispatcher_clears_before_drain d0 tr) = false.
Proof. exact no_lost_wakeup. Qed.
Print Assumptions C06_dispatcher_no_lost_wakeup.
(* ... every queued block is delivered or still queued (none lost, none twice), whatever the schedule ... *)
Theorem C06_dispatcher_conserves_blocks : forall tr,
  (d_delivered (drun dispatcher_clears_before_drain d0 tr) + d_queue (drun dispatcher_clears_before_drain d0 tr)
   = length (filter (fun a => match a with SPut => true | _ => false end) tr))%nat.
Proof. exact (blocks_conserved dispatcher_clears_before_drain). Qed.
Print Assumptions C06_dispatcher_conserves_blocks.
(* ... whereas clearing after the drain loop strands a block that arrives between the last look at the queue and the clear *)
Theorem C06_clear_after_drain_strands :
  stuck (drun false d0 [SPut; SSet; SDispatcher; SDispatcher; SDispatcher; SPut; SSet; SDispatcher]) = true.
Proof. exact clear_after_drain_strands. Qed.
Print Assumptions C06_clear_after_drain_strands.

(* "one at a time", also across stop()/start(): the dispatcher thread of a new connection (Gen/Dispatcher.v, regenerated: it first joins
   the thread that is inside a callback, and stop() joins nobody while a callback runs) never begins a callback while the callback of a
   thread that stop() left behind is still running - for every order of restarts, dispatcher steps and returns ... *)
Theorem C06_one_callback_at_a_time : forall tr, g_overlap (grun dispatcher_waits_for_previous g0 tr) = false.
Proof. exact one_callback_at_a_time. Qed.
Print Assumptions C06_one_callback_at_a_time.
(* ... and it would without the wait (D51) *)
Theorem C06_no_wait_overlaps : g_overlap (grun false g0 [GCurrent; GRestart; GCurrent]) = true.
Proof. exact no_wait_overlaps. Qed.
Print Assumptions C06_no_wait_overlaps.

(* KNOWN FINDING C06-queued-at-link-loss: two blocks were received and queued, one was handed over, then the link is lost: stop() discards
   what is still queued (so that it is not handled on the next connection, D44) - the second block, received completely, is never
   handed to the application, however long the dispatcher runs. *)
Theorem C06_stop_discards_queued_refuted :
  let s := d_stop (drun true d0 [SPut; SSet; SDispatcher; SDispatcher; SDispatcher; SPut; SSet]) in
  (d_delivered s = 1 /\ d_queue s = 0 /\ forall tr, Forall (fun a => a = SDispatcher) tr -> d_delivered (drun true s tr) = 1)%nat.
Proof. exact stop_discards_queued. Qed.
Print Assumptions C06_stop_discards_queued_refuted.

(* Who hands a message to whom.  The receiver thread hands the reply to an open transaction to its requester itself (D76); the decision is
   Protocol._deliver_message, regenerated into Gen/HandOver.v (`deliver_action`), the threads are the interleaving model of Model/HandOver.v:
   the receiver thread's check and its hand-over are two steps, the requester may give up (T3) at any moment, the dispatcher thread pops the
   dispatch queue.  For every list of arrivals (numbered in arrival order, any of them a possible reply) and EVERY schedule:
   only the dispatcher thread hands messages to the application; it does so in arrival order; the requester is only ever given messages
   that can be its reply; and every arrival is in exactly one place - nothing is lost, nothing handed over twice. *)
Theorem C06_only_the_dispatcher_hands_over : forall arrivals sched,
  StronglySorted lt (map mid arrivals) ->
  let s := hrun deliver_action (hstart arrivals) sched in
  Forall (fun x => snd x = true) (app s) /\
  StronglySorted lt (map mid (map fst (app s))) /\
  Forall (fun m => cand m = true) (got s) /\
  Permutation (everything s) arrivals.
Proof. exact handover_holds. Qed.
Print Assumptions C06_only_the_dispatcher_hands_over.

(* ... and once the threads have come to rest, every arrival is with the application or with the requester, exactly once *)
Theorem C06_handed_over_exactly_once : forall arrivals sched,
  StronglySorted lt (map mid arrivals) ->
  let s := hrun deliver_action (hstart arrivals) sched in
  quiet s = true -> Permutation (map fst (app s) ++ got s) arrivals.
Proof. exact handover_complete. Qed.
Print Assumptions C06_handed_over_exactly_once.

(* the decision as it was before D78 (the receiver thread, finding nobody waiting any more, fired message_received itself): the schedule of
   the finding hands the late reply over from the receiver thread, ahead of the two messages that arrived before it; the regenerated
   decision under the same schedule hands all three over by the dispatcher thread, in arrival order *)
Theorem C06_before_D78_refuted :
  (let s := hrun deliver_before_D78 (hstart d78_arrivals) d78_schedule in
   map (fun x => (mid (fst x), snd x)) (app s) = [(3, false); (1, true); (2, true)]%nat) /\
  (let s := hrun deliver_action (hstart d78_arrivals) (d78_schedule ++ [DPop]) in
   map (fun x => (mid (fst x), snd x)) (app s) = [(1, true); (2, true); (3, true)]%nat /\ quiet s = true).
Proof. exact (conj before_D78_refuted after_D78_same_schedule). Qed.
Print Assumptions C06_before_D78_refuted.

(* "Each caller receives exactly the reply whose system bytes match its own request (or a timeout if none arrives)."  The steps of
   Protocol.send_and_waitfor_response are read statement by statement on every run (harness/gen_request.py -> Gen/Request.v: allocate, register a
   NEW waiter, send, on failure remove and return nothing, wait, remove, return).  A thread that makes any number of calls one after the
   other, against arrivals of anything that carries the system bytes of a request that was sent - replies, late replies, duplicates - at any
   moment and any number of times, timers that run out and sends that fail, in any order: every call returns nothing, or a message with the
   system bytes of its own request. *)
Theorem C06_a_call_returns_its_own_reply : forall calls sched,
  Forall res_ok (results (rrun request_ops (rstart request_ops calls) sched)).
Proof. exact requests_answered_by_their_own_replies. Qed.
Print Assumptions C06_a_call_returns_its_own_reply.

(* the two ways this goes wrong: registering behind the send (a quick reply finds nobody registered: it goes to the application, the call comes
   back empty) and a waiter kept from one request to the next (the second copy of the first reply answers the second request) *)
Theorem C06_request_steps_refuted :
  (let s := rrun register_after_send (rstart register_after_send 1) [RStep; RStep; RArrive 1; RStep; RTimeout; RStep; RStep] in
   results s = [(1, None)] /\ rapp s = [1])%nat /\
  (let s := rrun reused_waiter (rstart reused_waiter 2) [RStep; RStep; RStep; RArrive 1; RArrive 1; RStep; RStep; RStep; RStep; RStep; RStep; RStep; RStep; RStep] in
   results s = [(1, Some 1); (2, Some 1)])%nat.
Proof. exact (conj register_after_send_refuted reused_waiter_refuted). Qed.
Print Assumptions C06_request_steps_refuted.
