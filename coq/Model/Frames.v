(* Model/Frames.v — executable model of secsgem.common.message (Block, Message._split_blocks),
   secsgem.secsi.{header,message}, secsgem.hsms.{header,message} and the block reassembly of
   secsgem.common.protocol.Protocol._add_message_block. Python ints are Z; | & >> are Z.lor/land/shiftr. *)
From SG Require Import Base.Prelude Base.Kinds Gen.ProtoConsts Model.Secs2.
Open Scope Z_scope.

(* struct.pack(">" + fmt, *vals) / struct.unpack for integer codes *)
Fixpoint pack_fields (fmt : list struct_code) (vals : list Z) : res (list N) :=
  match fmt, vals with
  | [], [] => Ok []
  | c :: f, v :: vs => do a <- pack_int c v; do b <- pack_fields f vs; Ok (a ++ b)
  | _, _ => Err EValue
  end.
Fixpoint unpack_fields (fmt : list struct_code) (bs : list N) : res (list Z) :=
  match fmt with
  | [] => match bs with [] => Ok [] | _ => Err EValue end
  | c :: f =>
    let w := sc_bytes c in
    if (length bs <? w)%nat then Err EValue else
    do v <- unpack_int c (firstn w bs); do r <- unpack_fields f (skipn w bs); Ok (v :: r)
  end.
Definition fmt_size (fmt : list struct_code) : nat := fold_right (fun c n => (sc_bytes c + n)%nat) O fmt.

(* ---------------- SECS-I header ---------------- *)
Record shdr := { s_system : Z; s_device : Z; s_stream : Z; s_function : Z; s_block : Z;
                 s_r : bool; s_w : bool; s_e : bool }.

Definition shdr_encode (h : shdr) : res (list N) :=
  let device := if s_r h then Z.lor (s_device h) 32768 else s_device h in
  let stream := if s_w h then Z.lor (s_stream h) 128 else s_stream h in
  let block := if s_e h then Z.lor (s_block h) 32768 else s_block h in
  pack_fields secsi_header_format_enc [device; stream; s_function h; block; s_system h].

Definition shdr_decode (bs : list N) : res shdr :=
  do r <- unpack_fields secsi_header_format_dec bs;
  match r with
  | [r0; r1; r2; r3; r4] =>
    Ok {| s_system := r4; s_device := Z.land r0 32767; s_stream := Z.land r1 127; s_function := r2;
          s_block := Z.land r3 32767;
          s_r := Z.shiftr (Z.land r0 32768) 15 =? 1;
          s_w := Z.shiftr (Z.land r1 128) 7 =? 1;
          s_e := Z.shiftr (Z.land r3 32768) 15 =? 1 |}
  | _ => Err EValue
  end.

(* ---------------- SECS-I block ---------------- *)
Record sblock := { sb_hdr : shdr; sb_data : list N }.
Definition nsum (l : list N) : Z := Z.of_N (fold_right N.add 0%N l).

Definition sblock_checksum (b : sblock) : res Z :=
  do hb <- shdr_encode (sb_hdr b); Ok (nsum (hb ++ sb_data b)).

(* struct.pack(f">{length_format}{header.length}s{n}s{checksum_format}", header.length + n, header, data, checksum) *)
Definition sblock_encode (b : sblock) : res (list N) :=
  do hb <- shdr_encode (sb_hdr b);
  do cs <- sblock_checksum b;
  do lenb <- pack_fields secsi_length_format [Z.of_nat secsi_header_length + Z.of_nat (length (sb_data b))];
  do csb <- pack_fields secsi_checksum_format [cs];
  (* "10s": the header bytes padded/truncated to header.length *)
  let hb' := firstn secsi_header_length (hb ++ repeat 0%N secsi_header_length) in
  Ok (lenb ++ hb' ++ sb_data b ++ csb).

(* Block.decode: Err = exception, Ok None = checksum mismatch *)
Definition sblock_decode (bs : list N) : res (option sblock) :=
  let lw := fmt_size secsi_length_format in
  if (length bs <? lw)%nat then Err EValue else
  do l <- unpack_fields secsi_length_format (firstn lw bs);
  match l with
  | [total] =>
    let n := total - Z.of_nat secsi_header_length in
    if n <? 0 then Err EValue else
    let cw := fmt_size secsi_checksum_format in
    if negb (Z.of_nat (length bs) =? Z.of_nat lw + Z.of_nat secsi_header_length + n + Z.of_nat cw) then Err EValue else
    let n := Z.to_nat n in
    let r1 := skipn lw bs in
    do h <- shdr_decode (firstn secsi_header_length r1);
    let data := firstn n (skipn secsi_header_length r1) in
    do csl <- unpack_fields secsi_checksum_format (skipn n (skipn secsi_header_length r1));
    let b := {| sb_hdr := h; sb_data := data |} in
    do cs <- sblock_checksum b;
    match csl with
    | [c] => if cs =? c then Ok (Some b) else Ok None
    | _ => Ok (Some b)
    end
  | _ => Err EValue
  end.

(* ---------------- Message._split_blocks (block_size 244, complete = True) ---------------- *)
Fixpoint chunk (size : nat) (fuel : nat) (l : list N) : list (list N) :=
  match fuel with
  | O => []
  | S f => match l with
           | [] => []
           | _ => firstn size l :: chunk size f (skipn size l)
           end
  end.

Definition with_block (h : shdr) (blk : Z) (last : bool) : shdr :=
  {| s_system := s_system h; s_device := s_device h; s_stream := s_stream h; s_function := s_function h;
     s_block := blk; s_r := s_r h; s_w := s_w h; s_e := last |}.

Fixpoint number_blocks (h : shdr) (complete : bool) (idx : Z) (total : Z) (cs : list (list N)) : list sblock :=
  match cs with
  | [] => []
  | c :: r =>
    let last := if complete then (idx + 1 =? total) else s_e h in
    {| sb_hdr := with_block h (idx + 1) last; sb_data := c |} :: number_blocks h complete (idx + 1) total r
  end.

Definition split_blocks (data : list N) (h : shdr) (complete : bool) : list sblock :=
  if secsi_block_size =? -1 then [{| sb_hdr := h; sb_data := data |}] else
  let size := Z.to_nat secsi_block_size in
  let cs := match data with [] => [[]] | _ => chunk size (length data) data end in
  number_blocks h complete 0 (Z.of_nat (length cs)) cs.

(* ---------------- reassembly: Protocol._add_message_block ---------------- *)
Definition rstate := list (Z * list sblock).        (* _incomplete_messages, keyed by (system bytes, stream, function, W-bit) - as one number *)
(* the key of _incomplete_messages: the blocks of a message agree in system bytes, stream, function and W-bit (D65); the four fields
   (32, 7, 8 bits and one bit) are written side by side *)
Definition msg_key (h : shdr) : Z := s_system h + 4294967296 * (s_stream h + 128 * (s_function h + 256 * (if s_w h then 1 else 0))).
Fixpoint rs_lookup (k : Z) (s : rstate) : option (list sblock) :=
  match s with [] => None | (k', v) :: r => if k =? k' then Some v else rs_lookup k r end.
Fixpoint rs_set (k : Z) (v : list sblock) (s : rstate) : rstate :=
  match s with
  | [] => [(k, v)]
  | (k', v') :: r => if k =? k' then (k, v) :: r else (k', v') :: rs_set k v r
  end.
(* del d[k]: a dict holds a key at most once, so removing every entry with that key is the same thing *)
Fixpoint rs_del (k : Z) (s : rstate) : rstate :=
  match s with [] => [] | (k', v') :: r => if k =? k' then rs_del k r else (k', v') :: rs_del k r end.

Definition last_block_of (bl : list sblock) : option sblock := last (map Some bl) None.
Definition msg_header (bl : list sblock) : option shdr := match last_block_of bl with Some b => Some (sb_hdr b) | None => None end.
Definition msg_data (bl : list sblock) : list N := List.concat (map sb_data bl).

(* a block numbered 0 or 1 starts a message: blocks kept from an attempt that was never completed are dropped *)
Definition starts_message (b : sblock) : bool := (s_block (sb_hdr b) =? 0) || (s_block (sb_hdr b) =? 1).
Definition add_block (s : rstate) (b : sblock) : rstate * option (shdr * list N) :=
  let k := msg_key (sb_hdr b) in
  let bl := match rs_lookup k s with
            | None => split_blocks (sb_data b) (sb_hdr b) false       (* message_type.from_block(block) *)
            | Some old => if starts_message b then split_blocks (sb_data b) (sb_hdr b) false else old ++ [b]
            end in
  let s' := rs_set k bl s in
  match msg_header bl with
  | Some h => if s_e h then (rs_del k s', Some (h, msg_data bl)) else (s', None)
  | None => (s', None)
  end.

(* ---------------- HSMS header / frame ---------------- *)
Record hhdr := { h_system : Z; h_session : Z; h_stream : Z; h_function : Z; h_w : bool; h_ptype : Z; h_stype : Z }.

Definition hhdr_encode (h : hhdr) : res (list N) :=
  let stream := if h_w h then Z.lor (h_stream h) 128 else h_stream h in
  pack_fields hsms_header_format_enc [h_session h; stream; h_function h; h_ptype h; h_stype h; h_system h].

Definition stype_known (v : Z) : bool := existsb (fun p => Z.of_N (snd p) =? v) hsms_stypes.

Definition hhdr_decode (bs : list N) : res hhdr :=
  do r <- unpack_fields hsms_header_format_dec bs;
  match r with
  | [r0; r1; r2; r3; r4; r5] =>
    if negb (stype_known r4) then Err EValue else      (* HsmsSType(res[4]) *)
    Ok {| h_system := r5; h_session := r0; h_stream := Z.land r1 127; h_function := r2;
          h_w := Z.shiftr (Z.land r1 128) 7 =? 1; h_ptype := r3; h_stype := r4 |}
  | _ => Err EValue
  end.

Definition hframe_encode (h : hhdr) (data : list N) : res (list N) :=
  do hb <- hhdr_encode h;
  do lenb <- pack_fields hsms_length_format [Z.of_nat hsms_header_length + Z.of_nat (length data)];
  do csb <- (match hsms_checksum_format with [] => Ok [] | f => pack_fields f [nsum (hb ++ data)] end);
  let hb' := firstn hsms_header_length (hb ++ repeat 0%N hsms_header_length) in
  Ok (lenb ++ hb' ++ data ++ csb).

Definition hframe_decode (bs : list N) : res (hhdr * list N) :=
  let lw := fmt_size hsms_length_format in
  if (length bs <? lw)%nat then Err EValue else
  do l <- unpack_fields hsms_length_format (firstn lw bs);
  match l with
  | [total] =>
    let n := total - Z.of_nat hsms_header_length in
    if n <? 0 then Err EValue else
    let cw := fmt_size hsms_checksum_format in
    if negb (Z.of_nat (length bs) =? Z.of_nat lw + Z.of_nat hsms_header_length + n + Z.of_nat cw) then Err EValue else
    let n := Z.to_nat n in
    let r1 := skipn lw bs in
    do h <- hhdr_decode (firstn hsms_header_length r1);
    Ok (h, firstn n (skipn hsms_header_length r1))
  | _ => Err EValue
  end.
