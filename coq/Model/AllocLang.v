(* Model/AllocLang.v — micro-operations on a shared integer attribute, as other threads can observe them
   (target language of harness/gen_alloc.py). acc is the thread's evaluation stack top. *)
From SG Require Import Base.Prelude.
Open Scope Z_scope.

Inductive mop :=
| OLoad                          (* acc := shared *)
| OStoreAcc                      (* shared := acc *)
| OAddAcc (k : Z)                (* acc := acc + k *)
| OSetAcc (v : Z)                (* acc := v *)
| OIfGtSkip (c : Z) (n : nat)    (* if not (acc > c) skip the next n operations *)
| ORet.                          (* result := acc *)
