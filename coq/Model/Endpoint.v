(* Model/Endpoint.v — the HSMS endpoint as a whole: the receive path (Model/HsmsRx) feeding the session handling
   (Model/HsmsSession), with connect, link loss / local close.  _on_disconnected clears the receive buffer and fails what is
   left in the send queue; the library threads end with the connection (observed by the rig, not modelled). *)
From SG Require Import Base.Prelude Base.Kinds Spec.E37Session Model.StateMachine Model.Secs2 Model.Frames Model.HsmsRx Model.HsmsSession Gen.Machines.
Open Scope Z_scope.

Record ep := { e_hs : hs; e_rx : rx }.
Definition ep0 : ep := {| e_hs := hs0; e_rx := rx_init |}.

Definition event_of (h : hhdr) : sevent :=
  if h_stype h =? 0 then EvData (h_system h) (h_w h || (Z.odd (h_function h) && negb (h_stream h =? 9))) true else EvCtrl (h_stype h) (h_system h) (h_function h).

Fixpoint deliver (s : hs) (outs : list rx_out) : hs * list sout :=
  match outs with
  | [] => (s, [])
  | Delivered h _ :: r => let '(s1, o1) := hs_step s (event_of h) in let '(s2, o2) := deliver s1 r in (s2, o1 ++ o2)
  | Dropped :: r => deliver s r
  end.

Inductive lev :=
| LConnect
| LFeed (bytes : list N)
| LClose.                    (* the peer closes, or the endpoint is disabled: on_disconnecting, on_disconnected *)

Definition ep_step (e : ep) (ev : lev) : ep * list sout :=
  match ev with
  | LConnect => let '(s1, o) := hs_step (e_hs e) EvConnected in ({| e_hs := s1; e_rx := e_rx e |}, o)
  | LFeed bytes =>
    if is_connected (e_hs e) then
      let '(rx1, outs) := rx_feed (e_rx e) bytes in
      let '(s1, o) := deliver (e_hs e) outs in ({| e_hs := s1; e_rx := rx1 |}, o)
    else (e, [])
  | LClose =>
    if is_connected (e_hs e) then
      let '(s1, o) := hs_step (e_hs e) EvClosed in ({| e_hs := s1; e_rx := rx_init |}, o)
    else (e, [])
  end.

Fixpoint ep_run (e : ep) (evs : list lev) : ep * list (list sout) :=
  match evs with [] => (e, []) | ev :: r => let '(e1, o) := ep_step e ev in let '(e2, os) := ep_run e1 r in (e2, o :: os) end.

