(* Model/Denote.v — the E5 item a Python-level value denotes (the [[v]] of the
   theorems).  Total on values a variable can hold; None where E5 has no item
   (Dynamic without value, unencodable text, an F4 double beyond binary32). *)
From SG Require Import Base.Prelude Base.Kinds Base.Float Gen.Jis8 Spec.E5 Model.Secs2.
Open Scope N_scope.

Fixpoint optM {A B} (f : A -> option B) (l : list A) : option (list B) :=
  match l with
  | [] => Some []
  | x :: r => match f x, optM f r with Some y, Some ys => Some (y :: ys) | _, _ => None end
  end.

Definition r32 (b : N) : option N := match round32 b with Ok r => Some r | Err _ => None end.

Definition denote_num (k : num_kind) (l : list Z) : option e5item :=
  match k with
  | U1 => Some (EU W1 l) | U2 => Some (EU W2 l) | U4 => Some (EU W4 l) | U8 => Some (EU W8 l)
  | I1 => Some (EI W1 l) | I2 => Some (EI W2 l) | I4 => Some (EI W4 l) | I8 => Some (EI W8 l)
  | F4 | F8 => None
  end.

Fixpoint denote (v : val) : option e5item :=
  match v with
  | VRec l | VArr l =>
    match (fix go (l : list val) : option (list e5item) :=
             match l with
             | [] => Some []
             | x :: r => match denote x, go r with Some y, Some ys => Some (y :: ys) | _, _ => None end
             end) l with
    | Some r => Some (EL r)
    | None => None
    end
  | VBin l => Some (EB l)
  | VBool l => Some (EBool l)
  | VText false cps => Some (EA cps)
  | VText true cps => match optM jis8_encode cps with Some bs => Some (EJ bs) | None => None end
  | VNum k l => denote_num k l
  | VFlt F8 l => Some (EF8 l)
  | VFlt F4 l => match optM r32 l with Some r => Some (EF4 r) | None => None end
  | VFlt _ _ => None
  | VNone => None
  end.

(* every F4 double in v is exactly a binary32 value (then the round trip is the identity) *)
Fixpoint exact32 (v : val) : bool :=
  match v with
  | VRec l | VArr l => forallb exact32 l
  | VFlt F4 l => forallb (fun b => match round32 b with Ok r => widen32 r =? b | Err _ => false end) l
  | _ => true
  end.
