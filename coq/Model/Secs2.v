(* Model/Secs2.v — executable model of secsgem.secs.variables.* (set / get /
   encode / decode), hand-written from the method bodies, generic over the
   class constants regenerated into Gen/VarConsts.v. *)
From SG Require Import Base.Prelude Base.Kinds Base.Float Gen.VarConsts Gen.Jis8.
Open Scope N_scope.

(* ---------- types (what generate(data_format) builds) ---------- *)
Inductive ty :=
| TRec (fields : list (string * ty))     (* variables.List : keyed record *)
| TArr (elem : ty) (count : Z)           (* variables.Array *)
| TScal (k : skind) (count : Z)          (* Binary/Boolean/String/JIS8/U*/I*/F* *)
| TDyn (allowed : list dkind) (count : Z). (* variables.Dynamic ; [] = all types *)

Definition TAny : ty := TDyn anyvalue_types (-1).

(* ---------- internal values (what the objects hold after set/decode) ---------- *)
Inductive val :=
| VRec (l : list val)
| VArr (l : list val)
| VBin (l : list N)
| VBool (l : list bool)
| VText (jis : bool) (l : list N)        (* str as code points *)
| VNum (k : num_kind) (l : list Z)       (* int classes *)
| VFlt (k : num_kind) (l : list N)       (* float classes: binary64 bit patterns *)
| VNone.                                 (* Dynamic without value *)

(* ---------- plain Python values ---------- *)
Inductive plain :=
| PNone
| PBool (b : bool)
| PInt (z : Z)
| PFloat (bits : N)
| PStr (cps : list N)
| PBytes (l : list N)
| PByteArray (l : list N)
| PList (l : list plain)
| PDict (l : list (string * plain))
| PTyped (k : skind) (p : plain).        (* variables.<K>(p) : a typed wrapper object *)

Definition zlen {A} (l : list A) : Z := Z.of_nat (length l).
Definition nlen {A} (l : list A) : N := N.of_nat (length l).

(* ---------- defaults of freshly generated objects ---------- *)
Fixpoint default (t : ty) : val :=
  match t with
  | TRec fs => VRec (map (fun f => default (snd f)) fs)
  | TArr _ _ => VArr []
  | TScal KBin _ => VBin []
  | TScal KBool _ => VBool []
  | TScal KStr _ => VText false []
  | TScal KJis _ => VText true []
  | TScal (KNum k) _ => if num_base_is_float k then VFlt k [] else VNum k []
  | TDyn _ _ => VNone
  end.

(* ---------- text codecs ---------- *)
(* str.encode(coding) : code points -> bytes *)
Definition text_encode (jis : bool) (cps : list N) : res (list N) :=
  if jis then mapM (fun c => match jis8_encode c with Some b => Ok b | None => Err EUnicode end) cps
  else mapM (fun c => if c <? 256 then Ok c else Err EUnicode) cps.
(* bytes.decode(coding) *)
Definition text_decode (jis : bool) (bs : list N) : res (list N) :=
  if jis then mapM (fun b => match jis8_decode b with Some c => Ok c | None => Err EUnicode end) bs
  else Ok bs.

(* ---------- numbers ---------- *)
(* exact int -> float for |z| < 2^53 (larger magnitudes need rounding: not modelled) *)
Definition z2d (z : Z) : res N :=
  if (z =? 0)%Z then Ok 0
  else
    let a := Z.to_N (Z.abs z) in
    if 2^53 <=? a then Err EUnmodelled
    else let k := N.size a in
         Ok ((if (z <? 0)%Z then 2^63 else 0) + (k + 1022) * 2^52 + (a * 2^(53 - k) - 2^52)).

(* self._base_type(item) for an int class *)
Definition to_int (p : plain) : res Z :=
  match p with
  | PBool b => Ok (if b then 1 else 0)%Z
  | PInt z => Ok z
  | PFloat _ => Err EValue                                          (* a fraction is refused, alone and inside a list (D57) *)
  | PStr _ | PBytes _ | PByteArray _ => Err EUnmodelled              (* int("12") *)
  | _ => Err EType
  end.
(* self._base_type(item) for a float class *)
Definition to_flt (p : plain) : res N :=
  match p with
  | PBool b => Ok (if b then 0x3ff0000000000000 else 0)
  | PInt z => z2d z
  | PFloat b => if nan64 b then Err EUnmodelled else Ok b
  | PStr _ | PBytes _ | PByteArray _ => Err EUnmodelled
  | _ => Err EType
  end.

Definition int_in_range (k : num_kind) (z : Z) : bool :=
  negb ((z <? num_min_int k)%Z || (num_max_int k <? z)%Z).
Definition flt_in_range (k : num_kind) (b : N) : bool :=
  negb (flt_ltb b (num_min_flt k) || flt_ltb (num_max_flt k) b).

Definition conv_int (k : num_kind) (p : plain) : res Z :=
  do z <- to_int p; if int_in_range k z then Ok z else Err EValue.
Definition conv_flt (k : num_kind) (p : plain) : res N :=
  do b <- to_flt p; if flt_in_range k b then Ok b else Err EValue.

(* `0 <= count < n` and `0 < count < n` *)
Definition cnt_ge0_lt (count n : Z) : bool := ((0 <=? count) && (count <? n))%Z.
Definition cnt_gt0_lt (count n : Z) : bool := ((0 <? count) && (count <? n))%Z.

Definition is_float_plain (p : plain) : bool := match p with PFloat _ => true | _ => false end.

(* BaseNumber.set *)
Definition set_num (k : num_kind) (count : Z) (p : plain) : res val :=
  let isf := num_base_is_float k in
  if is_float_plain p && negb isf then Err EValue else
  match p with
  | PList l =>
    if cnt_ge0_lt count (zlen l) then Err EValue else
    if isf then do r <- mapM (conv_flt k) l; Ok (VFlt k r)
    else do r <- mapM (conv_int k) l; Ok (VNum k r)
  | PByteArray l =>
    if cnt_ge0_lt count (zlen l) then Err EValue else
    if isf then Err EUnmodelled
    else do r <- mapM (fun b => conv_int k (PInt (Z.of_N b))) l; Ok (VNum k r)
  | _ =>
    if isf then do b <- conv_flt k p; Ok (VFlt k [b])
    else do z <- conv_int k p; Ok (VNum k [z])
  end.

(* bytes(bytearray(list)) : every element an int 0..255 (bool is an int) *)
Definition to_byte (p : plain) : res N :=
  match p with
  | PBool b => Ok (if b then 1 else 0)
  | PInt z => if ((0 <=? z) && (z <=? 255))%Z then Ok (Z.to_N z) else Err EValue
  | _ => Err EType
  end.

(* BaseText.set *)
Definition set_text (jis : bool) (count : Z) (p : plain) : res val :=
  do cps <-
    match p with
    | PNone => Err EValue
    | PBytes l | PByteArray l => text_decode jis l
    | PList l => do bs <- mapM to_byte l; text_decode jis bs
    | PBool _ | PInt _ | PFloat _ => Err EUnmodelled          (* str(number) *)
    | PStr cps => do _ <- text_encode jis cps; Ok cps
    | _ => Err EType
    end;
  if cnt_gt0_lt count (zlen cps) then Err EValue else Ok (VText jis cps).

(* Binary.set (cur = value held before) *)
Definition set_bin (count : Z) (cur : val) (p : plain) : res val :=
  match p with
  | PNone => Ok cur
  | _ =>
    do bs <-
      match p with
      | PBytes l | PByteArray l => Ok l
      | PStr cps => mapM (fun c => if c <? 128 then Ok c else Err EUnicode) cps
      | PList l => mapM to_byte l
      | PBool b => Ok [if b then 1 else 0]
      | PInt z => if ((0 <=? z) && (z <=? 255))%Z then Ok [Z.to_N z] else Err EValue
      | _ => Err EType
      end;
    if cnt_gt0_lt count (zlen bs) then Err EValue else Ok (VBin bs)
  end.

(* Boolean.__convert_single_item *)
Definition conv_bool (p : plain) : res bool :=
  match p with
  | PBool b => Ok b
  | PInt z => if (z =? 0)%Z then Ok false else if (z =? 1)%Z then Ok true else Err EValue
  | PStr _ => Err EUnmodelled                                   (* "TRUE"/"YES"/... *)
  | _ => Err EValue
  end.
Definition set_bool (count : Z) (p : plain) : res val :=
  match p with
  | PList l => if cnt_ge0_lt count (zlen l) then Err EValue else do r <- mapM conv_bool l; Ok (VBool r)
  | PByteArray _ => Err EUnmodelled
  | _ => do b <- conv_bool p; Ok (VBool [b])
  end.

Definition set_scal (k : skind) (count : Z) (cur : val) (p : plain) : res val :=
  match k with
  | KBin => set_bin count cur p
  | KBool => set_bool count p
  | KStr => set_text false count p
  | KJis => set_text true count p
  | KNum n => set_num n count p
  end.

(* ---------- supports_value (used by Dynamic._match_type) ---------- *)
Definition bytelike_item (p : plain) : bool :=            (* Binary/_BaseText._check_single_item_support *)
  match p with PBool _ => true | PInt z => ((0 <=? z) && (z <=? 255))%Z | _ => false end.

Definition num_single_support (k : num_kind) (p : plain) : res bool :=
  let isf := num_base_is_float k in
  match p with
  | PFloat b => if negb isf then Ok false else if nan64 b then Err EUnmodelled else Ok (flt_in_range k b)
  | PBool _ => Ok true
  | PInt z => if isf then (do b <- z2d z; Ok (flt_in_range k b)) else Ok (int_in_range k z)
  | PStr _ | PBytes _ => Err EUnmodelled
  | _ => Ok false
  end.
Fixpoint allM {A} (f : A -> res bool) (l : list A) : res bool :=
  match l with
  | [] => Ok true
  | x :: xs => do b <- f x; if b then allM f xs else Ok false
  end.

Definition supports (k : skind) (count : Z) (p : plain) : res bool :=
  match k with
  | KNum n =>
    match p with
    | PList l => if cnt_ge0_lt count (zlen l) then Ok false else allM (num_single_support n) l
    | PByteArray l => if cnt_ge0_lt count (zlen l) then Ok false
                      else if num_base_is_float n then Err EUnmodelled
                      else Ok (forallb (fun b => int_in_range n (Z.of_N b)) l)
    | _ => num_single_support n p
    end
  | KBool =>
    let single (q : plain) : res bool :=
      match q with
      | PBool _ => Ok true
      | PInt z => Ok ((0 <=? z) && (z <=? 1))%Z
      | PStr _ => Err EUnmodelled
      | _ => Ok false
      end in
    match p with
    | PList l => if cnt_gt0_lt count (zlen l) then Ok false else allM single l
    | PByteArray l => if cnt_gt0_lt count (zlen l) then Ok false else Ok (forallb (fun b => b <=? 1) l)
    | _ => single p
    end
  | KStr | KJis =>
    let jis := match k with KJis => true | _ => false end in
    match p with
    | PList l => if ((0 <? count) && (count <? zlen l))%Z then Ok false else Ok (forallb bytelike_item l)
    | PByteArray l => if ((0 <? count) && (count <? zlen l))%Z then Ok false else Ok true
    | PBytes l => Ok (negb (cnt_gt0_lt count (zlen l)))
    | PBool _ | PInt _ | PFloat _ => Err EUnmodelled            (* len(str(value)) *)
    | PStr cps => if cnt_gt0_lt count (zlen cps) then Ok false else Ok (is_ok (text_encode jis cps))
    | _ => Ok false
    end
  | KBin =>
    match p with
    | PList l => if ((0 <? count) && (count <? zlen l))%Z then Ok false else Ok (forallb bytelike_item l)
    | PByteArray l | PBytes l => Ok (negb ((0 <? count) && (count <? zlen l))%Z)
    | PStr cps => if ((0 <? count) && (count <? zlen cps))%Z then Ok false else Ok (forallb (fun c => c <? 128) cps)
    | _ => Ok (bytelike_item p)
    end
  end.

(* isinstance(value, tuple(var_type.preferred_types)) ; bool is an int in Python *)
Definition preferred_isinstance (k : skind) (p : plain) : bool :=
  match k, p with
  | KBin, (PBytes _ | PByteArray _) => true
  | KBool, PBool _ => true
  | (KStr | KJis), PStr _ => true                 (* bytes are preferred by Binary alone (D71) *)
  | KNum n, (PInt _ | PBool _) => negb (num_base_is_float n)
  | KNum n, PFloat _ => num_base_is_float n
  | _, _ => false
  end.

(* Dynamic._match_type: the two passes over the type list, in order *)
Fixpoint match_pass (pref : bool) (types : list dkind) (count : Z) (p : plain) : res (option skind) :=
  match types with
  | [] => Ok None
  | DArr :: rest =>
    (* Array(count=...) lacks its data_format argument: TypeError as soon as it is constructed *)
    if pref then
      match p with PList _ => Err EType | _ => match_pass pref rest count p end
    else Err EType
  | DScal k :: rest =>
    if pref && negb (preferred_isinstance k p) then match_pass pref rest count p
    else do b <- supports k count p;
         if b then Ok (Some k) else match_pass pref rest count p
  end.
Definition match_type (allowed : list dkind) (count : Z) (p : plain) : res (option skind) :=
  let types := match allowed with [] => dyn_default_types | _ => allowed end in
  do r <- match_pass true types count p;
  match r with Some k => Ok (Some k) | None => match_pass false types count p end.

Definition allowed_has (allowed : list dkind) (d : dkind) : bool :=
  match allowed with [] => true | _ => existsb (dkind_eqb d) allowed end.

(* ---------- set ---------- *)
Fixpoint lookup_field {A} (name : string) (fs : list (string * A)) : option nat :=
  match fs with
  | [] => None
  | (n, _) :: r => if String.eqb n name then Some O
                   else match lookup_field name r with Some i => Some (S i) | None => None end
  end.
Fixpoint update_nth {A} (i : nat) (x : A) (l : list A) : list A :=
  match l, i with
  | [], _ => []
  | _ :: r, O => x :: r
  | y :: r, S j => y :: update_nth j x r
  end.

(* Base.get() of a scalar variable: a single element is handed out bare, otherwise the list / text / bytes *)
Definition scal_get (v : val) : plain :=
  match v with
  | VNum _ [z] => PInt z
  | VNum _ l => PList (map PInt l)
  | VFlt _ [b] => PFloat b
  | VFlt _ l => PList (map PFloat l)
  | VBool [b] => PBool b
  | VBool l => PList (map PBool l)
  | VText _ cps => PStr cps
  | VBin [b] => PInt (Z.of_N b)
  | VBin l => PBytes l
  | _ => PNone
  end.

Fixpoint py_set (t : ty) (cur : val) (p : plain) {struct t} : res val :=
  match t with
  | TScal k count => set_scal k count cur p
  | TArr e count =>
    match p with
    | PList l =>
      if ((0 <=? count) && negb (zlen l =? count))%Z then Err EValue
      else do r <- mapM (py_set e (default e)) l; Ok (VArr r)
    | _ => Err EType
    end
  | TRec fs =>
    let curl := match cur with VRec l => l | _ => [] end in
    match p with
    | PList l =>
      if (length fs <? length l)%nat then Err EValue else
      do r <- (fix go (fs : list (string * ty)) (cl : list val) (l : list plain) {struct fs} : res (list val) :=
         match fs with
         | [] => match l with [] => Ok cl | _ => Err EIndex end
         | (_, ft) :: fs' =>
           match l, cl with
           | [], _ => Ok cl
           | x :: l', c :: cl' => do v <- py_set ft c x; do r <- go fs' cl' l'; Ok (v :: r)
           | _, _ => Err EIndex
           end
         end) fs curl l;
      Ok (VRec r)
    | PDict kvs =>
      do r <- (fix go (kvs : list (string * plain)) (cl : list val) {struct kvs} : res (list val) :=
         match kvs with
         | [] => Ok cl
         | (name, x) :: kvs' =>
           do cl1 <- (fix setf (fs : list (string * ty)) (cl : list val) {struct fs} : res (list val) :=
              match fs, cl with
              | (n, ft) :: fs', c :: cl' =>
                if String.eqb n name then do v <- py_set ft c x; Ok (v :: cl')
                else do r <- setf fs' cl'; Ok (c :: r)
              | _, _ => Err EIndex
              end) fs cl;
           go kvs' cl1
         end) kvs curl;
      Ok (VRec r)
    | _ => Err EType
    end
  | TDyn allowed count =>
    match p with
    | PTyped k q =>
      (* the wrapper object is built first (its own count: none); since D39 it then has to fit this Dynamic's count like a plain
         value: value.__class__(value.get(), count=self.count) *)
      if allowed_has allowed (DScal k) then
        do v <- set_scal k (-1) (default (TScal k (-1))) q;
        do _ <- (if (0 <=? count)%Z then set_scal k count (default (TScal k count)) (scal_get v) else Ok v);
        Ok v
      else Err EValue
    | _ =>
      do m <- match_type allowed count p;
      match m with
      | None => Err EValue
      | Some k => set_scal k count (default (TScal k count)) p
      end
    end
  end.

(* ---------- get ---------- *)
Fixpoint py_get (t : ty) (v : val) {struct v} : plain :=
  match v with
  | VNum _ [z] => PInt z
  | VNum _ l => PList (map PInt l)
  | VFlt _ [b] => PFloat b
  | VFlt _ l => PList (map PFloat l)
  | VBool [b] => PBool b
  | VBool l => PList (map PBool l)
  | VText _ cps => PStr cps
  | VBin [b] => PInt (Z.of_N b)
  | VBin l => PBytes l
  | VNone => PNone
  | VArr l =>
    let et := match t with TArr e _ => e | _ => TAny end in
    PList (map (py_get et) l)
  | VRec l =>
    match t with
    | TRec fs =>
      PDict ((fix go (fs : list (string * ty)) (l : list val) {struct l} : list (string * plain) :=
                match l, fs with
                | v :: l', (n, ft) :: fs' => (n, py_get ft v) :: go fs' l'
                | _, _ => []
                end) fs l)
    | _ => PNone
    end
  end.

(* ---------- encode ---------- *)
(* Base.encode_item_header, masks and shifts as written *)
Definition encode_item_header (fc : N) (length : N) : res (list N) :=
  if 0xFFFFFF <? length then Err EValue
  else if 0xFFFF <? length then
    Ok [N.lor (N.shiftl fc 2) 3; N.shiftr (N.land length 0xFF0000) 16;
        N.shiftr (N.land length 0x00FF00) 8; N.land length 0x0000FF]
  else if 0xFF <? length then
    Ok [N.lor (N.shiftl fc 2) 2; N.shiftr (N.land length 0x00FF00) 8; N.land length 0x0000FF]
  else Ok [N.lor (N.shiftl fc 2) 1; N.land length 0x0000FF].

(* struct.pack(">" + code, v) for ints: struct.error outside the C type's range *)
Definition sc_bytes (c : struct_code) : nat :=
  match c with SC_B | SC_b_ => 1 | SC_H | SC_h_ => 2 | SC_L | SC_l_ | SC_f_ => 4 | SC_Q | SC_q_ | SC_d_ => 8 end%nat.
Definition sc_signed (c : struct_code) : bool :=
  match c with SC_b_ | SC_h_ | SC_l_ | SC_q_ => true | _ => false end.
Definition pack_int (c : struct_code) (z : Z) : res (list N) :=
  match c with
  | SC_f_ | SC_d_ => Err EUnmodelled
  | _ =>
    let w := sc_bytes c in
    let bits := (8 * Z.of_nat w)%Z in
    let ok := if sc_signed c then ((- 2 ^ (bits - 1) <=? z) && (z <? 2 ^ (bits - 1)))%Z
              else ((0 <=? z) && (z <? 2 ^ bits))%Z in
    if ok then Ok (be w (tc_enc w z)) else Err EValue
  end.
Definition pack_flt (c : struct_code) (b : N) : res (list N) :=
  match c with
  | SC_d_ => Ok (be 8 b)
  | SC_f_ => do r <- round32 b; Ok (be 4 r)
  | _ => Err EUnmodelled                       (* struct.pack('>B', 1.5) : struct.error; never configured *)
  end.

Fixpoint concatM {A} (l : list (res (list A))) : res (list A) :=
  match l with
  | [] => Ok []
  | x :: r => do a <- x; do b <- concatM r; Ok (a ++ b)
  end.

Fixpoint py_encode (v : val) : res (list N) :=
  match v with
  | VRec l | VArr l =>
    do h <- encode_item_header fc_Array (nlen l);      (* fc_List is checked equal in Inst *)
    do body <- concatM (map py_encode l); Ok (h ++ body)
  | VBin l => do h <- encode_item_header fc_Binary (nlen l); Ok (h ++ l)
  | VBool l => do h <- encode_item_header fc_Boolean (nlen l);
               Ok (h ++ map (fun b : bool => if b then 1 else 0) l)
  | VText jis cps =>
    do h <- encode_item_header (if jis then fc_JIS8 else fc_String) (nlen cps);
    do bs <- text_encode jis cps; Ok (h ++ bs)
  | VNum k l =>
    do h <- encode_item_header (num_fc k) (nlen l * N.of_nat (num_nbytes k));
    do body <- concatM (map (pack_int (num_scode k)) l); Ok (h ++ body)
  | VFlt k l =>
    do h <- encode_item_header (num_fc k) (nlen l * N.of_nat (num_nbytes k));
    do body <- concatM (map (pack_flt (num_scode k)) l); Ok (h ++ body)
  | VNone => Err EType
  end.

(* ---------- decode ---------- *)
(* Base.decode_item_header on the suffix data[text_pos:] ; fc = None for Dynamic (format_code -1) *)
Definition decode_item_header (fc : option N) (bs : list N) : res (list N * N * N * N) :=
  match bs with
  | [] => Err EIndex
  | fb :: r =>
    let code := N.shiftr (N.land fb 252) 2 in
    let lb := N.to_nat (N.land fb 3) in
    if shorter r lb then Err EIndex else
    let len_ := be_val (firstn lb r) 0 in
    match fc with
    | Some c => if c =? code then Ok (skipn lb r, code, len_, N.of_nat (S lb)) else Err EValue
    | None => Ok (skipn lb r, code, len_, N.of_nat (S lb))
    end
  end.

Definition unpack_int (c : struct_code) (bs : list N) : res Z :=
  match c with
  | SC_f_ | SC_d_ => Err EUnmodelled
  | _ => if sc_signed c then Ok (tc_dec (sc_bytes c) (be_val bs 0)) else Ok (Z.of_N (be_val bs 0))
  end.
Definition unpack_flt (c : struct_code) (bs : list N) : res N :=
  match c with
  | SC_d_ => let b := be_val bs 0 in if nan64 b then Err EUnmodelled else Ok b
  | SC_f_ => let b := be_val bs 0 in if nan32 b then Err EUnmodelled else Ok (widen32 b)
  | _ => Err EUnmodelled
  end.

(* the loop of BaseNumber.decode : n values of w bytes each *)
Fixpoint read_chunks (w : nat) (n : nat) (bs : list N) : res (list (list N) * list N) :=
  match n with
  | O => Ok ([], bs)
  | S k =>
    let c := firstn w bs in
    if negb (length c =? w)%nat then Err EValue
    else do r <- read_chunks w k (skipn w bs); Ok (c :: fst r, snd r)
  end.

Definition dkind_of_code (code : N) : option dkind :=
  find (fun d =>
          match d with
          | DArr => code =? fc_Array
          | DScal KBin => code =? fc_Binary
          | DScal KBool => code =? fc_Boolean
          | DScal KStr => code =? fc_String
          | DScal KJis => code =? fc_JIS8
          | DScal (KNum k) => code =? num_fc k
          end) dyn_decode_classes.

Definition decode_scal (k : skind) (count : Z) (bs : list N) (pos : N) : res (val * list N * N) :=
  match k with
  | KBin =>
    do (r, _, len_, hl) <- decode_item_header (Some fc_Binary) bs;
    let n := N.to_nat (N.min len_ (nlen r)) in          (* slices truncate *)
    (* result = None for len_ 0: set(None) keeps the (fresh, empty) value *)
    do v <- (if len_ =? 0 then Ok (VBin []) else set_bin count (VBin []) (PBytes (firstn n r)));
    Ok (v, skipn n r, pos + hl + len_)
  | KBool =>
    do (r, _, len_, hl) <- decode_item_header (Some fc_Boolean) bs;
    if nlen r <? len_ then Err EIndex else
    let n := N.to_nat len_ in
    do v <- set_bool count (PList (map (fun b => PBool (negb (b =? 0))) (firstn n r)));
    Ok (v, skipn n r, pos + hl + len_)
  | KStr | KJis =>
    let jis := match k with KJis => true | _ => false end in
    do (r, _, len_, hl) <- decode_item_header (Some (if jis then fc_JIS8 else fc_String)) bs;
    let n := N.to_nat (N.min len_ (nlen r)) in          (* slices truncate *)
    do cps <- text_decode jis (firstn n r);
    do v <- set_text jis count (PStr cps);
    Ok (v, skipn n r, pos + hl + len_)
  | KNum nk =>
    do (r, _, len_, hl) <- decode_item_header (Some (num_fc nk)) bs;
    let w := num_nbytes nk in
    if (w =? 0)%nat then Err EValue else
    let nN := len_ / N.of_nat w in
    if nlen r <? nN * N.of_nat w then Err EValue else
    let n := N.to_nat nN in
    do (cs, rest) <- read_chunks w n r;
    do v <- (if num_base_is_float nk
             then do fl <- mapM (unpack_flt (num_scode nk)) cs; set_num nk count (PList (map PFloat fl))
             else do il <- mapM (unpack_int (num_scode nk)) cs; set_num nk count (PList (map PInt il)));
    Ok (v, rest, pos + hl + N.of_nat (n * w))
  end.

(* the element loop of Array.decode and the field loop of List.decode, over the decoder one level down *)
Fixpoint dec_items (dec : list N -> N -> res (val * list N * N)) (cnt : nat) (r : list N) (pos : N) (acc : list val)
  : res (val * list N * N) :=
  match cnt with
  | O => Ok (VArr (rev acc), r, pos)
  | S c => do (v, r', pos') <- dec r pos; dec_items dec c r' pos' (v :: acc)
  end.
Fixpoint dec_fields (dec : ty -> list N -> N -> res (val * list N * N)) (cnt : nat) (fs : list (string * ty))
  (r : list N) (pos : N) (acc : list val) : res (val * list N * N) :=
  match cnt, fs with
  | S c, (_, ft) :: fs' => do (v, r', pos') <- dec ft r pos; dec_fields dec c fs' r' pos' (v :: acc)
  | _, _ => Ok (VRec (rev acc ++ map (fun x => default (snd x)) fs), r, pos)
  end.

Fixpoint py_decode (fuel : nat) (t : ty) (bs : list N) (pos : N) {struct fuel} : res (val * list N * N) :=
  match fuel with
  | O => Err EOutOfFuel
  | S f =>
    match t with
    | TScal k count => decode_scal k count bs pos
    | TArr e _ =>
      do (r, _, len_, hl) <- decode_item_header (Some fc_Array) bs;
      (* every element reads at least its format byte: more elements than bytes must fail *)
      if (N.of_nat (List.length r) <? len_) then Err EIndex else
      dec_items (py_decode f e) (N.to_nat len_) r (pos + hl) []
    | TRec fs =>
      do (r, _, len_, hl) <- decode_item_header (Some fc_List) bs;
      if (nlen fs <? len_) then Err EIndex else
      (* the first `len_` fields are decoded, the others keep their defaults *)
      dec_fields (py_decode f) (N.to_nat len_) fs r (pos + hl) []
    | TDyn allowed count =>
      do (_, code, _, _) <- decode_item_header None bs;
      match dkind_of_code code with
      | None => Err EValue
      | Some d =>
        if negb (allowed_has allowed d) then Err EValue else
        match d with
        | DArr => py_decode f (TArr TAny (-1)) bs pos
        | DScal k => decode_scal k count bs pos
        end
      end
    end
  end.
