(* Model/Admits.v — which E5 items a variable type is declared to receive (the domain of C02),
   and the internal value that denotes a received item. *)
From SG Require Import Base.Prelude Base.Kinds Base.Float Gen.VarConsts Gen.Jis8 Spec.E5 Model.Secs2.
Open Scope N_scope.

Definition kind_of_item (i : e5item) : option skind :=
  match i with
  | EL _ => None
  | EB _ => Some KBin | EBool _ => Some KBool | EA _ => Some KStr | EJ _ => Some KJis
  | EI W1 _ => Some (KNum I1) | EI W2 _ => Some (KNum I2) | EI W4 _ => Some (KNum I4) | EI W8 _ => Some (KNum I8)
  | EU W1 _ => Some (KNum U1) | EU W2 _ => Some (KNum U2) | EU W4 _ => Some (KNum U4) | EU W8 _ => Some (KNum U8)
  | EF4 _ => Some (KNum F4) | EF8 _ => Some (KNum F8)
  end.

Definition item_count (i : e5item) : Z :=
  match i with
  | EL l => zlen l | EB l | EA l | EJ l => zlen l | EBool l => zlen l
  | EI _ l | EU _ l => zlen l | EF4 l | EF8 l => zlen l
  end.

(* the receiving class's count rule and value rule *)
Definition scalar_admits (k : skind) (count : Z) (i : e5item) : bool :=
  match kind_of_item i with
  | Some k' =>
    skind_eqb k k' &&
    match k with
    | KBin | KStr | KJis => negb (cnt_gt0_lt count (item_count i))
    | KBool | KNum _ => negb (cnt_ge0_lt count (item_count i))
    end &&
    match i with
    | EF4 l => forallb finite32 l          (* every finite IEEE-754 float *)
    | EF8 l => forallb finite64 l
    | EJ l => forallb (fun b => match jis8_decode b with Some c => match jis8_encode c with Some b' => b' =? b | None => false end | None => false end) l
    | _ => true
    end
  | None => false
  end.

Fixpoint admits (i : e5item) (t : ty) {struct i} : bool :=
  match i, t with
  | EL l, TArr e _ => forallb (fun x => admits x e) l
  | EL l, TRec fs =>
    (fix go (l : list e5item) (fs : list (string * ty)) {struct l} : bool :=
       match l, fs with
       | [], [] => true
       | x :: l', f :: fs' => admits x (snd f) && go l' fs'
       | _, _ => false
       end) l fs
  | EL l, TDyn allowed _ => allowed_has allowed DArr && forallb (fun x => admits x TAny) l
  | EL _, TScal _ _ => false
  | _, TScal k count => scalar_admits k count i
  | _, TDyn allowed count =>
    match kind_of_item i with
    | Some k => allowed_has allowed (DScal k) && scalar_admits k count i
    | None => false
    end
  | _, _ => false
  end.

Definition jis_cps (bs : list N) : list N :=
  map (fun b => match jis8_decode b with Some c => c | None => 0 end) bs.

Fixpoint embed (i : e5item) (t : ty) {struct i} : val :=
  match i with
  | EL l =>
    match t with
    | TRec fs =>
      VRec ((fix go (l : list e5item) (fs : list (string * ty)) {struct l} : list val :=
               match l, fs with
               | x :: l', f :: fs' => embed x (snd f) :: go l' fs'
               | _, _ => []
               end) l fs)
    | TArr e _ => VArr (map (fun x => embed x e) l)
    | _ => VArr (map (fun x => embed x TAny) l)
    end
  | EB l => VBin l
  | EBool l => VBool l
  | EA l => VText false l
  | EJ l => VText true (jis_cps l)
  | EI W1 l => VNum I1 l | EI W2 l => VNum I2 l | EI W4 l => VNum I4 l | EI W8 l => VNum I8 l
  | EU W1 l => VNum U1 l | EU W2 l => VNum U2 l | EU W4 l => VNum U4 l | EU W8 l => VNum U8 l
  | EF4 l => VFlt F4 (map widen32 l)
  | EF8 l => VFlt F8 l
  end.
