(* Model/Dispatch.v — executable model of SecsHandler._handle_stream_function / _handle_unknown_functions as the GEM
   handlers use it while COMMUNICATING, over the callback tables regenerated into Gen/Callbacks.v.
   The dispatch is hand-written here and proved equal to the decision read from the source (Gen/SecsDispatch.v, Proofs/SecsDispatchProofs.v);
   that every reply is sent with message.header.system is checked by the translator and observed by the correspondence run. *)
From SG Require Import Base.Prelude Gen.Callbacks Gen.Catalogue.
Open Scope Z_scope.

(* how the callback finishes on a given message *)
Inductive outcome :=
| OReturn (k : cbkind)          (* one of the ways the translator found *)
| ORaise                        (* an exception escapes the callback (malformed body, failing user code ...) *)
| OSentRaise (s f : Z).         (* the callback sent a response itself and then failed *)

Inductive reply := RSec (s f : Z) | RAbort (s : Z) | RS9F5.      (* S9F5 carries the offending header *)
Definition reply_eqb (a b : reply) : bool :=
  match a, b with RSec s f, RSec s' f' => (s =? s') && (f =? f') | RAbort s, RAbort s' => s =? s' | RS9F5, RS9F5 => true | _, _ => false end.

Definition lookup_cb (tab : list ((Z * Z) * list cbkind)) (s f : Z) : option (list cbkind) :=
  match find (fun e => (fst (fst e) =? s) && (snd (fst e) =? f)) tab with Some e => Some (snd e) | None => None end.

(* the except branch looks the abort SxF0 up in the function catalogue; for a stream without F0 there (callbacks registered by the
   user on streams outside the shipped catalogue) the message is answered like one without callback *)
Definition has_abort (s : Z) : bool := existsb (fun e => (Z.of_N (f_stream e) =? s) && (f_function e =? 0)%N) catalogue.
Definition on_raise (s : Z) (w : bool) : list reply := if has_abort s then [RAbort s] else if w then [RS9F5] else [].

(* replies written for one inbound message (all with the request's system bytes) *)
Definition dispatch (tab : list ((Z * Z) * list cbkind)) (s f : Z) (w : bool) (o : outcome) : list reply :=
  match lookup_cb tab s f with
  | None => if w then [RS9F5] else []                    (* _handle_unknown_functions *)
  | Some _ =>
    match o with
    | OReturn (KReply s' f') => [RSec s' f']             (* result is not None: send_response, whatever the W-bit says *)
    | OReturn KNone => []
    | OReturn (KSentNone s' f') | OReturn (KSentMayRaise s' f') => [RSec s' f']
    | ORaise => on_raise s w
    | OSentRaise s' f' => RSec s' f' :: on_raise s w
    end
  end.

(* the outcomes a callback can have, as far as its source shows *)
Definition possible (tab : list ((Z * Z) * list cbkind)) (s f : Z) (o : outcome) : bool :=
  match lookup_cb tab s f, o with
  | None, _ => true
  | Some ks, OReturn k => existsb (fun k' => match k, k' with
                                            | KReply a b, KReply a' b' | KSentNone a b, KSentNone a' b' | KSentMayRaise a b, KSentMayRaise a' b' => (a =? a') && (b =? b')
                                            | KNone, KNone => true | _, _ => false end) ks
  | Some _, ORaise => true
  | Some ks, OSentRaise a b => existsb (fun k' => match k' with KSentMayRaise a' b' => (a =? a') && (b =? b') | _ => false end) ks
  end.

(* C08 as stated *)
Definition answered_once (s f : Z) (outs : list reply) : bool :=
  match outs with [RSec s' f'] => (s' =? s) && (f' =? f + 1) | [RAbort s'] => s' =? s | [RS9F5] => true | _ => false end.
Definition c08_ok (s f : Z) (w : bool) (o : outcome) (outs : list reply) : bool :=
  if w then answered_once s f outs
  else match o with ORaise | OSentRaise _ _ => true | _ => match outs with [] => true | _ => false end end.
