(* Model/GemControl.v — executable model of the equipment's control state handling: the programs regenerated into
   Gen/ControlLogic.v are interpreted over the regenerated control machine run by the engine model.
   Hand-modelled (tied by correspondence only): StateModelsCapability._on_control_state_attempt_online (the probe),
   S2F37 enabling all events, exception -> SxF0 in SecsHandler._handle_stream_function, the engine itself. *)
From SG Require Import Base.Prelude Spec.E30Control Model.StateMachine Model.ControlLang Gen.Machines Gen.ControlLogic.
Open Scope Z_scope.
Open Scope string_scope.

Record cst := { c_cur : nat; c_init : string; c_sub : string; c_enabled : bool }.

Definition attr_val (st : cst) (a : attr) : string := match a with AInitial => c_init st | AOnlineSub => c_sub st end.
Fixpoint eval_fwd (st : cst) (f : fwd) : list string :=
  match f with
  | FIf a v t e => if String.eqb (attr_val st a) v then [t] else eval_fwd st e
  | FDo n => [n]
  | FNone => []
  end.

(* enter callbacks: the machine's own forwarders and the capability's attempt-online probe *)
Definition control_handlers (st : cst) (p : probe) : handlers := fun e =>
  match e with
  | Enter s =>
    if (s =? control_ATTEMPT_ONLINE)%nat
    then [match p with PAnswer => "attempt_online_success" | _ => "attempt_online_fail_host_offline" end]
    else eval_fwd st (control_forward s)
  | _ => []
  end.

Definition fresh_sm (c : nat) : sm := {| cur := c; active := []; log := []; spent := [] |}.

Fixpoint assoc_str {A} (k : string) (l : list (string * A)) : option A :=
  match l with [] => None | (k', v) :: r => if String.eqb k k' then Some v else assoc_str k r end.

(* what the events of one method call send: the probe when ATTEMPT ON-LINE is entered while communicating, and the
   collection events registered on `called` *)
Definition outs_of_log (st : cst) (p : probe) (l : list evt) : list xout :=
  flat_map (fun e => match e with
                     | Enter s => if (s =? control_ATTEMPT_ONLINE)%nat then match p with PNotCommunicating => [] | _ => [XProbe] end else []
                     | Called t => if c_enabled st then map (fun tc => XEvent (snd tc)) (filter (fun tc => String.eqb (fst tc) t) control_called_ce) else []
                     | _ => []
                     end) l.

(* a public method of ControlStateMachine: (state, outputs, raised) *)
Fixpoint run_steps (st : cst) (p : probe) (steps : list mstep) : cst * list xout * bool :=
  match steps with
  | [] => (st, [], false)
  | MPerform n :: r =>
    let '(m, raised) := perform control_machine (control_handlers st p) never_one_shot 8 (fresh_sm (c_cur st)) n in
    let st1 := {| c_cur := cur m; c_init := c_init st; c_sub := c_sub st; c_enabled := c_enabled st |} in
    let o := outs_of_log st p (log m) in
    if raised then (st1, o, true) else let '(st2, o2, r2) := run_steps st1 p r in (st2, (o ++ o2)%list, r2)
  | MRemember v :: r => run_steps {| c_cur := c_cur st; c_init := c_init st; c_sub := v; c_enabled := c_enabled st |} p r
  end.
Definition run_method (st : cst) (p : probe) (name : string) : cst * list xout * bool :=
  match assoc_str name control_methods with Some steps => run_steps st p steps | None => (st, [], true) end.

Record run := { r_st : cst; r_ack : Z; r_outs : list xout; r_done : option bool }.   (* Some false: returned, Some true: raised *)

Fixpoint exec (p : probe) (s : cstmt) (r : run) : run :=
  match r_done r with
  | Some _ => r
  | None =>
    match s with
    | CSkip => r
    | CSeq a b => exec p b (exec p a r)
    | CSet n => {| r_st := r_st r; r_ack := n; r_outs := r_outs r; r_done := None |}
    | CIf sts t e => if existsb (Nat.eqb (c_cur (r_st r))) sts then exec p t r else exec p e r
    | CMethod n => let '(st1, o, raised) := run_method (r_st r) p n in
                   {| r_st := st1; r_ack := r_ack r; r_outs := (r_outs r ++ o)%list; r_done := if raised then Some true else None |}
    | CTrigger c => {| r_st := r_st r; r_ack := r_ack r; r_outs := (r_outs r ++ (if c_enabled (r_st r) then [XEvent c] else []))%list; r_done := None |}
    | CReply _ f => {| r_st := r_st r; r_ack := r_ack r; r_outs := (r_outs r ++ [XAck f (r_ack r)])%list; r_done := Some false |}
    end
  end.
Definition start_run (st : cst) : run := {| r_st := st; r_ack := 0; r_outs := []; r_done := None |}.

Definition gc_step (st : cst) (o : xop) : cst * list xout :=
  let operator prog p := let r := exec p prog (start_run st) in
                         (r_st r, (r_outs r ++ match r_done r with Some true => [XRefused] | _ => [] end)%list) in
  let host prog := let r := exec PNotCommunicating prog (start_run st) in
                   (r_st r, (r_outs r ++ match r_done r with Some true => [XAbortReply] | _ => [] end)%list) in
  match o with
  | XOnline p => operator prog_control_switch_online p
  | XOffline => operator prog_control_switch_offline PNotCommunicating
  | XLocal => operator prog_control_switch_online_local PNotCommunicating
  | XRemote => operator prog_control_switch_online_remote PNotCommunicating
  | XS1F15 => host prog_on_s01f15
  | XS1F17 => host prog_on_s01f17
  | XEnable b => ({| c_cur := c_cur st; c_init := c_init st; c_sub := c_sub st; c_enabled := b |}, [])
  end.

(* construction: ControlStateMachine(initial, sub) then start(), while nothing communicates and no event is enabled *)
Definition gc_init (init sub : string) : cst :=
  fst (fst (run_method {| c_cur := control_initial; c_init := init; c_sub := sub; c_enabled := false |} PNotCommunicating "start")).

Fixpoint gc_run (st : cst) (ops : list xop) : cst * list (list xout) :=
  match ops with [] => (st, []) | o :: r => let '(s1, out) := gc_step st o in let '(s2, outs) := gc_run s1 r in (s2, out :: outs) end.

Definition gc_sv (st : cst) : Z := control_state_id (c_cur st).
