(* Model/Sml.v — executable model of the SML text layer of the Item API:
   SMLParser.parse_all (characters -> tokens), Item.from_sml / _read_item / _read_items and the
   _read_sml_token of each item class, and the to_sml printers.  Text is a list of code points.
   float(text) and the float formatting of f"{value}" are not modelled (EUnmodelled). *)
From Coq Require Import Ascii.
From SG Require Import Base.Prelude Base.Kinds Base.Float Gen.ItemConsts Gen.Jis8 Model.Secs2 Model.Item Model.Sfdl.
Open Scope N_scope.

Definition c_lt : N := 60. Definition c_gt : N := 62. Definition c_lb : N := 91. Definition c_rb : N := 93.
Definition c_dq : N := 34. Definition c_sq : N := 39.
Definition sml_ws (c : N) : bool := (c =? 32) || (c =? 9) || (c =? 10) || (c =? 13).
Definition sml_op (c : N) : bool := (c =? c_lt) || (c =? c_gt) || (c =? c_lb) || (c =? c_rb).
Definition sml_quote (c : N) : bool := (c =? c_sq) || (c =? c_dq).

(* ---------- SMLParser.parse_all ---------- *)
(* cur: pending token (reversed); delim: 0 = not inside a literal, else the delimiter character.
   At the end of the text a pending token (e.g. a literal that is never closed) is a token too. *)
Fixpoint sml_lex (cs : text) (cur : text) (delim : N) (acc : list text) : list text :=
  let flush acc := match cur with [] => acc | _ => rev cur :: acc end in
  match cs with
  | [] => rev (flush acc)
  | c :: r =>
    if negb (delim =? 0) then
      if c =? delim then sml_lex r [] 0 (rev (c :: cur) :: acc) else sml_lex r (c :: cur) delim acc
    else if sml_ws c then sml_lex r [] 0 (flush acc)
    else if sml_op c then sml_lex r [] 0 ([c] :: flush acc)
    else sml_lex r (c :: cur) (if sml_quote c then c else 0) acc
  end.
Definition sml_tokens (src : text) : list text := sml_lex src [] 0 [].

(* ---------- int(text) and int(text, 0) ---------- *)
Definition digit_val (c : N) : option N :=
  if (48 <=? c) && (c <=? 57) then Some (c - 48)
  else if (97 <=? c) && (c <=? 102) then Some (c - 87)
  else if (65 <=? c) && (c <=? 70) then Some (c - 55)
  else None.
Fixpoint digits_val (base : N) (ds : text) (acc : N) : option N :=
  match ds with
  | [] => Some acc
  | c :: r => match digit_val c with
              | Some d => if d <? base then digits_val base r (acc * base + d) else None
              | None => None
              end
  end.
Definition exotic (t : text) : bool := existsb (fun c => (c =? 95) || (127 <? c)) t.     (* '_' and non-ASCII digits *)
Definition split_sign (t : text) : bool * text :=
  match t with 45 :: r => (true, r) | 43 :: r => (false, r) | _ => (false, t) end.
Definition signed (neg : bool) (n : N) : Z := if neg then (- Z.of_N n)%Z else Z.of_N n.

Definition parse_int10 (t : text) : res Z :=
  if exotic t then Err EUnmodelled else
  let '(neg, ds) := split_sign t in
  match ds with
  | [] => Err EValue
  | _ => match digits_val 10 ds 0 with Some n => Ok (signed neg n) | None => Err EValue end
  end.

Definition lower (c : N) : N := if (65 <=? c) && (c <=? 90) then c + 32 else c.
Definition parse_int0 (t : text) : res Z :=
  if exotic t then Err EUnmodelled else
  let '(neg, ds) := split_sign t in
  match ds with
  | [] => Err EValue
  | 48 :: p :: rest =>
    let pl := lower p in
    if pl =? 120 then match rest with [] => Err EValue | _ => match digits_val 16 rest 0 with Some n => Ok (signed neg n) | None => Err EValue end end
    else if pl =? 111 then match rest with [] => Err EValue | _ => match digits_val 8 rest 0 with Some n => Ok (signed neg n) | None => Err EValue end end
    else if pl =? 98 then match rest with [] => Err EValue | _ => match digits_val 2 rest 0 with Some n => Ok (signed neg n) | None => Err EValue end end
    else (* a decimal literal with a leading zero must be all zeros *)
      if forallb (fun c => c =? 48) (p :: rest) then Ok 0%Z else Err EValue
  | _ => match digits_val 10 ds 0 with Some n => Ok (signed neg n) | None => Err EValue end
  end.

(* ---------- printers ---------- *)
Fixpoint dec_digits (fuel : nat) (n : N) (acc : text) : text :=
  match fuel with
  | O => acc
  | S f => let acc' := (48 + n mod 10) :: acc in if n <? 10 then acc' else dec_digits f (n / 10) acc'
  end.
Definition print_N (n : N) : text := dec_digits (S (N.to_nat (N.log2 n))) n [].
Definition print_Z (z : Z) : text := if (z <? 0)%Z then 45 :: print_N (Z.to_N (- z)) else print_N (Z.to_N z).

Definition hex_digit (d : N) : N := if d <? 10 then 48 + d else 87 + d.
Fixpoint hex_digits (fuel : nat) (n : N) (acc : text) : text :=
  match fuel with
  | O => acc
  | S f => let acc' := hex_digit (n mod 16) :: acc in if n <? 16 then acc' else hex_digits f (n / 16) acc'
  end.
Definition print_hex (n : N) : text := 48 :: 120 :: hex_digits (S (N.to_nat (N.log2 n))) n [].   (* hex(n) *)

Definition sp : N := 32.
Definition join_sp (l : list text) : text :=
  match l with [] => [] | x :: r => x ++ List.concat (map (fun t => sp :: t) r) end.
Definition indent (n : nat) : text := repeat sp n.

(* ItemStr.to_sml: runs of printable characters in quotes, everything else (and the quote) as byte codes *)
Fixpoint str_body (jis : bool) (printable : list N) (cps : text) (in_run : bool) : res text :=
  match cps with
  | [] => Ok (if in_run then [c_dq] else [])
  | c :: r =>
    if existsb (N.eqb c) printable && negb (c =? c_dq) then
      do rest <- str_body jis printable r true;
      Ok ((if in_run then [c] else sp :: c_dq :: [c]) ++ rest)
    else
      do b <- (if jis then match jis8_encode c with Some b => Ok b | None => Err EUnicode end
               else if c <? 256 then Ok c else Err EUnicode);
      do rest <- str_body jis printable r false;
      Ok ((if in_run then c_dq :: sp :: print_hex b else sp :: print_hex b) ++ rest)
  end.

Definition type_name (v : val) : res text :=
  match v with
  | VArr _ => Ok (text_of_string item_sml_L)
  | VBin _ => Ok (text_of_string item_sml_B)
  | VBool _ => Ok (text_of_string item_sml_BOOLEAN)
  | VText false _ => Ok (text_of_string item_sml_A)
  | VText true _ => Ok (text_of_string item_sml_J)
  | VNum k _ | VFlt k _ => Ok (text_of_string (item_sml k))
  | _ => Err EType
  end.

Definition nl : N := 10.
Fixpoint to_sml (ind : nat) (v : val) : res text :=
  do tn <- type_name v;
  let head := indent ind ++ [c_lt; sp] ++ tn in
  let simple (vals : list text) : res text :=
    match vals with
    | [] => Ok (head ++ [sp; c_gt])
    | _ => Ok (head ++ [sp] ++ join_sp vals ++ [sp; c_gt])
    end in
  match v with
  | VArr [] => Ok (head ++ [sp; c_gt])
  | VArr l =>
    do items <- (fix go (l : list val) : res (list text) :=
                   match l with [] => Ok [] | x :: r => do t <- to_sml (ind + 4) x; do ts <- go r; Ok (t :: ts) end) l;
    let body := match items with [] => [] | x :: r => x ++ List.concat (map (fun t => nl :: t) r) end in
    Ok (head ++ [sp; c_lb] ++ print_N (N.of_nat (length l)) ++ [c_rb; nl] ++ body ++ [nl] ++ indent ind ++ [c_gt])
  | VBin l => simple (map print_hex l)
  | VBool l => simple (map (fun b : bool => if b then [48; 120; 49] else [48; 120; 48]) l)
  | VText jis cps =>
    do body <- str_body jis (if jis then item_printable_J else item_printable_A) cps false;
    Ok (head ++ body ++ [c_gt])
  | VNum _ l => simple (map print_Z l)
  | VFlt _ [] => Ok (head ++ [sp; c_gt])
  | VFlt _ _ => Err EUnmodelled
  | _ => Err EType
  end.

(* ---------- the reader ---------- *)
Definition peek1 (ts : list text) : res text := match ts with t :: _ => Ok t | [] => Err EIndex end.
Definition is_tok (t : text) (c : N) : bool := text_eqb t [c].
Definition closes_list (t : text) : bool := is_tok t c_gt.

Definition class_of_name (t : text) : option icls :=
  if text_eqb t (text_of_string item_sml_L) then Some CL
  else if text_eqb t (text_of_string item_sml_B) then Some CB
  else if text_eqb t (text_of_string item_sml_BOOLEAN) then Some CBool
  else if text_eqb t (text_of_string item_sml_A) then Some CA
  else if text_eqb t (text_of_string item_sml_J) then Some CJ
  else match find (fun k => text_eqb t (text_of_string (item_sml k))) all_num_kinds with Some k => Some (CNum k) | None => None end.

Definition strip_quotes (t : text) : text :=
  let drop := fix drop (l : text) : text := match l with c :: r => if c =? c_dq then drop r else l | [] => [] end in
  rev (drop (rev (drop t))).

(* the value tokens of a scalar item up to '>' ; returns the items read and the tokens after '>' *)
Fixpoint read_values {A} (conv : text -> res A) (fuel : nat) (ts : list text) : res (list A * list text) :=
  match fuel with
  | O => Err EOutOfFuel
  | S f =>
    match ts with
    | [] => Err EIndex
    | t :: r => if is_tok t c_gt then Ok ([], r)
                else do x <- conv t; do rest <- read_values conv f r; Ok (x :: fst rest, snd rest)
    end
  end.

Definition bounded (lo hi : Z) (z : Z) : res Z := if in_bounds lo hi z then Ok z else Err EValue.

Definition read_scalar (c : icls) (ts : list text) : res (val * list text) :=
  let fuel := S (length ts) in
  match c with
  | CL => Err EType
  | CB => do r <- read_values (fun t => do z <- parse_int0 t; do z' <- bounded item_min_B item_max_B z; Ok (Z.to_N z')) fuel ts;
          Ok (VBin (fst r), snd r)
  | CBool => do r <- read_values (fun t => do z <- parse_int0 t; do z' <- bounded item_min_BOOLEAN item_max_BOOLEAN z; Ok (z' =? 1)%Z) fuel ts;
             Ok (VBool (fst r), snd r)
  | CA | CJ =>
    let jis := match c with CJ => true | _ => false end in
    do r <- read_values (fun t =>
              match t with
              | 34 :: _ => text_encode jis (strip_quotes t)
              | _ => do z <- parse_int0 t; do z' <- bounded (if jis then item_min_J else item_min_A) (if jis then item_max_J else item_max_A) z; Ok [Z.to_N z']
              end) fuel ts;
    do cps <- text_decode jis (List.concat (fst r));
    Ok (VText jis cps, snd r)
  | CNum k =>
    if item_is_float k then
      match ts with
      | t :: r => if is_tok t c_gt then Ok (VFlt k [], r) else Err EUnmodelled
      | [] => Err EIndex
      end
    else
      do r <- read_values (fun t => do z <- parse_int10 t; bounded (item_min_int k) (item_max_int k) z) fuel ts;
      Ok (VNum k (fst r), snd r)
  end.

(* the item loop of Item._read_items over the reader one level down *)
Fixpoint read_list_items (rd : list text -> res (val * list text)) (g : nat) (ts : list text) (acc : list val)
  : res (list val * list text) :=
  match g with
  | O => Err EOutOfFuel
  | S g' =>
    match ts with
    | [] => Err EIndex
    | t :: rest => if closes_list t then Ok (rev acc, rest)
                   else do x <- rd ts; read_list_items rd g' (snd x) (fst x :: acc)
    end
  end.

Fixpoint read_item (fuel : nat) (ts : list text) : res (val * list text) :=
  match fuel with
  | O => Err EOutOfFuel
  | S f =>
    match ts with
    | open :: ty :: r =>
      if negb (is_tok open c_lt) then Err EValue else
      do uty <- upper ty;
      match class_of_name uty with
      | None => Err EValue
      | Some CL =>
        (* optional [ length ] *)
        do p <- peek1 r;
        do lr <- (if is_tok p c_lb then
                    match r with
                    | _ :: len_tok :: closing :: r' => if is_tok closing c_rb then Ok (Some len_tok, r') else Err EValue
                    | _ => Err EIndex
                    end
                  else Ok (None, r));
        let '(len_tok, r1) := lr in
        do res_ <- read_list_items (read_item f) (S (length r1)) r1 [];
        let '(vals, rest) := res_ in
        do _ <- match len_tok with
                | None => Ok tt
                | Some lt => do n <- parse_int10 lt;
                             if (0 <? n)%Z && negb (n =? Z.of_nat (length vals))%Z then Err EValue else Ok tt
                end;
        Ok (VArr vals, rest)
      | Some c => read_scalar c r
      end
    | _ => Err EIndex
    end
  end.

Definition from_sml (src : text) : res val :=
  let ts := sml_tokens src in
  do r <- read_item (S (length ts)) ts;
  (* the text is exactly one item: anything behind it is an error *)
  match snd r with [] => Ok (fst r) | _ => Err EValue end.
