(* Model/ControlLang.v — the small imperative language into which harness/gen_control.py translates the control-state
   logic of secsgem/gem/control_state_machine.py and secsgem/gem/state_models_capability.py (Gen/ControlLogic.v holds the
   translated programs; Model/GemControl.v interprets them). *)
From SG Require Import Base.Prelude.
Open Scope Z_scope.

(* enter-handlers of the machine that forward to a further transition, chosen by a configuration attribute *)
Inductive attr := AInitial | AOnlineSub.        (* self._initial_control_state / self._online_control_state *)
Inductive fwd :=
| FIf (a : attr) (value : string) (then_ : string) (else_ : fwd)    (* if self.<a> == value: _perform_transition(then_) else ... *)
| FDo (name : string)
| FNone.

(* public methods of ControlStateMachine: transition requests and updates of the remembered sub-state, in source order *)
Inductive mstep := MPerform (name : string) | MRemember (value : string).

(* handler / operator methods of StateModelsCapability *)
Inductive cstmt :=
| CSkip
| CSeq (a b : cstmt)
| CSet (n : Z)                                   (* the acknowledge variable := n *)
| CIf (states : list nat) (t e : cstmt)          (* if self._control_state.current in states *)
| CMethod (name : string)                        (* self._control_state.<name>() *)
| CTrigger (ceid : Z)                            (* self.trigger_collection_events([ceid]) *)
| CReply (s f : Z).                              (* return self.stream_function(s, f)(acknowledge variable) *)
