(* Model/EventReports.v — executable model of CollectionEventCapability: _on_s02f33, _on_s02f35, _on_s02f37 /
   _set_ce_state, _on_s06f15, trigger_collection_events and _build_collection_event, with the two dicts as
   association lists in insertion order and the pre-check loops as written (a later error overwrites an earlier one). *)
From SG Require Import Base.Prelude Spec.E5Reports.
Open Scope Z_scope.

Definition has {A} (k : id) (m : list (id * A)) : bool := existsb (fun p => id_eqb (fst p) k) m.

(* S2F33 pre-check *)
Definition define_check (env : renv) (c : rcfg) (data : list (id * list id)) : Z :=
  fold_left (fun drack e =>
    if has (fst e) (reports c) && negb (match snd e with [] => true | _ => false end) then 3
    else fold_left (fun d v => if negb (mem v (vids env)) then 4 else d) (snd e) drack) data 0.

(* removing a report from every link (one pass over the links): all occurrences; a link left without reports is deleted *)
Fixpoint unlink_report (ls : list (id * (list id * bool))) (r : id) : list (id * (list id * bool)) :=
  match ls with
  | [] => []
  | (ce, (rs, en)) :: rest =>
    if mem r rs then
      match filter (fun x => negb (id_eqb x r)) rs with
      | [] => unlink_report rest r
      | rs' => (ce, (rs', en)) :: unlink_report rest r
      end
    else (ce, (rs, en)) :: unlink_report rest r
  end.

Definition define_apply (c : rcfg) (e : id * list id) : rcfg :=
  match snd e with
  | [] => {| reports := (if has (fst e) (reports c) then rremove (fst e) (reports c) else reports c); links := unlink_report (links c) (fst e) |}
  | vs => {| reports := rset (fst e) vs (reports c); links := links c |}
  end.

Definition m_define (env : renv) (c : rcfg) (data : list (id * list id)) : rcfg * rout :=
  let drack := define_check env c data in
  if negb (drack =? 0) then (c, RAck drack)
  else match data with
       | [] => ({| reports := []; links := [] |}, RAck 0)
       | _ => (fold_left define_apply data c, RAck 0)
       end.

(* S2F35 *)
Definition link_check (env : renv) (c : rcfg) (data : list (id * list id)) : Z :=
  fold_left (fun lrack e =>
    let l1 := if negb (mem (fst e) (ceids env)) then 4 else lrack in
    fold_left (fun l r =>
      let l2 := match rlookup (fst e) (links c) with Some (rs, _) => if mem r rs then 3 else l | None => l end in
      if negb (has r (reports c)) then 5 else l2) (snd e) l1) data 0.

Definition link_apply (c : rcfg) (e : id * list id) : rcfg :=
  match snd e with
  | [] => {| reports := reports c; links := (if has (fst e) (links c) then rremove (fst e) (links c) else links c) |}
  | rs => {| reports := reports c;
             links := match rlookup (fst e) (links c) with
                      | Some (old, en) => rset (fst e) (old ++ rs, en) (links c)
                      | None => rset (fst e) (rs, false) (links c)
                      end |}
  end.

Definition m_link (env : renv) (c : rcfg) (data : list (id * list id)) : rcfg * rout :=
  let lrack := link_check env c data in
  if lrack =? 0 then (fold_left link_apply data c, RAck 0) else (c, RAck lrack).

(* S2F37 *)
Definition m_enable (c : rcfg) (ceed : bool) (which : list id) : rcfg * rout :=
  match which with
  | [] => ({| reports := reports c; links := map (fun l => (fst l, (fst (snd l), ceed))) (links c) |}, RAck 0)
  | _ =>
    let '(ls, ok) := fold_left (fun acc ce =>
                       match rlookup ce (fst acc) with
                       | Some (rs, _) => (rset ce (rs, ceed) (fst acc), snd acc)
                       | None => (fst acc, false)
                       end) which (links c, true) in
    ({| reports := reports c; links := ls |}, RAck (if ok then 0 else 1))
  end.

(* _build_collection_event: None = KeyError (a linked report that does not exist) *)
Definition build_report (env : renv) (c : rcfg) (r : id) : option (id * list Z) :=
  match rlookup r (reports c) with
  | Some vs => Some (r, map (value_of env) (filter (fun v => mem v (vids env)) vs))
  | None => None
  end.
Definition build_event (env : renv) (c : rcfg) (ce : id) : option (list (id * list Z)) :=
  match rlookup ce (links c) with
  | Some (rs, _) => all_some (map (build_report env c) rs)
  | None => None
  end.

Definition m_request (env : renv) (c : rcfg) (ce : id) : rout :=
  (* whether the event is enabled does not matter for a request (D47): enabling controls the reports sent spontaneously *)
  match rlookup ce (links c) with
  | Some _ => match build_event env c ce with Some rpt => RReport ce rpt | None => RAbort end
  | None => RReport ce []
  end.
Definition m_trigger (env : renv) (c : rcfg) (ce : id) : rout :=
  match rlookup ce (links c) with
  | Some (_, true) => match build_event env c ce with Some rpt => RReport ce rpt | None => RNothing end   (* the sender thread dies *)
  | _ => RNothing
  end.

Definition er_step (env : renv) (c : rcfg) (o : rop) : rcfg * rout :=
  match o with
  | RDefine data => m_define env c data
  | RLink data => m_link env c data
  | REnable ceed which => m_enable c ceed which
  | RRequest ce => (c, m_request env c ce)
  | RTrigger ce => (c, m_trigger env c ce)
  end.

Definition cfg0 : rcfg := {| reports := []; links := [] |}.
Fixpoint er_run (env : renv) (c : rcfg) (ops : list rop) : rcfg * list rout :=
  match ops with [] => (c, []) | o :: r => let '(c1, out) := er_step env c o in let '(c2, outs) := er_run env c1 r in (c2, out :: outs) end.
