(* Model/SendQueue.v — executable model of HsmsProtocol._process_send_queue: the queued blocks are taken one after the other, each is
   cut into packets, every packet is handed to Connection.send_data; the block is resolved with True when all its packets were
   written and with False at the first packet that was not.  What happens then is read from the source (Gen/SendQueue.v):
   the loop goes on with the next block, or the function returns and the rest stays queued until somebody triggers it again.
   A block is given by its number of packets, the connection by the results of its send_data calls in order. *)
From SG Require Import Base.Prelude Gen.SendQueue.
Open Scope nat_scope.

(* one block: Some true / Some false = resolved, None = the script of send_data results ran out; and the results left *)
Fixpoint send_packets_q (n : nat) (ws : list bool) : option bool * list bool :=
  match n with
  | O => (Some true, ws)
  | S k => match ws with [] => (None, []) | true :: r => send_packets_q k r | false :: r => (Some false, r) end
  end.

(* one call of _process_send_queue: how each queued block ends (None: still queued / unresolved) *)
Fixpoint process_queue (mode : after_failure) (blocks : list nat) (ws : list bool) : list (option bool) :=
  match blocks with
  | [] => []
  | n :: r =>
    match send_packets_q n ws with
    | (Some true, ws') => Some true :: process_queue mode r ws'
    | (Some false, ws') => Some false :: match mode with QContinue => process_queue mode r ws' | QReturn => map (fun _ => None) r end
    | (None, _) => None :: map (fun _ => None) r
    end
  end.
