(* Model/Item.v — executable model of the second item API (secsgem.secs.item and item_xxx modules: Item, ItemL, ItemB,
   ItemBOOLEAN, ItemA/ItemJ, the ten ItemNumber classes), over the constants regenerated into Gen/ItemConsts.v.
   Item values reuse [val]: VArr = ItemL, VBin, VBool, VText, VNum, VFlt (VRec/VNone never occur). *)
From SG Require Import Base.Prelude Base.Kinds Base.Float Gen.ItemConsts Gen.Jis8 Model.Secs2.
Open Scope N_scope.

Inductive icls := CL | CB | CBool | CA | CJ | CNum (k : num_kind).

(* _verify_value_in_bounds *)
Definition in_bounds (lo hi z : Z) : bool := ((lo <=? z) && (z <=? hi))%Z.
Definition flt_bounds (k : num_kind) (b : N) : bool :=
  (* min <= v <= max with Python float comparison: false on NaN *)
  negb (nan64 b) && negb (flt_ltb b (item_min_flt k)) && negb (flt_ltb (item_max_flt k) b).

Definition int_of_intlike (p : plain) : option Z :=
  match p with PInt z => Some z | PBool b => Some (if b then 1 else 0)%Z | _ => None end.

(* ASCII-only model of str.encode("utf-8") *)
Definition utf8_ascii (cps : list N) : res (list N) :=
  mapM (fun c => if c <? 128 then Ok c else Err EUnmodelled) cps.

(* ItemNumber.validate_value element *)
Definition num_elem_int (k : num_kind) (p : plain) : res Z :=
  match int_of_intlike p with
  | Some z => if in_bounds (item_min_int k) (item_max_int k) z then Ok z else Err EValue
  | None => Err EType
  end.
Definition num_elem_flt (k : num_kind) (p : plain) : res N :=
  match p with
  | PFloat b => if nan64 b then Err EUnmodelled else if flt_bounds k b then Ok b else Err EValue
  | _ => Err EType
  end.

Definition validate_num (k : num_kind) (p : plain) : res val :=
  if item_is_float k then
    match p with
    | PList l => do r <- mapM (num_elem_flt k) l; Ok (VFlt k r)
    | _ => do b <- num_elem_flt k p; Ok (VFlt k [b])
    end
  else
    match p with
    | PList l => do r <- mapM (num_elem_int k) l; Ok (VNum k r)
    | _ => do z <- num_elem_int k p; Ok (VNum k [z])
    end.

(* ItemB.validate_value *)
Definition validate_b (p : plain) : res val :=
  match p with
  | PList l =>
    do parts <- mapM (fun q =>
        match int_of_intlike q with
        | Some z => if in_bounds item_min_B item_max_B z then Ok [Z.to_N z] else Err EValue
        | None => match q with
                  | PBytes bs => Ok bs
                  | PStr cps => utf8_ascii cps
                  | _ => Err EType
                  end
        end) l;
    Ok (VBin (List.concat parts))
  | PBytes bs => Ok (VBin bs)
  | PStr cps => do bs <- utf8_ascii cps; Ok (VBin bs)
  | _ => match int_of_intlike p with
         | Some z => if in_bounds item_min_B item_max_B z then Ok (VBin [Z.to_N z]) else Err EValue
         | None => Err EType
         end
  end.

Definition validate_bool (p : plain) : res val :=
  let one (q : plain) : res bool :=
    match int_of_intlike q with
    | Some z => if in_bounds item_min_BOOLEAN item_max_BOOLEAN z then Ok (z =? 1)%Z else Err EValue
    | None => Err EType
    end in
  match p with
  | PList l => do r <- mapM one l; Ok (VBool r)
  | _ => do b <- one p; Ok (VBool [b])
  end.

Definition validate_str (jis : bool) (p : plain) : res val :=
  match p with
  | PStr cps =>       (* text the item cannot carry is refused when the item is built (D69) *)
    match text_encode jis cps with Ok _ => Ok (VText jis cps) | Err _ => Err EValue end
  | PBytes bs => do cps <- text_decode jis bs; Ok (VText jis cps)
  | _ => Err EValue
  end.

(* Item._from_value_int / _from_value_float: first class of the candidate list whose bounds hold the value *)
Fixpoint first_int (ks : list num_kind) (z : Z) : option num_kind :=
  match ks with
  | [] => None
  | k :: r => if in_bounds (item_min_int k) (item_max_int k) z then Some k else first_int r z
  end.
Fixpoint first_flt (ks : list num_kind) (b : N) : option num_kind :=
  match ks with
  | [] => None
  | k :: r => if flt_bounds k b then Some k else first_flt r b
  end.

Fixpoint from_value (p : plain) : res val :=
  match p with
  | PList l =>
    do r <- (fix go (l : list plain) : res (list val) :=
               match l with
               | [] => Ok []
               | x :: xs => do y <- from_value x; do ys <- go xs; Ok (y :: ys)
               end) l;
    Ok (VArr r)
  | PStr cps => validate_str false (PStr cps)
  | PBytes bs => Ok (VBin bs)
  | PBool b => Ok (VBool [b])
  | PFloat b =>
    if nan64 b then Err EUnmodelled else
    match first_flt from_value_floats b with
    | Some k => Ok (VFlt k [b])
    | None => Err EValue              (* ItemF8(value) raises: out of bounds (infinity) *)
    end
  | PInt z =>
    match first_int (if (0 <=? z)%Z then from_value_unsigned else from_value_signed) z with
    | Some k => Ok (VNum k [z])
    | None => Err EValue              (* ItemI8(value) raises *)
    end
  | _ => Err EValue
  end.

(* ItemX(value) *)
Definition construct (c : icls) (p : plain) : res val :=
  match c with
  | CL => match p with
          | PList l => do r <- mapM from_value l; Ok (VArr r)
          | PDict kvs => do r <- mapM (fun kv => from_value (snd kv)) kvs; Ok (VArr r)
          | _ => Err EValue
          end
  | CB => validate_b p
  | CBool => validate_bool p
  | CA => validate_str false p
  | CJ => validate_str true p
  | CNum k => validate_num k p
  end.

(* Item.value *)
Fixpoint item_value (v : val) : plain :=
  match v with
  | VArr l | VRec l => PList (map item_value l)
  | VBin bs => PBytes bs
  | VText _ cps => PStr cps
  | VBool [b] => PBool b
  | VBool l => PList (map PBool l)
  | VNum _ [z] => PInt z
  | VNum _ l => PList (map PInt l)
  | VFlt _ [b] => PFloat b
  | VFlt _ l => PList (map PFloat l)
  | VNone => PNone
  end.

(* Item.encode_item_header: same masks and shifts as the variables API, written again in item.py *)
Definition item_header (fc : N) (length : N) : res (list N) :=
  if 0xFFFFFF <? length then Err EValue
  else if 0xFFFF <? length then
    Ok [N.lor (N.shiftl fc 2) 3; N.shiftr (N.land length 0xFF0000) 16;
        N.shiftr (N.land length 0x00FF00) 8; N.land length 0x0000FF]
  else if 0xFF <? length then
    Ok [N.lor (N.shiftl fc 2) 2; N.shiftr (N.land length 0x00FF00) 8; N.land length 0x0000FF]
  else Ok [N.lor (N.shiftl fc 2) 1; N.land length 0x0000FF].

Fixpoint item_encode (v : val) : res (list N) :=
  match v with
  | VArr l =>
    do h <- item_header item_fc_L (nlen l); do body <- concatM (map item_encode l); Ok (h ++ body)
  | VBin l => do h <- item_header item_fc_B (nlen l); Ok (h ++ l)
  | VBool l => do h <- item_header item_fc_BOOLEAN (nlen l); Ok (h ++ map (fun b : bool => if b then 1 else 0) l)
  | VText jis cps =>
    do h <- item_header (if jis then item_fc_J else item_fc_A) (nlen cps);
    do bs <- text_encode jis cps; Ok (h ++ bs)
  | VNum k l =>
    do h <- item_header (item_fc k) (nlen l * N.of_nat (item_nbytes k));
    do body <- concatM (map (pack_int (item_scode k)) l); Ok (h ++ body)
  | VFlt k l =>
    do h <- item_header (item_fc k) (nlen l * N.of_nat (item_nbytes k));
    do body <- concatM (map (pack_flt (item_scode k)) l); Ok (h ++ body)
  | VRec _ | VNone => Err EType
  end.

(* Item._decode_item_header on the remaining packet data *)
Definition item_decode_header (bs : list N) : res (list N * N * N) :=
  match bs with
  | [] => Err EIndex
  | fb :: r =>
    let code := N.shiftr (N.land fb 252) 2 in
    let lb := N.to_nat (N.land fb 3) in
    if shorter r lb then Err EIndex else
    Ok (skipn lb r, code, be_val (firstn lb r) 0)
  end.

Definition cls_of_code (code : N) : option icls :=
  if code =? item_fc_L then Some CL
  else if code =? item_fc_B then Some CB
  else if code =? item_fc_BOOLEAN then Some CBool
  else if code =? item_fc_A then Some CA
  else if code =? item_fc_J then Some CJ
  else match find (fun k => code =? item_fc k) all_num_kinds with Some k => Some (CNum k) | None => None end.

(* the per-class decode after the header (data.get truncates like a slice) *)
Definition item_decode_scal (c : icls) (r : list N) (len_ : N) : res (val * list N) :=
  let n := N.to_nat (N.min len_ (nlen r)) in
  match c with
  | CL => Err EType
  | CB => Ok (VBin (firstn n r), skipn n r)
  | CBool => Ok (VBool (map (fun b => 0 <? b) (firstn n r)), skipn n r)
  | CA => Ok (VText false (firstn n r), skipn n r)
  | CJ => do cps <- text_decode true (firstn n r); Ok (VText true cps, skipn n r)
  | CNum k =>
    let w := item_nbytes k in
    if (w =? 0)%nat then Err EValue else
    let nN := len_ / N.of_nat w in
    if nlen r <? nN * N.of_nat w then Err EValue else
    do (cs, rest) <- read_chunks w (N.to_nat nN) r;
    if item_is_float k then
      do fl <- mapM (unpack_flt (item_scode k)) cs;
      do v <- validate_num k (PList (map PFloat fl)); Ok (v, rest)
    else
      do il <- mapM (unpack_int (item_scode k)) cs;
      do v <- validate_num k (PList (map PInt il)); Ok (v, rest)
  end.

Fixpoint item_items (dec : list N -> res (val * list N)) (cnt : nat) (r : list N) (acc : list val) : res (val * list N) :=
  match cnt with
  | O => Ok (VArr (rev acc), r)
  | S c => do (v, r') <- dec r; item_items dec c r' (v :: acc)
  end.

Fixpoint item_decode (fuel : nat) (bs : list N) : res (val * list N) :=
  match fuel with
  | O => Err EOutOfFuel
  | S f =>
    do (r, code, len_) <- item_decode_header bs;
    match cls_of_code code with
    | None => Err EType
    | Some CL => if nlen r <? len_ then Err EIndex else item_items (item_decode f) (N.to_nat len_) r []
    | Some c => item_decode_scal c r len_
    end
  end.
