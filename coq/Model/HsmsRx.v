(* Model/HsmsRx.v — sequential model of the HSMS receive path:
   Protocol._on_connection_data_received (append, trigger) and HsmsProtocol._process_received_data
   (peek 4 length bytes, leave an incomplete frame in the buffer, pop, HsmsBlock.decode, queue for dispatch).
   [rx_blocked]: the buffer starts with an incomplete frame (its length is known, the rest has not arrived).  A frame that does not decode raises inside the receiver callback: the frame is
   gone, the loop is abandoned until the trigger fires again. *)
From SG Require Import Base.Prelude Base.Kinds Gen.ProtoConsts Model.Secs2 Model.Frames.
Open Scope N_scope.

Record rx := { rx_buf : list N; rx_blocked : bool }.
Definition rx_init : rx := {| rx_buf := []; rx_blocked := false |}.

Inductive rx_out := Delivered (h : hhdr) (data : list N) | Dropped.   (* Dropped: decode raised *)

(* one run of the while-loop; fuel bounds the iterations (each consumes at least 4 bytes).
   Result: remaining buffer, parked-in-wait_for flag, outputs, aborted-by-exception flag *)
Fixpoint drain (fuel : nat) (buf : list N) : list N * bool * list rx_out * bool :=
  match fuel with
  | O => (buf, false, [], false)
  | S f =>
    if (length buf <? 4)%nat then (buf, false, [], false) else
    let len_ := be_val (firstn 4 buf) 0 + 4 in
    if N.of_nat (length buf) <? len_ then (buf, true, [], false) else
    let n := N.to_nat len_ in
    (* a frame that is not an HSMS message (too short for a header, an undefined SType) is dropped, the loop goes on (D68) *)
    let o := match hframe_decode (firstn n buf) with Ok (h, d) => Delivered h d | Err _ => Dropped end in
    let '(b, blk, out, ab) := drain f (skipn n buf) in (b, blk, o :: out, ab)
  end.

(* a segment arrives: appended, the receiver callback runs once *)
Definition rx_feed (s : rx) (seg : list N) : rx * list rx_out :=
  let buf := rx_buf s ++ seg in
  let '(b1, blk1, out1, _) := drain (S (length buf)) buf in
  ({| rx_buf := b1; rx_blocked := blk1 |}, out1).

Fixpoint rx_run (s : rx) (segs : list (list N)) : rx * list rx_out :=
  match segs with
  | [] => (s, [])
  | seg :: r => let '(s1, o1) := rx_feed s seg in let '(s2, o2) := rx_run s1 r in (s2, o1 ++ o2)
  end.
