(* Model/Request.v — a thread that makes requests one after the other with Protocol.send_and_waitfor_response, as the sequence of steps
   regenerated from the source (Gen/Request.v), against a peer whose replies - and anything else that carries the system bytes of a request
   that was sent - arrive at any moment, any number of times, and a timer (T3) that may run out while the thread waits with nothing to take.
   The receiving side puts an arrival into the waiter registered under its system bytes, else hands it to the application. *)
From SG Require Import Base.Prelude Gen.Request.
Open Scope nat_scope.

Record rq := {
  next_id : nat;                       (* the system-bytes allocator *)
  pc : list req_op;                    (* what is left of the current call *)
  cur_id : nat;                        (* system bytes of the current call *)
  sent : list nat;                     (* requests that went out *)
  reg : option nat;                    (* _response_queues: the system bytes a waiter is registered under (one thread: at most one) *)
  q : list nat;                        (* the waiter the thread holds: the system bytes of the messages put into it *)
  resp : option nat;                   (* the local `response` *)
  results : list (nat * option nat);   (* finished calls: (system bytes of the request, system bytes of what was returned / None) *)
  rapp : list nat;                     (* handed to the application *)
  todo : nat                           (* calls still to make *)
}.

Inductive rlabel := RStep | RSendFails | RArrive (k : nat) | RTimeout.

Definition rstart (prog : list req_op) (calls : nat) : rq :=
  {| next_id := 1; pc := match calls with O => [] | S _ => prog end; cur_id := 0; sent := []; reg := None; q := []; resp := None; results := [];
     rapp := []; todo := Nat.pred calls |}.

Definition finish (prog : list req_op) (s : rq) (r : option nat) : rq :=
  {| next_id := next_id s; pc := match todo s with O => [] | S _ => prog end; cur_id := cur_id s; sent := sent s; reg := reg s; q := q s; resp := None;
     results := results s ++ [(cur_id s, r)]; rapp := rapp s; todo := Nat.pred (todo s) |}.

Definition with_pc (s : rq) (p : list req_op) : rq :=
  {| next_id := next_id s; pc := p; cur_id := cur_id s; sent := sent s; reg := reg s; q := q s; resp := resp s; results := results s; rapp := rapp s; todo := todo s |}.

Definition rstep (prog : list req_op) (s : rq) (l : rlabel) : rq :=
  match l with
  | RStep =>
    match pc s with
    | [] => s
    | QAlloc :: r => {| next_id := S (next_id s); pc := r; cur_id := next_id s; sent := sent s; reg := reg s; q := q s; resp := None; results := results s;
                         rapp := rapp s; todo := todo s |}
    | QRegister fresh :: r => {| next_id := next_id s; pc := r; cur_id := cur_id s; sent := sent s; reg := Some (cur_id s); q := if fresh then [] else q s;
                                  resp := resp s; results := results s; rapp := rapp s; todo := todo s |}
    | QSend :: r => {| next_id := next_id s; pc := match r with QOnFailure _ :: r' => r' | _ => r end; cur_id := cur_id s; sent := cur_id s :: sent s;
                        reg := reg s; q := q s; resp := resp s; results := results s; rapp := rapp s; todo := todo s |}
    | QOnFailure _ :: r => with_pc s r
    | QWait :: r => match q s with
                    | x :: rest => {| next_id := next_id s; pc := r; cur_id := cur_id s; sent := sent s; reg := reg s; q := rest; resp := Some x;
                                       results := results s; rapp := rapp s; todo := todo s |}
                    | [] => s                                  (* blocked in Queue.get *)
                    end
    | QRemove :: r => {| next_id := next_id s; pc := r; cur_id := cur_id s; sent := sent s; reg := None; q := q s; resp := resp s; results := results s;
                          rapp := rapp s; todo := todo s |}
    | QReturnResponse :: _ => finish prog s (resp s)
    | QReturnNone :: _ => finish prog s None
    end
  | RSendFails =>
    match pc s with
    | QSend :: QOnFailure ops :: _ => with_pc s ops            (* send_message returned False: nothing went out *)
    | _ => s
    end
  | RTimeout =>
    match pc s, q s with
    | QWait :: r, [] => {| next_id := next_id s; pc := r; cur_id := cur_id s; sent := sent s; reg := reg s; q := []; resp := None; results := results s;
                            rapp := rapp s; todo := todo s |}
    | _, _ => s
    end
  | RArrive k =>
    if existsb (Nat.eqb k) (sent s) then
      if match reg s with Some c => Nat.eqb c k | None => false end
      then {| next_id := next_id s; pc := pc s; cur_id := cur_id s; sent := sent s; reg := reg s; q := q s ++ [k]; resp := resp s; results := results s;
              rapp := rapp s; todo := todo s |}
      else {| next_id := next_id s; pc := pc s; cur_id := cur_id s; sent := sent s; reg := reg s; q := q s; resp := resp s; results := results s;
              rapp := rapp s ++ [k]; todo := todo s |}
    else s
  end.

Definition rrun (prog : list req_op) (s : rq) (sched : list rlabel) : rq := fold_left (rstep prog) sched s.

Definition res_ok (x : nat * option nat) : Prop := snd x = None \/ snd x = Some (fst x).

(* the sequence with the registration behind the send (a reply that is quick enough finds nobody registered), and the one whose waiter is not
   a new queue for every request (what is left in it answers the next request) *)
Definition register_after_send : list req_op := [QAlloc; QSend; QOnFailure [QReturnNone]; QRegister true; QWait; QRemove; QReturnResponse].
Definition reused_waiter : list req_op := [QAlloc; QRegister false; QSend; QOnFailure [QRemove; QReturnNone]; QWait; QRemove; QReturnResponse].
