(* Model/TcpSend.v — executable model of TcpConnection.send_data and of HsmsProtocol._process_send_queue's splitting into
   packets, against a socket that answers each send() call as an oracle says: it takes the first n bytes (n >= 1, possibly
   fewer than offered), would block, or fails.  What the kernel has taken is what the peer receives, in that order
   (TCP itself is trusted). *)
From SG Require Import Base.Prelude.
Open Scope nat_scope.

Inductive sockresp := RTake (n : nat) | RWouldBlock | RError.

(* result: bytes the socket has taken, in order; Some true = reported success, Some false = reported failure,
   None = the oracle ran out (the real loop would keep waiting) *)
Fixpoint send_loop (advances : bool) (oracle : list sockresp) (data : list N) (taken : list N) : list N * option bool * list sockresp :=
  match oracle with
  | [] => match data with [] => if advances then (taken, Some true, []) else (taken, None, []) | _ => (taken, None, []) end
  | r :: rest =>
    if advances then
      match data with
      | [] => (taken, Some true, oracle)                          (* while data: nothing left *)
      | _ =>
        match r with
        | RTake n => let k := Nat.min (Nat.max n 1) (length data) in send_loop advances rest (skipn k data) (taken ++ firstn k data)
        | RWouldBlock => send_loop advances rest data taken
        | RError => (taken, Some false, rest)
        end
      end
    else
      match r with
      | RTake n => let k := Nat.min (Nat.max n 1) (length data) in (taken ++ firstn k data, Some true, rest)   (* one accepted send() call counts as all sent *)
      | RWouldBlock => send_loop advances rest data taken
      | RError => (taken, Some false, rest)
      end
  end.
Definition send_data (advances : bool) (oracle : list sockresp) (data : list N) := send_loop advances oracle data [].

(* HsmsProtocol._process_send_queue: the block is cut into packets of at most psize bytes, sent one after the other; the
   first failure ends it *)
Fixpoint chunks (fuel psize : nat) (data : list N) : list (list N) :=
  match fuel with
  | O => []
  | S f => match data with [] => [] | _ => firstn psize data :: chunks f psize (skipn psize data) end
  end.
Fixpoint send_packets (advances : bool) (oracle : list sockresp) (packets : list (list N)) (taken : list N) : list N * option bool :=
  match packets with
  | [] => (taken, Some true)
  | p :: r =>
    match send_data advances oracle p with
    | (t, Some true, rest) => send_packets advances rest r (taken ++ t)
    | (t, res, _) => (taken ++ t, res)
    end
  end.
Definition send_block (advances : bool) (psize : nat) (oracle : list sockresp) (data : list N) : list N * option bool :=
  send_packets advances oracle (chunks (S (length data)) (Nat.max psize 1) data) [].

(* ---- the connection may be replaced while a message is on its way (D79) ----
   Between two send() calls the connection can end and the next one be established (RReplaced).  With `one_socket` the loop keeps offering the
   message to the socket it started on - which is closed then: the next call fails; without it the loop looks the socket up again and goes on
   writing to the new connection.  Result: what the first and what the second connection have taken, and the reported outcome. *)
Inductive sockresp2 := R2 (r : sockresp) | RReplaced.

Fixpoint send_loop2 (one_socket : bool) (oracle : list sockresp2) (data : list N) (replaced : bool) (a b : list N) : list N * list N * option bool :=
  match oracle with
  | [] => match data with [] => (a, b, Some true) | _ => (a, b, None) end
  | r :: rest =>
    match data with
    | [] => (a, b, Some true)
    | _ =>
      match r with
      | RReplaced => send_loop2 one_socket rest data true a b
      | R2 r =>
        if replaced && one_socket then (a, b, Some false)            (* select / send on the closed socket raises: a failed send *)
        else match r with
             | RTake n => let k := Nat.min (Nat.max n 1) (length data) in
                          if replaced then send_loop2 one_socket rest (skipn k data) replaced a (b ++ firstn k data)
                          else send_loop2 one_socket rest (skipn k data) replaced (a ++ firstn k data) b
             | RWouldBlock => send_loop2 one_socket rest data replaced a b
             | RError => (a, b, Some false)
             end
      end
    end
  end.
Definition send_data2 (one_socket : bool) (oracle : list sockresp2) (data : list N) := send_loop2 one_socket oracle data false [] [].
