(* Model/Sfdl.v — executable model of the SFDL pipeline:
   SFDLTokenizer.parse_all (characters -> elements), _process_tokens (validation against the data item
   module), variables.functions._generate_from_sfdl (token list -> nested data format) and
   variables.functions.generate / List._generate / Array.__init__ (data format -> variable structure with keys).
   Text is a list of code points. *)
From Coq Require Import Ascii.
From SG Require Import Base.Prelude Base.Kinds Model.Secs2 Gen.DataItems.
Open Scope N_scope.

Definition text := list N.
Definition cp_lt : N := 60.  Definition cp_gt : N := 62.  Definition cp_hash : N := 35.
Definition is_ws (c : N) : bool := (c =? 32) || (c =? 9) || (c =? 10) || (c =? 13).
Definition is_op (c : N) : bool := (c =? cp_lt) || (c =? cp_gt).
Definition is_comment_end (c : N) : bool := (c =? 10) || (c =? 13).

Fixpoint text_of_string (s : string) : text :=
  match s with EmptyString => [] | String a r => N_of_ascii a :: text_of_string r end.
Definition text_eqb (a b : text) : bool := list_eqb N.eqb a b.

(* ---------- parse_all: characters to elements ---------- *)
(* state: pending token (reversed), inside a comment *)
Fixpoint lex (cs : text) (cur : text) (in_comment : bool) (acc : list text) : list text :=
  let flush acc := match cur with [] => acc | _ => rev cur :: acc end in
  match cs with
  | [] => rev (flush acc)
  | c :: r =>
    if in_comment || (c =? cp_hash) then
      (* the character is swallowed; a line break ends the comment *)
      (* ... and separates tokens like any other line break *)
      if is_comment_end c then lex r [] false (flush acc) else lex r cur true acc
    else if is_ws c then lex r [] false (flush acc)
    else if is_op c then lex r [] false ([c] :: flush acc)
    else lex r (c :: cur) false acc
  end.
Definition elements_of (src : text) : list text := lex src [] false [].

(* ---------- _process_tokens: validation ---------- *)
Definition attr_exists (name : text) : bool :=
  existsb (fun p => text_eqb (text_of_string (fst p)) name) data_item_table ||
  existsb (fun s => text_eqb (text_of_string s) name) data_item_other_attrs.
Definition T_L : text := [76].
Definition is_bracket (t : text) : bool := text_eqb t [cp_lt] || text_eqb t [cp_gt].

(* returns the elements left over after one complete  < item >  *)
Fixpoint validate (fuel : nat) (els : list text) : res (list text) :=
  match fuel with
  | O => Err EOutOfFuel
  | S f =>
    match els with
    | open :: r0 =>
      if negb (text_eqb open [cp_lt]) then Err EValue else
      match r0 with
      | [] => Err EValue
      | item :: r1 =>
        do r2 <-
          (if negb (text_eqb item T_L) then (if attr_exists item then Ok r1 else Err EValue)
           else
             (* optional list name, then items until '>' *)
             match r1 with
             | [] => Err EValue
             | x :: r1' =>
               let r1'' := if is_bracket x then r1 else r1' in
               (fix items (g : nat) (els : list text) : res (list text) :=
                  match g with
                  | O => Err EOutOfFuel
                  | S g' =>
                    match els with
                    | [] => Err EValue
                    | y :: _ =>
                      if negb (is_bracket y) then Err EValue
                      else if text_eqb y [cp_gt] then Ok els
                      else do rest <- validate f els; items g' rest
                    end
                  end) (S (length r1)) r1''
             end);
        match r2 with
        | close :: r3 => if text_eqb close [cp_gt] then Ok r3 else Err EValue
        | [] => Err EValue
        end
      end
    | [] => Err EValue
    end
  end.

(* the token list of SFDLTokens: the elements consumed by the validation - which have to be all of them ("Unexpected text after
   the structure") *)
Definition tokens_of (src : text) : res (list text) :=
  let els := elements_of src in
  do rest <- validate (S (length els)) els;
  match rest with [] => Ok (firstn (length els - length rest) els) | _ => Err EValue end.

(* ---------- _generate_from_sfdl ---------- *)
Inductive fmt := FItem (name : text) | FList (items : list fmtel)
with fmtel := EName (name : text) | EFmt (f : fmt).

Definition upper_cp (c : N) : N := if (97 <=? c) && (c <=? 122) then c - 32 else c.
Definition upper (t : text) : res text := if forallb (fun c => c <? 128) t then Ok (map upper_cp t) else Err EUnmodelled.

Definition item_ty (name : text) : option ty :=
  match find (fun p => text_eqb (text_of_string (fst p)) name) data_item_table with Some p => Some (snd p) | None => None end.

(* tokens with an index pointer: next() = nth (S p), peek(ahead) = nth (p + ahead); here the list is the
   not yet consumed suffix, so next = head and peek(k) = nth (k-1) *)
Definition peekv (ts : list text) (k : nat) : res text :=
  match nth_error ts (k - 1) with Some t => Ok t | None => Err EIndex end.

Fixpoint gen_sfdl (fuel : nat) (ts : list text) (token_name : option text) : res (fmt * list text) :=
  match fuel with
  | O => Err EOutOfFuel
  | S f =>
    match ts with
    | open :: item :: r1 =>
      if negb (text_eqb open [cp_lt]) then Err EValue else
      do uname <- upper item;
      if negb (text_eqb uname T_L) then
        (* _generate_item_from_sfdl *)
        match item_ty uname with
        | None => if attr_exists uname then Err EUnmodelled else Err EValue
        | Some _ =>
          match r1 with
          | close :: r2 => if text_eqb close [cp_gt] then Ok (FItem uname, r2) else Err EValue
          | [] => Err EValue
          end
        end
      else
        do p1 <- peekv r1 1;
        let '(key, token_name, r2) := if is_bracket p1 then (None, token_name, r1) else (Some p1, Some p1, tl r1) in
        do p2 <- peekv r2 2;
        let '(subs0, token_name) :=
          match token_name with
          | Some nm => if negb (text_eqb p2 T_L) then ([EName nm], None) else ([], token_name)
          | None => ([], None)
          end in
        (fix items (g : nat) (ts : list text) (acc : list fmtel) : res (fmt * list text) :=
           match g with
           | O => Err EOutOfFuel
           | S g' =>
             match ts with
             | [] => Err EValue
             | y :: r =>
               if negb (is_bracket y) then Err EValue
               else if text_eqb y [cp_gt] then Ok (FList (rev acc), r)
               else do (sub, rest) <- gen_sfdl f ts key; items g' rest (EFmt sub :: acc)
             end
           end) (S (length r2)) r2 (rev subs0)
    | _ => Err EIndex
    end
  end.

(* ---------- generate(data_format) with List._generate / Array naming ---------- *)
Definition T_DATA : text := text_of_string "DATA".
Definition name_from_format (items : list fmtel) : res text :=     (* List.get_name_from_format: data_format[0] *)
  match items with EName n :: _ => Ok n | [] => Err EIndex | _ => Ok T_DATA end.

Fixpoint string_of_text (t : text) : string :=
  match t with [] => EmptyString | c :: r => String (ascii_of_N c) (string_of_text r) end.

(* the generated variable structure, keeping the data item names at the leaves *)
Inductive sty := SLeaf (name : string) (t : ty) | SArr (e : sty) | SRec (fields : list (string * sty)).

(* OrderedDict assignment: replace in place or append *)
Fixpoint od_set (k : string) (v : sty) (l : list (string * sty)) : list (string * sty) :=
  match l with
  | [] => [(k, v)]
  | (k', v') :: r => if String.eqb k k' then (k, v) :: r else (k', v') :: od_set k v r
  end.

Fixpoint build (f : fmt) : res (sty * text) :=          (* structure and the .name of the generated object *)
  match f with
  | FItem name => match item_ty name with Some t => Ok (SLeaf (string_of_text name) t, name) | None => Err EValue end
  | FList items =>
    (* (a list name, when present, is the first element: that is all _generate_from_sfdl produces) *)
    match items with
    | [EFmt e] =>                                     (* exactly one member: Array(member) *)
      do (et, ename) <- build e;
      do aname <- match e with FList sub => name_from_format sub | FItem _ => Ok ename end;
      Ok (SArr et, aname)
    | [EName n; EFmt e] =>                            (* ... named after the list if it has a name *)
      do (et, _) <- build e; Ok (SArr et, n)
    | _ =>
      do fields <-
        (fix go (items : list fmtel) (acc : list (string * sty)) : res (list (string * sty)) :=
           match items with
           | [] => Ok acc
           | EName _ :: r => go r acc
           | EFmt e :: r =>
             do (et, ename) <- build e;
             do key <- match e with
                       | FList [EFmt _] | FList [EName _; EFmt _] => Ok ename   (* Array: its own name *)
                       | FList sub => name_from_format sub                     (* List: name of the format *)
                       | FItem _ => Ok ename
                       end;
             go r (od_set (string_of_text key) et acc)
           end) items [];
      (* self.name: "DATA" unless a string element renames it *)
      Ok (SRec fields, match items with EName n :: _ => n | _ => T_DATA end)
    end
  end.

Fixpoint erase (s : sty) : ty :=
  match s with
  | SLeaf _ t => t
  | SArr e => TArr (erase e) (-1)%Z
  | SRec fields => TRec (map (fun p => (fst p, erase (snd p))) fields)
  end.

Definition sfdl_structure (src : text) : res sty :=
  do ts <- tokens_of src;
  do (f, _) <- gen_sfdl (S (length ts)) ts None;
  do (t, _) <- build f;
  Ok t.
Definition sfdl_generate (src : text) : res ty := do s <- sfdl_structure src; Ok (erase s).
