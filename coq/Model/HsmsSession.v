(* Model/HsmsSession.v — executable model of HsmsProtocol's session handling:
   _on_connected / _on_disconnecting / _on_disconnected, _on_connection_message_received and
   __handle_hsms_requests*, over the connection state machine regenerated into Gen/Machines.v and run by
   the engine model. Events and outputs use the vocabulary of Spec/E37Session. *)
From SG Require Import Base.Prelude Spec.E37Session Model.StateMachine Gen.Machines.
Open Scope Z_scope.

Record hs := {
  h_sm : sm;                         (* ConnectionStateMachine *)
  h_queues : list (Z * Z);           (* _response_queues: system id of every waiting requester (with the request type, for the rig) *)
  h_closing : bool                   (* connection.disconnecting *)
}.
Definition hs0 : hs :=
  {| h_sm := {| cur := connection_initial; active := map (fun i => i =? connection_initial)%nat (seq 0 (nstates connection_machine)); log := []; spent := [] |};
     h_queues := []; h_closing := false |}.

Definition request (s : hs) (name : string) : hs * bool :=
  let '(m, raised) := perform connection_machine no_handlers never_one_shot 4 (h_sm s) name in
  ({| h_sm := m; h_queues := h_queues s; h_closing := h_closing s |}, raised).

Definition queued (s : hs) (system : Z) : bool := existsb (fun p => fst p =? system) (h_queues s).
(* _open_control_requests: a control request of this type is open under these system bytes *)
Definition queued_as (s : hs) (system stype : Z) : bool := existsb (fun p => (fst p =? system) && (snd p =? stype)) (h_queues s).
Definition unqueue (s : hs) (system : Z) : hs :=
  {| h_sm := h_sm s; h_queues := filter (fun p => negb (fst p =? system)) (h_queues s); h_closing := h_closing s |}.
Definition is_selected (s : hs) : bool := (cur (h_sm s) =? connection_CONNECTED_SELECTED)%nat.
Definition is_connected (s : hs) : bool := negb (cur (h_sm s) =? connection_NOT_CONNECTED)%nat.

(* one event; an exception raised inside a handler ends the handler (it is swallowed by the dispatcher) *)
Definition hs_step (s : hs) (e : sevent) : hs * list sout :=
  match e with
  | EvConnected => let '(s1, _) := request s "connect" in (s1, [])
  | EvClosing => (* TcpConnection.disconnect() returns at once when no connection is running *)
    if is_connected s then ({| h_sm := h_sm s; h_queues := h_queues s; h_closing := true |}, []) else (s, [])
  | EvClosed =>
    (* on_disconnecting: send_separate_req ; on_disconnected: state.disconnect(), everyone waiting for a response is released
       (_cancel_open_transactions: they get none and remove their queues) ; the connection object clears its flag *)
    let '(s1, _) := request s "disconnect" in
    ({| h_sm := h_sm s1; h_queues := []; h_closing := false |}, [OutCtrl ST_SEPARATE 0])
  | EvOpen stype system =>
    ({| h_sm := h_sm s; h_queues := (system, stype) :: h_queues s; h_closing := h_closing s |}, [OutCtrl stype system])
  | EvGiveUp system => (unqueue s system, [])
  | EvCtrl stype system status =>
    if stype =? ST_SELECT_REQ then
      if h_closing s then (s, [OutReject system 4])
      else let '(s1, _) := request s "select" in (s1, [OutCtrl ST_SELECT_RSP system])
    else if stype =? ST_SELECT_RSP then
      if negb (queued_as s system ST_SELECT_REQ) then (s, [])
      else let s1 := if (status =? 0) && (cur (h_sm s) =? connection_CONNECTED_NOT_SELECTED)%nat then fst (request s "select") else s in
           (unqueue s1 system, [OutResolve system])
    else if stype =? ST_DESELECT_REQ then
      if h_closing s then (s, [OutReject system 4])
      else let '(s1, _) := request s "deselect" in (s1, [OutCtrl ST_DESELECT_RSP system])
    else if stype =? ST_DESELECT_RSP then
      if negb (queued_as s system ST_DESELECT_REQ) then (s, [])
      else let s1 := if (status =? 0) && (cur (h_sm s) =? connection_CONNECTED_SELECTED)%nat then fst (request s "deselect") else s in
           (unqueue s1 system, [OutResolve system])
    else if stype =? ST_LINKTEST_REQ then
      if h_closing s then (s, [OutReject system 4]) else (s, [OutCtrl ST_LINKTEST_RSP system])
    else if stype =? ST_LINKTEST_RSP then
      (* the response to an open Linktest.req, to nothing else *)
      if queued_as s system ST_LINKTEST_REQ then (unqueue s system, [OutResolve system]) else (s, [])
    else if stype =? ST_REJECT then
      (* ends the transaction it names, whatever its type *)
      if queued s system then (unqueue s system, [OutResolve system]) else (s, [])
    else (s, [])            (* Separate.req (and anything else): no branch *)
  | EvData system w _ =>
    if negb (is_selected s) then (s, [OutReject system 4])
    else if queued_as s system ST_DATA && negb w then (unqueue s system, [OutResolve system]) else (s, [OutDeliver system])   (* HsmsProtocol._is_reply_to_open_transaction *)
  end.

Fixpoint hs_run (s : hs) (es : list sevent) : hs * list (list sout) :=
  match es with
  | [] => (s, [])
  | e :: r => let '(s1, o) := hs_step s e in let '(s2, os) := hs_run s1 r in (s2, o :: os)
  end.

Definition abs_state (s : hs) : sstate :=
  if (cur (h_sm s) =? connection_CONNECTED_SELECTED)%nat then Selected
  else if (cur (h_sm s) =? connection_CONNECTED_NOT_SELECTED)%nat then NotSelected
  else NotConnected.
