(* Model/Alloc.v — threads allocating system bytes with the program regenerated into Gen/Alloc.v, response routing
   by system bytes, and in-order delivery of everything else.
   Trusted (not modelled): threading.Lock gives mutual exclusion, so a locked body is one atomic step; CPython executes
   a single attribute load/store atomically. *)
From SG Require Import Base.Prelude Model.AllocLang.
Open Scope Z_scope.

(* ---------- the allocator ---------- *)
Record thr := { t_pc : nat; t_acc : Z; t_res : option Z }.
Definition thr0 : thr := {| t_pc := 0; t_acc := 0; t_res := None |}.
Definition finished (prog : list mop) (t : thr) : bool := (length prog <=? t_pc t)%nat.

(* one operation of thread t on the shared counter *)
Definition exec_op (o : mop) (ctr : Z) (t : thr) : Z * thr :=
  let nxt := S (t_pc t) in
  match o with
  | OLoad => (ctr, {| t_pc := nxt; t_acc := ctr; t_res := t_res t |})
  | OStoreAcc => (t_acc t, {| t_pc := nxt; t_acc := t_acc t; t_res := t_res t |})
  | OAddAcc k => (ctr, {| t_pc := nxt; t_acc := t_acc t + k; t_res := t_res t |})
  | OSetAcc v => (ctr, {| t_pc := nxt; t_acc := v; t_res := t_res t |})
  | OIfGtSkip c n => (ctr, {| t_pc := (if t_acc t >? c then nxt else nxt + n)%nat; t_acc := t_acc t; t_res := t_res t |})
  | ORet => (ctr, {| t_pc := nxt; t_acc := t_acc t; t_res := Some (t_acc t) |})
  end.
Definition step_thr (prog : list mop) (ctr : Z) (t : thr) : Z * thr :=
  match nth_error prog (t_pc t) with Some o => exec_op o ctr t | None => (ctr, t) end.

(* a thread runs alone until it has finished (fuel: the program length bounds the number of steps) *)
Fixpoint run_alone (prog : list mop) (fuel : nat) (ctr : Z) (t : thr) : Z * thr :=
  match fuel with
  | O => (ctr, t)
  | S f => if finished prog t then (ctr, t) else let '(c1, t1) := step_thr prog ctr t in run_alone prog f c1 t1
  end.

Record sys := { s_ctr : Z; s_thr : list thr }.
Fixpoint upd {A} (i : nat) (x : A) (l : list A) : list A :=
  match l, i with [], _ => [] | _ :: r, O => x :: r | y :: r, S k => y :: upd k x r end.

(* one scheduling decision: thread i moves - its whole body when the body is locked, one operation otherwise *)
Definition sched_step (locked : bool) (prog : list mop) (s : sys) (i : nat) : sys :=
  match nth_error (s_thr s) i with
  | None => s
  | Some t =>
    let '(c1, t1) := if locked then run_alone prog (length prog) (s_ctr s) t else step_thr prog (s_ctr s) t in
    {| s_ctr := c1; s_thr := upd i t1 (s_thr s) |}
  end.
Definition run_sched (locked : bool) (prog : list mop) (s : sys) (sched : list nat) : sys := fold_left (sched_step locked prog) sched s.
Definition start (n : nat) (c0 : Z) : sys := {| s_ctr := c0; s_thr := repeat thr0 n |}.
Definition results (s : sys) : list Z := flat_map (fun t => match t_res t with Some r => [r] | None => [] end) (s_thr s).

Fixpoint distinct (l : list Z) : bool := match l with [] => true | x :: r => negb (existsb (Z.eqb x) r) && distinct r end.

(* ---------- routing of inbound data messages ---------- *)
(* open transactions: system bytes with a waiting requester and what it has received so far (its queue) *)
Definition waiters := list (Z * list Z).          (* system -> payloads put into its queue *)
Fixpoint put (sysb payload : Z) (w : waiters) : option waiters :=
  match w with
  | [] => None
  | (k, q) :: r => if k =? sysb then Some ((k, q ++ [payload]) :: r) else option_map (cons (k, q)) (put sysb payload r)
  end.
(* every inbound message that can be a reply (no W-bit) goes to the requester waiting for its system bytes, everything else - also a
   primary of the peer (W-bit) that happens to carry the system bytes of an open transaction - to the application, in arrival order *)
Fixpoint route (w : waiters) (arrivals : list (Z * Z * bool)) : waiters * list (Z * Z) :=
  match arrivals with
  | [] => (w, [])
  | (sysb, payload, wbit) :: r =>
    match (if wbit then None else put sysb payload w) with
    | Some w1 => route w1 r
    | None => let '(w2, app) := route w r in (w2, (sysb, payload) :: app)
    end
  end.
(* a requester takes the first message of its queue (or times out) *)
Definition answer_of (w : waiters) (sysb : Z) : option Z :=
  match find (fun e => fst e =? sysb) w with Some (_, x :: _) => Some x | _ => None end.
