(* Model/HandOver.v — who hands a received data message to whom: the receiver thread, the dispatcher thread and one requester with an open
   transaction, as an interleaving model over the hand-over decision regenerated from Protocol._deliver_message (Gen/HandOver.v).

   The receiver thread looks at the messages in arrival order.  A message that can be the reply to the open transaction (`cand`) while the
   requester's waiter is registered is handed over by the receiver thread itself - in two steps (RLook: the check in _process_received_data;
   RHand: the decision in _deliver_message with direct = true), between which the other threads run.  Every other message is queued for
   the dispatcher thread, which decides with direct = false (DPop).  The requester can give up at any moment (QGiveUp: T3 expired, the waiter
   is removed).  A label that is not enabled changes nothing, so every list of labels is a schedule. *)
From SG Require Import Base.Prelude Base.PyRt.
Open Scope nat_scope.

Record msg := { mid : nat; cand : bool }.       (* mid: position in the arrival order *)

Record hst := {
  pending : list msg;            (* arrived, not yet looked at by the receiver thread *)
  inflight : option msg;         (* the receiver thread is between its check and the hand-over *)
  dq : list msg;                 (* the dispatch queue *)
  waiting : bool;                (* the requester's waiter is registered *)
  got : list msg;                (* put into the waiter's queue *)
  app : list (msg * bool)        (* handed to the application; true = by the dispatcher thread *)
}.

Inductive label := RLook | RHand | DPop | QGiveUp.

Definition hstart (arrivals : list msg) : hst :=
  {| pending := arrivals; inflight := None; dq := []; waiting := true; got := []; app := [] |}.

Section Deliver.
Variable deliver : bool -> bool -> bool -> handover_action.     (* cand waiting direct *)

Definition hstep (s : hst) (l : label) : hst :=
  match l with
  | RLook =>
    match inflight s, pending s with
    | None, m :: r =>
      if cand m && waiting s
      then {| pending := r; inflight := Some m; dq := dq s; waiting := waiting s; got := got s; app := app s |}
      else {| pending := r; inflight := None; dq := dq s ++ [m]; waiting := waiting s; got := got s; app := app s |}
    | _, _ => s
    end
  | RHand =>
    match inflight s with
    | Some m =>
      match deliver (cand m) (waiting s) true with
      | ToRequester => {| pending := pending s; inflight := None; dq := dq s; waiting := waiting s; got := got s ++ [m]; app := app s |}
      | ToQueue => {| pending := pending s; inflight := None; dq := dq s ++ [m]; waiting := waiting s; got := got s; app := app s |}
      | ToApp => {| pending := pending s; inflight := None; dq := dq s; waiting := waiting s; got := got s; app := app s ++ [(m, false)] |}
      end
    | None => s
    end
  | DPop =>
    match dq s with
    | m :: r =>
      match deliver (cand m) (waiting s) false with
      | ToRequester => {| pending := pending s; inflight := inflight s; dq := r; waiting := waiting s; got := got s ++ [m]; app := app s |}
      | ToQueue => {| pending := pending s; inflight := inflight s; dq := r ++ [m]; waiting := waiting s; got := got s; app := app s |}
      | ToApp => {| pending := pending s; inflight := inflight s; dq := r; waiting := waiting s; got := got s; app := app s ++ [(m, true)] |}
      end
    | [] => s
    end
  | QGiveUp => {| pending := pending s; inflight := inflight s; dq := dq s; waiting := false; got := got s; app := app s |}
  end.

Definition hrun (s : hst) (sched : list label) : hst := fold_left hstep sched s.
End Deliver.

Definition otl (o : option msg) : list msg := match o with Some m => [m] | None => [] end.
(* everything that has arrived, wherever it is now *)
Definition everything (s : hst) : list msg := map fst (app s) ++ got s ++ dq s ++ otl (inflight s) ++ pending s.
(* what can still reach the application, in the order in which it will *)
Definition app_line (s : hst) : list msg := map fst (app s) ++ dq s ++ otl (inflight s) ++ pending s.
Definition quiet (s : hst) : bool := match pending s, inflight s, dq s with [], None, [] => true | _, _, _ => false end.

(* the hand-over as it was before D78: the receiver thread, finding nobody waiting any more, handed the message to the application itself *)
Definition deliver_before_D78 (c w direct : bool) : handover_action := if c && w then ToRequester else ToApp.
