(* Model/Pair.v — a GEM host and a GEM equipment handler connected by an HSMS link: each side is the session model of C05
   (its connection state and whether its own Select.req is outstanding) and the communication model of C07; the link is two
   FIFO channels whose deliveries interleave arbitrarily.  The active side connects as soon as both sides are enabled and
   sends Select.req; every side sends S1F13 when its session becomes SELECTED.
   Not modelled: timers (T3/T5/T6/T7, linktest, establish-communications delay), byte-level segmentation (C04/C09 show
   it cannot matter to what is delivered), the data messages after communication is established. *)
From SG Require Import Base.Prelude Spec.E37Session Spec.E30Comm Model.StateMachine Model.HsmsSession Model.GemComm Gen.Machines.
Open Scope Z_scope.

Inductive msg := MSelReq | MSelRsp | MS1F13 | MS1F14.
Definition msg_eqb (a b : msg) : bool := match a, b with MSelReq, MSelReq | MSelRsp, MSelRsp | MS1F13, MS1F13 | MS1F14, MS1F14 => true | _, _ => false end.

Record side := { d_cur : nat; d_wait : bool; d_comm : gc }.
Record pair := { pa : side; pp : side; a2p : list msg; p2a : list msg }.

Definition side0 : side := {| d_cur := connection_initial; d_wait := false; d_comm := gc0 |}.
Definition pair0 : pair := {| pa := side0; pp := side0; a2p := []; p2a := [] |}.

(* the session model, from the projection it depends on *)
Definition hs_of (s : side) : hs :=
  {| h_sm := {| cur := d_cur s; active := []; log := []; spent := [] |}; h_queues := if d_wait s then [(1, 1)] else []; h_closing := false |}.
Definition session (s : side) (e : sevent) : side * list sout :=
  let '(h, o) := hs_step (hs_of s) e in
  ({| d_cur := cur (h_sm h); d_wait := match h_queues h with [] => false | _ => true end; d_comm := d_comm s |}, o).
Definition comm (s : side) (e : yev) : side * list yout :=
  let '(g, o) := gcomm_step (d_comm s) e in ({| d_cur := d_cur s; d_wait := d_wait s; d_comm := g |}, o).
Definition selected (s : side) : bool := (d_cur s =? connection_CONNECTED_SELECTED)%nat.
Definition enabled (s : side) : bool := negb (g_cur (d_comm s) =? communication_DISABLED)%nat.
Definition communicating (s : side) : bool := (g_cur (d_comm s) =? communication_COMMUNICATING)%nat.

Definition wire_of_y (o : list yout) : list msg :=
  flat_map (fun y => match y with YSendS1F13 => [MS1F13] | YSendS1F14 _ => [MS1F14] | _ => [] end) o.
Definition wire_of_s (o : list sout) : list msg :=
  flat_map (fun y => match y with OutCtrl 1 _ => [MSelReq] | OutCtrl 2 _ => [MSelRsp] | _ => [] end) o.

(* a message arrives at one side: (side, what it sends back) *)
Definition receive (s : side) (m : msg) : side * list msg :=
  let was := selected s in
  match m with
  | MSelReq | MSelRsp =>
    let '(s1, o) := session s (EvCtrl (match m with MSelReq => 1 | _ => 2 end) 1 0) in
    if negb was && selected s1 then let '(s2, y) := comm s1 YLinkUp in (s2, (wire_of_s o ++ wire_of_y y)%list) else (s1, wire_of_s o)
  | MS1F13 => if was then let '(s1, y) := comm s (YInS1F13 true) in (s1, wire_of_y y) else (s, [])        (* not SELECTED: rejected by the session layer *)
  | MS1F14 => if was then let '(s1, y) := comm s (YInS1F14 0 true) in (s1, wire_of_y y) else (s, [])
  end.

Inductive pev := EnA | EnP | DisA | DisP | Conn | DelA2P | DelP2A.

Definition link_up (p : pair) : bool := negb (d_cur (pa p) =? connection_NOT_CONNECTED)%nat.

(* the link ends: both sessions see the close, both handlers the loss, what is in flight is gone *)
Definition drop_link (p : pair) : pair :=
  let down s := if negb (d_cur s =? connection_NOT_CONNECTED)%nat then fst (comm (fst (session s EvClosed)) YLinkDown) else s in
  {| pa := down (pa p); pp := down (pp p); a2p := []; p2a := [] |}.

Definition pstep (p : pair) (e : pev) : pair :=
  match e with
  | EnA => {| pa := fst (comm (pa p) YEnable); pp := pp p; a2p := a2p p; p2a := p2a p |}
  | EnP => {| pa := pa p; pp := fst (comm (pp p) YEnable); a2p := a2p p; p2a := p2a p |}
  | DisA => let q := drop_link p in {| pa := fst (comm (pa q) YDisable); pp := pp q; a2p := []; p2a := [] |}
  | DisP => let q := drop_link p in {| pa := pa q; pp := fst (comm (pp q) YDisable); a2p := []; p2a := [] |}
  | Conn =>
    if enabled (pa p) && enabled (pp p) && negb (link_up p) then
      let '(a1, _) := session (pa p) EvConnected in
      let '(p1, _) := session (pp p) EvConnected in
      let '(a2, o) := session a1 (EvOpen 1 1) in                       (* the active side's Select.req *)
      {| pa := a2; pp := p1; a2p := wire_of_s o; p2a := [] |}
    else p
  | DelA2P => match a2p p with [] => p | m :: r => let '(s1, back) := receive (pp p) m in {| pa := pa p; pp := s1; a2p := r; p2a := (p2a p ++ back)%list |} end
  | DelP2A => match p2a p with [] => p | m :: r => let '(s1, back) := receive (pa p) m in {| pa := s1; pp := pp p; a2p := (a2p p ++ back)%list; p2a := r |} end
  end.

Definition prun (p : pair) (es : list pev) : pair := fold_left pstep es p.
Definition goal (p : pair) : bool := communicating (pa p) && communicating (pp p) && selected (pa p) && selected (pp p).

(* from p, whatever the order of deliveries (and the connect), everything settles in the goal within `fuel` steps *)
Fixpoint settles (fuel : nat) (p : pair) : bool :=
  let can_conn := enabled (pa p) && enabled (pp p) && negb (link_up p) in
  match a2p p, p2a p, can_conn with
  | [], [], false => goal p
  | _, _, _ =>
    match fuel with
    | O => false
    | S f =>
      (if can_conn then settles f (pstep p Conn) else true) &&
      (match a2p p with [] => true | _ => settles f (pstep p DelA2P) end) &&
      (match p2a p with [] => true | _ => settles f (pstep p DelP2A) end)
    end
  end.
