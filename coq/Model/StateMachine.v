(* Model/StateMachine.v — executable model of secsgem.common.state_machine (State.enter/leave/is_within,
   Transition, StateMachine._perform_transition) for an arbitrary machine definition.
   States are numbered 0..n-1; handlers are programs that request further transitions from inside
   enter / leave / called events (what the shipped control state machine does in its enter handlers).
   An exception (unknown transition / wrong source state) propagates out of every enclosing call, as
   in Python, leaving whatever was done so far in place. *)
From SG Require Import Base.Prelude.
Open Scope nat_scope.

Record machine := {
  m_parent : list (option nat);                       (* parent of state i *)
  m_trans : list (string * list nat * nat)            (* name, allowed sources, destination — in table order *)
}.

(* every event has a second, later-registered callback that only records: PostX is logged after the
   callbacks that make requests have returned (it is skipped when they raise) *)
Inductive evt := Enter (s : nat) | Leave (s : nat) | Called (t : string)
              | PostEnter (s : nat) | PostLeave (s : nat) | PostCalled (t : string).
Definition post_of (e : evt) : evt :=
  match e with Enter s => PostEnter s | Leave s => PostLeave s | Called t => PostCalled t | x => x end.
Definition handlers := evt -> list string.            (* transition names requested by the callbacks of an event *)

(* spent: the one-shot handlers that have already made their requests *)
Record sm := { cur : nat; active : list bool; log : list evt; spent : list evt }.

Definition parent_of (m : machine) (s : nat) : option nat := nth s (m_parent m) None.
Definition nstates (m : machine) : nat := length (m_parent m).

(* State.is_within: self is `other` or has it among its ancestors (fuel = number of states) *)
Fixpoint within (m : machine) (fuel : nat) (s other : nat) : bool :=
  if s =? other then true else
  match fuel with
  | O => false
  | S f => match parent_of m s with Some p => within m f p other | None => false end
  end.
Definition is_within (m : machine) (s other : nat) : bool := within m (nstates m) s other.

Fixpoint set_nth (i : nat) (b : bool) (l : list bool) : list bool :=
  match l, i with
  | [], _ => []
  | _ :: r, O => b :: r
  | x :: r, S k => x :: set_nth k b r
  end.

Definition find_trans (m : machine) (name : string) : option (list nat * nat) :=
  match find (fun t => String.eqb (fst (fst t)) name) (m_trans m) with
  | Some t => Some (snd (fst t), snd t)
  | None => None
  end.

Definition with_log (st : sm) (e : evt) : sm := {| cur := cur st; active := active st; log := log st ++ [e]; spent := spent st |}.
Definition with_active (st : sm) (s : nat) (b : bool) : sm := {| cur := cur st; active := set_nth s b (active st); log := log st; spent := spent st |}.
Definition with_cur (st : sm) (s : nat) : sm := {| cur := s; active := active st; log := log st; spent := spent st |}.
Definition with_spent (st : sm) (e : evt) : sm := {| cur := cur st; active := active st; log := log st; spent := e :: spent st |}.
Definition evt_same (a b : evt) : bool :=
  match a, b with
  | Enter x, Enter y | Leave x, Leave y | PostEnter x, PostEnter y | PostLeave x, PostLeave y => x =? y
  | Called x, Called y | PostCalled x, PostCalled y => String.eqb x y
  | _, _ => false
  end.

(* result: state reached, and whether an exception is propagating *)
Definition outcome := (sm * bool)%type.

Section engine.
  Variable m : machine.
  Variable h : handlers.
  Variable one_shot : evt -> bool.          (* handlers that make their requests only the first time *)

  (* run the requests of an event's callbacks one after the other; stop at the first exception *)
  Fixpoint run_requests (perform : sm -> string -> outcome) (st : sm) (names : list string) : outcome :=
    match names with
    | [] => (st, false)
    | n :: r => let '(st1, raised) := perform st n in if raised then (st1, true) else run_requests perform st1 r
    end.

  Definition fire (perform : sm -> string -> outcome) (st : sm) (e : evt) : outcome :=
    let st0 := with_log st e in
    let '(st0', names) := if one_shot e then (if existsb (evt_same e) (spent st0) then (st0, []) else (with_spent st0 e, h e))
                          else (st0, h e) in
    let '(st1, raised) := run_requests perform st0' names in
    if raised then (st1, true) else (with_log st1 (post_of e), false).

  (* State.leave(destination) for state s, walking up while the destination is outside the parent *)
  Fixpoint leave_chain (perform : sm -> string -> outcome) (fuel : nat) (st : sm) (s dst : nat) : outcome :=
    let '(st1, raised) := fire perform st (Leave s) in
    if raised then (st1, true) else
    let st2 := with_active st1 s false in
    match fuel with
    | O => (st2, false)
    | S f => match parent_of m s with
             | Some p => if is_within m dst p then (st2, false) else leave_chain perform f st2 p dst
             | None => (st2, false)
             end
    end.

  (* State.enter(source) *)
  Fixpoint enter_chain (perform : sm -> string -> outcome) (fuel : nat) (st : sm) (s src : nat) : outcome :=
    let st1 := with_active st s true in
    let '(st2, raised) := fire perform st1 (Enter s) in
    if raised then (st2, true) else
    match fuel with
    | O => (st2, false)
    | S f => match parent_of m s with
             | Some p => if is_within m src p && nth p (active st2) false then (st2, false)
                         else enter_chain perform f st2 p src
             | None => (st2, false)
             end
    end.

  (* StateMachine._perform_transition; fuel bounds the nesting of requests made by handlers *)
  Fixpoint perform (fuel : nat) (st : sm) (name : string) : outcome :=
    match fuel with
    | O => (st, true)                                   (* model artefact: RecursionError *)
    | S f =>
      match find_trans m name with
      | None => (st, true)                              (* UnknownTransitionError *)
      | Some (srcs, dst) =>
        if negb (existsb (Nat.eqb (cur st)) srcs) then (st, true)   (* WrongSourceStateError *)
        else
          let '(st1, r1) := leave_chain (perform f) (nstates m) st (cur st) dst in
          if r1 then (st1, true) else
          let old := cur st1 in                         (* old_state = self._current_state, read after leave *)
          let st2 := with_cur st1 dst in
          let '(st3, r3) := enter_chain (perform f) (nstates m) st2 dst old in
          if r3 then (st3, true) else
          fire (perform f) st3 (Called name)
      end
    end.
End engine.

Definition no_handlers : handlers := fun _ => [].
Definition never_one_shot : evt -> bool := fun _ => false.

(* a sequence of top-level requests; each one that raises is caught by the caller *)
Fixpoint run_seq (m : machine) (h : handlers) (os : evt -> bool) (fuel : nat) (st : sm) (names : list string) : sm * list bool :=
  match names with
  | [] => (st, [])
  | n :: r => let '(st1, raised) := perform m h os fuel st n in
              let '(st2, rs) := run_seq m h os fuel st1 r in (st2, raised :: rs)
  end.
