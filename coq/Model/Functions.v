(* Model/Functions.v — the stream/function catalogue: lookup by stream and function number
   (StreamsFunctions.function / decode) and SecsStreamFunction construction, encode, decode, get
   on top of the SFDL model and the variables model. *)
From SG Require Import Base.Prelude Base.Kinds Model.Secs2 Model.Sfdl Gen.DataItems Gen.Catalogue.
Open Scope N_scope.

Definition same_sf (s f : N) (e : fentry) : bool := (f_stream e =? s) && (f_function e =? f).

(* StreamsFunctions.function: None / the class / ValueError when several match *)
Definition lookup_sf (tbl : list fentry) (s f : N) : res (option fentry) :=
  match filter (same_sf s f) tbl with
  | [] => Ok None
  | [e] => Ok (Some e)
  | _ => Err EValue
  end.

Definition fn_structure (e : fentry) : res (option sty) :=
  match f_sfdl e with None => Ok None | Some t => do s <- sfdl_structure t; Ok (Some s) end.

(* func(value): self.data = generate(format); if value is not None and data is not None: data.set(value) *)
Definition fn_construct (e : fentry) (p : plain) : res (option (ty * val)) :=
  do st <- fn_structure e;
  match st with
  | None => Ok None
  | Some s => let t := erase s in
              match p with
              | PNone => Ok (Some (t, default t))
              | _ => do v <- py_set t (default t) p; Ok (Some (t, v))
              end
  end.

Definition fn_encode (d : option (ty * val)) : res (list N) :=
  match d with None => Ok [] | Some (_, v) => py_encode v end.
Definition fn_get (d : option (ty * val)) : plain :=
  match d with None => PNone | Some (t, v) => py_get t v end.

(* StreamsFunctions.decode(message): lookup by the header's stream and function only *)
Definition decode_by_sf (tbl : list fentry) (s f : N) (body : list N) : res (fentry * option (ty * val)) :=
  do r <- lookup_sf tbl s f;
  match r with
  | None => Err EValue
  | Some e =>
    do d <- fn_construct e PNone;
    match d with
    | None => Ok (e, None)
    | Some (t, _) => do r <- py_decode (S (length body)) t body 0; let '(v, _, _) := r in Ok (e, Some (t, v))
    end
  end.
