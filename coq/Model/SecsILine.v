(* Model/SecsILine.v — executable model of the SECS-I line protocol of SecsIProtocol: the receiving side
   (_process_received_data: any byte is taken as ENQ and answered with EOT, then the length byte and length+2 further bytes
   are awaited, Block.decode, ACK or NAK) as a machine that consumes the line byte by byte - ByteQueue.wait_for only
   accumulates, so how the bytes are chunked cannot matter - and the sending side (_process_send_queue: ENQ, wait for EOT, one byte
   awaited and taken as EOT, the block, one byte awaited: ACK means success).
   Not modelled: contention (both sides sending ENQ), T1-T4 timers (the library has none), the 'return' after a NAK
   (bytes already behind the bad block wait for the next trigger). *)
From SG Require Import Base.Prelude Base.Kinds Gen.ProtoConsts Model.Secs2 Model.Frames.
Open Scope N_scope.

Inductive rmode := RIdle | RAwaitLen | RCollect (need : nat) (acc : list N).
Inductive rout := SentEOT | SentACK | SentNAK | Got (b : sblock) | Raised.

Definition srx_byte (m : rmode) (b : N) : rmode * list rout :=
  match m with
  | RIdle => (RAwaitLen, [SentEOT])
  | RAwaitLen => (RCollect (N.to_nat b + 2) [b], [])
  | RCollect need acc =>
    match need with
    | S (S k) => (RCollect (S k) (acc ++ [b]), [])
    | _ =>
      match sblock_decode (acc ++ [b]) with
      | Ok (Some blk) => (RIdle, [Got blk; SentACK])
      | Ok None => (RIdle, [SentNAK])
      | Err _ => (RIdle, [Raised])                   (* Block.decode raised: neither ACK nor NAK is sent *)
      end
    end
  end.
Fixpoint srx_bytes (m : rmode) (bs : list N) : rmode * list rout :=
  match bs with [] => (m, []) | b :: r => let '(m1, o1) := srx_byte m b in let '(m2, o2) := srx_bytes m1 r in (m2, o1 ++ o2) end.
Fixpoint srx_chunks (m : rmode) (chunks : list (list N)) : rmode * list rout :=
  match chunks with [] => (m, []) | c :: r => let '(m1, o1) := srx_bytes m c in let '(m2, o2) := srx_chunks m1 r in (m2, o1 ++ o2) end.

Definition line_bytes (o : rout) : list N := match o with SentEOT => [secsi_EOT] | SentACK => [secsi_ACK] | SentNAK => [secsi_NAK] | _ => [] end.

(* the sending side, for one message = list of encoded blocks; `answers`: the bytes the peer puts on the line, in order.
   Result: what was sent, and Some true/false = send_message's result (None: still waiting for a byte) *)
(* the answers up to and including the first EOT: a block is started only after the receiver's EOT, every other byte is answered
   by announcing the block again (ENQ) *)
Fixpoint await_eot (answers : list N) : list (list N) * option (list N) :=
  match answers with
  | [] => ([], None)
  | a :: r => if a =? secsi_EOT then ([], Some r) else let '(e, rest) := await_eot r in ([secsi_ENQ] :: e, rest)
  end.
Fixpoint stx (blocks : list (list N)) (answers : list N) : list (list N) * option bool :=
  match blocks with
  | [] => ([], Some true)
  | blk :: rest =>
    match await_eot answers with
    | (enqs, None) => ([secsi_ENQ] :: enqs, None)                   (* waiting for the answer to ENQ *)
    | (enqs, Some a1) =>
      match a1 with
      | [] => ([secsi_ENQ] :: enqs ++ [blk], None)                  (* waiting for ACK / NAK *)
      | r :: a2 =>
        if r =? secsi_ACK then let '(sent, res) := stx rest a2 in (([secsi_ENQ] :: enqs ++ [blk]) ++ sent, res)
        else ([secsi_ENQ] :: enqs ++ [blk], Some false)             (* the first block that is not acknowledged ends the message *)
      end
    end
  end.

(* both sides on one line: the sender's bytes reach the receiver (in arbitrary pieces), its answers go back *)
Fixpoint dialog (m : rmode) (blocks : list (list N)) : rmode * list rout * bool :=
  match blocks with
  | [] => (m, [], true)
  | blk :: rest =>
    let '(m1, o1) := srx_bytes m [secsi_ENQ] in
    match flat_map line_bytes o1 with
    | [_] =>
      let '(m2, o2) := srx_bytes m1 blk in
      match flat_map line_bytes o2 with
      | [r] => if r =? secsi_ACK then let '(m3, o3, ok) := dialog m2 rest in (m3, o1 ++ o2 ++ o3, ok) else (m2, o1 ++ o2, false)
      | _ => (m2, o1 ++ o2, false)
      end
    | _ => (m1, o1, false)
    end
  end.
