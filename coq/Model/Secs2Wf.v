(* Model/Secs2Wf.v — which internal values belong to a type (the domain of the
   C01 round-trip theorem), the canonical value a decode returns, nesting depth. *)
From SG Require Import Base.Prelude Base.Kinds Base.Float Gen.VarConsts Gen.Jis8 Model.Secs2.
Open Scope N_scope.

Definition kind_of (v : val) : option dkind :=
  match v with
  | VRec _ => None
  | VArr _ => Some DArr
  | VBin _ => Some (DScal KBin)
  | VBool _ => Some (DScal KBool)
  | VText false _ => Some (DScal KStr)
  | VText true _ => Some (DScal KJis)
  | VNum k _ => Some (DScal (KNum k))
  | VFlt k _ => Some (DScal (KNum k))
  | VNone => None
  end.

(* a scalar value as `set` of class k with the given count leaves it *)
Definition wf_scal (k : skind) (count : Z) (v : val) : bool :=
  match k, v with
  | KBin, VBin l => negb (cnt_gt0_lt count (zlen l)) && bytesb l
  | KBool, VBool l => negb (cnt_ge0_lt count (zlen l))
  | KStr, VText false l => negb (cnt_gt0_lt count (zlen l)) && bytesb l
  | KJis, VText true l => negb (cnt_gt0_lt count (zlen l)) && forallb (fun c => match jis8_encode c with Some _ => true | None => false end) l
  | KNum n, VNum n' l =>
    num_kind_eqb n n' && negb (num_base_is_float n) && negb (cnt_ge0_lt count (zlen l)) && forallb (int_in_range n) l
  | KNum n, VFlt n' l =>
    num_kind_eqb n n' && num_base_is_float n && negb (cnt_ge0_lt count (zlen l)) &&
    forallb (fun b => (b <? 2^64) && finite64 b && flt_in_range n b) l
  | _, _ => false
  end.

Fixpoint wf (v : val) (t : ty) {struct v} : bool :=
  match v, t with
  | VRec l, TRec fs =>
    (fix go (l : list val) (fs : list (string * ty)) {struct l} : bool :=
       match l, fs with
       | [], [] => true
       | x :: l', f :: fs' => wf x (snd f) && go l' fs'
       | _, _ => false
       end) l fs
  | VArr l, TArr e _ => forallb (fun x => wf x e) l
  | VArr l, TDyn allowed _ =>
    allowed_has allowed DArr && forallb (fun x => wf x TAny) l
  | _, TScal k count => wf_scal k count v
  | _, TDyn allowed count =>
    match kind_of v with
    | Some (DScal k) =>
      (* (Dynamic.decode has its JIS-8 entry since D45) *)
      allowed_has allowed (DScal k) && wf_scal k count v
    | _ => false
    end
  | _, _ => false
  end.

(* what a decode of the encoding holds: F4 doubles are rounded to binary32 and widened back *)
Definition canon_f4 (b : N) : N := match round32 b with Ok r => widen32 r | Err _ => b end.
Fixpoint canon (v : val) : val :=
  match v with
  | VRec l => VRec (map canon l)
  | VArr l => VArr (map canon l)
  | VFlt F4 l => VFlt F4 (map canon_f4 l)
  | _ => v
  end.

Fixpoint vdepth (v : val) : nat :=
  match v with
  | VRec l | VArr l => S (fold_right (fun x m => Nat.max (vdepth x) m) O l)
  | _ => 1%nat
  end.
