(* Model/EquipData.v — executable model of the equipment's data tables and their handlers:
   StatusDataCollectionCapability._on_s01f03/_on_s01f11, EquipmentConstantsCapability._on_s02f13/_on_s02f15/_on_s02f29,
   AlarmCapability._on_s05f03/_on_s05f05/_on_s05f07/set_alarm/clear_alarm; dicts as association lists in insertion order,
   the S2F15 pre-check loop as written (the last error wins). *)
From SG Require Import Base.Prelude Spec.E5Reports Spec.E5Data.
Open Scope Z_scope.

Definition known {A} (k : id) (tab : list (id * A)) : bool := existsb (fun p => id_eqb (fst p) k) tab.

Definition m_req_sv (t : dtab) (ids : list id) : dout :=
  match ids with
  | [] => DValues (map (fun p => Some (sv_value (snd p))) (svs t))
  | _ => DValues (map (fun k => if negb (known k (svs t)) then None else option_map sv_value (rlookup k (svs t))) ids)
  end.
Definition m_name_sv (t : dtab) (ids : list id) : dout :=
  match ids with
  | [] => DNames (map (fun p => (fst p, sv_name (snd p), sv_unit (snd p))) (svs t))
  | _ => DNames (map (fun k => match rlookup k (svs t) with Some s => (k, sv_name s, sv_unit s) | None => (k, ""%string, ""%string) end) ids)
  end.
Definition m_req_ec (t : dtab) (ids : list id) : dout :=
  match ids with
  | [] => DConsts (map (fun p => Some (ec_value (snd p))) (ecs t))
  | _ => DConsts (map (fun k => option_map ec_value (rlookup k (ecs t))) ids)
  end.
Definition m_name_ec (t : dtab) (ids : list id) : dout :=
  let row k c := (k, ec_name c, Some (ec_min c, ec_max c, ec_def c), ec_unit c) in
  match ids with
  | [] => DConstNames (map (fun p => row (fst p) (snd p)) (ecs t))
  | _ => DConstNames (map (fun k => match rlookup k (ecs t) with Some c => row k c | None => (k, ""%string, None, ""%string) end) ids)
  end.

(* S2F15: pre-check, then apply in order *)
Definition ec_check (t : dtab) (data : list (id * num)) : Z :=
  fold_left (fun eac p =>
    match rlookup (fst p) (ecs t) with
    | None => 1
    | Some c =>
      let e1 := match ec_min c with Some lo => if negb (num_le lo (snd p)) then 3 else eac | None => eac end in
      match ec_max c with Some hi => if negb (num_le (snd p) hi) then 3 else e1 | None => e1 end
    end) data 0.
Definition ec_assign (tab : list (id * econst)) (p : id * num) : list (id * econst) :=
  map (fun q => if id_eqb (fst q) (fst p)
                then (fst q, {| ec_name := ec_name (snd q); ec_unit := ec_unit (snd q); ec_min := ec_min (snd q); ec_max := ec_max (snd q);
                                ec_def := ec_def (snd q); ec_value := snd p |})
                else q) tab.
Definition m_set_ec (t : dtab) (data : list (id * num)) : dtab * dout :=
  let eac := ec_check t data in
  if eac =? 0 then ({| svs := svs t; alarms := alarms t; ecs := fold_left ec_assign data (ecs t) |}, DAck 0) else (t, DAck eac).

Definition upd_alarm (t : dtab) (k : id) (f : alarm -> alarm) : dtab :=
  {| svs := svs t; ecs := ecs t; alarms := map (fun p => if id_eqb (fst p) k then (fst p, f (snd p)) else p) (alarms t) |}.
Definition al_row (k : id) (a : alarm) : id * Z * string := (k, al_code a + (if al_set a then 128 else 0), al_text a).

(* the loop of _get_alarms_enabled / _get_alarms_set: append the id of every alarm whose flag is set *)
Fixpoint m_alarm_ids (flag : alarm -> bool) (tab : list (id * alarm)) : list id :=
  match tab with [] => [] | (k, a) :: r => if flag a then k :: m_alarm_ids flag r else m_alarm_ids flag r end.

Definition ed_step (t : dtab) (o : dop) : dtab * dout :=
  match o with
  | DReqSV ids => (t, m_req_sv t ids)
  | DNameSV ids => (t, m_name_sv t ids)
  | DReqEC ids => (t, m_req_ec t ids)
  | DSetEC data => m_set_ec t data
  | DNameEC ids => (t, m_name_ec t ids)
  | DAlarmEnable k on =>
    if negb (known k (alarms t)) then (t, DAck 1)
    else (upd_alarm t k (fun a => {| al_code := al_code a; al_text := al_text a; al_enabled := on; al_set := al_set a |}), DAck 0)
  | DListAlarms ids =>
    let ids' := match ids with [] => map fst (alarms t) | _ => ids end in
    (t, DAlarms (map (fun k => match rlookup k (alarms t) with Some a => al_row k a | None => (k, -1, ""%string) end) ids'))   (* unknown: b"" and "" *)
  | DListEnabled => (t, DAlarms (map (fun p => al_row (fst p) (snd p)) (filter (fun p => al_enabled (snd p)) (alarms t))))
  | DSetAlarm k =>
    match rlookup k (alarms t) with
    | None => (t, DAbort)                                   (* ValueError to the caller *)
    | Some a =>
      if al_set a then (t, DNone)
      else let a' := {| al_code := al_code a; al_text := al_text a; al_enabled := al_enabled a; al_set := true |} in
           (upd_alarm t k (fun _ => a'), if al_enabled a then DReport (al_code a + 128) k else DNone)
    end
  | DClearAlarm k =>
    match rlookup k (alarms t) with
    | None => (t, DAbort)
    | Some a =>
      if negb (al_set a) then (t, DNone)
      else let a' := {| al_code := al_code a; al_text := al_text a; al_enabled := al_enabled a; al_set := false |} in
           (upd_alarm t k (fun _ => a'), if al_enabled a then DReport (al_code a) k else DNone)
    end
  | DUpdateSV k v =>
    ({| ecs := ecs t; alarms := alarms t;
        svs := map (fun p => if id_eqb (fst p) k then (fst p, {| sv_name := sv_name (snd p); sv_unit := sv_unit (snd p); sv_value := v |}) else p) (svs t) |}, DNone)
  | DReqAlarmSVs =>       (* _get_sv_value for ids 1004 / 1005: _get_alarms_enabled / _get_alarms_set walk the alarm table in its order *)
    (t, DAlarmLists (m_alarm_ids (fun a => al_enabled a) (alarms t)) (m_alarm_ids (fun a => al_set a) (alarms t)))
  end.

Fixpoint ed_run (t : dtab) (ops : list dop) : dtab * list dout :=
  match ops with [] => (t, []) | o :: r => let '(t1, out) := ed_step t o in let '(t2, outs) := ed_run t1 r in (t2, out :: outs) end.
