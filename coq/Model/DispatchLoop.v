(* Model/DispatchLoop.v — the dispatcher thread of ProtocolDispatcher and the thread that queues blocks for it, as an interleaving
   of atomic steps.  queue_block = put the block, then set the trigger (two steps: the dispatcher may run in between);
   the dispatcher: wait for the trigger, clear it, take blocks while the queue is not empty - or, the other way the loop can be
   written (Gen/Dispatcher.v tells which the source has): drain first, clear afterwards. *)
From SG Require Import Base.Prelude.
Open Scope nat_scope.

Inductive dpc := PWait | PClear | PCheck | PClearAfter.
Record dstate := { d_queue : nat; d_trigger : bool; d_pc : dpc; d_pending_sets : nat; d_delivered : nat }.
Definition d0 : dstate := {| d_queue := 0; d_trigger := false; d_pc := PWait; d_pending_sets := 0; d_delivered := 0 |}.

Inductive dstep := SPut | SSet | SDispatcher.

Definition dstep_fn (clear_first : bool) (s : dstate) (a : dstep) : dstate :=
  match a with
  | SPut => {| d_queue := S (d_queue s); d_trigger := d_trigger s; d_pc := d_pc s; d_pending_sets := S (d_pending_sets s); d_delivered := d_delivered s |}
  | SSet =>
    match d_pending_sets s with
    | O => s
    | S p => {| d_queue := d_queue s; d_trigger := true; d_pc := d_pc s; d_pending_sets := p; d_delivered := d_delivered s |}
    end
  | SDispatcher =>
    match d_pc s with
    | PWait => if d_trigger s then {| d_queue := d_queue s; d_trigger := d_trigger s; d_pc := if clear_first then PClear else PCheck; d_pending_sets := d_pending_sets s; d_delivered := d_delivered s |} else s
    | PClear => {| d_queue := d_queue s; d_trigger := false; d_pc := PCheck; d_pending_sets := d_pending_sets s; d_delivered := d_delivered s |}
    | PCheck =>
      match d_queue s with
      | S q => {| d_queue := q; d_trigger := d_trigger s; d_pc := PCheck; d_pending_sets := d_pending_sets s; d_delivered := S (d_delivered s) |}
      | O => {| d_queue := 0; d_trigger := d_trigger s; d_pc := if clear_first then PWait else PClearAfter; d_pending_sets := d_pending_sets s; d_delivered := d_delivered s |}
      end
    | PClearAfter => {| d_queue := d_queue s; d_trigger := false; d_pc := PWait; d_pending_sets := d_pending_sets s; d_delivered := d_delivered s |}
    end
  end.
Definition drun (clear_first : bool) (s : dstate) (tr : list dstep) : dstate := fold_left (dstep_fn clear_first) tr s.

(* a block sits in the queue, nobody is going to set the trigger, and the dispatcher sleeps: the block stays there until some
   later block arrives *)
Definition stuck (s : dstate) : bool :=
  match d_pc s with PWait => negb (d_trigger s) && (d_pending_sets s =? 0) && negb (d_queue s =? 0) | _ => false end.

(* ---------- generations: one callback at a time across stop()/start() ----------
   stop() does not join a dispatcher thread that is inside a callback (the callback may be the caller of disable()); start() creates
   the thread of the next generation.  What matters: who is inside a callback (nobody, the thread of the current generation, a thread of
   an older generation that was left behind) and what the thread of the current generation does.  `waits` (Gen/Dispatcher.v tells what
   the source has): a new thread first joins the thread that is inside a callback. *)
Inductive gcb := CbNone | CbCur | CbStale.
Inductive gcur := CIdle | CWait | CInCb.
Record gstate := { g_cb : gcb; g_cur : gcur; g_overlap : bool }.
Definition g0 : gstate := {| g_cb := CbNone; g_cur := CIdle; g_overlap := false |}.
Inductive gstep := GRestart | GCurrent | GStaleReturns.
Definition gstep_fn (waits : bool) (s : gstate) (a : gstep) : gstate :=
  match a with
  | GRestart =>      (* stop(); start(): the thread of the current generation is joined unless a callback is running; a new one starts *)
    match g_cb s with
    | CbNone => {| g_cb := CbNone; g_cur := CIdle; g_overlap := g_overlap s |}
    | _ => {| g_cb := CbStale; g_cur := if waits then CWait else CIdle; g_overlap := g_overlap s |}
    end
  | GCurrent =>      (* the thread of the current generation takes its next step *)
    match g_cur s with
    | CWait => match g_cb s with CbStale => s | _ => {| g_cb := g_cb s; g_cur := CIdle; g_overlap := g_overlap s |} end
    | CIdle => {| g_cb := CbCur; g_cur := CInCb; g_overlap := g_overlap s || match g_cb s with CbStale => true | _ => false end |}    (* takes a block, calls the target *)
    | CInCb => {| g_cb := CbNone; g_cur := CIdle; g_overlap := g_overlap s |}                                                          (* the callback returns *)
    end
  | GStaleReturns => (* the callback of the thread that was left behind returns; that thread ends *)
    match g_cb s with CbStale => {| g_cb := CbNone; g_cur := g_cur s; g_overlap := g_overlap s |} | _ => s end
  end.
Definition grun (waits : bool) (s : gstate) (tr : list gstep) : gstate := fold_left (gstep_fn waits) tr s.

(* stop() (the link is lost): what is still queued for dispatch - received completely, waiting behind a running callback - is discarded,
   so that it is not handled on the next connection (D44) *)
Definition d_stop (s : dstate) : dstate := {| d_queue := 0; d_trigger := d_trigger s; d_pc := d_pc s; d_pending_sets := 0; d_delivered := d_delivered s |}.
