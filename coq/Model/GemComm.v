(* Model/GemComm.v — executable model of GemHandler's communication handling: enable/disable, _on_communicating,
   _on_disconnected/on_connection_closed, _on_message_received (the WAIT_CRA / WAIT_DELAY / COMMUNICATING gate),
   _on_state_wait_cra, and CommunicationStateMachine's timers, over the regenerated communication machine run by the
   engine model. *)
From SG Require Import Base.Prelude Spec.E30Comm Model.StateMachine Gen.Machines.
Open Scope Z_scope.
Open Scope string_scope.

Record gc := { g_cur : nat; g_link : bool; g_t3 : bool; g_delay : bool }.       (* timers: armed and not cancelled *)
Definition gc0 : gc := {| g_cur := communication_initial; g_link := false; g_t3 := false; g_delay := false |}.

(* one transition request; the enter/leave callbacks arm and cancel the timers, entering WAIT_CRA also sends S1F13 *)
Definition comm_request (s : gc) (name : string) : gc * list yout * bool :=
  let '(m, raised) := perform communication_machine no_handlers never_one_shot 4
                        {| cur := g_cur s; active := []; log := []; spent := [] |} name in
  let entered x := existsb (fun e => match e with Enter y => (y =? x)%nat | _ => false end) (log m) in
  let left x := existsb (fun e => match e with Leave y => (y =? x)%nat | _ => false end) (log m) in
  ({| g_cur := cur m; g_link := g_link s;
      g_t3 := if entered communication_WAIT_CRA then true else if left communication_WAIT_CRA then false else g_t3 s;
      g_delay := if entered communication_WAIT_DELAY then true else if left communication_WAIT_DELAY then false else g_delay s |},
   if entered communication_WAIT_CRA && g_link s then [YSendS1F13] else [],
   raised).

Definition is (s : gc) (q : nat) : bool := (g_cur s =? q)%nat.

Definition gcomm_step (s : gc) (e : yev) : gc * list yout :=
  match e with
  | YEnable => let '(s1, o, raised) := comm_request s "enable" in (s1, o ++ if raised then [YRefused] else [])%list
  | YDisable =>
    (* protocol.disable() first: the link goes down (on_connection_closed), then the state machine is disabled *)
    let s0 := if g_link s && is s communication_COMMUNICATING then fst (fst (comm_request s "communicationfail")) else s in
    let s0' := {| g_cur := g_cur s0; g_link := false; g_t3 := g_t3 s0; g_delay := g_delay s0 |} in
    let '(s1, o, raised) := comm_request s0' "disable" in (s1, o ++ if raised then [YRefused] else [])%list
  | YLinkUp =>
    let s0 := {| g_cur := g_cur s; g_link := true; g_t3 := g_t3 s; g_delay := g_delay s |} in
    let '(s1, o, _) := comm_request s0 "select" in (s1, o)
  | YLinkDown =>
    let s0 := {| g_cur := g_cur s; g_link := false; g_t3 := g_t3 s; g_delay := g_delay s |} in
    if is s communication_COMMUNICATING then let '(s1, o, _) := comm_request s0 "communicationfail" in (s1, o) else (s0, [])
  | YInS1F13 accept =>
    let a := if accept then 0 else 1 in
    if is s communication_WAIT_CRA || is s communication_WAIT_DELAY then
      (* answered with on_commack_requested(); only COMMACK 0 makes the transition (D41); in WAIT_DELAY as in WAIT_CRA (D66) *)
      if accept then let '(s1, o, _) := comm_request s "s1f13received" in (s1, YSendS1F14 a :: o) else (s, [YSendS1F14 a])
    else if is s communication_COMMUNICATING then (s, [YSendS1F14 a])          (* _handle_stream_function -> _on_s01f13 *)
    else (s, [])
  | YInS1F13Unanswerable => (s, [])            (* send_response returned False: s1f13received is not called (D63) *)
  | YInS1F14 c readable =>
    if is s communication_WAIT_CRA then
      let '(s1, o, _) := comm_request s (if readable && (c =? 0)%Z then "s1f14received" else "communicationreqfail") in (s1, o)
    else (s, [])                                                              (* COMMUNICATING: no callback for S1F14, no W-bit: nothing *)
  | YInOther registered w =>
    if is s communication_COMMUNICATING then (s, if registered || w then [YHandled] else []) else (s, [])
  | YT3 => if g_t3 s then let '(s1, o, _) := comm_request s "communicationreqfail" in (s1, o) else (s, [])
  | YDelay => if g_delay s then let '(s1, o, _) := comm_request s "delayexpired" in (s1, o) else (s, [])
  end.

Fixpoint gcomm_run (s : gc) (es : list yev) : gc * list (list yout) :=
  match es with [] => (s, []) | e :: r => let '(s1, o) := gcomm_step s e in let '(s2, os) := gcomm_run s1 r in (s2, o :: os) end.

Definition ystate_of (c : nat) : ystate :=
  if (c =? communication_COMMUNICATING)%nat then YComm else if (c =? communication_WAIT_CRA)%nat then YWaitCRA
  else if (c =? communication_WAIT_DELAY)%nat then YWaitDelay else if (c =? communication_DISABLED)%nat then YDisabled else YIdle.
