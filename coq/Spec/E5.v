(* Spec/E5.v — independent reference: SEMI E5 (SECS-II) item encoding.
   Written from the standard, shares nothing with Model/ and nothing with Gen/.

   An item is: one format byte = (format code * 4 + number of length bytes),
   1..3 length bytes (big endian, the byte length of the payload; for a list the
   number of elements), then the payload.  Integers are big-endian two's
   complement, floats are IEEE-754 big-endian, booleans one byte each
   (0 = false, anything else = true), text one byte per character. *)
From SG Require Import Base.Prelude.
Open Scope N_scope.

Inductive e5int := W1 | W2 | W4 | W8.
Definition wbytes (w : e5int) : nat := match w with W1 => 1 | W2 => 2 | W4 => 4 | W8 => 8 end%nat.

Inductive e5item :=
| EL (l : list e5item)            (* list *)
| EB (l : list N)                 (* binary: bytes *)
| EBool (l : list bool)           (* boolean *)
| EA (l : list N)                 (* ASCII: one byte per character *)
| EJ (l : list N)                 (* JIS-8: one byte per character *)
| EI (w : e5int) (l : list Z)     (* signed integers *)
| EU (w : e5int) (l : list Z)     (* unsigned integers *)
| EF4 (l : list N)                (* binary32 bit patterns *)
| EF8 (l : list N).               (* binary64 bit patterns *)

(* SEMI E5 table 1: format codes (octal in the standard) *)
Definition code_L := 0.      (* 00 *)
Definition code_B := 8.      (* 10 *)
Definition code_BOOL := 9.   (* 11 *)
Definition code_A := 16.     (* 20 *)
Definition code_J := 17.     (* 21 *)
Definition code_I (w : e5int) := match w with W8 => 24 | W1 => 25 | W2 => 26 | W4 => 28 end.  (* 30 31 32 34 *)
Definition code_F8 := 32.    (* 40 *)
Definition code_F4 := 36.    (* 44 *)
Definition code_U (w : e5int) := match w with W8 => 40 | W1 => 41 | W2 => 42 | W4 => 44 end.  (* 50 51 52 54 *)

Definition MAXLEN := 16777215.

(* minimal number of length bytes *)
Definition nlb (n : N) : nat := if n <=? 255 then 1%nat else if n <=? 65535 then 2%nat else 3%nat.
Definition e5_header (code n : N) : list N := (code * 4 + N.of_nat (nlb n)) :: be (nlb n) n.

Definition len {A} (l : list A) : N := N.of_nat (length l).

Fixpoint e5_encode (i : e5item) : list N :=
  match i with
  | EL l => e5_header code_L (len l) ++ concat (map e5_encode l)
  | EB l => e5_header code_B (len l) ++ l
  | EBool l => e5_header code_BOOL (len l) ++ map (fun b : bool => if b then 1 else 0) l
  | EA l => e5_header code_A (len l) ++ l
  | EJ l => e5_header code_J (len l) ++ l
  | EI w l => e5_header (code_I w) (N.of_nat (wbytes w) * len l) ++ concat (map (fun z => be (wbytes w) (tc_enc (wbytes w) z)) l)
  | EU w l => e5_header (code_U w) (N.of_nat (wbytes w) * len l) ++ concat (map (fun z => be (wbytes w) (Z.to_N z)) l)
  | EF4 l => e5_header code_F4 (4 * len l) ++ concat (map (be 4) l)
  | EF8 l => e5_header code_F8 (8 * len l) ++ concat (map (be 8) l)
  end.

(* well-formed: representable at all *)
Definition irange (w : e5int) (z : Z) : bool :=
  let h := (2 ^ (8 * Z.of_nat (wbytes w) - 1))%Z in ((- h <=? z) && (z <? h))%Z.
Definition urange (w : e5int) (z : Z) : bool :=
  ((0 <=? z) && (z <? 2 ^ (8 * Z.of_nat (wbytes w))))%Z.

Fixpoint e5_wf (i : e5item) : bool :=
  match i with
  | EL l => (len l <=? MAXLEN) && forallb e5_wf l
  | EB l | EA l | EJ l => (len l <=? MAXLEN) && bytesb l
  | EBool l => len l <=? MAXLEN
  | EI w l => (N.of_nat (wbytes w) * len l <=? MAXLEN) && forallb (irange w) l
  | EU w l => (N.of_nat (wbytes w) * len l <=? MAXLEN) && forallb (urange w) l
  | EF4 l => (4 * len l <=? MAXLEN) && forallb (fun b => b <? 2^32) l
  | EF8 l => (8 * len l <=? MAXLEN) && forallb (fun b => b <? 2^64) l
  end.

(* ---------- reference decoder (C02): accepts 1..3 length bytes whatever the
   magnitude; fuel bounds the nesting depth only. ---------- *)
Fixpoint chunks (w : nat) (n : nat) (l : list N) : list (list N) :=
  match n with O => [] | S k => firstn w l :: chunks w k (skipn w l) end.

Definition take (n : nat) (l : list N) : option (list N * list N) :=
  if (n <=? length l)%nat then Some (firstn n l, skipn n l) else None.

Definition payload_item (code : N) (p : list N) : option e5item :=
  let nums (w : nat) := map (fun c => be_val c 0) (chunks w (length p / w) p) in
  let whole (w : nat) := (length p mod w =? 0)%nat in
  if code =? code_B then Some (EB p)
  else if code =? code_BOOL then Some (EBool (map (fun b => negb (b =? 0)) p))
  else if code =? code_A then Some (EA p)
  else if code =? code_J then Some (EJ p)
  else if code =? code_F4 then if whole 4%nat then Some (EF4 (nums 4%nat)) else None
  else if code =? code_F8 then if whole 8%nat then Some (EF8 (nums 8%nat)) else None
  else
    let try (w : e5int) :=
      if code =? code_I w then
        if whole (wbytes w) then Some (EI w (map (tc_dec (wbytes w)) (nums (wbytes w)))) else None
      else if code =? code_U w then
        if whole (wbytes w) then Some (EU w (map Z.of_N (nums (wbytes w)))) else None
      else None in
    match try W1 with Some i => Some i | None =>
    match try W2 with Some i => Some i | None =>
    match try W4 with Some i => Some i | None => try W8 end end end.

(* n items, one after the other *)
Fixpoint e5_items (dec : list N -> option (e5item * list N)) (cnt : nat) (r : list N) (acc : list e5item)
  : option (e5item * list N) :=
  match cnt with
  | O => Some (EL (rev acc), r)
  | S c => match dec r with
           | Some (i, r') => e5_items dec c r' (i :: acc)
           | None => None
           end
  end.

Fixpoint e5_decode (fuel : nat) (bs : list N) : option (e5item * list N) :=
  match fuel with
  | O => None
  | S f =>
    match bs with
    | [] => None
    | fb :: r =>
      let code := fb / 4 in
      let k := N.to_nat (fb mod 4) in
      if (k =? 0)%nat then None else
      match take k r with
      | None => None
      | Some (lb, r1) =>
        let n := be_val lb 0 in
        if code =? code_L then
          (* every item occupies at least one byte *)
          if N.of_nat (length r1) <? n then None else e5_items (e5_decode f) (N.to_nat n) r1 []
        else
          match take (N.to_nat (N.min n (N.of_nat (length r1)))) r1 with
          | None => None
          | Some (p, r2) =>
            if N.of_nat (length p) <? n then None else
            match payload_item code p with
            | Some i => Some (i, r2)
            | None => None
            end
          end
      end
    end
  end.

Fixpoint e5_depth (i : e5item) : nat :=
  match i with
  | EL l => S (fold_right (fun x m => Nat.max (e5_depth x) m) O l)
  | _ => 1%nat
  end.

(* the narrowest standard integer format that holds z (unsigned for non-negative values) *)
Inductive e5num := NU (w : e5int) | NI (w : e5int).
Definition e5_narrowest (z : Z) : option e5num :=
  if (0 <=? z)%Z then
    if (z <? 2^8)%Z then Some (NU W1) else if (z <? 2^16)%Z then Some (NU W2) else if (z <? 2^32)%Z then Some (NU W4)
    else if (z <? 2^64)%Z then Some (NU W8) else None
  else
    if (- 2^7 <=? z)%Z then Some (NI W1) else if (- 2^15 <=? z)%Z then Some (NI W2) else if (- 2^31 <=? z)%Z then Some (NI W4)
    else if (- 2^63 <=? z)%Z then Some (NI W8) else None.
