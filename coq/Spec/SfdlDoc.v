(* Spec/SfdlDoc.v — what docs/firststeps/sfdl.md promises, written from the documentation only.
   A definition is a data item  < NAME >  or a list  < L [NAME] member* > .
   - a list with exactly one member is an open list (array) of that member;
   - any other list is a fixed list (record) whose members are reached by key:
       a data item by its own name; a nested list by the name given after L; an unnamed open list of a
       single data item by that data item's name; any other unnamed nested list by "DATA".
   The documentation does not say which key an UNNAMED open list gets whose single member is a NAMED list
   (the name belongs to the member, which is reached by index, not by key): such definitions are outside
   the domain of the shape statement (naming_supported). *)
From SG Require Import Base.Prelude.

Inductive sast := AItem (name : string) | AList (name : option string) (members : list sast).
Inductive shape := ShItem (name : string) | ShArray (elem : shape) | ShRecord (fields : list (string * shape)).

Definition doc_key (m : sast) : string :=
  match m with
  | AItem n => n
  | AList (Some nm) _ => nm
  | AList None [AItem n] => n                  (* documented: the nested data item's name *)
  | AList None _ => "DATA"%string
  end.

Fixpoint doc_shape (a : sast) : shape :=
  match a with
  | AItem n => ShItem n
  | AList _ [m] => ShArray (doc_shape m)
  | AList _ ms => ShRecord (map (fun m => (doc_key m, doc_shape m)) ms)
  end.

(* well-formed for the purpose of the shape theorem: the keys of every record are pairwise distinct *)
Fixpoint distinct (l : list string) : bool :=
  match l with [] => true | x :: r => negb (existsb (String.eqb x) r) && distinct r end.
Fixpoint keys_distinct (a : sast) : bool :=
  match a with
  | AItem _ => true
  | AList _ ms => (match ms with [_] => true | _ => distinct (map doc_key ms) end) && forallb keys_distinct ms
  end.

(* KNOWN FINDING C19-name-handdown: the reader hands the name of a list down to its member lists
   (a heuristic that makes "< L REPORTS < L ... > >" work). The documented naming is honoured exactly
   when every NAMED list is either an open list (one member) of a data item or of an unnamed list that
   starts with a data item, or a
   fixed list that starts with a data item and has no unnamed member list. *)
Fixpoint naming_supported (a : sast) : bool :=
  match a with
  | AItem _ => true
  | AList None ms => forallb naming_supported ms && match ms with [AList (Some _) _] => false | _ => true end
  | AList (Some _) ms =>
    forallb naming_supported ms &&
    match ms with
    | [AItem _] | [AList None (AItem _ :: _)] => true
    | [_] => false
    | AItem _ :: _ => forallb (fun m => match m with AList None _ => false | _ => true end) ms
    | _ => false
    end
  end.
