(* Spec/E37Session.v — the SEMI E37 session seen from one endpoint, written from the standard's state
   model (NOT CONNECTED / NOT SELECTED / SELECTED) and message rules; no reference to the code.
   Only what property C05 states is prescribed; T7/T8 supervision, the status values this side puts into its
   responses and the handling of unknown SType/PType are left open. *)
From SG Require Import Base.Prelude.
Open Scope Z_scope.

Inductive sstate := NotConnected | NotSelected | Selected.
Definition sstate_eqb (a b : sstate) : bool :=
  match a, b with NotConnected, NotConnected | NotSelected, NotSelected | Selected, Selected => true | _, _ => false end.

(* SType numbers of E37 *)
Definition ST_DATA := 0. Definition ST_SELECT_REQ := 1. Definition ST_SELECT_RSP := 2. Definition ST_DESELECT_REQ := 3.
Definition ST_DESELECT_RSP := 4. Definition ST_LINKTEST_REQ := 5. Definition ST_LINKTEST_RSP := 6. Definition ST_REJECT := 7.
Definition ST_SEPARATE := 9.
Definition REASON_NOT_SELECTED := 4.

Inductive sevent :=
| EvConnected                                    (* TCP connection established *)
| EvClosing                                      (* this side has begun to close the connection *)
| EvClosed                                       (* the connection has ended (peer close, or the local close completed) *)
| EvCtrl (stype system status : Z)               (* inbound control message *)
| EvData (system : Z) (w : bool) (wellformed : bool)   (* inbound data message; w: it is a primary (W-bit set, or an odd function outside stream 9): it cannot be the reply to anything *)
| EvOpen (stype system : Z)                      (* this side sent a request of type stype and waits for its response *)
| EvGiveUp (system : Z).                         (* this side stopped waiting (reply timeout) *)

Inductive sout :=
| OutCtrl (stype system : Z)                     (* a control message sent: type and system bytes *)
| OutReject (system reason : Z)
| OutDeliver (system : Z)                        (* data message handed to the application / the waiting requester *)
| OutResolve (system : Z).                       (* a waiting requester received its response *)

Definition sout_eqb (a b : sout) : bool :=
  match a, b with
  | OutCtrl t s, OutCtrl t' s' => (t =? t') && (s =? s')
  | OutReject s r, OutReject s' r' => (s =? s') && (r =? r')
  | OutDeliver s, OutDeliver s' | OutResolve s, OutResolve s' => s =? s'
  | _, _ => false
  end.

Record sess := { st : sstate; waiting : list (Z * Z); closing : bool }.     (* open transactions: (system, request stype) *)
Definition sess0 : sess := {| st := NotConnected; waiting := []; closing := false |}.

Definition is_waiting (s : sess) (system stype : Z) : bool := existsb (fun p => (fst p =? system) && (snd p =? stype)) (waiting s).
Definition any_waiting (s : sess) (system : Z) : bool := existsb (fun p => fst p =? system) (waiting s).
Definition drop (s : sess) (system : Z) : list (Z * Z) := filter (fun p => negb (fst p =? system)) (waiting s).

(* the prescribed reaction; None = the standard (as far as C05 quotes it) leaves it open *)
Definition e37_step (s : sess) (e : sevent) : option (sess * list sout) :=
  match e with
  | EvConnected => match st s with NotConnected => Some ({| st := NotSelected; waiting := waiting s; closing := false |}, []) | _ => None end
  | EvClosing => match st s with NotConnected => None | _ => Some ({| st := st s; waiting := waiting s; closing := true |}, []) end
  (* open transactions end with the connection: nobody answers any more, their requesters go on without a response *)
  | EvClosed => match st s with NotConnected => None | _ => Some ({| st := NotConnected; waiting := []; closing := false |}, [OutCtrl ST_SEPARATE 0]) end
  | EvOpen stype system => Some ({| st := st s; waiting := (system, stype) :: waiting s; closing := closing s |}, [OutCtrl stype system])
  | EvGiveUp system => Some ({| st := st s; waiting := drop s system; closing := closing s |}, [])
  | EvCtrl stype system status =>
    match st s with
    | NotConnected => None
    | cur =>
      if ((stype =? ST_SELECT_REQ) || (stype =? ST_DESELECT_REQ) || (stype =? ST_LINKTEST_REQ)) && closing s then
        Some (s, [OutReject system REASON_NOT_SELECTED])      (* any request while closing: one Reject with its system bytes *)
      else if stype =? ST_SELECT_REQ then
        Some ({| st := Selected; waiting := waiting s; closing := closing s |}, [OutCtrl ST_SELECT_RSP system])
      else if stype =? ST_DESELECT_REQ then
        Some ({| st := NotSelected; waiting := waiting s; closing := closing s |}, [OutCtrl ST_DESELECT_RSP system])
      else if stype =? ST_LINKTEST_REQ then
        Some (s, [OutCtrl ST_LINKTEST_RSP system])
      else if stype =? ST_SEPARATE then
        (* Separate.req ends the communication at once: the receiver goes to NOT CONNECTED, no response *)
        Some ({| st := NotConnected; waiting := waiting s; closing := false |}, [])
      else if stype =? ST_SELECT_RSP then
        if is_waiting s system ST_SELECT_REQ then
          Some ({| st := (if (status =? 0) && sstate_eqb cur NotSelected then Selected else cur); waiting := drop s system; closing := closing s |}, [OutResolve system])
        else Some (s, [])      (* no Select.req of ours is open under these system bytes (a request of another type is none): no effect *)
      else if stype =? ST_DESELECT_RSP then
        if is_waiting s system ST_DESELECT_REQ then
          Some ({| st := (if (status =? 0) && sstate_eqb cur Selected then NotSelected else cur); waiting := drop s system; closing := closing s |}, [OutResolve system])
        else Some (s, [])
      else if stype =? ST_LINKTEST_RSP then
        (* the response to an open Linktest.req, to nothing else *)
        if is_waiting s system ST_LINKTEST_REQ then Some ({| st := cur; waiting := drop s system; closing := closing s |}, [OutResolve system]) else Some (s, [])
      else if stype =? ST_REJECT then
        (* Reject.req naming an open transaction ends that transaction: its requester is told; otherwise it is only noted *)
        if any_waiting s system then Some ({| st := cur; waiting := drop s system; closing := closing s |}, [OutResolve system]) else Some (s, [])
      else None
    end
  | EvData system w wellformed =>
    match st s with
    | NotConnected => None
    | NotSelected => Some (s, [OutReject system REASON_NOT_SELECTED])
    | Selected =>
      (* a primary of the peer is delivered even if its system bytes (chosen by the peer) equal those of an open transaction of ours;
         only a secondary (even function, no W-bit) or an S9 error report can be the reply to that transaction *)
      (* and only to a DATA transaction: an open Select, Deselect or Linktest request is answered by its control response, a data message
         with its system bytes is a message for the application (D77) *)
      if wellformed
      then if is_waiting s system ST_DATA && negb w
           then Some ({| st := Selected; waiting := drop s system; closing := closing s |}, [OutResolve system])
           else Some (s, [OutDeliver system])
      else None
    end
  end.
