(* Spec/E4E37Frames.v — independent reference for the two wire framings.
   SEMI E4 (SECS-I) block:  length byte (10 + data length), 10-byte header
     [R-bit|device id high 7] [device id low] [W-bit|stream 7] [function] [E-bit|block no high 7] [block no low] [4 system bytes]
     data (at most 244 bytes), 2-byte checksum = arithmetic sum of header and data bytes.
   SEMI E37 (HSMS) message: 4-byte length (10 + data length), 10-byte header
     [session id 2] [W-bit|stream 7] [function] [PType] [SType] [4 system bytes], data. *)
From SG Require Import Base.Prelude.
Open Scope N_scope.

Definition bit (b : bool) : N := if b then 128 else 0.
Definition sum (l : list N) : N := fold_right N.add 0 l.

Record e4hdr := { e4_r : bool; e4_device : N; e4_w : bool; e4_stream : N; e4_function : N;
                  e4_e : bool; e4_blockno : N; e4_system : N }.
Definition e4_hdr_ok (h : e4hdr) : bool :=
  (e4_device h <? 2^15) && (e4_stream h <? 128) && (e4_function h <? 256) && (e4_blockno h <? 2^15) && (e4_system h <? 2^32).
Definition e4_header_bytes (h : e4hdr) : list N :=
  [bit (e4_r h) + e4_device h / 256; e4_device h mod 256; bit (e4_w h) + e4_stream h; e4_function h;
   bit (e4_e h) + e4_blockno h / 256; e4_blockno h mod 256] ++ be 4 (e4_system h).
Definition e4_block (h : e4hdr) (data : list N) : list N :=
  let hb := e4_header_bytes h in
  [10 + N.of_nat (length data)] ++ hb ++ data ++ be 2 (sum (hb ++ data)).
Definition E4_MAX_DATA : nat := 244.

Record e37hdr := { e37_session : N; e37_w : bool; e37_stream : N; e37_function : N; e37_ptype : N; e37_stype : N; e37_system : N }.
Definition e37_hdr_ok (h : e37hdr) : bool :=
  (e37_session h <? 2^16) && (e37_stream h <? 128) && (e37_function h <? 256) && (e37_ptype h <? 256) &&
  (existsb (N.eqb (e37_stype h)) [0;1;2;3;4;5;6;7;9]) && (e37_system h <? 2^32).
Definition e37_header_bytes (h : e37hdr) : list N :=
  be 2 (e37_session h) ++ [bit (e37_w h) + e37_stream h; e37_function h; e37_ptype h; e37_stype h] ++ be 4 (e37_system h).
Definition e37_frame (h : e37hdr) (data : list N) : list N :=
  be 4 (10 + N.of_nat (length data)) ++ e37_header_bytes h ++ data.
