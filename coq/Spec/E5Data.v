(* Spec/E5Data.v — status variables, equipment constants and alarms as SEMI E5 describes S1F3/4, S1F11/12, S2F13/14,
   S2F15/16, S2F29/30, S5F1, S5F3/4, S5F5/6, S5F7/8; written from the standard, no reference to the code. *)
From SG Require Import Base.Prelude Spec.E5Reports.
Open Scope Z_scope.

(* numbers as the constants see them: integers, or the float specials that have no place in a range *)
Inductive num := NInt (n : Z) | NNaN | NInf (positive : bool).
Definition num_le (a b : num) : bool :=
  match a, b with
  | NNaN, _ | _, NNaN => false
  | NInt x, NInt y => x <=? y
  | NInf false, _ => true | _, NInf true => true
  | NInf true, _ => false | _, NInf false => false
  end.
Definition num_eqb (a b : num) : bool :=
  match a, b with NInt x, NInt y => x =? y | NNaN, NNaN => true | NInf p, NInf q => Bool.eqb p q | _, _ => false end.

Record svar := { sv_name : string; sv_unit : string; sv_value : Z }.
Record econst := { ec_name : string; ec_unit : string; ec_min : option num; ec_max : option num; ec_def : num; ec_value : num }.
Record alarm := { al_code : Z; al_text : string; al_enabled : bool; al_set : bool }.
Record dtab := { svs : list (id * svar); ecs : list (id * econst); alarms : list (id * alarm) }.

Definition in_range (c : econst) (v : num) : bool :=
  match ec_min c with Some lo => num_le lo v | None => true end && match ec_max c with Some hi => num_le v hi | None => true end &&
  match v with NNaN => match ec_min c, ec_max c with None, None => true | _, _ => false end | _ => true end.

Inductive dop :=
| DReqSV (ids : list id)             (* S1F3 *)
| DNameSV (ids : list id)            (* S1F11 *)
| DReqEC (ids : list id)             (* S2F13 *)
| DSetEC (data : list (id * num))    (* S2F15 *)
| DNameEC (ids : list id)            (* S2F29 *)
| DAlarmEnable (alid : id) (on : bool)   (* S5F3 *)
| DListAlarms (ids : list id)        (* S5F5 *)
| DListEnabled                       (* S5F7 *)
| DSetAlarm (alid : id) | DClearAlarm (alid : id)     (* equipment side *)
| DUpdateSV (svid : id) (v : Z)      (* equipment side *)
| DReqAlarmSVs.                      (* S1F3 for the status variables AlarmsEnabled and AlarmsSet *)

Inductive dout :=
| DValues (vs : list (option Z))                       (* None: the empty item of an unknown id *)
| DNames (ns : list (id * string * string))
| DConsts (vs : list (option num))
| DConstNames (ns : list (id * string * option (option num * option num * num) * string))   (* None: unknown id, empty fields *)
| DAck (code : Z)
| DAlarms (als : list (id * Z * string))                (* ALID, ALCD (bit 8 = set), ALTX *)
| DReport (alcd : Z) (alid : id)                        (* S5F1 sent *)
| DAlarmLists (enabled set : list id)                   (* the values of AlarmsEnabled and AlarmsSet *)
| DNone | DAbort.

Definition ALARM_SET := 128.
Definition NO_ALCD := -1.
Definition alcd (a : alarm) : Z := al_code a + (if al_set a then ALARM_SET else 0).      (* category codes are below 128 *)
Definition all_or (ids : list id) {A} (tab : list (id * A)) : list id := match ids with [] => map fst tab | _ => ids end.

Definition set_alarm_state (t : dtab) (k : id) (f : alarm -> alarm) : dtab :=
  {| svs := svs t; ecs := ecs t; alarms := map (fun p => if id_eqb (fst p) k then (fst p, f (snd p)) else p) (alarms t) |}.

(* the prescribed reaction; None = E5 (as far as C13 quotes it) leaves it open *)
Definition e5d_step (t : dtab) (o : dop) : option (dtab * list (list dout)) :=
  match o with
  | DReqSV ids => Some (t, [[DValues (map (fun k => option_map sv_value (rlookup k (svs t))) (all_or ids (svs t)))]])
  | DNameSV ids => Some (t, [[DNames (map (fun k => match rlookup k (svs t) with Some s => (k, sv_name s, sv_unit s) | None => (k, ""%string, ""%string) end) (all_or ids (svs t)))]])
  | DReqEC ids => Some (t, [[DConsts (map (fun k => option_map ec_value (rlookup k (ecs t))) (all_or ids (ecs t)))]])
  | DNameEC ids => Some (t, [[DConstNames (map (fun k => match rlookup k (ecs t) with
                                                          | Some c => (k, ec_name c, Some (ec_min c, ec_max c, ec_def c), ec_unit c)
                                                          | None => (k, ""%string, None, ""%string) end) (all_or ids (ecs t)))]])
  | DSetEC data =>
    let unknown := existsb (fun p => match rlookup (fst p) (ecs t) with Some _ => false | None => true end) data in
    let outside := existsb (fun p => match rlookup (fst p) (ecs t) with Some c => negb (in_range c (snd p)) | None => false end) data in
    if unknown || outside then Some (t, [(if unknown then [DAck 1] else []) ++ (if outside then [DAck 3] else [])])       (* nothing is applied *)
    else Some ({| svs := svs t; alarms := alarms t;
                  ecs := fold_left (fun tab p => map (fun q => if id_eqb (fst q) (fst p)
                                                               then (fst q, {| ec_name := ec_name (snd q); ec_unit := ec_unit (snd q); ec_min := ec_min (snd q);
                                                                               ec_max := ec_max (snd q); ec_def := ec_def (snd q); ec_value := snd p |})
                                                               else q) tab) data (ecs t) |}, [[DAck 0]])
  | DAlarmEnable k on =>
    match rlookup k (alarms t) with
    | Some _ => Some (set_alarm_state t k (fun a => {| al_code := al_code a; al_text := al_text a; al_enabled := on; al_set := al_set a |}), [[DAck 0]])
    | None => Some (t, [[DAck 1]])
    end
  | DListAlarms ids =>
    (* E5, S5F6: "a zero-length item returned for ALCD or ALTX means that value does not exist"; ALCD -1 stands for the zero-length item *)
    Some (t, [[DAlarms (map (fun k => match rlookup k (alarms t) with Some a => (k, alcd a, al_text a) | None => (k, NO_ALCD, ""%string) end) (all_or ids (alarms t)))]])
  | DListEnabled => Some (t, [[DAlarms (map (fun p => (fst p, alcd (snd p), al_text (snd p))) (filter (fun p => al_enabled (snd p)) (alarms t)))]])
  | DSetAlarm k =>
    match rlookup k (alarms t) with
    | Some a => if al_set a then Some (t, [[DNone]])
                else let a' := {| al_code := al_code a; al_text := al_text a; al_enabled := al_enabled a; al_set := true |} in
                     Some (set_alarm_state t k (fun _ => a'), [[if al_enabled a then DReport (alcd a') k else DNone]])
    | None => None
    end
  | DClearAlarm k =>
    match rlookup k (alarms t) with
    | Some a => if al_set a then
                  let a' := {| al_code := al_code a; al_text := al_text a; al_enabled := al_enabled a; al_set := false |} in
                  Some (set_alarm_state t k (fun _ => a'), [[if al_enabled a then DReport (alcd a') k else DNone]])
                else Some (t, [[DNone]])
    | None => None
    end
  | DUpdateSV k v =>
    Some ({| ecs := ecs t; alarms := alarms t;
             svs := map (fun p => if id_eqb (fst p) k then (fst p, {| sv_name := sv_name (snd p); sv_unit := sv_unit (snd p); sv_value := v |}) else p) (svs t) |}, [[DNone]])
  | DReqAlarmSVs =>      (* E30: AlarmsEnabled / AlarmsSet hold the list of the alarms currently enabled / currently set *)
    Some (t, [[DAlarmLists (map fst (filter (fun p => al_enabled (snd p)) (alarms t))) (map fst (filter (fun p => al_set (snd p)) (alarms t)))]])
  end.

(* every constant with a declared range holds a value inside it *)
Definition ecs_in_range (t : dtab) : bool := forallb (fun p => in_range (snd p) (ec_value (snd p))) (ecs t).
