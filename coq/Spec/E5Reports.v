(* Spec/E5Reports.v — event report configuration per SEMI E5 (S2F33 Define Report, S2F35 Link Event Report,
   S2F37 Enable/Disable Event Report, S6F15 Event Report Request, S6F11 Event Report Send), written from the standard's
   message descriptions; no reference to the code.  Where E5 is silent (an id named twice inside one request, deleting
   a report that does not exist, partial S2F37) several outcomes are admitted.  S6F15 asks for the report data itself:
   it does not depend on the event being enabled (S2F37 controls what the equipment sends on its own). *)
From SG Require Import Base.Prelude.
Open Scope Z_scope.

Inductive id := IdN (n : Z) | IdS (s : string).
Definition id_eqb (a b : id) : bool := match a, b with IdN x, IdN y => x =? y | IdS x, IdS y => String.eqb x y | _, _ => false end.
Definition mem (x : id) (l : list id) : bool := existsb (id_eqb x) l.

Record rcfg := {
  reports : list (id * list id);                   (* RPTID -> VIDs *)
  links : list (id * (list id * bool))             (* CEID -> linked RPTIDs in link order, enabled *)
}.
Record renv := { vids : list id; ceids : list id; value_of : id -> Z }.   (* what the equipment offers; current values *)

Definition rlookup {A} (k : id) (m : list (id * A)) : option A :=
  match find (fun p => id_eqb (fst p) k) m with Some p => Some (snd p) | None => None end.
Definition rremove {A} (k : id) (m : list (id * A)) : list (id * A) := filter (fun p => negb (id_eqb (fst p) k)) m.
Definition rset {A} (k : id) (v : A) (m : list (id * A)) : list (id * A) :=
  if existsb (fun p => id_eqb (fst p) k) m then map (fun p => if id_eqb (fst p) k then (k, v) else p) m else m ++ [(k, v)].
Fixpoint nodup_ids (l : list id) : bool := match l with [] => true | x :: r => negb (mem x r) && nodup_ids r end.

Inductive rop :=
| RDefine (data : list (id * list id))             (* S2F33 *)
| RLink (data : list (id * list id))               (* S2F35 *)
| REnable (ceed : bool) (which : list id)          (* S2F37 *)
| RRequest (ceid : id)                             (* S6F15 *)
| RTrigger (ceid : id).                            (* the equipment triggers the event *)

Inductive rout :=
| RAck (code : Z)
| RReport (ceid : id) (rpt : list (id * list Z))   (* S6F16 / S6F11: reports in order, values in VID order *)
| RAbort                                           (* SxF0 *)
| RNothing.

(* ---- accepted effects, entry by entry ---- *)
Definition delete_report (c : rcfg) (r : id) : rcfg :=
  {| reports := rremove r (reports c);
     links := filter (fun l => match fst (snd l) with [] => false | _ => true end)
                     (map (fun l => (fst l, (filter (fun x => negb (id_eqb x r)) (fst (snd l)), snd (snd l)))) (links c)) |}.
Definition define_entry (c : rcfg) (e : id * list id) : rcfg :=
  match snd e with
  | [] => delete_report c (fst e)
  | vs => {| reports := rset (fst e) vs (reports c); links := links c |}
  end.
Definition link_entry (c : rcfg) (e : id * list id) : rcfg :=
  match snd e with
  | [] => {| reports := reports c; links := rremove (fst e) (links c) |}
  | rs => {| reports := reports c;
             links := match rlookup (fst e) (links c) with
                      | Some (old, en) => rset (fst e) (old ++ rs, en) (links c)
                      | None => links c ++ [(fst e, (rs, false))]
                      end |}
  end.

(* ---- validity ---- *)
Definition define_errors (env : renv) (c : rcfg) (data : list (id * list id)) : list Z :=
  (if existsb (fun e => match snd e with [] => false | _ => match rlookup (fst e) (reports c) with Some _ => true | None => false end end) data then [3] else []) ++
  (if existsb (fun e => existsb (fun v => negb (mem v (vids env))) (snd e)) data then [4] else []).
Definition linked_to (c : rcfg) (ce r : id) : bool := match rlookup ce (links c) with Some (rs, _) => mem r rs | None => false end.
Definition link_errors (env : renv) (c : rcfg) (data : list (id * list id)) : list Z :=
  (if existsb (fun e => existsb (fun r => linked_to c (fst e) r) (snd e)) data then [3] else []) ++
  (if existsb (fun e => negb (mem (fst e) (ceids env))) data then [4] else []) ++
  (if existsb (fun e => existsb (fun r => match rlookup r (reports c) with Some _ => false | None => true end) (snd e)) data then [5] else []).
Definition clean_define (data : list (id * list id)) : bool := nodup_ids (map fst data).
Definition clean_link (data : list (id * list id)) : bool := nodup_ids (map fst data) && forallb (fun e => nodup_ids (snd e)) data.

(* the event report for an event *)
Definition report_of (env : renv) (c : rcfg) (r : id) : option (id * list Z) :=
  match rlookup r (reports c) with Some vs => Some (r, map (value_of env) vs) | None => None end.
Fixpoint all_some {A} (l : list (option A)) : option (list A) :=
  match l with [] => Some [] | None :: _ => None | Some x :: r => match all_some r with Some xs => Some (x :: xs) | None => None end end.
Definition event_report (env : renv) (c : rcfg) (ce : id) : option (list (id * list Z)) :=
  match rlookup ce (links c) with
  | Some (rs, _) => all_some (map (report_of env c) rs)
  | None => Some []
  end.
Definition enabled (c : rcfg) (ce : id) : bool := match rlookup ce (links c) with Some (_, en) => en | None => false end.

(* ---- the admitted outcomes: (new configuration, admitted outputs) alternatives ---- *)
Definition refuse (c : rcfg) (codes : list Z) : rcfg * list rout := (c, map RAck codes).
Definition e5_step (env : renv) (c : rcfg) (o : rop) : list (rcfg * list rout) :=
  match o with
  | RDefine [] => [({| reports := []; links := [] |}, [RAck 0])]
  | RDefine data =>
    let errs := define_errors env c data in
    let accept := (fold_left define_entry data c, [RAck 0]) in
    if clean_define data then (match errs with [] => [accept] | _ => [refuse c errs] end)
    else [accept; refuse c (match errs with [] => [1; 2; 3; 4] | _ => errs end)]     (* an RPTID named twice: processed in order, or refused *)
  | RLink data =>
    let errs := link_errors env c data in
    let accept := (fold_left link_entry data c, [RAck 0]) in
    if clean_link data then (match errs with [] => [accept] | _ => [refuse c errs] end)
    else [accept; refuse c (match errs with [] => [1; 2; 3; 4; 5] | _ => errs end)]
  | REnable ceed [] => [({| reports := reports c; links := map (fun l => (fst l, (fst (snd l), ceed))) (links c) |}, [RAck 0])]
  | REnable ceed which =>
    let apply := {| reports := reports c; links := map (fun l => if mem (fst l) which then (fst l, (fst (snd l), ceed)) else l) (links c) |} in
    if forallb (fun ce => match rlookup ce (links c) with Some _ => true | None => false end) which then [(apply, [RAck 0])]
    else [(c, [RAck 1]); (apply, [RAck 1])]                                           (* refused; E5 does not say whether the known ones are switched *)
  | RRequest ce =>
    match event_report env c ce with
    | Some rpt => [(c, [RReport ce rpt])]                                              (* the report data as linked, whether the event is enabled or not *)
    | None => []                                                                      (* a dangling link: nothing is admitted (integrity is violated) *)
    end
  | RTrigger ce =>
    match event_report env c ce with
    | Some rpt => if enabled c ce then [(c, [RReport ce rpt])] else [(c, [RNothing])]
    | None => []
    end
  end.

(* integrity: every linked report exists *)
Definition integrity (c : rcfg) : bool :=
  forallb (fun l => forallb (fun r => match rlookup r (reports c) with Some _ => true | None => false end) (fst (snd l))) (links c).
