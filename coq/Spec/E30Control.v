(* Spec/E30Control.v — the SEMI E30 control state model (transitions 1-12 of the CONTROL state diagram), written from
   the standard; no reference to the code.  The equipment is observed between operator actions and host requests, so
   ATTEMPT ON-LINE appears only as the probe it sends.  Where E30 leaves a choice, several outcomes are admitted. *)
From SG Require Import Base.Prelude.
Open Scope Z_scope.

Inductive xstate := EqOffline | HostOffline | OnlineLocal | OnlineRemote.
Definition xstate_eqb (a b : xstate) : bool :=
  match a, b with EqOffline, EqOffline | HostOffline, HostOffline | OnlineLocal, OnlineLocal | OnlineRemote, OnlineRemote => true | _, _ => false end.

(* what the host does with the S1F1 probe of ATTEMPT ON-LINE *)
Inductive probe := PNotCommunicating | PNoReply | PAbort | PAnswer.

Inductive xop :=
| XOnline (p : probe)            (* operator actuates the ON-LINE switch *)
| XOffline                       (* operator actuates the OFF-LINE switch *)
| XLocal | XRemote               (* operator sets the LOCAL/REMOTE switch (the library offers this while ON-LINE only) *)
| XS1F15 | XS1F17                (* host requests OFF-LINE / ON-LINE *)
| XEnable (b : bool).            (* host enables / disables all collection events (S2F37) *)

Inductive xout :=
| XProbe                         (* S1F1 sent *)
| XEvent (ceid : Z)              (* collection event report sent *)
| XAck (function code : Z)       (* S1F16 / S1F18 with OFLACK / ONLACK *)
| XAbortReply                    (* S1F0 *)
| XRefused.                      (* the operator request is not in the table: refused, nothing changes *)

Definition xout_eqb (a b : xout) : bool :=
  match a, b with
  | XProbe, XProbe | XAbortReply, XAbortReply | XRefused, XRefused => true
  | XEvent x, XEvent y => x =? y
  | XAck f c, XAck f' c' => (f =? f') && (c =? c')
  | _, _ => false
  end.

Definition EV_OFFLINE := 1. Definition EV_LOCAL := 2. Definition EV_REMOTE := 3.

Record e30 := { x_state : xstate; x_remote : bool; x_events : bool }.   (* x_remote: position of the LOCAL/REMOTE switch *)

Definition ev (s : e30) (id : Z) : list xout := if x_events s then [XEvent id] else [].
Definition online_of (s : e30) : xstate := if x_remote s then OnlineRemote else OnlineLocal.
Definition online_ev (s : e30) : list xout := ev s (if x_remote s then EV_REMOTE else EV_LOCAL).
Definition is_online (s : e30) : bool := match x_state s with OnlineLocal | OnlineRemote => true | _ => false end.
Definition goto (s : e30) (q : xstate) : e30 := {| x_state := q; x_remote := x_remote s; x_events := x_events s |}.

(* new state and the admitted alternatives for what is sent / reported *)
Definition e30_step (s : e30) (o : xop) : e30 * list (list xout) :=
  match o with
  | XOnline p =>
    match x_state s with
    | EqOffline =>                                       (* 3, then 4 or 5 (and 7 on entry to ON-LINE) *)
      match p with
      | PNotCommunicating => (goto s HostOffline, [[]])  (* the fail state is configurable in E30; the library offers HOST OFF-LINE *)
      | PNoReply | PAbort => (goto s HostOffline, [[XProbe]])
      | PAnswer => (goto s (online_of s), [XProbe :: online_ev s])
      end
    | _ => (s, [[XRefused]])
    end
  | XOffline =>
    match x_state s with
    | OnlineLocal | OnlineRemote => (goto s EqOffline, [ev s EV_OFFLINE])        (* 6 *)
    | HostOffline => (goto s EqOffline, [[]; ev s EV_OFFLINE])                    (* 12: E30 names no event here; one is tolerated *)
    | EqOffline => (s, [[XRefused]])
    end
  | XLocal =>
    match x_state s with
    | OnlineRemote => ({| x_state := OnlineLocal; x_remote := false; x_events := x_events s |}, [ev s EV_LOCAL])     (* 9 *)
    | _ => (s, [[XRefused]])
    end
  | XRemote =>
    match x_state s with
    | OnlineLocal => ({| x_state := OnlineRemote; x_remote := true; x_events := x_events s |}, [ev s EV_REMOTE])    (* 8 *)
    | _ => (s, [[XRefused]])
    end
  | XS1F15 =>
    if is_online s then (goto s HostOffline, [XAck 16 0 :: ev s EV_OFFLINE])      (* 10 *)
    else (s, [[XAck 16 0]; [XAbortReply]])                                        (* already OFF-LINE: OFLACK has the single value 0; SxF0 is E30's OFF-LINE answer *)
  | XS1F17 =>
    match x_state s with
    | HostOffline => (goto s (online_of s), [XAck 18 0 :: online_ev s])           (* 11, 7 *)
    | EqOffline => (s, [[XAck 18 1]])                                             (* ONLACK 1: not allowed *)
    | _ => (s, [[XAck 18 2]])                                                     (* ONLACK 2: already ON-LINE *)
    end
  | XEnable b => ({| x_state := x_state s; x_remote := x_remote s; x_events := b |}, [[]])
  end.

(* ControlState status variable *)
Definition e30_sv (s : e30) : Z := match x_state s with EqOffline => 1 | HostOffline => 3 | OnlineLocal => 4 | OnlineRemote => 5 end.

(* power-up: configured default state; ATTEMPT ON-LINE at power-up fails while no communication is established *)
Inductive xinit := IEqOffline | IAttemptOnline | IHostOffline | IOnline.
Definition e30_init (i : xinit) (remote : bool) : e30 :=
  {| x_state := match i with IEqOffline => EqOffline | IAttemptOnline | IHostOffline => HostOffline | IOnline => if remote then OnlineRemote else OnlineLocal end;
     x_remote := remote; x_events := false |}.
