(* Spec/StateChart.v — reference semantics of a hierarchical state machine (statechart) transition,
   written without looking at the engine: a forest of states; a transition from the current state
   src to dst is allowed iff src is among its declared sources; it exits the states of src's ancestor
   chain that do not contain dst, enters the states of dst's chain that do not contain src, and
   afterwards exactly dst and its ancestors are active. *)
From SG Require Import Base.Prelude.
Open Scope nat_scope.

Definition forest := list (option nat).
Fixpoint chain (f : forest) (fuel : nat) (s : nat) : list nat :=
  s :: match fuel with
       | O => []
       | S k => match nth s f None with Some p => chain f k p | None => [] end
       end.
Definition chain_of (f : forest) (s : nat) : list nat := chain f (length f) s.
Definition mem (x : nat) (l : list nat) : bool := existsb (Nat.eqb x) l.

(* the source is always exited and the destination always entered (external transition); of their
   proper ancestors, those not shared are exited / entered *)
Definition exits (f : forest) (src dst : nat) : list nat :=
  src :: filter (fun x => negb (mem x (chain_of f dst))) (tl (chain_of f src)).
Definition enters (f : forest) (src dst : nat) : list nat :=
  dst :: filter (fun x => negb (mem x (chain_of f src))) (tl (chain_of f dst)).
(* one of the two states contains the other: which of the shared ancestors are re-entered is a matter
   of convention (local vs external transition); only the end state is prescribed there *)
Definition related (f : forest) (src dst : nat) : bool :=
  negb (src =? dst) && (mem src (chain_of f dst) || mem dst (chain_of f src)).
Definition active_after (f : forest) (dst : nat) : list bool := map (fun i => mem i (chain_of f dst)) (seq 0 (length f)).

(* parents are declared before their children (true of any State(...) construction order) *)
Definition forest_ok (f : forest) : bool :=
  forallb (fun ip => match snd ip with Some p => p <? fst ip | None => true end) (combine (seq 0 (length f)) f).
