(* Spec/E30Comm.v — the SEMI E30 communications state model (DISABLED / ENABLED: NOT COMMUNICATING with its WAIT CRA and
   WAIT DELAY sub-states, COMMUNICATING), seen from one endpoint of an HSMS link; written from the standard, no reference
   to the code.  Where E30 (or C07's statement) leaves a choice, several outcomes are admitted. *)
From SG Require Import Base.Prelude.
Open Scope Z_scope.

Inductive ystate := YDisabled | YIdle | YWaitCRA | YWaitDelay | YComm.       (* YIdle: enabled, no attempt running (no link) *)
Definition ystate_eqb (a b : ystate) : bool :=
  match a, b with YDisabled, YDisabled | YIdle, YIdle | YWaitCRA, YWaitCRA | YWaitDelay, YWaitDelay | YComm, YComm => true | _, _ => false end.

Inductive yev :=
| YEnable | YDisable
| YLinkUp                       (* the link is selected *)
| YLinkDown                     (* the link is lost *)
| YInS1F13 (accept : bool)     (* establish communications request received; accept: what the application decides (COMMACK 0) or denies (COMMACK 1) *)
| YInS1F13Unanswerable          (* the same request, but the answer cannot be sent (the link refuses the write): the exchange is not completed *)
| YInS1F14 (commack : Z) (readable : bool)
| YInOther (registered : bool) (w : bool)     (* any other message; registered: a callback exists for it *)
| YT3                           (* reply timeout of our S1F13 *)
| YDelay.                       (* establish communications delay expired *)

Inductive yout :=
| YSendS1F13
| YSendS1F14 (commack : Z)
| YHandled                      (* the message was handed to the application layer (callback run / S9F5 for an unknown function) *)
| YRefused.                     (* the call raised: enable while enabled, disable while disabled *)
Definition yout_eqb (a b : yout) : bool :=
  match a, b with YSendS1F13, YSendS1F13 | YHandled, YHandled | YRefused, YRefused => true | YSendS1F14 x, YSendS1F14 y => x =? y | _, _ => false end.

Record e30c := { y_state : ystate; y_link : bool }.

Definition st (s : e30c) (q : ystate) : e30c := {| y_state := q; y_link := y_link s |}.
Definition handled (registered w : bool) : list yout := if registered || w then [YHandled] else [].

(* admitted (new state, what is sent / handled) alternatives *)
Definition e30c_step (s : e30c) (e : yev) : list (e30c * list yout) :=
  match e with
  | YEnable => match y_state s with YDisabled => [(st s YIdle, [])] | _ => [(s, [YRefused])] end
  | YDisable => match y_state s with YDisabled => [(s, [YRefused]); ({| y_state := YDisabled; y_link := false |}, [YRefused])] | _ => [({| y_state := YDisabled; y_link := false |}, [])] end
  | YLinkUp =>
    let s1 := {| y_state := y_state s; y_link := true |} in
    match y_state s with
    | YIdle => [({| y_state := YWaitCRA; y_link := true |}, [YSendS1F13])]
    | YWaitCRA | YWaitDelay => [(s1, []); ({| y_state := YWaitCRA; y_link := true |}, [YSendS1F13])]   (* an attempt left over from the previous link: continued or restarted *)
    | _ => [(s1, [])]
    end
  | YLinkDown =>
    let s0 := {| y_state := y_state s; y_link := false |} in
    match y_state s with
    | YComm => [({| y_state := YIdle; y_link := false |}, [])]                         (* communication failure: leaves COMMUNICATING *)
    | YWaitCRA | YWaitDelay => [(s0, []); ({| y_state := YIdle; y_link := false |}, [])]
    | _ => [(s0, [])]
    end
  | YInS1F13 accept =>
    (* the request is answered with the application's decision; only an accepted one (COMMACK 0) establishes communication *)
    let a := if accept then 0 else 1 in
    match y_state s with
    | YWaitCRA | YWaitDelay => [(if accept then st s YComm else s, [YSendS1F14 a])]     (* E30: also while waiting for the delay to expire *)
    | YComm => [(s, [YSendS1F14 a]); (s, [YSendS1F14 a; YHandled])]
    | _ => [(s, [])]
    end
  | YInS1F13Unanswerable => [(s, [])]          (* no S1F14 went out: nothing is established, nothing else changes *)
  | YInS1F14 c readable =>
    match y_state s with
    | YWaitCRA => if readable && (c =? 0) then [(st s YComm, [])] else [(st s YWaitDelay, [])]
    | YComm => [(s, []); (s, [YHandled])]
    | _ => [(s, [])]
    end
  | YInOther registered w =>
    match y_state s with
    | YComm => [(s, handled registered w)]
    | YWaitDelay => [(s, []); (st s YWaitCRA, if y_link s then [YSendS1F13] else [])]   (* E30: any message ends the delay; the library ignores it *)
    | _ => [(s, [])]                                                                    (* nothing reaches the application while not communicating *)
    end
  | YT3 => match y_state s with YWaitCRA => [(st s YWaitDelay, [])] | _ => [(s, [])] end
  | YDelay => match y_state s with YWaitDelay => [(st s YWaitCRA, if y_link s then [YSendS1F13] else [])] | _ => [(s, [])] end
  end.
