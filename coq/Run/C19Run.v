(* Run/C19Run.v — correspondence glue for C19 (SFDL). *)
From Coq Require Import Ascii.
From SG Require Import Base.Prelude Base.Kinds Spec.SfdlDoc Model.Secs2 Model.Sfdl Gen.DataItems.
Open Scope N_scope.

Fixpoint shape_eqb (a b : shape) {struct a} : bool :=
  match a, b with
  | ShItem x, ShItem y => String.eqb x y
  | ShArray x, ShArray y => shape_eqb x y
  | ShRecord x, ShRecord y =>
    (fix go (x y : list (string * shape)) {struct x} : bool :=
       match x, y with
       | [], [] => true
       | (k, s) :: x', (k', s') :: y' => String.eqb k k' && shape_eqb s s' && go x' y'
       | _, _ => false
       end) x y
  | _, _ => false
  end.

Fixpoint shape_of_sty (s : sty) : shape :=
  match s with
  | SLeaf n _ => ShItem n
  | SArr e => ShArray (shape_of_sty e)
  | SRec fs => ShRecord (map (fun p => (fst p, shape_of_sty (snd p))) fs)
  end.

Record c19case := {
  q_text : text;
  q_ast : option sast;            (* the definition the text was rendered from (None: mutated / arbitrary text) *)
  q_mutation : N;                 (* 0 none; 1 a closing bracket removed; 2 a data item name replaced by an unknown one *)
  q_ok : bool;                    (* generate(text) returned *)
  q_shape : shape                 (* observed structure (ShItem "" when it raised) *)
}.

Definition model_agree19 (c : c19case) : N :=
  match sfdl_structure (q_text c) with
  | Err EUnmodelled => 1
  | Err EOutOfFuel => 19
  | Err _ => if q_ok c then 10 else 0
  | Ok s => if negb (q_ok c) then 11 else if shape_eqb (shape_of_sty s) (q_shape c) then 0 else 12
  end.

Definition spec_holds19 (c : c19case) : N :=
  match q_mutation c, q_ast c with
  | 0, Some a => if negb (keys_distinct a) || negb (naming_supported a) then 1 else
                 if negb (q_ok c) then 30 else if shape_eqb (doc_shape a) (q_shape c) then 0 else 31
  | 0, None => 1
  | _, _ => if q_ok c then 32 else 0          (* missing closing bracket / unknown data item must be rejected *)
  end.

Definition run_c19 (cs : list c19case) : list (N * N * N) * N * N :=
  let fix go (i : N) (cs : list c19case) (bad : list (N * N * N)) (skipped checked : N) :=
    match cs with
    | [] => (rev bad, skipped, checked)
    | c :: r =>
      let m := model_agree19 c in
      let s := spec_holds19 c in
      go (i + 1) r (if (m <=? 1) && (s <=? 1) then bad else (i, m, s) :: bad)
         (if m =? 1 then skipped + 1 else skipped) (if s =? 0 then checked + 1 else checked)
    end in
  go 0 cs [] 0 0.
