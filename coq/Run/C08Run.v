(* Run/C08Run.v — correspondence glue for C08. *)
From SG Require Import Base.Prelude Gen.Callbacks Model.Dispatch.
Open Scope Z_scope.

(* b_user: the harness registered a callback of its own for this stream/function that raises *)
Record c08case := { b_host : bool; b_s : Z; b_f : Z; b_w : bool; b_replies : list reply; b_system_ok : bool; b_header_ok : bool; b_user : bool }.
Definition tab_of (c : c08case) :=
  let tab := if b_host c then host_callbacks else equipment_callbacks in
  if b_user c then ((b_s c, b_f c), [KReply (b_s c) (b_f c + 1)]) :: tab else tab.

Definition outcomes_of (c : c08case) : list outcome :=
  if b_user c then [ORaise] else
  match lookup_cb (tab_of c) (b_s c) (b_f c) with
  | None => [ORaise]
  | Some ks => ORaise :: map OReturn ks ++ flat_map (fun k => match k with KSentMayRaise a b => [OSentRaise a b] | _ => [] end) ks
  end.

(* the observed replies are what the model produces for one of the outcomes the callback's source admits *)
Definition model_agree08 (c : c08case) : N :=
  if existsb (fun o => list_eqb reply_eqb (dispatch (tab_of c) (b_s c) (b_f c) (b_w c) o) (b_replies c)) (outcomes_of c) then 0%N else 12%N.

(* C08 as stated, on the observation *)
Definition spec_holds08 (c : c08case) : N :=
  if negb (b_system_ok c) then 33%N
  else if b_user c && b_w c then
    (* the registered callback is the harness' own and it always fails: the answer is the stream's abort (or S9F5 where no abort function exists) *)
    match b_replies c with
    | [RAbort s'] => if s' =? b_s c then 0%N else 35%N
    | [RS9F5] => if has_abort (b_s c) then 35%N else (if b_header_ok c then 0%N else 34%N)
    | _ => 35%N
    end
  else if b_w c then (if answered_once (b_s c) (b_f c) (b_replies c) then (if b_header_ok c then 0%N else 34%N) else 31%N)
  else match b_replies c with
       | [] => 0%N
       | [RAbort _] => 0%N                 (* handled with an error: not covered by the last sentence *)
       | [RSec _ _] => 36%N                (* the callback's result sent although no W-bit (known finding C08-reply-without-wbit) *)
       | _ => 37%N
       end.

Definition run_c08 (cs : list c08case) : list (N * N * N) * N * N :=
  let fix go (i : N) (cs : list c08case) (bad : list (N * N * N)) (skipped checked : N) :=
    match cs with
    | [] => (rev bad, skipped, checked)
    | c :: r =>
      let m := model_agree08 c in
      let s := spec_holds08 c in
      go (i + 1)%N r (if (m <=? 1)%N && (s <=? 1)%N then bad else (i, m, s) :: bad)
         (if (m =? 1)%N then (skipped + 1)%N else skipped) (if (s =? 0)%N then (checked + 1)%N else checked)
    end in
  go 0%N cs [] 0%N 0%N.
