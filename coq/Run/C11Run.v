(* Run/C11Run.v — correspondence glue for C11 (GEM control state). *)
From SG Require Import Base.Prelude Spec.E30Control Model.GemControl Gen.Machines Gen.ControlLogic.
Open Scope Z_scope.
Open Scope string_scope.

Record c11case := { k_init : string; k_sub : string; k_ops : list xop; k_outs : list (list xout); k_states : list nat; k_svs : list Z }.

Definition count_x (o : xout) (l : list xout) : nat := length (filter (xout_eqb o) l).
Definition xouts_same (a b : list xout) : bool := (length a =? length b)%nat && forallb (fun o => (count_x o a =? count_x o b)%nat) a.

Fixpoint model_go (st : cst) (ops : list xop) (outs : list (list xout)) (states : list nat) (svs : list Z) : N :=
  match ops, outs, states, svs with
  | o :: opr, out :: outr, q :: qr, v :: vr =>
    let '(st1, mo) := gc_step st o in
    if negb (xouts_same mo out) then 12%N
    else if negb (nth (c_cur st1) control_state_enum 99 =? q)%nat then 13%N
    else if negb (gc_sv st1 =? v)%Z then 14%N
    else model_go st1 opr outr qr vr
  | [], [], [], [] => 0%N
  | _, _, _, _ => 15%N
  end.
Definition model_agree11 (c : c11case) : N := model_go (gc_init (k_init c) (k_sub c)) (k_ops c) (k_outs c) (k_states c) (k_svs c).

Definition enum_of_x (s : xstate) : nat := match s with EqOffline => 3 | HostOffline => 5 | OnlineLocal => 7 | OnlineRemote => 8 end%nat.
Definition xinit_of (s : string) : option xinit :=
  if String.eqb s "EQUIPMENT_OFFLINE" then Some IEqOffline else if String.eqb s "ATTEMPT_ONLINE" then Some IAttemptOnline
  else if String.eqb s "HOST_OFFLINE" then Some IHostOffline else if String.eqb s "ONLINE" then Some IOnline else None.

Fixpoint spec_go (s : e30) (ops : list xop) (outs : list (list xout)) (states : list nat) (svs : list Z) : N :=
  match ops, outs, states, svs with
  | o :: opr, out :: outr, q :: qr, v :: vr =>
    let '(s1, alts) := e30_step s o in
    if negb (q =? enum_of_x (x_state s1))%nat then
      match o, x_state s with XOffline, HostOffline => 37%N | _, _ => 32%N end    (* 37: transition 12 *)
    else if negb (existsb (xouts_same out) alts) then 31%N
    else if negb (v =? e30_sv s1)%Z then 34%N
    else spec_go s1 opr outr qr vr
  | [], [], [], [] => 0%N
  | _, _, _, _ => 33%N
  end.
Definition spec_holds11 (c : c11case) : N :=
  match xinit_of (k_init c) with
  | None => 1%N
  | Some i => spec_go (e30_init i (String.eqb (k_sub c) "REMOTE")) (k_ops c) (k_outs c) (k_states c) (k_svs c)
  end.

Definition run_c11 (cs : list c11case) : list (N * N * N) * N * N :=
  let fix go (i : N) (cs : list c11case) (bad : list (N * N * N)) (skipped checked : N) :=
    match cs with
    | [] => (rev bad, skipped, checked)
    | c :: r =>
      let m := model_agree11 c in
      let s := spec_holds11 c in
      go (i + 1)%N r (if (m <=? 1)%N && (s <=? 1)%N then bad else (i, m, s) :: bad)
         (if (m =? 1)%N then (skipped + 1)%N else skipped) (if (s =? 0)%N then (checked + 1)%N else checked)
    end in
  go 0%N cs [] 0%N 0%N.
