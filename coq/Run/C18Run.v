(* Run/C18Run.v — correspondence glue for C18 (state machine engine). *)
From SG Require Import Base.Prelude Spec.StateChart Model.StateMachine.
Open Scope nat_scope.

Definition evt_eqb (a b : evt) : bool :=
  match a, b with
  | Enter x, Enter y | Leave x, Leave y => x =? y
  | Called x, Called y | PostCalled x, PostCalled y => String.eqb x y
  | PostEnter x, PostEnter y | PostLeave x, PostLeave y => x =? y
  | _, _ => false
  end.
Definition is_primary (e : evt) : bool := match e with Enter _ | Leave _ | Called _ => true | _ => false end.

Record c18case := {
  k_machine : machine;
  k_handlers : list (evt * list string);
  k_one_shot : list evt;          (* handlers that make their requests only the first time they run *)
  k_init : nat;
  k_requests : list string;
  (* observed on the implementation *)
  k_cur : nat;
  k_active : list bool;
  k_log : list evt;
  k_raised : list bool
}.

Definition handlers_of (tbl : list (evt * list string)) : handlers :=
  fun e => match find (fun p => evt_eqb (fst p) e) tbl with Some p => snd p | None => [] end.

Definition init_state (m : machine) (s0 : nat) : sm :=
  {| cur := s0; active := active_after (m_parent m) s0; log := []; spent := [] |}.

Definition model_agree18 (c : c18case) : N :=
  let m := k_machine c in
  let '(st, rs) := run_seq m (handlers_of (k_handlers c)) (fun e => existsb (evt_eqb e) (k_one_shot c)) 64 (init_state m (k_init c)) (k_requests c) in
  if negb (cur st =? k_cur c) then 10%N else
  if negb (list_eqb Bool.eqb (active st) (k_active c)) then 11%N else
  if negb (list_eqb evt_eqb (log st) (k_log c)) then 12%N else
  if negb (list_eqb Bool.eqb rs (k_raised c)) then 13%N else 0%N.

(* reference run for machines whose callbacks request nothing; the bool says whether every step was
   between unrelated states (then the event multiset is prescribed exactly) *)
Fixpoint ref_run (m : machine) (s : nat) (reqs : list string) : nat * list evt * list bool * bool :=
  match reqs with
  | [] => (s, [], [], true)
  | name :: r =>
    match find (fun t => String.eqb (fst (fst t)) name) (m_trans m) with
    | Some (_, srcs, dst) =>
      if mem s srcs then
        let '(s', ev, rs, exact) := ref_run m dst r in
        (s', map Leave (exits (m_parent m) s dst) ++ map Enter (enters (m_parent m) s dst) ++ [Called name] ++ ev, false :: rs,
         exact && negb (related (m_parent m) s dst))
      else let '(s', ev, rs, exact) := ref_run m s r in (s', ev, true :: rs, exact)
    | None => let '(s', ev, rs, exact) := ref_run m s r in (s', ev, true :: rs, exact)
    end
  end.

Definition count (e : evt) (l : list evt) : nat := length (filter (evt_eqb e) l).
(* same events, each the same number of times, transition by transition order of Called preserved *)
Fixpoint same_multiset (a b : list evt) : bool :=
  (length a =? length b) && forallb (fun e => count e a =? count e b) a.

Definition is_flat (m : machine) : bool := forallb (fun p => match p with None => true | Some _ => false end) (m_parent m).
Definition requests_nothing (c : c18case) : bool := forallb (fun p => match snd p with [] => true | _ => false end) (k_handlers c).
Definition only_enter_called (c : c18case) : bool :=
  forallb (fun p => match fst p, snd p with Leave _, _ :: _ => false | _, _ => true end) (k_handlers c).

Definition spec_holds18 (c : c18case) : N :=
  let m := k_machine c in
  if negb (forest_ok (m_parent m)) then 1%N else
  if requests_nothing c then
    let '(s', ev, rs, exact) := ref_run m (k_init c) (k_requests c) in
    if negb (list_eqb Bool.eqb rs (k_raised c)) then 30%N else          (* allowed/disallowed verdicts *)
    if negb (s' =? k_cur c) then 31%N else                              (* reached exactly the destination *)
    if negb (list_eqb Bool.eqb (active_after (m_parent m) s') (k_active c)) then 32%N else
    if exact && negb (same_multiset ev (filter is_primary (k_log c))) then 33%N else
    (* every callback registered on an event ran: one later-callback record per event *)
    if negb (same_multiset (map post_of (filter is_primary (k_log c))) (filter (fun e => negb (is_primary e)) (k_log c))) then 34%N else
    (* in every case: one called event per performed transition *)
    if negb (length (filter (fun e => match e with Called _ => true | _ => false end) (k_log c)) =? length (filter negb rs)) then 33%N else 0%N
  else if is_flat m && only_enter_called c && negb (existsb (fun b => b) (k_raised c)) then
    (* nested requests from enter/called handlers of a flat machine: consistent end state, one leave/enter/called per performed transition *)
    if negb (list_eqb Bool.eqb (active_after (m_parent m) (k_cur c)) (k_active c)) then 32%N else
    let nl := length (filter (fun e => match e with Leave _ => true | _ => false end) (k_log c)) in
    let ne := length (filter (fun e => match e with Enter _ => true | _ => false end) (k_log c)) in
    let nc := length (filter (fun e => match e with Called _ => true | _ => false end) (k_log c)) in
    if negb ((nl =? ne) && (ne =? nc)) then 33%N else
    if negb (same_multiset (map post_of (filter is_primary (k_log c))) (filter (fun e => negb (is_primary e)) (k_log c))) then 34%N else 0%N
  else 1%N.

Definition run_c18 (cs : list c18case) : list (N * N * N) * N * N :=
  let fix go (i : N) (cs : list c18case) (bad : list (N * N * N)) (skipped checked : N) :=
    match cs with
    | [] => (rev bad, skipped, checked)
    | c :: r =>
      let mm := model_agree18 c in
      let s := spec_holds18 c in
      go (i + 1)%N r (if (mm <=? 1)%N && (s <=? 1)%N then bad else (i, mm, s) :: bad)
         (if (mm =? 1)%N then (skipped + 1)%N else skipped) (if (s =? 0)%N then (checked + 1)%N else checked)
    end in
  go 0%N cs [] 0%N 0%N.
