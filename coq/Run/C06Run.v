(* Run/C06Run.v — correspondence glue for C06. *)
From SG Require Import Base.Prelude Model.AllocLang Model.Alloc Gen.Alloc.
Open Scope Z_scope.

Inductive c06case :=
| KRoute (waiting : list Z) (arrivals : list (Z * Z * bool)) (answers : list (option Z)) (app : list (Z * Z))
| KAlloc (c0 : Z) (observed : list Z).

Definition oz_eqb (a b : option Z) : bool := match a, b with Some x, Some y => x =? y | None, None => true | _, _ => false end.
Definition pair_eqb (a b : Z * Z) : bool := (fst a =? fst b) && (snd a =? snd b).

Fixpoint alloc_seq (n : nat) (c : Z) : list Z :=
  match n with O => [] | S k => let '(c1, t) := run_alone alloc_prog (length alloc_prog) c thr0 in match t_res t with Some r => r :: alloc_seq k c1 | None => [] end end.

Definition model_agree06 (c : c06case) : N :=
  match c with
  | KRoute waiting arrivals answers app =>
    let '(w1, mapp) := route (map (fun k => (k, [])) waiting) arrivals in
    if negb (list_eqb oz_eqb (map (answer_of w1) waiting) answers) then 12%N
    else if negb (list_eqb pair_eqb mapp app) then 13%N else 0%N
  | KAlloc c0 observed => if list_eqb Z.eqb (alloc_seq (length observed) c0) observed then 0%N else 14%N
  end.

(* the statement, directly *)
Definition spec_holds06 (c : c06case) : N :=
  match c with
  | KRoute waiting arrivals answers app =>
    if negb (distinct waiting) then 31%N
    (* the statement: a requester gets the first message that is a reply (no W-bit) with its system bytes; every other message,
       primaries of the peer with the same system bytes included, reaches the application once, in arrival order *)
    else if negb (list_eqb oz_eqb (map (fun k => option_map (fun a => snd (fst a)) (find (fun a => (fst (fst a) =? k) && negb (snd a)) arrivals)) waiting) answers) then 32%N
    else if negb (list_eqb pair_eqb (map fst (filter (fun a => snd a || negb (existsb (Z.eqb (fst (fst a))) waiting)) arrivals)) app) then 33%N
    else 0%N
  | KAlloc c0 observed =>
    if negb (distinct observed) then 34%N
    else if negb (list_eqb Z.eqb (map (fun i => (c0 + Z.of_nat i) mod 4294967296) (seq 1 (length observed))) observed) then 35%N else 0%N
  end.

Definition run_c06 (cs : list c06case) : list (N * N * N) * N * N :=
  let fix go (i : N) (cs : list c06case) (bad : list (N * N * N)) (skipped checked : N) :=
    match cs with
    | [] => (rev bad, skipped, checked)
    | c :: r =>
      let m := model_agree06 c in
      let s := spec_holds06 c in
      go (i + 1)%N r (if (m <=? 1)%N && (s <=? 1)%N then bad else (i, m, s) :: bad)
         (if (m =? 1)%N then (skipped + 1)%N else skipped) (if (s =? 0)%N then (checked + 1)%N else checked)
    end in
  go 0%N cs [] 0%N 0%N.

(* search, used when the distinctness theorem no longer checks: all interleavings of two threads running the translated
   program operation by operation (when it is not locked); returns a schedule on which both obtain the same value *)
Fixpoint interleavings (a b : nat) (fuel : nat) : list (list nat) :=
  match fuel with
  | O => [[]]
  | S f =>
    match a, b with
    | O, O => [[]]
    | S a', O => map (cons 0%nat) (interleavings a' O f)
    | O, S b' => map (cons 1%nat) (interleavings O b' f)
    | S a', S b' => map (cons 0%nat) (interleavings a' b f) ++ map (cons 1%nat) (interleavings a b' f)
    end
  end.
Definition race_on (sched : list nat) : bool :=
  let s := run_sched alloc_locked alloc_prog (start 2 100) sched in
  match map t_res (s_thr s) with [Some x; Some y] => x =? y | _ => false end.
Definition find_race (ops : nat) : option (list nat) := find race_on (interleavings ops ops (2 * ops)).
