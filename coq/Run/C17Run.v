(* Run/C17Run.v — correspondence glue for C17 (SECS-I line protocol). *)
From SG Require Import Base.Prelude Base.Kinds Gen.ProtoConsts Model.Secs2 Model.Frames Model.SecsILine.
Open Scope N_scope.

Inductive c17case :=
| LRecv (chunks : list (list N)) (line : list N) (delivered : nat) (expect_valid : nat) (corrupted : bool)
| LRecvLen (chunks : list (list N)) (line : list N) (delivered : nat) (raised : bool)   (* one block whose LENGTH byte was changed (raised / lowered) *)
| LSend (blocks : list (list N)) (answers : list N) (sent : list (list N)) (result : option bool).

Definition nl_eqb (a b : list N) : bool := list_eqb N.eqb a b.
Definition ob_eqb (a b : option bool) : bool := match a, b with Some x, Some y => Bool.eqb x y | None, None => true | _, _ => false end.

Definition model_agree17 (c : c17case) : N :=
  match c with
  | LRecv chunks line delivered _ _ =>
    let '(_, outs) := srx_chunks RIdle chunks in
    if negb (nl_eqb (flat_map line_bytes outs) line) then 12%N
    else if negb (length (filter (fun o => match o with Got _ => true | _ => false end) outs) =? delivered)%nat then 13%N else 0%N
  | LRecvLen chunks line delivered raised =>
    (* lowered: what the receiver makes of the bytes left behind the short block depends on when it is triggered again (not modelled) *)
    if negb raised then 1%N else
    let '(_, outs) := srx_chunks RIdle chunks in
    if negb (nl_eqb (flat_map line_bytes outs) line) then 12%N
    else if negb (length (filter (fun o => match o with Got _ => true | _ => false end) outs) =? delivered)%nat then 13%N else 0%N
  | LSend blocks answers sent result =>
    let '(msent, mres) := stx blocks answers in
    if negb (list_eqb nl_eqb msent sent) then 14%N else if negb (ob_eqb mres result) then 15%N else 0%N
  end.

Definition is_enq (c : list N) : bool := nl_eqb c [secsi_ENQ].
Definition started_after_eot (sent : list (list N)) (answers : list N) : bool :=
  forallb (fun i => is_enq (nth i sent []) ||
                    match i with O => false | S j => is_enq (nth j sent []) && (j <? length answers)%nat && (nth j answers 0 =? secsi_EOT) end)
          (seq 0 (length sent)).

(* the statement on the observation: a stream of valid announced blocks -> per block EOT and ACK, each delivered once;
   one corrupted block -> EOT NAK and nothing delivered; the sender reports success exactly when all blocks were acknowledged *)
Definition spec_holds17 (c : c17case) : N :=
  match c with
  | LRecv chunks line delivered expect_valid corrupted =>
    if corrupted then (if nl_eqb line [secsi_EOT; secsi_NAK] && (delivered =? 0)%nat then 0%N else 31%N)
    else if nl_eqb line (flat_map (fun _ => [secsi_EOT; secsi_ACK]) (seq 0 expect_valid)) && (delivered =? expect_valid)%nat then 0%N else 32%N
  | LRecvLen chunks line delivered raised =>
    (* 39: not answered with exactly EOT NAK (known finding C17-length-byte: no T1/T2 timers, no resynchronisation); 40: delivered *)
    if negb (delivered =? 0)%nat then 40%N else if nl_eqb line [secsi_EOT; secsi_NAK] then 0%N else 39%N
  | LSend blocks answers sent result =>
    (* the line is a strict alternation: every chunk the sender puts on it (ENQ or a block) is followed by one byte of the peer, so
       chunk i+1 was sent after answer i.  38: a block that was not announced by ENQ or was started although the answer to that ENQ
       was not EOT *)
    if negb (started_after_eot sent answers) then 38%N else
    let blk_idx := filter (fun i => negb (is_enq (nth i sent []))) (seq 0 (length sent)) in
    let all_acked := forallb (fun i => (i <? length answers)%nat && (nth i answers 0 =? secsi_ACK)) blk_idx in
    match result with
    | Some true => if all_acked && list_eqb nl_eqb (map (fun i => nth i sent []) blk_idx) blocks then 0%N else 33%N
    | Some false => if all_acked && (length blk_idx =? length blocks)%nat then 34%N else 0%N
    | None => 1%N
    end
  end.

Definition run_c17 (cs : list c17case) : list (N * N * N) * N * N :=
  let fix go (i : N) (cs : list c17case) (bad : list (N * N * N)) (skipped checked : N) :=
    match cs with
    | [] => (rev bad, skipped, checked)
    | c :: r =>
      let m := model_agree17 c in
      let s := spec_holds17 c in
      go (i + 1)%N r (if (m <=? 1)%N && (s <=? 1)%N then bad else (i, m, s) :: bad)
         (if (m =? 1)%N then (skipped + 1)%N else skipped) (if (s =? 0)%N then (checked + 1)%N else checked)
    end in
  go 0%N cs [] 0%N 0%N.
