(* Run/C02Run.v — correspondence glue for C02: a byte string is given to the implementation's
   decoder (fresh variable of type t); the observation is compared with the model and judged by
   the reference decoder alone. *)
From SG Require Import Base.Prelude Base.Kinds Base.Float Gen.VarConsts Spec.E5 Model.Secs2 Model.Denote Model.Admits Run.C01Run.
Open Scope N_scope.

Record dobs := {
  d_ty : ty;
  d_bytes : list N;
  d_ok : bool;                 (* decode returned *)
  d_val : val;                 (* internal state after decode *)
  d_end : N;                   (* returned position *)
  d_reenc : option (list N)    (* encode() of the decoded object *)
}.

Definition dmodel_agree (o : dobs) : N :=
  match py_decode (S (length (d_bytes o))) (d_ty o) (d_bytes o) 0 with
  | Err EUnmodelled => 1
  | Err EOutOfFuel => 19
  | Err _ => if d_ok o then 17 else 0
  | Ok (v, _, pos) =>
    if negb (d_ok o) then 18 else
    if negb (val_eqb v (d_val o)) then 12 else
    if negb (pos =? d_end o) then 20 else
    match py_encode v, d_reenc o with
    | Err EUnmodelled, _ => 1
    | Err _, None => 0
    | Ok e, Some e' => if list_eqb N.eqb e e' then 0 else 16
    | Err _, Some _ => 14
    | Ok _, None => 15
    end
  end.

(* reference: if the reference decoder accepts the bytes and the type admits the item, the
   implementation must return exactly that item's value, the reference's end position, and
   re-encode canonically *)
(* the catch-all types (ANYVALUE, a Dynamic without a type list) are defined to take ANY item: judged against E5's item kinds, not
   against the type list the source happens to give ANYVALUE (a kind missing there, at the top or inside a list, is a violation) *)
Fixpoint admits_open (i : e5item) : bool :=
  match i with
  | EL l => forallb admits_open l
  | _ => match kind_of_item i with Some k => scalar_admits k (-1) i | None => false end
  end.
Definition is_catch_all (t : ty) : bool :=
  match t with
  | TDyn allowed c => (c =? -1)%Z && match allowed with [] => true | _ => list_eqb dkind_eqb allowed anyvalue_types end
  | _ => false
  end.

Definition dspec_holds (o : dobs) : N :=
  if negb (bytesb (d_bytes o)) then 1 else
  match e5_decode (length (d_bytes o)) (d_bytes o) with
  | None => 1
  | Some (i, rest) =>
    if negb (if is_catch_all (d_ty o) then admits_open i else admits i (d_ty o)) then 1 else
    if negb (d_ok o) then 32 else
    if negb (val_eqb (embed i (d_ty o)) (d_val o)) then 34 else
    if negb (d_end o =? nlen (d_bytes o) - nlen rest) then 33 else
    match d_reenc o with
    | None => 30
    | Some e => if list_eqb N.eqb e (e5_encode i) then 0 else 31
    end
  end.

Definition run_dcases (cs : list dobs) : list (N * N * N) * N * N :=
  let fix go (i : N) (cs : list dobs) (bad : list (N * N * N)) (skipped checked : N) :=
    match cs with
    | [] => (rev bad, skipped, checked)
    | c :: r =>
      let m := dmodel_agree c in
      let s := dspec_holds c in
      go (i + 1) r (if (m <=? 1) && (s <=? 1) then bad else (i, m, s) :: bad)
         (if m =? 1 then skipped + 1 else skipped) (if s =? 0 then checked + 1 else checked)
    end in
  go 0 cs [] 0 0.
