(* Run/C13Run.v — correspondence glue for C13 (status variables, constants, alarms). *)
From SG Require Import Base.Prelude Spec.E5Reports Spec.E5Data Model.EquipData.
Open Scope Z_scope.

Record c13step := { d_op : dop; d_out : dout; d_ecv : list (id * num); d_al : list (id * (bool * bool)); d_sv : list (id * Z) }.
Record c13case := { d_init : dtab; d_steps : list c13step }.

Definition onum_eqb (a b : option num) : bool := match a, b with Some x, Some y => num_eqb x y | None, None => true | _, _ => false end.
Definition oz_eqb (a b : option Z) : bool := match a, b with Some x, Some y => x =? y | None, None => true | _, _ => false end.
Definition dout_eqb (a b : dout) : bool :=
  match a, b with
  | DValues x, DValues y => list_eqb oz_eqb x y
  | DNames x, DNames y => list_eqb (fun p q => id_eqb (fst (fst p)) (fst (fst q)) && String.eqb (snd (fst p)) (snd (fst q)) && String.eqb (snd p) (snd q)) x y
  | DConsts x, DConsts y => list_eqb onum_eqb x y
  | DConstNames x, DConstNames y =>
    list_eqb (fun p q => match p, q with (k, n, r, u), (k', n', r', u') =>
                id_eqb k k' && String.eqb n n' && String.eqb u u' &&
                match r, r' with
                | Some (lo, hi, df), Some (lo', hi', df') => onum_eqb lo lo' && onum_eqb hi hi' && num_eqb df df'
                | None, None => true | _, _ => false end end) x y
  | DAck x, DAck y => x =? y
  | DAlarms x, DAlarms y => list_eqb (fun p q => id_eqb (fst (fst p)) (fst (fst q)) && (snd (fst p) =? snd (fst q)) && String.eqb (snd p) (snd q)) x y
  | DReport c k, DReport c' k' => (c =? c') && id_eqb k k'
  | DAlarmLists e s, DAlarmLists e' s' => list_eqb id_eqb e e' && list_eqb id_eqb s s'
  | DNone, DNone | DAbort, DAbort => true
  | _, _ => false
  end.

Definition snap_ok (t : dtab) (s : c13step) : bool :=
  list_eqb (fun p q => id_eqb (fst p) (fst q) && num_eqb (snd p) (snd q)) (map (fun p => (fst p, ec_value (snd p))) (ecs t)) (d_ecv s) &&
  list_eqb (fun p q => id_eqb (fst p) (fst q) && Bool.eqb (fst (snd p)) (fst (snd q)) && Bool.eqb (snd (snd p)) (snd (snd q)))
           (map (fun p => (fst p, (al_enabled (snd p), al_set (snd p)))) (alarms t)) (d_al s) &&
  list_eqb (fun p q => id_eqb (fst p) (fst q) && (snd p =? snd q)) (map (fun p => (fst p, sv_value (snd p))) (svs t)) (d_sv s).

Fixpoint model_go13 (t : dtab) (steps : list c13step) : N :=
  match steps with
  | [] => 0%N
  | s :: r => let '(t1, out) := ed_step t (d_op s) in
              if negb (dout_eqb out (d_out s)) then 12%N else if negb (snap_ok t1 s) then 13%N else model_go13 t1 r
  end.
Definition model_agree13 (c : c13case) : N := model_go13 (d_init c) (d_steps c).

Fixpoint spec_go13 (t : dtab) (steps : list c13step) : N :=
  match steps with
  | [] => 0%N
  | s :: r =>
    match e5d_step t (d_op s) with
    | None => 0%N
    | Some (t1, alts) =>
      if negb (existsb (fun alt => existsb (dout_eqb (d_out s)) alt) alts) then
        match d_op s with DSetEC _ => 31%N | DSetAlarm _ | DClearAlarm _ => 33%N | DListAlarms _ | DListEnabled | DAlarmEnable _ _ => 34%N | _ => 32%N end
      else if negb (snap_ok t1 s) then match d_op s with DSetEC _ => 35%N | _ => 36%N end
      else if negb (ecs_in_range t1) then 37%N
      else spec_go13 t1 r
    end
  end.
Definition spec_holds13 (c : c13case) : N := if ecs_in_range (d_init c) then spec_go13 (d_init c) (d_steps c) else 1%N.

Definition run_c13 (cs : list c13case) : list (N * N * N) * N * N :=
  let fix go (i : N) (cs : list c13case) (bad : list (N * N * N)) (skipped checked : N) :=
    match cs with
    | [] => (rev bad, skipped, checked)
    | c :: r =>
      let m := model_agree13 c in
      let s := spec_holds13 c in
      go (i + 1)%N r (if (m <=? 1)%N && (s <=? 1)%N then bad else (i, m, s) :: bad)
         (if (m =? 1)%N then (skipped + 1)%N else skipped) (if (s =? 0)%N then (checked + 1)%N else checked)
    end in
  go 0%N cs [] 0%N 0%N.
