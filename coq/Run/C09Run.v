(* Run/C09Run.v — correspondence glue for C09. *)
From SG Require Import Base.Prelude Base.Kinds Spec.E37Session Model.StateMachine Model.Secs2 Model.Frames Model.HsmsRx Model.HsmsSession Model.Endpoint Gen.Machines Run.C05Run.
Open Scope Z_scope.

Record c09case := {
  r_events : list lev; r_outs : list (list sout);
  r_lens : list nat; r_cut : nat; r_delivered : nat;            (* sizes of the frames of the stream, where it was cut, how many messages were dispatched from the prefix *)
  r_state_after_close : nat; r_buf_after_close : nat; r_threads_after_close : nat; r_send_queue_after_close : nat;
  r_final_state : nat }.

Fixpoint whole_count (cut : nat) (lens : list nat) : nat :=
  match lens with [] => 0 | l :: r => if (l <=? cut)%nat then S (whole_count (cut - l) r) else 0 end.

Definition model_agree09 (c : c09case) : N :=
  let '(e, outs) := ep_run ep0 (r_events c) in
  if negb (list_eqb outs_same outs (r_outs c)) then 12%N
  else if negb (nth (cur (h_sm (e_hs e))) connection_state_enum 99 =? r_final_state c)%nat then 13%N
  else 0%N.

Definition spec_holds09 (c : c09case) : N :=
  if negb (r_delivered c =? whole_count (r_cut c) (r_lens c))%nat then 31%N          (* exactly the complete messages *)
  else if negb (r_state_after_close c =? 0)%nat then 32%N                             (* NOT CONNECTED *)
  else if negb (r_buf_after_close c =? 0)%nat then 33%N                               (* no stale bytes *)
  else if negb (r_threads_after_close c =? 0)%nat then 34%N                           (* disconnect handling finished *)
  else if negb (r_send_queue_after_close c =? 0)%nat then 35%N
  else if negb (r_final_state c =? 3)%nat then 36%N                                   (* the next connection selects *)
  else match rev (r_outs c) with
       | last :: _ => if existsb (fun o => match o with OutCtrl 2 _ => true | _ => false end) last then 0%N else 37%N
       | [] => 37%N
       end.

Definition run_c09 (cs : list c09case) : list (N * N * N) * N * N :=
  let fix go (i : N) (cs : list c09case) (bad : list (N * N * N)) (skipped checked : N) :=
    match cs with
    | [] => (rev bad, skipped, checked)
    | c :: r =>
      let m := model_agree09 c in
      let s := spec_holds09 c in
      go (i + 1)%N r (if (m <=? 1)%N && (s <=? 1)%N then bad else (i, m, s) :: bad)
         (if (m =? 1)%N then (skipped + 1)%N else skipped) (if (s =? 0)%N then (checked + 1)%N else checked)
    end in
  go 0%N cs [] 0%N 0%N.

(* ---- one run of _process_send_queue: blocks by their packet counts, the send_data results in order, and how each block ended ---- *)
From SG Require Import Gen.SendQueue Model.SendQueue.
Record c09qcase := { q_blocks : list nat; q_writes : list bool; q_results : list (option bool) }.
Definition ob_eqb9 (a b : option bool) : bool := match a, b with Some x, Some y => Bool.eqb x y | None, None => true | _, _ => false end.
Definition run_c09q (cs : list c09qcase) : list (N * N * N) * N * N :=
  let fix go (i : N) (cs : list c09qcase) (bad : list (N * N * N)) (checked : N) :=
    match cs with
    | [] => (rev bad, 0%N, checked)
    | c :: r =>
      let m := if list_eqb ob_eqb9 (process_queue send_queue_after_failure (q_blocks c) (q_writes c)) (q_results c) then 0%N else 16%N in
      (* the statement: with enough answers from the connection no block stays unresolved *)
      let enough := (fold_right Nat.add 0 (q_blocks c) <=? length (q_writes c))%nat in
      let s := if enough && existsb (fun r => match r with None => true | _ => false end) (q_results c) then 38%N else 0%N in
      go (i + 1)%N r (if (m =? 0)%N && (s =? 0)%N then bad else (i, m, s) :: bad) (checked + 1)%N
    end in
  go 0%N cs [] 0%N.
