(* Run/C05Run.v — correspondence glue for C05 (HSMS session). *)
From SG Require Import Base.Prelude Spec.E37Session Model.StateMachine Model.HsmsSession Gen.Machines.
Open Scope Z_scope.

(* one history: events with, for each, the outputs observed and the connection state enum afterwards *)
Record c05case := { w_events : list sevent; w_outs : list (list sout); w_states : list nat }.

Fixpoint count_out (o : sout) (l : list sout) : nat := length (filter (sout_eqb o) l).
Definition outs_same (a b : list sout) : bool := (length a =? length b)%nat && forallb (fun o => (count_out o a =? count_out o b)%nat) a.

Fixpoint model_states (s : hs) (es : list sevent) : list nat :=
  match es with [] => [] | e :: r => let s1 := fst (hs_step s e) in nth (cur (h_sm s1)) connection_state_enum 99%nat :: model_states s1 r end.

Definition model_agree05 (c : c05case) : N :=
  let '(_, outs) := hs_run hs0 (w_events c) in
  if negb (list_eqb outs_same outs (w_outs c)) then 12%N else
  if negb (list_eqb Nat.eqb (model_states hs0 (w_events c)) (w_states c)) then 13%N else 0%N.

Definition enum_of (s : sstate) : nat := match s with NotConnected => 0 | NotSelected => 2 | Selected => 3 end%nat.

(* follow the E37 reference as long as it prescribes the reaction *)
Fixpoint spec_run (s : sess) (es : list sevent) (outs : list (list sout)) (states : list nat) : N :=
  match es, outs, states with
  | e :: er, o :: or, q :: qr =>
    match e37_step s e with
    | None => 0%N                                   (* from here on the standard (as quoted) says nothing *)
    | Some (s', expected) =>
      if negb (outs_same expected o) then 31%N
      else if negb (q =? enum_of (st s'))%nat then
        match e with EvCtrl 9 _ _ => 36%N | _ => 32%N end      (* 36: the Separate.req rule (known finding C05-separate-ignored) *)
      else spec_run s' er or qr
    end
  | [], _, _ => 0%N
  | _, _, _ => 33%N
  end.
Definition spec_holds05 (c : c05case) : N := spec_run sess0 (w_events c) (w_outs c) (w_states c).

Definition run_c05 (cs : list c05case) : list (N * N * N) * N * N :=
  let fix go (i : N) (cs : list c05case) (bad : list (N * N * N)) (skipped checked : N) :=
    match cs with
    | [] => (rev bad, skipped, checked)
    | c :: r =>
      let m := model_agree05 c in
      let s := spec_holds05 c in
      go (i + 1)%N r (if (m <=? 1)%N && (s <=? 1)%N then bad else (i, m, s) :: bad)
         (if (m =? 1)%N then (skipped + 1)%N else skipped) (if (s =? 0)%N then (checked + 1)%N else checked)
    end in
  go 0%N cs [] 0%N 0%N.
