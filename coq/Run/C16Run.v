(* Run/C16Run.v — correspondence glue for C16 (SECS-I blocks) and the frame part of C04 (HSMS). *)
From SG Require Import Base.Prelude Base.Kinds Gen.ProtoConsts Spec.E4E37Frames Model.Secs2 Model.Frames.
Open Scope Z_scope.

Definition shdr_eqb (a b : shdr) : bool :=
  (s_system a =? s_system b) && (s_device a =? s_device b) && (s_stream a =? s_stream b) && (s_function a =? s_function b) &&
  (s_block a =? s_block b) && Bool.eqb (s_r a) (s_r b) && Bool.eqb (s_w a) (s_w b) && Bool.eqb (s_e a) (s_e b).
Definition bytes_eqb := list_eqb N.eqb.
Definition opt_eqb {A} (eqb : A -> A -> bool) (a b : option A) : bool :=
  match a, b with Some x, Some y => eqb x y | None, None => true | _, _ => false end.
Definition res_opt {A} (r : res A) : option A := match r with Ok a => Some a | Err _ => None end.

Definition to_e4 (h : shdr) : e4hdr :=
  {| e4_r := s_r h; e4_device := Z.to_N (s_device h); e4_w := s_w h; e4_stream := Z.to_N (s_stream h);
     e4_function := Z.to_N (s_function h); e4_e := s_e h; e4_blockno := Z.to_N (s_block h); e4_system := Z.to_N (s_system h) |}.
Definition shdr_in_range (h : shdr) : bool :=
  (0 <=? s_device h) && (0 <=? s_stream h) && (0 <=? s_function h) && (0 <=? s_block h) && (0 <=? s_system h) && e4_hdr_ok (to_e4 h).

Inductive c16case :=
| CHdr (h : shdr) (enc : option (list N)) (dec : option shdr)
| CMsg (h : shdr) (body : list N) (blocks : option (list (shdr * list N * option (list N))))
| CDec (h : shdr) (data : list N) (pos : nat) (newbyte : N) (result : N) (got : shdr * list N)
      (* the encoded block of (h, data) with byte pos replaced; result 0 exception, 1 None, 2 a block *)
| CReasm (blocks : list (shdr * list N)) (outs : list (option (shdr * list N))).

Definition blk_eqb (a b : shdr * list N) : bool := shdr_eqb (fst a) (fst b) && bytes_eqb (snd a) (snd b).

Fixpoint replace_nth {A} (n : nat) (x : A) (l : list A) : list A :=
  match l, n with [], _ => [] | _ :: r, O => x :: r | y :: r, S k => y :: replace_nth k x r end.

Fixpoint run_reasm (s : rstate) (bl : list (shdr * list N)) : list (option (shdr * list N)) :=
  match bl with
  | [] => []
  | (h, d) :: r => let '(s', out) := add_block s {| sb_hdr := h; sb_data := d |} in out :: run_reasm s' r
  end.

Definition model_agree16 (c : c16case) : N :=
  match c with
  | CHdr h enc dec =>
    if negb (opt_eqb bytes_eqb (res_opt (shdr_encode h)) enc) then 10%N else
    match enc with
    | Some e => if opt_eqb shdr_eqb (res_opt (shdr_decode e)) dec then 0%N else 11%N
    | None => 0%N
    end
  | CMsg h body blocks =>
    let mb := split_blocks body h true in
    match blocks with
    | None => 12%N
    | Some bl =>
      if negb (list_eqb blk_eqb (map (fun b => (sb_hdr b, sb_data b)) mb) (map fst bl)) then 13%N else
      if list_eqb (opt_eqb bytes_eqb) (map (fun b => res_opt (sblock_encode b)) mb) (map snd bl) then 0%N else 14%N
    end
  | CDec h data pos nb result got =>
    match sblock_encode {| sb_hdr := h; sb_data := data |} with
    | Err _ => 1%N
    | Ok e =>
      match sblock_decode (replace_nth pos nb e) with
      | Err _ => if (result =? 0)%N then 0%N else 15%N
      | Ok None => if (result =? 1)%N then 0%N else 16%N
      | Ok (Some b) => if (result =? 2)%N && blk_eqb (sb_hdr b, sb_data b) got then 0%N else 17%N
      end
    end
  | CReasm blocks outs =>
    if list_eqb (opt_eqb blk_eqb) (run_reasm [] blocks) outs then 0%N else 18%N
  end.

(* ---- specification side ---- *)
Fixpoint split_ok (h : shdr) (idx : Z) (bl : list (shdr * list N)) : bool :=
  match bl with
  | [] => true
  | (bh, d) :: r =>
    (length d <=? E4_MAX_DATA)%nat && (s_block bh =? idx) && Bool.eqb (s_e bh) (match r with [] => true | _ => false end) &&
    (s_system bh =? s_system h) && (s_device bh =? s_device h) && (s_stream bh =? s_stream h) && (s_function bh =? s_function h) &&
    Bool.eqb (s_r bh) (s_r h) && Bool.eqb (s_w bh) (s_w h) && split_ok h (idx + 1) r
  end.

(* reference reassembly: data accumulates per message - E4 tells the blocks of a message by system bytes, stream, function and W-bit (a
   primary of the peer may carry the system bytes of a reply to us) - until a block carries the end bit *)
Definition mkey := (Z * Z * Z * bool)%type.
Definition mkey_eqb (a b : mkey) : bool :=
  match a, b with (s1, t1, f1, w1), (s2, t2, f2, w2) => (s1 =? s2) && (t1 =? t2) && (f1 =? f2) && Bool.eqb w1 w2 end.
Fixpoint ref_reasm (acc : list (mkey * list N)) (bl : list (shdr * list N)) : list (option (shdr * list N)) :=
  match bl with
  | [] => []
  | (h, d) :: r =>
    let k : mkey := (s_system h, s_stream h, s_function h, s_w h) in
    (* a block numbered 0 or 1 starts a message: what an abandoned attempt left behind does not count *)
    let prev := if (s_block h <=? 1) then [] else match find (fun p => mkey_eqb (fst p) k) acc with Some p => snd p | None => [] end in
    let rest := filter (fun p => negb (mkey_eqb (fst p) k)) acc in
    if s_e h then Some (h, prev ++ d) :: ref_reasm rest r
    else None :: ref_reasm ((k, prev ++ d) :: rest) r
  end.
Definition out_eqb_upto_blockno (a b : option (shdr * list N)) : bool :=
  match a, b with
  | Some (h1, d1), Some (h2, d2) =>
    bytes_eqb d1 d2 && shdr_eqb (with_block h1 0 (s_e h1)) (with_block h2 0 (s_e h2))
  | None, None => true
  | _, _ => false
  end.

Definition spec_holds16 (c : c16case) : N :=
  match c with
  | CHdr h enc dec =>
    if negb (shdr_in_range h) then 1%N else
    match enc with
    | None => 30%N
    | Some e => if negb (bytes_eqb e (e4_header_bytes (to_e4 h))) then 31%N else
                match dec with Some h' => if shdr_eqb h h' then 0%N else 34%N | None => 32%N end
    end
  | CMsg h body blocks =>
    if negb (shdr_in_range (with_block h 1 true)) then 1%N else
    if (32767 * 244 <? Z.of_nat (length body)) then 1%N else
    match blocks with
    | None => 30%N
    | Some bl =>
      if negb (split_ok h 1 (map fst bl)) then 35%N else
      if negb (bytes_eqb (List.concat (map (fun b => snd (fst b)) bl)) body) then 36%N else
      if negb (match bl with [] => false | _ => true end) then 35%N else
      if forallb (fun b => opt_eqb bytes_eqb (snd b) (Some (e4_block (to_e4 (fst (fst b))) (snd (fst b))))) bl then 0%N else 31%N
    end
  | CDec h data pos nb result got =>
    if negb (shdr_in_range h) || negb (length data <=? E4_MAX_DATA)%nat then 1%N else
    let e := e4_block (to_e4 h) data in
    match nth_error e pos with
    | None => 1%N
    | Some old =>
      if (old =? nb)%N then (if (result =? 2)%N && blk_eqb (h, data) got then 0%N else 32%N)   (* unaltered: accepted as is *)
      else if (result =? 2)%N then 37%N else 0%N                                              (* altered: never accepted *)
    end
  | CReasm blocks outs =>
    if list_eqb out_eqb_upto_blockno (ref_reasm [] blocks) outs then 0%N else 38%N
  end.

Definition run_c16 (cs : list c16case) : list (N * N * N) * N * N :=
  let fix go (i : N) (cs : list c16case) (bad : list (N * N * N)) (skipped checked : N) :=
    match cs with
    | [] => (rev bad, skipped, checked)
    | c :: r =>
      let m := model_agree16 c in
      let s := spec_holds16 c in
      go (i + 1)%N r (if (m <=? 1)%N && (s <=? 1)%N then bad else (i, m, s) :: bad)
         (if (m =? 1)%N then (skipped + 1)%N else skipped) (if (s =? 0)%N then (checked + 1)%N else checked)
    end in
  go 0%N cs [] 0%N 0%N.
