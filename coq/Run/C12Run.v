(* Run/C12Run.v — correspondence glue for C12 (event report configuration). *)
From SG Require Import Base.Prelude Spec.E5Reports Model.EventReports.
Open Scope Z_scope.

(* values are changed by the equipment between requests: each step carries the value table current at that step *)
Record c12step := { q_op : rop; q_values : list (id * Z); q_out : rout; q_reports : list (id * list id); q_links : list (id * (list id * bool)) }.
Record c12case := { q_vids : list id; q_ceids : list id; q_steps : list c12step }.

Definition env_of (c : c12case) (vals : list (id * Z)) : renv :=
  {| vids := q_vids c; ceids := q_ceids c; value_of := fun v => match rlookup v vals with Some x => x | None => 0 end |}.

Definition ids_eqb (a b : list id) : bool := list_eqb id_eqb a b.
Definition rpt_eqb (a b : list (id * list Z)) : bool := list_eqb (fun x y => id_eqb (fst x) (fst y) && list_eqb Z.eqb (snd x) (snd y)) a b.
Definition rout_eqb (a b : rout) : bool :=
  match a, b with
  | RAck x, RAck y => x =? y
  | RReport c r, RReport c' r' => id_eqb c c' && rpt_eqb r r'
  | RAbort, RAbort | RNothing, RNothing => true
  | _, _ => false
  end.
Definition reports_eqb (a b : list (id * list id)) : bool := list_eqb (fun x y => id_eqb (fst x) (fst y) && ids_eqb (snd x) (snd y)) a b.
Definition links_eqb (a b : list (id * (list id * bool))) : bool :=
  list_eqb (fun x y => id_eqb (fst x) (fst y) && ids_eqb (fst (snd x)) (fst (snd y)) && Bool.eqb (snd (snd x)) (snd (snd y))) a b.
(* as maps: same keys and values, order of the keys irrelevant *)
Definition sub_map {A} (veq : A -> A -> bool) (a b : list (id * A)) : bool :=
  forallb (fun p => match rlookup (fst p) b with Some v => veq (snd p) v | None => false end) a.
Definition cfg_same (a b : rcfg) : bool :=
  sub_map ids_eqb (reports a) (reports b) && sub_map ids_eqb (reports b) (reports a) && (length (reports a) =? length (reports b))%nat &&
  sub_map (fun x y => ids_eqb (fst x) (fst y) && Bool.eqb (snd x) (snd y)) (links a) (links b) &&
  sub_map (fun x y => ids_eqb (fst x) (fst y) && Bool.eqb (snd x) (snd y)) (links b) (links a) && (length (links a) =? length (links b))%nat.

Fixpoint model_go12 (c : c12case) (cfg : rcfg) (steps : list c12step) : N :=
  match steps with
  | [] => 0%N
  | s :: r =>
    let '(cfg1, out) := er_step (env_of c (q_values s)) cfg (q_op s) in
    if negb (rout_eqb out (q_out s)) then 12%N
    else if negb (reports_eqb (reports cfg1) (q_reports s)) then 13%N
    else if negb (links_eqb (links cfg1) (q_links s)) then 14%N
    else model_go12 c cfg1 r
  end.
Definition model_agree12 (c : c12case) : N := model_go12 c cfg0 (q_steps c).

(* each observed step of the implementation must be admitted by E5 from the observed configuration before it *)
Fixpoint spec_go12 (c : c12case) (cfg : rcfg) (steps : list c12step) : N :=
  match steps with
  | [] => 0%N
  | s :: r =>
    let obs := {| reports := q_reports s; links := q_links s |} in
    let alts := e5_step (env_of c (q_values s)) cfg (q_op s) in
    if negb (integrity obs) then 35%N
    else if existsb (fun alt => cfg_same (fst alt) obs && existsb (rout_eqb (q_out s)) (snd alt)) alts then spec_go12 c obs r
    else match q_out s with RAbort => 36%N | RAck 0 => 31%N | RAck _ => if cfg_same cfg obs then 32%N else 34%N | _ => 33%N end
  end.
Definition spec_holds12 (c : c12case) : N := spec_go12 c cfg0 (q_steps c).

Definition run_c12 (cs : list c12case) : list (N * N * N) * N * N :=
  let fix go (i : N) (cs : list c12case) (bad : list (N * N * N)) (skipped checked : N) :=
    match cs with
    | [] => (rev bad, skipped, checked)
    | c :: r =>
      let m := model_agree12 c in
      let s := spec_holds12 c in
      go (i + 1)%N r (if (m <=? 1)%N && (s <=? 1)%N then bad else (i, m, s) :: bad)
         (if (m =? 1)%N then (skipped + 1)%N else skipped) (if (s =? 0)%N then (checked + 1)%N else checked)
    end in
  go 0%N cs [] 0%N 0%N.
