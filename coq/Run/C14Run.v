(* Run/C14Run.v — correspondence glue for C14 (Item API). *)
From SG Require Import Base.Prelude Base.Kinds Base.Float Gen.ItemConsts Spec.E5 Model.Secs2 Model.Denote Model.Secs2Wf Model.Item Run.C01Run.
Open Scope N_scope.

Record iobs := {
  i_cls : option icls;            (* None: Item.from_value(input) ; Some c: the class constructor *)
  i_in : plain;
  i_ok : bool;
  i_val : val;                    (* internal value *)
  i_value : plain;                (* the .value property *)
  i_holds : bool;                 (* python-level: item.value == input (normal form) *)
  i_enc : option (list N);
  i_dec : option (val * list N);  (* Item.decode(enc): internal value, and its encode() *)
  i_var_enc : option (list N)     (* bytes from the variables API for the same typed value *)
}.

Definition imodel_agree (o : iobs) : N :=
  match (match i_cls o with Some c => construct c (i_in o) | None => from_value (i_in o) end) with
  | Err EUnmodelled => 1
  | Err EOutOfFuel => 19
  | Err _ => if i_ok o then 10 else 0
  | Ok v =>
    if negb (i_ok o) then 11 else
    if negb (val_eqb v (i_val o)) then 12 else
    if negb (plain_eqb (item_value v) (i_value o)) then 13 else
    match item_encode v, i_enc o with
    | Err EUnmodelled, _ => 1
    | Err _, None => 0
    | Err _, Some _ => 14
    | Ok _, None => 15
    | Ok e, Some e' =>
      if negb (list_eqb N.eqb e e') then 16 else
      match item_decode (S (length e)) e, i_dec o with
      | Err EUnmodelled, _ => 1
      | Err EOutOfFuel, _ => 19
      | Err _, None => 0
      | Err _, Some _ => 17
      | Ok _, None => 18
      | Ok (v', _), Some (v'', _) => if val_eqb v' v'' then 0 else 20
      end
    end
  end.

Definition kind_of_e5num (n : e5num) : num_kind :=
  match n with
  | NU W1 => U1 | NU W2 => U2 | NU W4 => U4 | NU W8 => U8
  | NI W1 => I1 | NI W2 => I2 | NI W4 => I4 | NI W8 => I8
  end.
Definition spec_narrowest (z : Z) : option num_kind :=
  match e5_narrowest z with Some n => Some (kind_of_e5num n) | None => None end.

Definition ispec_holds (o : iobs) : N :=
  if negb (i_ok o) then
    (* an integer that some standard type holds must be accepted by from_value *)
    match i_cls o, i_in o with
    | None, PInt z => match spec_narrowest z with Some _ => 35 | None => 1 end
    | _, _ => 1
    end
  else
  (* an item that was built encodes: a value the type cannot carry has to be refused when the item is built (30) *)
  match i_enc o with None => 30 | Some _ =>
  match denote (i_val o) with
  | None => 1
  | Some i =>
    if negb (e5_wf i) then 1 else
    if negb (i_holds o) then 36 else
    match i_cls o, i_in o, i_val o with
    | None, PInt z, VNum k _ => if match spec_narrowest z with Some k' => num_kind_eqb k k' | None => false end then 0 else 37
    | None, PInt _, _ => 37
    | _, _, _ => 0
    end +
    match i_enc o with
    | None => 30
    | Some e =>
      if negb (list_eqb N.eqb e (e5_encode i)) then 31 else
      match i_var_enc o with
      | Some e' => if list_eqb N.eqb e e' then 0 else 39
      | None => 0
      end +
      match i_dec o with
      | None => 32
      | Some (v', re) =>
        if negb (val_eqb v' (canon (i_val o))) then 34 else
        if negb (list_eqb N.eqb re (e5_encode i)) then 31 else 0
      end
    end
  end end.

Definition run_icases (cs : list iobs) : list (N * N * N) * N * N :=
  let fix go (i : N) (cs : list iobs) (bad : list (N * N * N)) (skipped checked : N) :=
    match cs with
    | [] => (rev bad, skipped, checked)
    | c :: r =>
      let m := imodel_agree c in
      let s := ispec_holds c in
      go (i + 1) r (if (m <=? 1) && (s <=? 1) then bad else (i, m, s) :: bad)
         (if m =? 1 then skipped + 1 else skipped) (if s =? 0 then checked + 1 else checked)
    end in
  go 0 cs [] 0 0.

(* Item.decode on arbitrary byte strings, judged by the reference decoder *)
Record idobs := { id_bytes : list N; id_ok : bool; id_val : val; id_reenc : option (list N) }.

Definition idmodel_agree (o : idobs) : N :=
  match item_decode (S (length (id_bytes o))) (id_bytes o) with
  | Err EUnmodelled => 1
  | Err EOutOfFuel => 19
  | Err _ => if id_ok o then 17 else 0
  | Ok (v, _) =>
    if negb (id_ok o) then 18 else
    if negb (val_eqb v (id_val o)) then 12 else
    match item_encode v, id_reenc o with
    | Err EUnmodelled, _ => 1
    | Err _, None => 0
    | Ok e, Some e' => if list_eqb N.eqb e e' then 0 else 16
    | Err _, Some _ => 14
    | Ok _, None => 15
    end
  end.

Fixpoint all_finite (i : e5item) : bool :=
  match i with
  | EL l => forallb all_finite l
  | EF4 l => forallb finite32 l
  | EF8 l => forallb finite64 l
  | _ => true
  end.

Definition idspec_holds (o : idobs) : N :=
  if negb (bytesb (id_bytes o)) then 1 else
  match e5_decode (length (id_bytes o)) (id_bytes o) with
  | None => 1
  | Some (i, _) =>
    if negb (all_finite i) then 1 else
    if negb (id_ok o) then 32 else
    match denote (id_val o) with
    | Some i' => if list_eqb N.eqb (e5_encode i') (e5_encode i) then
                   match id_reenc o with
                   | None => 30
                   | Some e => if list_eqb N.eqb e (e5_encode i) then 0 else 31
                   end
                 else 34
    | None => 34
    end
  end.

Definition run_idcases (cs : list idobs) : list (N * N * N) * N * N :=
  let fix go (i : N) (cs : list idobs) (bad : list (N * N * N)) (skipped checked : N) :=
    match cs with
    | [] => (rev bad, skipped, checked)
    | c :: r =>
      let m := idmodel_agree c in
      let s := idspec_holds c in
      go (i + 1) r (if (m <=? 1) && (s <=? 1) then bad else (i, m, s) :: bad)
         (if m =? 1 then skipped + 1 else skipped) (if s =? 0 then checked + 1 else checked)
    end in
  go 0 cs [] 0 0.
