(* Run/C01Run.v — correspondence glue for C01/C02/C03: compares what the
   implementation was observed to do on a case with (a) the model and (b) the
   independent E5 specification.  Evaluated by vm_compute on harness-written
   case files; nothing here is a theorem. *)
From SG Require Import Base.Prelude Base.Kinds Base.Float Gen.VarConsts Gen.Jis8 Spec.E5 Model.Secs2 Model.Denote.
Open Scope N_scope.

Fixpoint plain_eqb (a b : plain) {struct a} : bool :=
  match a, b with
  | PNone, PNone => true
  | PBool x, PBool y => Bool.eqb x y
  | PInt x, PInt y => (x =? y)%Z
  | PFloat x, PFloat y => x =? y
  | PStr x, PStr y | PBytes x, PBytes y | PByteArray x, PByteArray y => list_eqb N.eqb x y
  | PList x, PList y =>
    (fix go (x y : list plain) {struct x} : bool :=
       match x, y with
       | [], [] => true
       | p :: x', q :: y' => plain_eqb p q && go x' y'
       | _, _ => false
       end) x y
  | PDict x, PDict y =>
    (fix go (x y : list (string * plain)) {struct x} : bool :=
       match x, y with
       | [], [] => true
       | (k, p) :: x', (k', q) :: y' => String.eqb k k' && plain_eqb p q && go x' y'
       | _, _ => false
       end) x y
  | PTyped _ x, PTyped _ y => plain_eqb x y
  | _, _ => false
  end.

Fixpoint val_eqb (a b : val) {struct a} : bool :=
  let lists := (fix go (x y : list val) {struct x} : bool :=
       match x, y with
       | [], [] => true
       | p :: x', q :: y' => val_eqb p q && go x' y'
       | _, _ => false
       end) in
  match a, b with
  | VRec x, VRec y | VArr x, VArr y => lists x y
  | VBin x, VBin y => list_eqb N.eqb x y
  | VBool x, VBool y => list_eqb Bool.eqb x y
  | VText j x, VText j' y => Bool.eqb j j' && list_eqb N.eqb x y
  | VNum k x, VNum k' y => num_kind_eqb k k' && list_eqb Z.eqb x y
  | VFlt k x, VFlt k' y => num_kind_eqb k k' && list_eqb N.eqb x y
  | VNone, VNone => true
  | _, _ => false
  end.

(* One observed run of the implementation:
   value = generate(fmt); value.set(input); internal state; get(); encode();
   fresh = generate(fmt); end = fresh.decode(enc + tail); fresh.get(); fresh == value *)
Record obs := {
  o_ty : ty;
  o_in : plain;
  o_set_ok : bool;
  o_val : val;                       (* internal state after set (VNone when set raised) *)
  o_get : plain;
  o_enc : option (list N);           (* None: encode raised *)
  o_tail : list N;
  o_dec : option (plain * N * bool)  (* get() of the decoded object, end position, python-level get()== *)
}.

(* result codes: 0 agree, 1 not modelled (skipped), >= 10 disagreement at a stage *)
Definition model_agree (o : obs) : N :=
  match py_set (o_ty o) (default (o_ty o)) (o_in o) with
  | Err EUnmodelled => 1
  | Err EOutOfFuel => 19
  | Err _ => if o_set_ok o then 10 else 0
  | Ok v =>
    if negb (o_set_ok o) then 11 else
    if negb (val_eqb v (o_val o)) then 12 else
    if negb (plain_eqb (py_get (o_ty o) v) (o_get o)) then 13 else
    match py_encode v, o_enc o with
    | Err EUnmodelled, _ => 1
    | Err _, None => 0
    | Err _, Some _ => 14
    | Ok _, None => 15
    | Ok e, Some e' =>
      if negb (list_eqb N.eqb e e') then 16 else
      match py_decode (S (length e)) (o_ty o) (e ++ o_tail o) 0, o_dec o with
      | Err EUnmodelled, _ => 1
      | Err EOutOfFuel, _ => 19
      | Err _, None => 0
      | Err _, Some _ => 17
      | Ok _, None => 18
      | Ok (v', _, pos), Some (g, pos', _) =>
        if plain_eqb (py_get (o_ty o) v') g && (pos =? pos') then 0 else 20
      end
    end
  end.

(* The specification alone against the observation (no model involved):
   an accepted value that is E5-representable must encode to exactly e5_encode
   of what it denotes, and decode back to an equal value consuming exactly
   the encoding.  Codes: 0 holds, 1 outside the property's domain, >= 30 violated. *)
(* an accepted number is stored as the number it is: an integer class that takes 1.5 and keeps 1 has changed the value (36) *)
Definition same_number (p : plain) (z : Z) : bool :=
  match p with
  | PInt z' => (z =? z')%Z
  | PBool b => (z =? (if b then 1 else 0))%Z
  | PFloat b => match z2d z with Ok b' => b' =? b | Err _ => false end
  | _ => true
  end.
Definition numbers_kept (p : plain) (v : val) : bool :=
  match v with
  | VNum _ zs =>
    match p with
    | PList ps => (length ps =? length zs)%nat && forallb (fun pz => same_number (fst pz) (snd pz)) (combine ps zs)
    | PInt _ | PBool _ | PFloat _ => match zs with [z] => same_number p z | _ => false end
    | _ => true
    end
  | _ => true
  end.

Definition spec_holds (o : obs) : N :=
  if negb (o_set_ok o) then 1 else
  if negb (numbers_kept (o_in o) (o_val o)) then 36 else
  match denote (o_val o) with
  | None => 1
  | Some i =>
    if negb (e5_wf i) then 1 else
    match o_enc o with
    | None => 30
    | Some e =>
      if negb (list_eqb N.eqb e (e5_encode i)) then 31 else
      match o_dec o with
      | None => 32
      | Some (_, pos, eq) => if negb (pos =? nlen e) then 33 else if exact32 (o_val o) && negb eq then 34 else 0
      end
    end
  end.

Definition run_cases (cs : list obs) : list (N * N * N) * N * N :=
  let fix go (i : N) (cs : list obs) (bad : list (N * N * N)) (skipped checked : N) :=
    match cs with
    | [] => (rev bad, skipped, checked)
    | c :: r =>
      let m := model_agree c in
      let s := spec_holds c in
      go (i + 1) r (if (m <=? 1) && (s <=? 1) then bad else (i, m, s) :: bad)
         (if m =? 1 then skipped + 1 else skipped) (if s =? 0 then checked + 1 else checked)
    end in
  go 0 cs [] 0 0.
