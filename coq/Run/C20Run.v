(* Run/C20Run.v — correspondence glue for C20: what two real handlers put on the wire while establishing communication
   must be one of the traces of the pair model. *)
From SG Require Import Base.Prelude Model.GemComm Model.Pair.
Open Scope Z_scope.

Record c20case := { v_order : list pev; v_a2p : list msg; v_p2a : list msg; v_goal : bool }.

(* all maximal runs of connect/deliveries from p; with each, everything each side has put on the wire *)
Fixpoint traces (fuel : nat) (p : pair) (sa sp : list msg) : list (list msg * list msg * bool) :=
  let can_conn := enabled (pa p) && enabled (pp p) && negb (link_up p) in
  match a2p p, p2a p, can_conn with
  | [], [], false => [(sa, sp, goal p)]
  | _, _, _ =>
    match fuel with
    | O => []
    | S f =>
      (if can_conn then let q := pstep p Conn in traces f q (sa ++ a2p q) sp else []) ++
      (match a2p p with [] => [] | _ => let q := pstep p DelA2P in traces f q sa (sp ++ skipn (length (p2a p)) (p2a q)) end) ++
      (match p2a p with [] => [] | _ => let q := pstep p DelP2A in traces f q (sa ++ skipn (length (a2p p)) (a2p q)) sp end)
    end
  end.

Definition ml_eqb (a b : list msg) : bool := list_eqb msg_eqb a b.
Definition model_agree20 (c : c20case) : N :=
  let ts := traces 16 (prun pair0 (v_order c)) [] [] in
  if existsb (fun t => ml_eqb (fst (fst t)) (v_a2p c) && ml_eqb (snd (fst t)) (v_p2a c)) ts then 0%N else 12%N.
Definition spec_holds20 (c : c20case) : N := if v_goal c then 0%N else 31%N.

Definition run_c20 (cs : list c20case) : list (N * N * N) * N * N :=
  let fix go (i : N) (cs : list c20case) (bad : list (N * N * N)) (skipped checked : N) :=
    match cs with
    | [] => (rev bad, skipped, checked)
    | c :: r =>
      let m := model_agree20 c in
      let s := spec_holds20 c in
      go (i + 1)%N r (if (m <=? 1)%N && (s <=? 1)%N then bad else (i, m, s) :: bad)
         (if (m =? 1)%N then (skipped + 1)%N else skipped) (if (s =? 0)%N then (checked + 1)%N else checked)
    end in
  go 0%N cs [] 0%N 0%N.
