(* Run/C03Run.v — correspondence glue for C03 (catalogued stream/functions). *)
From SG Require Import Base.Prelude Base.Kinds Spec.E5 Model.Secs2 Model.Denote Model.Secs2Wf Model.Sfdl Model.Functions Gen.Catalogue Run.C01Run.
Open Scope N_scope.

Record fobs := {
  fo_s : N; fo_f : N;
  fo_in : plain;
  fo_ok : bool;                       (* SecsSxxFyy(value) returned *)
  fo_val : val;                       (* internal state of .data (VNone for header-only functions) *)
  fo_get : plain;
  fo_enc : option (list N);
  fo_dec : option (string * val);     (* StreamsFunctions().decode(header S/F, body): class found, its internal state *)
  fo_edited : bool                    (* the object was changed through one of its nested variables after it had been encoded once: fo_val /
                                         fo_enc / fo_dec are the state and the encoding AFTER the edit; fo_in no longer describes it *)
}.

Definition fmodel_agree (o : fobs) : N :=
  if fo_edited o then 1 else
  match lookup_sf catalogue (fo_s o) (fo_f o) with
  | Ok (Some e) =>
    match fn_construct e (fo_in o) with
    | Err EUnmodelled => 1
    | Err EOutOfFuel => 19
    | Err _ => if fo_ok o then 10 else 0
    | Ok d =>
      if negb (fo_ok o) then 11 else
      let v := match d with Some (_, v) => v | None => VNone end in
      if negb (val_eqb v (fo_val o)) then 12 else
      if negb (plain_eqb (fn_get d) (fo_get o)) then 13 else
      match fn_encode d, fo_enc o with
      | Err EUnmodelled, _ => 1
      | Err _, None => 0
      | Err _, Some _ => 14
      | Ok _, None => 15
      | Ok enc, Some enc' =>
        if negb (list_eqb N.eqb enc enc') then 16 else
        match decode_by_sf catalogue (fo_s o) (fo_f o) enc, fo_dec o with
        | Err EUnmodelled, _ => 1
        | Err EOutOfFuel, _ => 19
        | Err _, None => 0
        | Err _, Some _ => 17
        | Ok _, None => 18
        | Ok (e', d'), Some (nm, v') =>
          if String.eqb (f_name e') nm && val_eqb (match d' with Some (_, x) => x | None => VNone end) v' then 0 else 20
        end
      end
    end
  | _ => 21
  end.

(* the specification alone: the body is the E5 encoding of the value; looked up by S/F it decodes to the
   same class carrying an equal value *)
Definition fspec_holds (o : fobs) : N :=
  if negb (fo_ok o) then 1 else
  match fo_val o with
  | VNone => match fo_enc o, fo_dec o with
             | Some [], Some (_, VNone) => 0           (* header-only function *)
             | None, _ => 1                            (* a single Dynamic item without a value: nothing to encode *)
             | _, _ => 31
             end
  | v =>
    match denote v with
    | None => 1
    | Some i =>
      if negb (e5_wf i) then 1 else
      match fo_enc o with
      | None => 30
      | Some enc =>
        if negb (list_eqb N.eqb enc (e5_encode i)) then 31 else
        match fo_dec o with
        | None => 32
        | Some (nm, v') =>
          match find (same_sf (fo_s o) (fo_f o)) catalogue with
          | Some e => if negb (String.eqb (f_name e) nm) then 35 else if val_eqb v' (canon v) then 0 else 34
          | None => 35
          end
        end
      end
    end
  end.

Definition run_fcases (cs : list fobs) : list (N * N * N) * N * N :=
  let fix go (i : N) (cs : list fobs) (bad : list (N * N * N)) (skipped checked : N) :=
    match cs with
    | [] => (rev bad, skipped, checked)
    | c :: r =>
      let m := fmodel_agree c in
      let s := fspec_holds c in
      go (i + 1) r (if (m <=? 1) && (s <=? 1) then bad else (i, m, s) :: bad)
         (if m =? 1 then skipped + 1 else skipped) (if s =? 0 then checked + 1 else checked)
    end in
  go 0 cs [] 0 0.
