(* Run/C04Run.v — correspondence glue for C04 (HSMS frames and segmentation-independent reassembly). *)
From SG Require Import Base.Prelude Base.Kinds Gen.ProtoConsts Spec.E4E37Frames Model.Secs2 Model.Frames Model.HsmsRx Run.C16Run.
Open Scope N_scope.

Definition hhdr_eqb (a b : hhdr) : bool :=
  (h_system a =? h_system b)%Z && (h_session a =? h_session b)%Z && (h_stream a =? h_stream b)%Z && (h_function a =? h_function b)%Z &&
  Bool.eqb (h_w a) (h_w b) && (h_ptype a =? h_ptype b)%Z && (h_stype a =? h_stype b)%Z.
Definition to_e37 (h : hhdr) : e37hdr :=
  {| e37_session := Z.to_N (h_session h); e37_w := h_w h; e37_stream := Z.to_N (h_stream h); e37_function := Z.to_N (h_function h);
     e37_ptype := Z.to_N (h_ptype h); e37_stype := Z.to_N (h_stype h); e37_system := Z.to_N (h_system h) |}.
Definition hhdr_in_range (h : hhdr) : bool :=
  (0 <=? h_session h)%Z && (0 <=? h_stream h)%Z && (0 <=? h_function h)%Z && (0 <=? h_ptype h)%Z && (0 <=? h_stype h)%Z && (0 <=? h_system h)%Z &&
  e37_hdr_ok (to_e37 h).

Definition msg_eqb (a b : hhdr * list N) : bool := hhdr_eqb (fst a) (fst b) && bytes_eqb (snd a) (snd b).

Inductive c04case :=
| HFrame (h : hhdr) (data : list N) (enc : option (list N)) (dec : option (hhdr * list N))
| HStream (segs : list (list N)) (delivered : list (hhdr * list N)) (buflen : N) (parked : bool).

Definition outs_delivered (o : list rx_out) : list (hhdr * list N) :=
  flat_map (fun x => match x with Delivered h d => [(h, d)] | Dropped => [] end) o.

Definition model_agree04 (c : c04case) : N :=
  match c with
  | HFrame h data enc dec =>
    if negb (opt_eqb bytes_eqb (res_opt (hframe_encode h data)) enc) then 10 else
    match enc with
    | Some e => if opt_eqb msg_eqb (res_opt (hframe_decode e)) dec then 0 else 11
    | None => 0
    end
  | HStream segs delivered buflen parked =>
    let '(s, o) := rx_run rx_init segs in
    if negb (list_eqb msg_eqb (outs_delivered o) delivered) then 12 else
    if negb (N.of_nat (length (rx_buf s)) =? buflen) then 13 else
    if Bool.eqb (rx_blocked s) parked then 0 else 14
  end.

(* reference: cut the concatenated stream into frames by the 4-byte length alone *)
Fixpoint ref_frames (fuel : nat) (bs : list N) : list (list N) * list N :=
  match fuel with
  | O => ([], bs)
  | S f =>
    if (length bs <? 4)%nat then ([], bs) else
    let n := N.to_nat (N.min (be_val (firstn 4 bs) 0 + 4) (N.of_nat (length bs) + 1)) in
    if (length bs <? n)%nat then ([], bs) else
    let '(fs, rest) := ref_frames f (skipn n bs) in (firstn n bs :: fs, rest)
  end.
Definition frame_fields (fr : list N) : option (e37hdr * list N) :=
  match fr with
  | _ :: _ :: _ :: _ :: s1 :: s0 :: st :: fn :: pt :: sty :: y3 :: y2 :: y1 :: y0 :: data =>
    Some ({| e37_session := s1 * 256 + s0; e37_w := 128 <=? st; e37_stream := st mod 128; e37_function := fn; e37_ptype := pt;
             e37_stype := sty; e37_system := be_val [y3; y2; y1; y0] 0 |}, data)
  | _ => None
  end.
Definition e37_eqb (a b : e37hdr) : bool :=
  (e37_session a =? e37_session b) && Bool.eqb (e37_w a) (e37_w b) && (e37_stream a =? e37_stream b) && (e37_function a =? e37_function b) &&
  (e37_ptype a =? e37_ptype b) && (e37_stype a =? e37_stype b) && (e37_system a =? e37_system b).

Definition spec_holds04 (c : c04case) : N :=
  match c with
  | HFrame h data enc dec =>
    if negb (hhdr_in_range h) then 1 else
    match enc with
    | None => 30
    | Some e => if negb (bytes_eqb e (e37_frame (to_e37 h) data)) then 31 else
                match dec with Some m => if msg_eqb (h, data) m then 0 else 34 | None => 32 end
    end
  | HStream segs delivered buflen parked =>
    let stream := List.concat segs in
    let '(frames, rest) := ref_frames (S (length stream)) stream in
    (* the well-formed frames of the stream are the messages; a frame that is not an HSMS message (too short for a header, a field outside
       its E37 range) is nobody's message - and does not hold back the frames behind it *)
    let frames := filter (fun fr => match frame_fields fr with Some (h, _) => e37_hdr_ok h | None => false end) frames in
    if negb (length frames =? length delivered)%nat then 35 else
    if negb (forallb (fun p => match frame_fields (fst p) with
                                | Some (h, d) => e37_eqb h (to_e37 (fst (snd p))) && bytes_eqb d (snd (snd p)) && hhdr_in_range (fst (snd p))
                                | None => false end) (combine frames delivered)) then 36 else
    if negb (N.of_nat (length rest) =? buflen) then 37 else 0
  end.

Definition run_c04 (cs : list c04case) : list (N * N * N) * N * N :=
  let fix go (i : N) (cs : list c04case) (bad : list (N * N * N)) (skipped checked : N) :=
    match cs with
    | [] => (rev bad, skipped, checked)
    | c :: r =>
      let m := model_agree04 c in
      let s := spec_holds04 c in
      go (i + 1) r (if (m <=? 1) && (s <=? 1) then bad else (i, m, s) :: bad)
         (if m =? 1 then skipped + 1 else skipped) (if s =? 0 then checked + 1 else checked)
    end in
  go 0 cs [] 0 0.
