(* Run/C07Run.v — correspondence glue for C07 (GEM communication state). *)
From SG Require Import Base.Prelude Spec.E30Comm Model.StateMachine Model.GemComm Gen.Machines.
Open Scope Z_scope.

Record c07case := { p_events : list yev; p_outs : list (list yout); p_states : list nat }.

Definition county (o : yout) (l : list yout) : nat := length (filter (yout_eqb o) l).
Definition youts_same (a b : list yout) : bool := (length a =? length b)%nat && forallb (fun o => (county o a =? county o b)%nat) a.

Fixpoint model_go07 (s : gc) (es : list yev) (outs : list (list yout)) (states : list nat) : N :=
  match es, outs, states with
  | e :: er, o :: or, q :: qr =>
    let '(s1, mo) := gcomm_step s e in
    if negb (youts_same mo o) then 12%N
    else if negb (nth (g_cur s1) communication_state_enum 99 =? q)%nat then 13%N
    else model_go07 s1 er or qr
  | [], [], [] => 0%N
  | _, _, _ => 15%N
  end.
Definition model_agree07 (c : c07case) : N := model_go07 gc0 (p_events c) (p_outs c) (p_states c).

Definition y_of_enum (q : nat) : ystate := ystate_of q.      (* the enum values are the state indices *)

Fixpoint spec_go07 (a : e30c) (es : list yev) (outs : list (list yout)) (states : list nat) : N :=
  match es, outs, states with
  | e :: er, o :: or, q :: qr =>
    let alts := e30c_step a e in
    match find (fun alt => ystate_eqb (y_state (fst alt)) (y_of_enum q) && youts_same o (snd alt)) alts with
    | Some alt => spec_go07 (fst alt) er or qr
    | None => if existsb (fun alt => ystate_eqb (y_state (fst alt)) (y_of_enum q)) alts then 31%N
              else match y_of_enum q with YComm => 32%N | _ => match y_state a with YComm => 34%N | _ => 35%N end end
    end
  | [], [], [] => 0%N
  | _, _, _ => 33%N
  end.
Definition spec_holds07 (c : c07case) : N := spec_go07 {| y_state := YDisabled; y_link := false |} (p_events c) (p_outs c) (p_states c).

Definition run_c07 (cs : list c07case) : list (N * N * N) * N * N :=
  let fix go (i : N) (cs : list c07case) (bad : list (N * N * N)) (skipped checked : N) :=
    match cs with
    | [] => (rev bad, skipped, checked)
    | c :: r =>
      let m := model_agree07 c in
      let s := spec_holds07 c in
      go (i + 1)%N r (if (m <=? 1)%N && (s <=? 1)%N then bad else (i, m, s) :: bad)
         (if (m =? 1)%N then (skipped + 1)%N else skipped) (if (s =? 0)%N then (checked + 1)%N else checked)
    end in
  go 0%N cs [] 0%N 0%N.
