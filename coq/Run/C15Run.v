(* Run/C15Run.v — correspondence glue for C15 (SML text of items). *)
From SG Require Import Base.Prelude Base.Kinds Model.Secs2 Model.Secs2Wf Model.Item Model.Sfdl Model.Sml Run.C01Run.
Open Scope N_scope.

Inductive c15case :=
| SItem (v : val) (sml : option text) (back : option val)       (* item -> to_sml -> Item.from_sml *)
| SText (src : text) (mutation : N) (result : option val).      (* arbitrary text; mutation 0 none, 1 closing bracket removed,
                                                                   2 unknown type name, 3 closing bracket replaced by ., 4 text behind a complete item *)

Definition model_agree15 (c : c15case) : N :=
  match c with
  | SItem v sml back =>
    match to_sml 0 v, sml with
    | Err EUnmodelled, _ => 1
    | Err _, None => 0
    | Err _, Some _ => 14
    | Ok _, None => 15
    | Ok t, Some t' =>
      if negb (text_eqb t t') then 16 else
      match from_sml t, back with
      | Err EUnmodelled, _ => 1
      | Err EOutOfFuel, _ => 19
      | Err _, None => 0
      | Err _, Some _ => 17
      | Ok _, None => 18
      | Ok v', Some v'' => if val_eqb v' v'' then 0 else 20
      end
    end
  | SText src _ result =>
    match from_sml src, result with
    | Err EUnmodelled, _ => 1
    | Err EOutOfFuel, _ => 19
    | Err _, None => 0
    | Err _, Some _ => 17
    | Ok _, None => 18
    | Ok v', Some v'' => if val_eqb v' v'' then 0 else 20
    end
  end.

Definition spec_holds15 (c : c15case) : N :=
  match c with
  | SItem v sml back =>
    (* items that cannot be encoded at all (text outside the item's character set) are outside the domain *)
    match item_encode v with Err _ => 1 | Ok _ =>
    match sml with
    | None => 30
    | Some _ => match back with None => 32 | Some v' => if val_eqb v v' then 0 else 34 end
    end end
  | SText _ 0 _ => 1
  | SText _ _ result => match result with Some _ => 35 | None => 0 end
  end.

Definition run_c15 (cs : list c15case) : list (N * N * N) * N * N :=
  let fix go (i : N) (cs : list c15case) (bad : list (N * N * N)) (skipped checked : N) :=
    match cs with
    | [] => (rev bad, skipped, checked)
    | c :: r =>
      let m := model_agree15 c in
      let s := spec_holds15 c in
      go (i + 1) r (if (m <=? 1) && (s <=? 1) then bad else (i, m, s) :: bad)
         (if m =? 1 then skipped + 1 else skipped) (if s =? 0 then checked + 1 else checked)
    end in
  go 0 cs [] 0 0.
