(* Run/C10Run.v — correspondence glue for C10. *)
From SG Require Import Base.Prelude Model.TcpSend Gen.Send.
Open Scope nat_scope.

Record c10case := { o_oracle : list sockresp; o_data : list N; o_taken : list N; o_result : option bool }.

Definition ob_eqb (a b : option bool) : bool := match a, b with Some x, Some y => Bool.eqb x y | None, None => true | _, _ => false end.
Definition model_agree10 (c : c10case) : N :=
  let '(t, res, _) := send_data send_advances (o_oracle c) (o_data c) in
  if negb (list_eqb N.eqb t (o_taken c)) then 12%N else if negb (ob_eqb res (o_result c)) then 13%N else 0%N.

Definition spec_holds10 (c : c10case) : N :=
  match o_result c with
  | Some true => if list_eqb N.eqb (o_taken c) (o_data c) then 0%N else 31%N          (* success: everything, once, in order *)
  | _ => if list_eqb N.eqb (o_taken c) (firstn (length (o_taken c)) (o_data c)) then 0%N else 32%N
  end.

Definition run_c10 (cs : list c10case) : list (N * N * N) * N * N :=
  let fix go (i : N) (cs : list c10case) (bad : list (N * N * N)) (skipped checked : N) :=
    match cs with
    | [] => (rev bad, skipped, checked)
    | c :: r =>
      let m := model_agree10 c in
      let s := spec_holds10 c in
      go (i + 1)%N r (if (m <=? 1)%N && (s <=? 1)%N then bad else (i, m, s) :: bad)
         (if (m =? 1)%N then (skipped + 1)%N else skipped) (if (s =? 0)%N then (checked + 1)%N else checked)
    end in
  go 0%N cs [] 0%N 0%N.
