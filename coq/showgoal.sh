#!/bin/bash
# usage: showgoal.sh File.v LINE  — prints the goal before LINE
f=$1; n=$2
head -n $((n-1)) "$f" > /tmp/_sg.v
echo "Show." >> /tmp/_sg.v
timeout ${3:-120} coqtop -Q /verif/coq SG -batch -l /tmp/_sg.v 2>&1 | tail -${4:-40}
