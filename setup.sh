#!/bin/bash
# MANIFEST.setup_cmd: rebuild everything from files on disk (offline).
set -e
cd "$(dirname "$0")"
export PYTHONHASHSEED=0
mkdir -p build replays evidence
# 1. translators (fail-closed) regenerate coq/Gen/*.v from /repo
for g in harness/gen_*.py; do
  PYTHONPATH=harness:${SECSGEM_REPO:-/repo} /venv/bin/python "$g"
done
# 2. full .vo build
cd coq
coq_makefile -f _CoqProject -o Makefile > /dev/null
timeout 3000 make -j16 > ../build/setup_make.log 2>&1 || { tail -40 ../build/setup_make.log; exit 1; }
cd ..
# 3. stranger's audit: no admitted proofs, no declared axioms, no disabled checks
if grep -rnE '\b(Admitted|admit|Axiom|Parameter|Conjecture|Admit Obligations)\b|Unset Guard|bypass_check|type-in-type|impredicative-set' coq --include='*.v' ; then
  echo "AUDIT FAILED"; exit 1
fi
echo "setup ok"
