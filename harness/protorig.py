"""Protocol rig: a real HsmsProtocol (with its own receiver/dispatcher threads) on top of an
in-memory Connection driven by the harness.  Only public extension points are used to build it
(Settings.create_connection, Connection); quiescence is observed through tracked subclasses of
threading.Event and ByteQueue that replace the protocol's instances before its threads start."""
from __future__ import annotations

import threading
import time

import secsgem.common
import secsgem.hsms
from secsgem.common.byte_queue import ByteQueue


class TrackedEvent(threading.Event):
    def __init__(self):
        super().__init__()
        self.waiting = False

    def wait(self, timeout=None):
        self.waiting = True
        try:
            return super().wait(timeout)
        finally:
            self.waiting = False


class TrackedByteQueue(ByteQueue):
    def __init__(self):
        super().__init__()
        self.blocked = False
        self.need = 0

    def wait_for(self, size=1, peek=False):
        if len(self._buffer) < size:
            self.need = size
            self.blocked = True
        try:
            return super().wait_for(size, peek)
        finally:
            self.blocked = False

    @property
    def parked(self):
        """a thread is inside wait_for and the data it waits for has not arrived"""
        return self.blocked and len(self._buffer) < self.need


class MemConnection(secsgem.common.Connection):
    """The wire: everything the protocol sends is recorded, everything it receives is fed by the harness."""

    def __init__(self, settings):
        super().__init__(settings)
        self.sent = []
        self.enabled = False
        self.send_ok = True

    def enable(self):
        self.enabled = True

    def disable(self):
        self.enabled = False
        if self._connected:
            self.peer_close()

    def send_data(self, data: bytes) -> bool:
        if not self.send_ok:
            return False
        self.sent.append(bytes(data))
        return True

    # ---- harness side ----
    def connect(self):
        """What TcpServerConnection / TcpClientConnection do once the socket is up (exceptions of the handler are logged and ignored there)."""
        self._connected = True
        try:
            self.on_connected({"source": self})
        except Exception:  # noqa: BLE001
            pass

    def feed(self, data: bytes):
        self.on_data({"source": self, "data": bytes(data)})

    def peer_close(self):
        """What TcpConnection's receiver thread does when the socket is closed."""
        self._disconnecting = True
        try:
            self.on_disconnecting({"source": self})
        except Exception:  # noqa: BLE001  (TcpConnection logs and ignores it)
            pass
        try:
            self.on_disconnected({"source": self})
        except Exception:  # noqa: BLE001
            pass
        finally:
            self._connected = False
            self._disconnecting = False


class RigSettings(secsgem.hsms.HsmsSettings):
    def create_connection(self):
        self.rig_connection = MemConnection(self)
        return self.rig_connection


class HsmsRig:
    def __init__(self, active=False, session_id=0, inert=False, proto=None, settings=None, **kw):
        if proto is None:
            mode = secsgem.hsms.HsmsConnectMode.ACTIVE if active else secsgem.hsms.HsmsConnectMode.PASSIVE
            self.settings = RigSettings(connect_mode=mode, device_id=session_id, **kw)
            self.proto = secsgem.hsms.HsmsProtocol(self.settings)
        else:  # a protocol created by a handler from RigSettings
            self.settings = settings
            self.proto = proto
        self.buffer = TrackedByteQueue()
        self.proto._receive_buffer = self.buffer
        disp = self.proto._thread
        self.rtrig = TrackedEvent()
        self.dtrig = TrackedEvent()
        disp._receiver_thread_trigger = self.rtrig
        disp._dispatcher_thread_trigger = self.dtrig
        self.delivered = []
        inner = self.proto._on_connection_message_received

        def recorder(source, message, **kw):   # kw: direct=True when the receiver thread hands a reply over itself (D78)
            self.delivered.append(message)
            if inert:  # framing-only rigs: record, do not run the session logic
                return None
            return inner(source, message, **kw)

        self.proto._on_connection_message_received = recorder
        self.conn = self.proto._connection  # creates the MemConnection and registers the callbacks
        self.app_messages = []
        self.proto.events.message_received += lambda data: self.app_messages.append(data["message"])

    # quiescence: both library threads parked, nothing queued
    def _quiet(self, ignore_send_queue=False):
        disp = self.proto._thread
        rt, dt = disp._receiver_thread, disp._dispatcher_thread
        if rt is None or not rt.is_alive():
            return True
        recv_parked = (self.rtrig.waiting and not self.rtrig.is_set()) or self.buffer.parked
        disp_parked = self.dtrig.waiting and not self.dtrig.is_set() and disp._dispatch_queue.qsize() == 0
        if dt is not None and not dt.is_alive():
            disp_parked = True
        return recv_parked and disp_parked and (ignore_send_queue or self.proto._send_queue.empty())

    def settle(self, timeout=5.0, ignore_send_queue=False):
        deadline = time.monotonic() + timeout
        stable = 0
        while time.monotonic() < deadline:
            if self._quiet(ignore_send_queue):
                stable += 1
                if stable >= 3:
                    return True
            else:
                stable = 0
            time.sleep(0.0003)
        return False

    def connect(self):
        self.conn.connect()
        return self.settle()

    def feed(self, data):
        self.conn.feed(data)
        return self.settle()

    def stop(self):
        """Let the library threads end (daemon threads; best effort)."""
        disp = self.proto._thread
        disp._stop_receiver_thread = True
        disp._stop_dispatcher_thread = True
        self.buffer.append(b"\x00" * 64)  # unblock a parked wait_for
        self.rtrig.set()
        self.dtrig.set()
