"""Shared helpers for the fail-closed Python-ast translators."""
from __future__ import annotations

import ast
import os
import struct

REPO = os.environ.get("SECSGEM_REPO", "/repo")
VERIF = os.path.dirname(os.path.dirname(os.path.abspath(__file__)))
GEN_DIR = os.path.join(VERIF, "coq", "Gen")


class TranslationError(Exception):
    """Source shape not recognised: the tie is broken (fail closed)."""


def parse(relpath: str) -> ast.Module:
    path = os.path.join(REPO, relpath)
    try:
        with open(path, encoding="utf-8") as handle:
            return ast.parse(handle.read(), filename=path)
    except (OSError, SyntaxError) as exc:
        raise TranslationError(f"{relpath}: cannot read/parse: {exc}") from exc


def find_class(mod: ast.Module, name: str, relpath: str = "?") -> ast.ClassDef:
    found = [n for n in mod.body if isinstance(n, ast.ClassDef) and n.name == name]
    if len(found) != 1:
        raise TranslationError(f"{relpath}: expected exactly one class {name}, found {len(found)}")
    return found[0]


def class_assigns(cls: ast.ClassDef) -> dict[str, ast.expr]:
    """Class-level `name = expr` / `name: T = expr` assignments (last one wins, as in Python)."""
    out: dict[str, ast.expr] = {}
    for node in cls.body:
        if isinstance(node, ast.Assign):
            if len(node.targets) != 1 or not isinstance(node.targets[0], ast.Name):
                raise TranslationError(f"class {cls.name}: unsupported assignment target")
            out[node.targets[0].id] = node.value
        elif isinstance(node, ast.AnnAssign) and node.value is not None:
            if not isinstance(node.target, ast.Name):
                raise TranslationError(f"class {cls.name}: unsupported annotated target")
            out[node.target.id] = node.value
    return out


def find_method(cls: ast.ClassDef, name: str) -> ast.FunctionDef:
    found = [n for n in cls.body if isinstance(n, ast.FunctionDef) and n.name == name]
    if len(found) != 1:
        raise TranslationError(f"class {cls.name}: expected exactly one method {name}")
    return found[0]


def lit_number(node: ast.expr, what: str):
    """An int/float literal, possibly negated."""
    neg = False
    if isinstance(node, ast.UnaryOp) and isinstance(node.op, ast.USub):
        neg = True
        node = node.operand
    if isinstance(node, ast.Constant) and type(node.value) in (int, float):
        return -node.value if neg else node.value
    raise TranslationError(f"{what}: numeric literal expected, got {ast.dump(node)[:80]}")


def lit_int(node: ast.expr, what: str) -> int:
    val = lit_number(node, what)
    if type(val) is not int:
        raise TranslationError(f"{what}: int literal expected")
    return val


def lit_str(node: ast.expr, what: str) -> str:
    if isinstance(node, ast.Constant) and isinstance(node.value, str):
        return node.value
    raise TranslationError(f"{what}: string literal expected, got {ast.dump(node)[:80]}")


def name_id(node: ast.expr, what: str) -> str:
    """`X` or `mod.X` -> 'X'."""
    if isinstance(node, ast.Name):
        return node.id
    if isinstance(node, ast.Attribute):
        return node.attr
    raise TranslationError(f"{what}: name expected, got {ast.dump(node)[:80]}")


def name_list(node: ast.expr, what: str) -> list[str]:
    if not isinstance(node, (ast.List, ast.Tuple)):
        raise TranslationError(f"{what}: list expected, got {ast.dump(node)[:80]}")
    return [name_id(e, what) for e in node.elts]


def double_bits(val: float) -> int:
    return int.from_bytes(struct.pack(">d", float(val)), "big")


def coq_z(val: int) -> str:
    return f"({val})%Z"


def coq_str(text: str) -> str:
    if any(ord(c) > 126 or ord(c) < 32 for c in text):
        raise TranslationError(f"non-printable string constant {text!r}")
    return '"' + text.replace('"', '""') + '"%string'


def write_if_changed(path: str, text: str) -> bool:
    try:
        with open(path, encoding="utf-8") as handle:
            if handle.read() == text:
                return False
    except OSError:
        pass
    os.makedirs(os.path.dirname(path), exist_ok=True)
    tmp = path + ".tmp"
    with open(tmp, "w", encoding="utf-8") as handle:
        handle.write(text)
    os.replace(tmp, path)
    return True
