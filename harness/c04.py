"""C04 — HSMS frames are bit-exact and reassembled independently of TCP segmentation."""
from __future__ import annotations

import itertools

import c16
import coqlit as L
import common
import protorig

from secsgem.hsms.header import HsmsHeader, HsmsSType
from secsgem.hsms.message import HsmsBlock, HsmsMessage

STYPES = [0, 1, 2, 3, 4, 5, 6, 7, 9]


def incomplete(buffer):
    """the receive buffer starts with a frame whose length is known but which has not arrived completely"""
    data = bytes(buffer._buffer)
    return len(data) >= 4 and int.from_bytes(data[:4], "big") + 4 > len(data)


def hdr_lit(h):
    return ("{| h_system := %s; h_session := %s; h_stream := %s; h_function := %s; h_w := %s; h_ptype := %s; h_stype := %s |}"
            % (L.z(h["system"]), L.z(h["session"]), L.z(h["stream"]), L.z(h["function"]), L.bool_(h["w"]), L.z(h["ptype"]), L.z(h["stype"])))


def mk_header(h):
    return HsmsHeader(h["system"], h["session"], h["stream"], h["function"], h["w"], h["ptype"], HsmsSType(h["stype"]))


def hdr_of(obj):
    return dict(system=obj.system, session=obj.device_id, stream=obj.stream, function=obj.function, w=bool(obj.require_response),
                ptype=obj.p_type, stype=obj.s_type.value)


def rand_hdr(rnd, valid=True):
    def pick(bits):
        hi = (1 << bits) - 1
        return rnd.choice([0, 1, hi, hi - 1, hi >> 1]) if rnd.random() < 0.3 else rnd.randint(0, hi)

    h = dict(system=pick(32), session=pick(16), stream=pick(7), function=pick(8), w=rnd.random() < 0.5, ptype=pick(8) if rnd.random() < 0.3 else 0,
             stype=rnd.choice(STYPES))
    if not valid:
        key = rnd.choice(["system", "session", "stream", "function", "ptype"])
        bits = {"system": 32, "session": 16, "stream": 7, "function": 8, "ptype": 8}[key]
        h[key] = rnd.choice([1 << bits, -1, (1 << (bits + 1)) - 1, 1 << 40])
    return h


def obs_frame(h, data):
    try:
        enc = HsmsMessage(mk_header(h), data).blocks[0].encode()
    except Exception:  # noqa: BLE001
        return f"(HFrame {hdr_lit(h)} {L.nlist(data)} None None)"
    try:
        blk = HsmsBlock.decode(enc)
        dec = f"(Some ({hdr_lit(hdr_of(blk.header))}, {L.nlist(blk.data)}))"
    except Exception:  # noqa: BLE001
        dec = "None"
    return f"(HFrame {hdr_lit(h)} {L.nlist(data)} (Some {L.nlist(enc)}) {dec})"


_srig = None


def obs_sent(h, data, packet):
    """The bytes handed to Connection.send_data when the message goes through HsmsProtocol.send_message (send queue, packets of
    send_packet_size): judged like a frame - their concatenation must be the E37 frame of the message."""
    global _srig
    if _srig is None:
        _srig = protorig.HsmsRig(active=False, inert=True)
        if not _srig.connect():
            raise RuntimeError("rig did not settle after connect")
    r = _srig
    r.proto.send_packet_size = packet
    del r.conn.sent[:]
    ok = common.with_deadline(lambda: r.proto.send_message(HsmsMessage(mk_header(h), data)), 30.0)
    if not r.settle():
        raise RuntimeError("rig did not settle after send_message")
    enc = b"".join(r.conn.sent)
    if not ok:
        return f"(HFrame {hdr_lit(h)} {L.nlist(data)} None None)", enc
    try:
        blk = HsmsBlock.decode(enc)
        dec = f"(Some ({hdr_lit(hdr_of(blk.header))}, {L.nlist(blk.data)}))"
    except Exception:  # noqa: BLE001
        dec = "None"
    return f"(HFrame {hdr_lit(h)} {L.nlist(data)} (Some {L.nlist(enc)}) {dec})", enc


_rig = None


def rig():
    global _rig
    if _rig is None or incomplete(_rig.buffer) or len(_rig.buffer) > 0:
        if _rig is not None:
            _rig.stop()
        _rig = protorig.HsmsRig(active=False, inert=True)
        if not _rig.connect():
            raise RuntimeError("rig did not settle after connect")
    return _rig


def obs_stream(segs):
    r = rig()
    r.delivered.clear()
    for seg in segs:
        if not r.feed(seg):
            raise RuntimeError("rig did not settle")
    delivered = [(hdr_of(m.header), bytes(m.data)) for m in r.delivered]
    lit = ("(HStream [" + ";".join(L.nlist(s) for s in segs) + "] ["
           + ";".join(f"({hdr_lit(h)}, {L.nlist(d)})" for h, d in delivered) + f"] {len(r.buffer)} {L.bool_(incomplete(r.buffer))})")
    return lit


def obs_stream_early(segs, early):
    """the first `early` segments arrive before the protocol is told that the connection is up (the TCP classes start reading from
    the socket before they fire 'connected'): nothing of them may be lost"""
    r = protorig.HsmsRig(active=False, inert=True)
    try:
        r.conn._connected = True
        for seg in segs[:early]:
            r.conn.feed(seg)
        try:
            r.conn.on_connected({"source": r.conn})
        except Exception:  # noqa: BLE001
            pass
        if not r.settle():
            raise RuntimeError("rig did not settle after connect")
        for seg in segs[early:]:
            if not r.feed(seg):
                raise RuntimeError("rig did not settle")
        delivered = [(hdr_of(m.header), bytes(m.data)) for m in r.delivered]
        lit = ("(HStream [" + ";".join(L.nlist(s) for s in segs) + "] ["
               + ";".join(f"({hdr_lit(h)}, {L.nlist(d)})" for h, d in delivered) + f"] {len(r.buffer)} {L.bool_(incomplete(r.buffer))})")
    finally:
        r.stop()
    return lit


def compositions(n, limit):
    """all ways to cut a stream of n bytes into consecutive segments (up to `limit` of them)"""
    out = []
    for k, mask in enumerate(itertools.product([0, 1], repeat=n - 1)):
        if k >= limit:
            break
        cuts = [i + 1 for i, b in enumerate(mask) if b]
        out.append(cuts)
    return out


def cut(stream, cuts):
    pos = [0, *cuts, len(stream)]
    return [stream[a:b] for a, b in zip(pos, pos[1:]) if b > a]


def frame_bytes(h, data):
    return HsmsMessage(mk_header(h), data).blocks[0].encode()


BIG_SENT = []


def gen_cases(rnd, tier):
    global _srig
    lits = []
    del BIG_SENT[:]
    for _ in range(250 if tier == "quick" else 2500):
        n = rnd.choice([0, 0, 1, 2, 10, 100, 255, 256, 1000])
        lits.append(("frame", obs_frame(rand_hdr(rnd, valid=rnd.random() < 0.85), c16.body_of(n, rnd))))
    for n in ([65535, 65536, 70000] if tier == "quick" else [65535, 65536, 70000, 1 << 20, (1 << 24) + 3]):
        lits.append(("frame", obs_frame(rand_hdr(rnd), c16.body_of(n, rnd))))
    # the same frames as handed to Connection.send_data by HsmsProtocol.send_message: every frame length around one to four packets
    for packet in (1, 5, 7, 16):
        for n in range(0, 4 * packet + 3 if packet > 1 else 4):
            lits.append(("sent", obs_sent(rand_hdr(rnd), c16.body_of(n, rnd), packet)[0]))
    for n in ([3000] if tier == "quick" else [3000, 70000]):
        lits.append(("sent", obs_sent(rand_hdr(rnd), c16.body_of(n, rnd), 1024)[0]))
    # ... and with the shipped packet size: frames of one packet +- 1 byte, two packets + 5 (compared here, byte for byte, with the
    # block encoding that the HFrame cases judge against E37)
    default_packet = type(_srig.proto).send_packet_size
    for flen in ([default_packet + 1] if tier == "quick" else [default_packet - 1, default_packet, default_packet + 1, 2 * default_packet + 5]):
        h, body = rand_hdr(rnd), c16.body_of(max(0, flen - 14), rnd)
        _lit, enc = obs_sent(h, body, default_packet)
        BIG_SENT.append({"frame_length": flen, "packet": default_packet, "identical": enc == HsmsMessage(mk_header(h), body).blocks[0].encode(), "sent_length": len(enc)})
    _srig.stop()
    _srig = None
    # exhaustive cut points of short streams
    for nframes in (1, 2, 3):
        frames = [frame_bytes(rand_hdr(rnd), c16.body_of(rnd.choice([0, 0, 1, 3]), rnd)) for _ in range(nframes)]
        stream = b"".join(frames)
        if len(stream) <= 15:
            for cuts in compositions(len(stream), (1 << 14) if tier == "thorough" else (1 << 9)):
                lits.append(("stream", obs_stream(cut(stream, cuts))))
        else:
            # every single cut position, every pair around header/length boundaries, single bytes, all-in-one
            for c in range(1, len(stream)):
                lits.append(("stream", obs_stream(cut(stream, [c]))))
            lits.append(("stream", obs_stream([stream[i : i + 1] for i in range(len(stream))])))
            lits.append(("stream", obs_stream([stream])))
            # two messages with the same header (system bytes, stream, function, W-bit: a peer that repeats itself, or reuses system bytes)
            # and different bodies: two deliveries, each with its own body
            h_same = rand_hdr(rnd)
            twice = frame_bytes(h_same, c16.body_of(3, rnd)) + b"".join(frames[:1]) + frame_bytes(h_same, c16.body_of(5, rnd))
            lits.append(("stream", obs_stream([twice])))
            lits.append(("stream", obs_stream([twice[i : i + 7] for i in range(0, len(twice), 7)])))
            # a frame that is not an HSMS message in front of / between the frames: a 14-byte frame with an undefined SType, a frame of 4
            # bytes (too short for a header) - the frames behind it are complete messages
            if len(frames) >= 1:
                bad = rnd.choice([bytes([0, 0, 0, 10, 0xFF, 0xFF, 0, 0, 0, 8, 0, 0, 0, 9]), bytes([0, 0, 0, 4, 1, 2, 3, 4]), bytes([0, 0, 0, 10, 0, 0, 1, 1, 0, 200, 0, 0, 0, 7])])
                k = rnd.randrange(len(frames) + 1)
                mixed = b"".join(frames[:k]) + bad + b"".join(frames[k:])
                lits.append(("stream", obs_stream([mixed])))
                lits.append(("stream", obs_stream([mixed[i : i + 3] for i in range(0, len(mixed), 3)])))
            for _ in range(60 if tier == "quick" else 600):
                k = rnd.randint(2, 8)
                cuts = sorted(set(rnd.randint(1, len(stream) - 1) for _ in range(k)))
                lits.append(("stream", obs_stream(cut(stream, cuts))))
    # segments that are already there when the protocol learns that the connection is up
    for _ in range(12 if tier == "quick" else 120):
        frames = [frame_bytes(rand_hdr(rnd), c16.body_of(rnd.choice([0, 3, 20]), rnd)) for _ in range(rnd.randint(1, 3))]
        stream = b"".join(frames)
        k = rnd.randint(1, 4)
        cuts = sorted(set(rnd.randint(1, len(stream) - 1) for _ in range(k)))
        segs = cut(stream, cuts)
        lits.append(("stream", obs_stream_early(segs, rnd.randint(1, len(segs)))))
    # longer bodies, random segmentation, incomplete tails
    for _ in range(60 if tier == "quick" else 600):
        frames = [frame_bytes(rand_hdr(rnd), c16.body_of(rnd.choice([0, 5, 300, 2000, 70000 if rnd.random() < 0.1 else 10]), rnd)) for _ in range(rnd.randint(1, 4))]
        stream = b"".join(frames)
        if rnd.random() < 0.3:
            stream = stream[: rnd.randint(0, len(stream))]  # the peer stopped in the middle
        k = rnd.randint(0, 10)
        cuts = sorted(set(rnd.randint(1, max(1, len(stream) - 1)) for _ in range(k))) if len(stream) > 1 else []
        lits.append(("stream", obs_stream(cut(stream, cuts))))
    global _rig
    if _rig is not None:
        _rig.stop()
        _rig = None
    return lits


HEADER = "From SG Require Import Base.Prelude Base.Kinds Model.Secs2 Model.Frames Model.HsmsRx Run.C16Run Run.C04Run.\nOpen Scope N_scope.\n"


def evaluate(lits, prefix, shard=250):
    shards, maps = [], []
    idx = list(range(len(lits)))
    for s in range(0, len(idx), shard):
        part = idx[s : s + shard]
        maps.append(part)
        shards.append("Definition cs : list c04case := [\n" + ";\n".join(lits[i][1] for i in part) + "\n].\nEval vm_compute in run_c04 cs.\n")
    outs = common.coq_eval_shards(prefix, HEADER, shards)
    bad, skipped, checked, errors = [], 0, 0, []
    for part, (ok, text) in zip(maps, outs):
        parsed = common.parse_triples(text) if ok else None
        if parsed is None:
            errors.append(text[-800:])
            continue
        b, sk, ch = parsed
        skipped += sk
        checked += ch
        bad.extend((part[i], m, s) for i, m, s in b)
    return bad, {"skipped_unmodelled": skipped, "spec_checked": checked, "eval_errors": errors, "observed": len(lits)}


SPEC_CODES = {30: "an in-range message could not be encoded", 31: "frame bytes differ from the SEMI E37 layout", 32: "a valid frame was rejected",
              34: "fields changed in an encode/decode round trip", 35: "the number of delivered messages differs from the frames in the stream (lost, duplicated or merged)",
              36: "a delivered message differs from the frame in the stream", 37: "the receive buffer does not hold exactly the unfinished tail"}
MODEL_CODES = {10: "frame encoding differs from the model", 11: "frame decoding differs from the model", 12: "delivered messages differ from the model",
               13: "buffered byte count differs from the model", 14: "an incomplete frame is pending / not pending, unlike the model"}


def run(tier, replay=None):
    import logging
    logging.disable(logging.CRITICAL)
    report = common.Report("C04", tier)
    if replay:
        import json
        print(json.dumps(json.load(open(replay)), indent=1)[:3000])
        return 0
    proof = common.prove(report, "C04", ["protoconsts", "varconsts", "jis8", "pyhsmshdr", "rxloop", "dispatcher"], extra_targets=["Run/C04Run.vo"])
    ok, log = common.coq_make(["Run/C04Run.vo"])
    if not ok:
        report.violation({"kind": "broken-obligation", "obligation": "model Run/C04Run.vo does not build against the regenerated constants",
                          "detail": log[-1500:], "also": proof.get("broken")}, False, tag="modelbuild")
        return report.finish()
    rnd = common.rng("c04")
    try:
        lits = gen_cases(rnd, tier)
    except RuntimeError as exc:
        # the real receiver did not come to rest: report as a broken tie (hang), not silently
        report.violation({"kind": "broken-obligation", "obligation": f"correspondence C04: the implementation's receive path did not reach quiescence ({exc})"}, False, tag="hang")
        return report.finish()
    for b in BIG_SENT:
        if not b["identical"]:
            report.violation({"kind": "counterexample", "what": "the bytes handed to Connection.send_data by send_message are not the frame of the message (block encoding, judged against E37 by the HFrame cases)", **b}, True, tag="bigsent")
    # "none lost" behind the framing: a frame queued for dispatch exactly when the dispatcher thread found its queue empty (forced through the
    # queue object, the probe of C06) is handed over like any other, not only when later traffic wakes the thread
    def lost_wakeup_probe():
        import c06
        link = c06.Link()
        try:
            link.up()
            return c06.arrival_at_empty_check_case(link)
        finally:
            link.rig.stop()
    twedged = []
    inj = common.guarded(lost_wakeup_probe, "a frame queued at the dispatcher's empty check", twedged, 60.0)
    common.report_wedged(report, twedged, proof)
    report.coverage["frame_queued_at_the_empty_check"] = inj
    if inj and inj["injected"] and inj["delivered_before_the_next_block"] != inj["expected_first"]:
        report.violation({"kind": "counterexample", "what": "a complete frame queued for dispatch at the moment the dispatcher found its queue empty was not delivered until a later frame arrived", **inj,
                          "broken_obligation": proof.get("broken")}, True, tag="lostwakeup")
    bad, stats = evaluate(lits, "c04")
    c16.decide_lits(report, "C04", lits, bad, stats, proof, SPEC_CODES, MODEL_CODES)
    import hashlib
    from collections import Counter
    cov = report.coverage
    cov["evaluations"] = len(lits)
    cov["distinct_nontrivial"] = len({hashlib.sha256(l[1].encode()).hexdigest() for l in lits})
    cov["rule"] = ("HFrame = header fields (in range / boundary / out of range) x body lengths {0,1,2,10,100,255,256,1000,65535,65536,70000"
                   + (",2^20,2^24+3" if tier == "thorough" else "") + "} through HsmsMessage...encode and HsmsBlock.decode; HStream = byte streams of 1-4 frames fed to a "
                   "real HsmsProtocol (own receiver and dispatcher threads, in-memory connection) segment by segment: every composition of streams up to 15 bytes ("
                   + ("2^14" if tier == "thorough" else "2^9") + " cap), every single cut position, single-byte feeding, all-in-one, random cuts, streams that stop inside a frame; "
                   "observed after quiescence: delivered messages, buffered bytes, receiver parked; sent = the bytes handed to Connection.send_data by HsmsProtocol.send_message "
                   "(send queue cut into packets of send_packet_size 1, 5, 7, 16, 1024: every body length up to four packets; judged as frames) and, with the shipped packet size, frames of "
                   "one packet +- 1 byte compared with the block encoding; distinct = distinct literal")
    cov["sent_with_shipped_packet_size"] = list(BIG_SENT)
    cov["correspondence"] = {k: v for k, v in stats.items() if k != "eval_errors"}
    cov["distribution"] = dict(Counter(k for k, _ in lits))
    cov["samples"] = [l[1][:300] for l in lits[:: max(1, len(lits) // 6)][:6]]
    return report.finish()
